---------------------------- MODULE JsScopes_Gen ----------------------------
(* Model-checking root and program generator for binding F/R: Emit prints     *)
(* every complete well-formed program the generator reaches (exhaustive BFS - *)
(* the program is the state - or -simulate for larger programs) together with *)
(* its token texts and what it must print when run (Expect).                  *)
EXTENDS JsScopes, Json

(* --------------------------------------------------------------- generator *)
CONSTANTS Names,      \* sequence of names of the pool, e.g. <<"a","b">>
          DeclF,      \* subset of {"var","let","const"}
          DstrF,      \* subset of {"obj","objdef","objkey","arr"}
          RefF,       \* subset of the ref forms (inside a function, block, catch or for)
          TopRefF,    \* subset of the ref forms (at file scope)
          TopDecl,    \* TRUE: decl / dstr items are generated at file scope too
          FnF,        \* subset of {"decl","iife","arrow"}
          Defaults,   \* TRUE: parameters may have a default naming another pool name
          NoParam,    \* TRUE: functions without parameter are generated too
          Others,     \* subset of {"blk","catch","for"}
          MaxItems, MaxDepth,
          Impl        \* which model of the renamer the invariant judges

VARIABLES p, st
vars == <<p, st>>

NameSet == {Names[x] : x \in 1..Len(Names)}

Candidates ==
     (IF st # <<>> \/ TopDecl THEN {Item("decl", f, n, "-", "-") : f \in DeclF, n \in NameSet}
                                   \cup {Item("dstr", f, n, "-", "-") : f \in DstrF, n \in NameSet}
      ELSE {})
  \cup {Item("ref", f, n, "-", "-") : f \in (IF st = <<>> THEN TopRefF ELSE RefF), n \in NameSet}
  \cup {Item("fn", f, n, "-", IF f = "decl" THEN g ELSE "-") : f \in FnF, n \in NameSet, g \in NameSet \cup {"f"}}
  \cup (IF NoParam THEN {Item("fn", f, "-", "-", IF f = "decl" THEN g ELSE "-") : f \in FnF, g \in NameSet \cup {"f"}} ELSE {})
  \cup (IF Defaults THEN {Item("fn", f, n, d, IF f = "decl" THEN "f" ELSE "-") : f \in FnF, n \in NameSet, d \in NameSet} ELSE {})
  \cup {Item(k, "-", "-", "-", "-") : k \in Others \cap {"blk"}}
  \cup {Item(k, "-", n, "-", "-") : k \in Others \cap {"catch", "for"}, n \in NameSet}

TopKind == IF st = <<>> THEN "file" ELSE p[st[Len(st)]].k

Init == p = <<>> /\ st = <<>>
Add == \E it \in Candidates :
         /\ (it.k = "fn" /\ it.d # "-") => it.d # it.n
         /\ (it.k = "fn" /\ it.f = "decl") => TopKind \in {"file", "fn"}
         /\ IF IsOpen(it) THEN Len(p) + Len(st) + 2 <= MaxItems /\ Len(st) < MaxDepth
                          ELSE Len(p) + Len(st) + 1 <= MaxItems
         /\ p' = Append(p, it)
         /\ st' = IF IsOpen(it) THEN Append(st, Len(p) + 1) ELSE st
         /\ NoRedecl(p')
Close == /\ st # <<>>
         /\ p' = Append(p, Item("close", "-", "-", "-", "-"))
         /\ st' = SubSeq(st, 1, Len(st) - 1)
Next == Add \/ Close
Spec == Init /\ [][Next]_vars

Complete == st = <<>> /\ Len(p) >= 1 /\ WFProg(p)

(* the property, on the model of the renamer *)
ModelKeeps == Complete => /\ Judge(p, ModelOut(p, Impl), TRUE) = {}
                          /\ Judge(p, PlainOut(p), FALSE) = {}

NamesA == <<"a">>
NamesAB == <<"a", "b">>
NamesABC == <<"a", "b", "c">>

Emit == ~Complete \/ PrintT(ToJson([p |-> p, toks |-> Texts(Toks(p, Analyse(p))), exp |-> Expect(p, Names)]))

(* negative controls: the renamer as it is must break these clauses *)
AsisKeys == IF Complete THEN Judge(p, ModelOut(p, "asis"), TRUE) ELSE {}
Has(pref) == \E k \in AsisKeys : Len(k) >= Len(pref) /\ SubSeq(k, 1, Len(pref)) = pref
NoGlobalRenamed   == ~Has("short/global-renamed/")
NoStaleReference  == ~Has("short/reference-not-renamed-with-its-declaration/")
NoPropertyRenamed == ~Has("short/property-renamed/")
NoFileScopeRenamed == ~Has("short/file-scope-name-renamed/")
=============================================================================

---------------------------- MODULE JsScopes_Gen ----------------------------
(* Model-checking root and program generator for binding F/R: Emit prints     *)
(* every complete well-formed program the generator reaches (exhaustive BFS - *)
(* the program is the state - or -simulate for larger programs) together with *)
(* its token texts and what it must print when run (Expect).                  *)
EXTENDS JsScopes, Json

NamesA == <<"a">>
NamesAB == <<"a", "b">>
NamesABC == <<"a", "b", "c">>

Emit == ~Complete \/ PrintT(ToJson([p |-> p, toks |-> Texts(Toks(p, Analyse(p))), exp |-> Expect(p, Names)]))

(* negative controls: the renamer as it is must break these clauses *)
AsisKeys == IF Complete THEN Judge(p, ModelOut(p, "asis"), TRUE) ELSE {}
Has(pref) == \E k \in AsisKeys : Len(k) >= Len(pref) /\ SubSeq(k, 1, Len(pref)) = pref
NoGlobalRenamed   == ~Has("short/global-renamed/")
NoStaleReference  == ~Has("short/reference-not-renamed-with-its-declaration/")
NoPropertyRenamed == ~Has("short/property-renamed/")
NoFileScopeRenamed == ~Has("short/file-scope-name-renamed/")
=============================================================================

------------------------------ MODULE JsScopes ------------------------------
(* C33 - minified dashboard JavaScript behaves like the original: binding     *)
(* structure and token integrity.                                             *)
(*                                                                            *)
(* A program is a sequence of ITEMS (statements and scope openers/closers):   *)
(*   decl  var|let|const n = 'v<i>';                                          *)
(*   dstr  let {n} = ..;  let {n = 'v'} = {};  let {k: n} = ..;  let [n] = ..; *)
(*   ref   a statement that observes the name n: out(n); out(`t${n}`);        *)
(*         out({n}.n); n = 'v'; out(o.n); out(o?.n); out({n: 'v'}.n);         *)
(*         method / getter / class-method named n; /n/ ; 'n'                  *)
(*   fn    function g(n = d) { .. } g('v');  (function(n){..})('v');          *)
(*         ((n) => {..})('v');         blk  { .. }                            *)
(*   catch try { throw 'v'; } catch (n) { .. }     for  for (const [n] of ..) *)
(*   close the matching '}' (and, for fn, the call)                           *)
(* Toks(p) is the JavaScript token sequence of the program, every identifier  *)
(* occurrence carrying its ROLE: declaration of a binding (home scope, name), *)
(* evaluated reference (resolved from a scope), property name, shorthand      *)
(* property (key + reference / key + declaration).  JavaScript's scoping is    *)
(* spelled out: var is hoisted to the enclosing function (or the file),       *)
(* let/const/class-free blocks, parameters, catch and for bindings; a         *)
(* parameter default is evaluated outside the function body's declarations.   *)
(*                                                                            *)
(* Judge(p, out, short) is the CONTRACT for the token sequence `out` of the   *)
(* minified text: same token skeleton (a shorthand {n} may become {n: m});    *)
(* property names, file-scope names and globals keep their spelling; every    *)
(* reference resolves to the declaration it resolved to before (renaming is   *)
(* consistent per binding and capture-free); without shortenNames nothing is  *)
(* renamed at all.  It returns the set of abstract identities of the clauses  *)
(* that fail.  Expect(p) is what the program prints when run (each binding    *)
(* has its own value; temporal dead zone and assignment to const modelled).   *)
(*                                                                            *)
(* ModelOut(p, impl) transcribes, on tokens, what internal/util/javascript    *)
(* renameLocals does ("asis": rename map keyed by NAME, locals = declarations *)
(* inside braces + everything between a function's parentheses, minus the     *)
(* names declared outside every brace) and what a renamer working on bindings *)
(* does ("scoped"), and the name-keyed discipline of the proposed repairs      *)
(* ("careful").  JavaScript evaluation beyond name binding is not modelled.   *)
EXTENDS Integers, Sequences, SequencesExt, FiniteSets, TLC

Idx(s) == [i \in 1..Len(s) |-> i]

Item(k, f, n, d, g) == [k |-> k, f |-> f, n |-> n, d |-> d, g |-> g]
IsOpen(it) == it.k \in {"fn", "blk", "catch", "for"}

(* the property key used by `let {k: n} = ..` : another name of the same pool *)
KeyOf(n) == CASE n = "a" -> "b" [] n = "b" -> "c" [] n = "c" -> "a" [] OTHER -> "a"

FixedGlobals == {"out", "o"}
Keywords == {"var", "let", "const", "function", "return", "class", "new", "get", "try", "throw", "catch",
             "for", "of", "if", "in", "do", "this", "typeof", "void", "null", "true", "false", "with"}

(* ------------------------------------------------------------------ scopes *)
(* scope ids: 0 = the file, i = the opener item at index i                    *)
Analyse(p) ==
  LET step(acc, i) ==
        LET it  == p[i]
            top == IF acc.st = <<>> THEN 0 ELSE acc.st[Len(acc.st)]
        IN IF it.k = "close"
           THEN [st  |-> IF acc.st = <<>> THEN <<>> ELSE SubSeq(acc.st, 1, Len(acc.st) - 1),
                 par |-> Append(acc.par, IF Len(acc.st) >= 2 THEN acc.st[Len(acc.st) - 1] ELSE 0),
                 op  |-> Append(acc.op, top)]
           ELSE [st  |-> IF IsOpen(it) THEN Append(acc.st, i) ELSE acc.st,
                 par |-> Append(acc.par, top),
                 op  |-> Append(acc.op, 0)]
  IN FoldLeft(step, [st |-> <<>>, par |-> <<>>, op |-> <<>>], Idx(p))

SKind(p, s) == IF s = 0 THEN "file" ELSE p[s].k

RECURSIVE Chain(_, _)
Chain(an, s) == IF s = 0 THEN <<0>> ELSE <<s>> \o Chain(an, an.par[s])
Depth(an, s) == Len(Chain(an, s)) - 1

RECURSIVE FnOf(_, _, _)
FnOf(p, an, s) == IF s = 0 \/ p[s].k = "fn" THEN s ELSE FnOf(p, an, an.par[s])

ItemBinds(p, an, i) ==
  LET it == p[i]
      s  == an.par[i]
  IN CASE it.k = "decl"  -> {[home |-> IF it.f = "var" THEN FnOf(p, an, s) ELSE s, n |-> it.n, kind |-> it.f, at |-> i]}
       [] it.k = "dstr"  -> {[home |-> s, n |-> it.n, kind |-> "let", at |-> i]}
       [] it.k = "fn"    -> (IF it.n # "-" THEN {[home |-> i, n |-> it.n, kind |-> "param", at |-> i]} ELSE {})
                            \cup (IF it.f = "decl" THEN {[home |-> s, n |-> it.g, kind |-> "fn", at |-> i]} ELSE {})
       [] it.k = "catch" -> {[home |-> i, n |-> it.n, kind |-> "catch", at |-> i]}
       [] it.k = "for"   -> {[home |-> i, n |-> it.n, kind |-> "const", at |-> i]}
       [] OTHER          -> {}
Binds(p, an) == UNION {ItemBinds(p, an, i) : i \in 1..Len(p)}
BKeys(bs) == {<<b.home, b.n>> : b \in bs}
KindsOf(bs, key) == {b.kind : b \in {c \in bs : <<c.home, c.n>> = key}}

(* the binding a name denotes when looked up from scope s; <<-1, n>> = global *)
RECURSIVE Resolve(_, _, _, _)
Resolve(an, keys, s, n) == IF <<s, n>> \in keys THEN <<s, n>>
                           ELSE IF s = 0 THEN <<-1, n>>
                           ELSE Resolve(an, keys, an.par[s], n)

(* early errors of JavaScript the generator must stay clear of *)
NoRedecl(p) ==
  LET an == Analyse(p)
      bs == Binds(p, an)
  IN /\ \A key \in BKeys(bs) :
          LET same == {b \in bs : <<b.home, b.n>> = key}
              ks   == {b.kind : b \in same}
          IN ks \subseteq {"var", "param"} \/ Cardinality(same) = 1
     /\ \A b \in bs : b.kind = "var" =>
          LET ch == Chain(an, an.par[b.at])
          IN \A x \in 1..Len(ch) :
               (ch[x] # b.home /\ \A y \in 1..x : ch[y] # b.home) => <<ch[x], b.n>> \notin BKeys(bs)

V(i) == "'v" \o ToString(i) \o "'"
Val(i) == "v" \o ToString(i)

(* ------------------------------------------------------------------ tokens *)
(* r: x verbatim | d declaration | r evaluated reference | p property name |   *)
(*    s shorthand property {n} (key + reference) | sd shorthand in a pattern   *)
(*    (key + declaration) | sdd the same with a default value                  *)
(* sc: scope the reference is resolved from / home scope of the declaration    *)
(* w : how the occurrence sits in the text (what the token-level renamer sees) *)
T(t, r, n, sc, i, w, fm) == [t |-> t, r |-> r, n |-> n, sc |-> sc, i |-> i, w |-> w, fm |-> fm]

ItemToks(p, an, i) ==
  LET it  == p[i]
      s   == an.par[i]
      fm  == it.k \o "." \o it.f
      X(t, c)     == T(t, "x", "", 0, i, c, fm)
      K(t)        == X(t, "kw")
      P(t)        == X(t, "punct")
      D(n, h, w)  == T(n, "d", n, h, i, w, fm \o ":" \o w \o "@" \o SKind(p, s))
      R(n, sc, w) == T(n, "r", n, sc, i, w, fm \o ":" \o w)
      PR(n, w)    == T(n, "p", n, 0, i, w, fm \o ":" \o w)
      OUT         == <<R("out", s, "code"), P("(")>>
      END         == <<P(")"), P(";")>>
      home        == IF it.k = "decl" /\ it.f = "var" THEN FnOf(p, an, s) ELSE s
      n           == it.n
  IN CASE it.k = "decl" -> <<K(it.f), D(n, home, "name"), P("="), X(V(i), "str"), P(";")>>
       [] it.k = "dstr" /\ it.f = "obj" ->
            <<K("let"), P("{"), T(n, "sd", n, s, i, "short", fm \o ":short@" \o SKind(p, s)), P("}"), P("="),
              P("{"), PR(n, "key"), P(":"), X(V(i), "str"), P("}"), P(";")>>
       [] it.k = "dstr" /\ it.f = "objdef" ->
            <<K("let"), P("{"), T(n, "sdd", n, s, i, "shortdef", fm \o ":short@" \o SKind(p, s)), P("="), X(V(i), "str"),
              P("}"), P("="), P("{"), P("}"), P(";")>>
       [] it.k = "dstr" /\ it.f = "objkey" ->
            <<K("let"), P("{"), PR(KeyOf(n), "key"), P(":"), D(n, s, "name"), P("}"), P("="),
              P("{"), PR(KeyOf(n), "key"), P(":"), X(V(i), "str"), P("}"), P(";")>>
       [] it.k = "dstr" /\ it.f = "arr" ->
            <<K("let"), P("["), D(n, s, "name"), P("]"), P("="), P("["), X(V(i), "str"), P("]"), P(";")>>
       [] it.k = "ref" /\ it.f = "plain"  -> OUT \o <<R(n, s, "code")>> \o END
       [] it.k = "ref" /\ it.f = "tmpl"   -> OUT \o <<X("`t${", "tmpl"), R(n, s, "tmpl"), X("}`", "tmpl")>> \o END
       [] it.k = "ref" /\ it.f = "ntmpl"  -> OUT \o <<X("`t${", "tmpl"), X("`u  ${", "tmpl-nested"), R(n, s, "code"),
                                                     X("}`", "tmpl"), X("}`", "tmpl")>> \o END
       [] it.k = "ref" /\ it.f = "short"  -> OUT \o <<P("{"), T(n, "s", n, s, i, "short", fm \o ":short"), P("}"), P("."), PR(n, "dot")>> \o END
       [] it.k = "ref" /\ it.f = "set"    -> <<R(n, s, "code"), P("="), X(V(i), "str"), P(";")>>
       [] it.k = "ref" /\ it.f = "dot"    -> OUT \o <<R("o", s, "code"), P("."), PR(n, "dot")>> \o END
       [] it.k = "ref" /\ it.f = "optdot" -> OUT \o <<R("o", s, "code"), P("?."), PR(n, "dot")>> \o END
       [] it.k = "ref" /\ it.f = "key"    -> OUT \o <<P("{"), PR(n, "key"), P(":"), X(V(i), "str"), P("}"), P("."), PR(n, "dot")>> \o END
       [] it.k = "ref" /\ it.f = "method" -> OUT \o <<P("{"), PR(n, "bare"), P("("), P(")"), P("{"), K("return"), X(V(i), "str"), P(";"),
                                                     P("}"), P("}"), P("."), PR(n, "dot"), P("("), P(")")>> \o END
       [] it.k = "ref" /\ it.f = "getter" -> OUT \o <<P("{"), K("get"), PR(n, "bare"), P("("), P(")"), P("{"), K("return"), X(V(i), "str"), P(";"),
                                                     P("}"), P("}"), P("."), PR(n, "dot")>> \o END
       [] it.k = "ref" /\ it.f = "cls"    -> OUT \o <<K("new"), P("("), K("class"), P("{"), PR(n, "bare"), P("("), P(")"), P("{"), K("return"),
                                                     X(V(i), "str"), P(";"), P("}"), P("}"), P(")"), P("("), P(")"), P("."), PR(n, "dot"),
                                                     P("("), P(")")>> \o END
       [] it.k = "ref" /\ it.f = "regex"  -> OUT \o <<X("/" \o n \o "/", "regex"), P("."), PR("test", "dot"), P("("),
                                                     X("'" \o n \o "'", "str"), P(")")>> \o END
       [] it.k = "ref" /\ it.f = "str"    -> OUT \o <<X("'" \o n \o "'", "str")>> \o END
       [] it.k = "fn" ->
            LET params == IF n = "-" THEN <<>>
                          ELSE <<D(n, i, "param")>> \o (IF it.d = "-" THEN <<>> ELSE <<P("="), R(it.d, s, "default")>>)
            IN (CASE it.f = "decl"  -> <<K("function"), D(it.g, s, "fname"), P("(")>> \o params \o <<P(")"), P("{")>>
                  [] it.f = "iife"  -> <<P("("), K("function"), P("(")>> \o params \o <<P(")"), P("{")>>
                  [] it.f = "arrow" -> <<P("("), P("(")>> \o params \o <<P(")"), P("=>"), P("{")>>)
       [] it.k = "blk"   -> <<P("{")>>
       [] it.k = "catch" -> <<K("try"), P("{"), K("throw"), X(V(i), "str"), P(";"), P("}"), K("catch"), P("("), D(n, i, "param"), P(")"), P("{")>>
       [] it.k = "for"   -> <<K("for"), P("("), K("const"), P("["), D(n, i, "name"), P("]"), K("of"), P("["), P("["), X(V(i), "str"),
                              P("]"), P("]"), P(")"), P("{")>>
       [] it.k = "close" ->
            LET o   == an.op[i]
                ot  == p[o]
                ofm == ot.k \o "." \o ot.f
                args == IF ot.k = "fn" /\ ot.n # "-" /\ ot.d = "-" THEN <<T(V(o), "x", "", 0, i, "str", ofm)>> ELSE <<>>
                PP(t) == T(t, "x", "", 0, i, "punct", ofm)
            IN IF ot.k # "fn" THEN <<PP("}")>>
               ELSE IF ot.f = "decl"
                    THEN <<PP("}"), T(ot.g, "r", ot.g, an.par[o], i, "call", ofm \o ":call"), PP("(")>> \o args \o <<PP(")"), PP(";")>>
                    ELSE <<PP("}"), PP(")"), PP("(")>> \o args \o <<PP(")"), PP(";")>>

Toks(p, an) == FoldLeft(LAMBDA acc, i : acc \o ItemToks(p, an, i), <<>>, Idx(p))
Texts(toks) == [x \in 1..Len(toks) |-> toks[x].t]

(* references that are EVALUATED (not the call of a declared function) *)
EvalRefs(toks) == {x \in 1..Len(toks) : toks[x].r \in {"r", "s"} /\ toks[x].w # "call"}

(* programs whose printed values would be function source text are left out *)
WFProg(p) ==
  LET an   == Analyse(p)
      bs   == Binds(p, an)
      keys == BKeys(bs)
      toks == Toks(p, an)
  IN /\ an.st = <<>>
     /\ Len(p) >= 1
     /\ \A x \in EvalRefs(toks) : "fn" \notin KindsOf(bs, Resolve(an, keys, toks[x].sc, toks[x].n))

(* --------------------------------------------------------------- semantics *)
(* what the program prints through out(), then "--", then what a later script *)
(* sees under each name of the pool (inline handlers, other files)            *)
Expect(p, NameSeq) ==
  LET an   == Analyse(p)
      bs   == Binds(p, an)
      keys == BKeys(bs)
      glob == {<<-1, NameSeq[x]>> : x \in 1..Len(NameSeq)}
      init(key) == IF key[1] = -1 THEN "G" \o key[2]
                   ELSE LET ks == KindsOf(bs, key)
                        IN IF ks \cap {"let", "const", "param", "catch"} # {} THEN "TDZ"
                           ELSE IF "fn" \in ks THEN "fn"
                           ELSE IF key[1] = 0 THEN "G" \o key[2]   \* a file-scope var finds the global property already there
                           ELSE "undefined"
      step(acc, i) ==
        IF acc.err # "" THEN acc
        ELSE LET it == p[i]
                 s  == an.par[i]
                 rd(sc, n) == acc.val[Resolve(an, keys, sc, n)]
                 say(v) == IF v = "TDZ" THEN [acc EXCEPT !.err = "ReferenceError"] ELSE [acc EXCEPT !.out = Append(@, v)]
                 bind(key, v) == IF v = "TDZ" THEN [acc EXCEPT !.err = "ReferenceError"] ELSE [acc EXCEPT !.val[key] = v]
             IN CASE it.k = "decl" -> bind(<<IF it.f = "var" THEN FnOf(p, an, s) ELSE s, it.n>>, Val(i))
                  [] it.k = "dstr" -> bind(<<s, it.n>>, Val(i))
                  [] it.k = "ref" /\ it.f \in {"plain", "short"} -> say(rd(s, it.n))
                  [] it.k = "ref" /\ it.f = "tmpl"  -> IF rd(s, it.n) = "TDZ" THEN say("TDZ") ELSE say("t" \o rd(s, it.n))
                  [] it.k = "ref" /\ it.f = "ntmpl" -> IF rd(s, it.n) = "TDZ" THEN say("TDZ") ELSE say("tu  " \o rd(s, it.n))
                  [] it.k = "ref" /\ it.f = "set" ->
                       LET key == Resolve(an, keys, s, it.n)
                       IN IF acc.val[key] = "TDZ" THEN [acc EXCEPT !.err = "ReferenceError"]
                          ELSE IF key[1] # -1 /\ "const" \in KindsOf(bs, key) THEN [acc EXCEPT !.err = "TypeError"]
                          ELSE bind(key, Val(i))
                  [] it.k = "ref" /\ it.f \in {"dot", "optdot"} -> say("P" \o it.n)
                  [] it.k = "ref" /\ it.f \in {"key", "method", "getter", "cls"} -> say(Val(i))
                  [] it.k = "ref" /\ it.f = "regex" -> say("true")
                  [] it.k = "ref" /\ it.f = "str" -> say(it.n)
                  [] it.k = "fn" -> IF it.n = "-" THEN acc
                                    ELSE IF it.d = "-" THEN bind(<<i, it.n>>, Val(i))
                                    ELSE bind(<<i, it.n>>, rd(s, it.d))
                  [] it.k \in {"catch", "for"} -> bind(<<i, it.n>>, Val(i))
                  [] OTHER -> acc
      fin == FoldLeft(step, [val |-> [key \in keys \cup glob |-> init(key)], out |-> <<>>, err |-> ""], Idx(p))
      seen(n) == IF <<0, n>> \in keys
                 THEN (IF fin.val[<<0, n>>] = "TDZ" THEN "E" ELSE fin.val[<<0, n>>])
                 ELSE fin.val[<<-1, n>>]
  IN fin.out \o (IF fin.err = "" THEN <<>> ELSE <<fin.err>>) \o <<"--">> \o [x \in 1..Len(NameSeq) |-> seen(NameSeq[x])]

(* ---------------------------------------------------------------- contract *)
(* out: sequence of [k |-> "id"|"punct"|"str"|"tmpl"|"regex"|"num", t |-> text] *)
Align(toks, out) ==
  LET step(acc, tk) ==
        IF ~acc.ok THEN acc
        ELSE IF acc.j > Len(out) THEN [acc EXCEPT !.ok = FALSE, !.why = "output-ends-early/" \o tk.w]
        ELSE LET o == out[acc.j]
                 adv(k, name, key) == [acc EXCEPT !.j = @ + k, !.on = Append(@, name), !.kn = Append(@, key)]
                 fail == [acc EXCEPT !.ok = FALSE, !.why = (IF tk.r = "x" THEN tk.w ELSE "identifier") \o "/" \o tk.fm]
             IN IF tk.r = "x" THEN (IF o.t = tk.t THEN adv(1, "", "") ELSE fail)
                ELSE IF o.k # "id" THEN fail
                ELSE IF tk.r \in {"s", "sd", "sdd"} /\ acc.j + 2 <= Len(out) /\ out[acc.j + 1].t = ":" /\ out[acc.j + 2].k = "id"
                     THEN adv(3, out[acc.j + 2].t, o.t)
                     ELSE adv(1, o.t, o.t)
      a == FoldLeft(step, [j |-> 1, ok |-> TRUE, on |-> <<>>, kn |-> <<>>, why |-> ""], toks)
  IN IF a.ok /\ a.j # Len(out) + 1 THEN [a EXCEPT !.ok = FALSE, !.why = "trailing-output"] ELSE a

Judge(p, out, short) ==
  LET an   == Analyse(p)
      bs   == Binds(p, an)
      keys == BKeys(bs)
      toks == Toks(p, an)
      al   == Align(toks, out)
      TI   == 1..Len(toks)
      on   == al.on
      kn   == al.kn
      DT   == {x \in TI : toks[x].r \in {"d", "sd", "sdd"}}
      okeys == {<<toks[x].sc, on[x]>> : x \in DT}
      OutOf(key) == {on[x] : x \in {y \in DT : <<toks[y].sc, toks[y].n>> = key}}
      locals == {key[2] : key \in {k \in keys : k[1] # 0}}
      Ref(x) == LET tk   == toks[x]
                    rin  == Resolve(an, keys, tk.sc, tk.n)
                    rout == Resolve(an, okeys, tk.sc, on[x])
                IN IF rin[1] = -1
                   THEN IF on[x] # tk.n
                        THEN {"global-renamed/" \o tk.fm \o (IF tk.n \in locals THEN "/local-of-that-name-elsewhere" ELSE "/no-such-local")}
                        ELSE IF rout[1] # -1 THEN {"global-captured/" \o tk.fm} ELSE {}
                   ELSE IF rout[1] = rin[1] /\ on[x] \in OutOf(rin) THEN {}
                        ELSE IF on[x] = tk.n THEN {"reference-not-renamed-with-its-declaration/" \o tk.fm}
                        ELSE {"reference-bound-elsewhere/" \o tk.fm}
      perTok(x) ==
        LET tk == toks[x]
        IN (IF tk.r = "p" /\ on[x] # tk.n THEN {"property-renamed/" \o tk.fm} ELSE {})
           \cup (IF tk.r \in {"s", "sd", "sdd"} /\ kn[x] # tk.n THEN {"property-renamed/" \o tk.fm} ELSE {})
           \cup (IF x \in DT /\ tk.sc = 0 /\ on[x] # tk.n THEN {"file-scope-name-renamed/" \o tk.fm} ELSE {})
           \cup (IF tk.r \in {"r", "s"} THEN Ref(x) ELSE {})
           \cup (IF tk.r # "x" /\ on[x] \in Keywords THEN {"renamed-to-keyword/" \o tk.fm} ELSE {})
           \cup (IF ~short /\ tk.r # "x" /\ (on[x] # tk.n \/ kn[x] # tk.n) THEN {"renamed-without-shortenNames/" \o tk.fm} ELSE {})
      perKey == UNION {IF Cardinality(OutOf(key)) # 1 THEN {"declarations-of-one-binding-differ"} ELSE {} : key \in keys}
                \cup UNION {IF k1 # k2 /\ k1[1] = k2[1] /\ OutOf(k1) \cap OutOf(k2) # {} THEN {"two-bindings-merged"} ELSE {}
                            : <<k1, k2>> \in keys \X keys}
      cls == IF ~al.ok THEN {"token-skeleton/" \o al.why}
             ELSE UNION {perTok(x) : x \in TI} \cup perKey
      mode == IF short THEN "short/" ELSE "plain/"
  IN {mode \o c : c \in cls}

(* ------------------------------------------------------- model of the code *)
Fresh(n) == "q" \o n
O(k, t) == [k |-> k, t |-> t]
OutKind(tk) == IF tk.r # "x" \/ tk.w = "kw" THEN "id"
               ELSE IF tk.w = "tmpl-nested" THEN "tmpl" ELSE tk.w

(* what collectLocals gathers, on items *)
AsisLocals(p, an) ==
  LET ids == 1..Len(p)
      atDepth0(i) == Depth(an, an.par[i]) = 0
      declNames(i) == LET it == p[i]
                      IN CASE it.k = "decl" -> {it.n}
                           [] it.k = "dstr" -> IF it.f = "objkey" THEN {it.n, KeyOf(it.n)} ELSE {it.n}
                           [] it.k = "for"  -> {it.n}
                           [] OTHER -> {}
      fileScope == UNION {declNames(i) : i \in {j \in ids : atDepth0(j)}}
                   \cup {p[i].g : i \in {j \in ids : p[j].k = "fn" /\ p[j].f = "decl" /\ atDepth0(j)}}
      inner     == UNION {declNames(i) : i \in {j \in ids : ~atDepth0(j)}}
      params    == UNION {{p[i].n, p[i].d} \ {"-"} : i \in {j \in ids : p[j].k = "fn" /\ p[j].f \in {"decl", "iife"}}}
  IN (inner \cup params) \ fileScope

(* the discipline the proposed repairs implement, still keyed by name: a name  *)
(* is renamed only if it is declared inside braces or as a parameter, every    *)
(* occurrence of it that is declared or evaluated denotes a binding that is    *)
(* not at file scope, and it is neither mentioned in a template substitution   *)
(* nor the name of a method                                                    *)
CarefulLocals(p, an, toks, keys) ==
  LET ids == 1..Len(p)
      atDepth0(i) == Depth(an, an.par[i]) = 0
      cand == {p[i].n : i \in {j \in ids : p[j].k \in {"decl", "dstr", "for"} /\ ~atDepth0(j)}}
              \cup ({p[i].n : i \in {j \in ids : p[j].k = "fn" /\ p[j].f \in {"decl", "iife"}}} \ {"-"})
      TI == 1..Len(toks)
      local(x) == LET tk == toks[x]
                      key == IF tk.r \in {"d", "sd", "sdd"} THEN <<tk.sc, tk.n>> ELSE Resolve(an, keys, tk.sc, tk.n)
                  IN key[1] > 0 /\ ~(tk.r = "r" /\ tk.w = "tmpl")
  IN {n \in cand : /\ \A x \in TI : (toks[x].r \in {"d", "r", "s", "sd", "sdd"} /\ toks[x].n = n) => local(x)
                   /\ \A x \in TI : (toks[x].r = "p" /\ toks[x].w = "bare") => toks[x].n # n}

ModelOut(p, impl) ==
  LET an   == Analyse(p)
      bs   == Binds(p, an)
      keys == BKeys(bs)
      toks == Toks(p, an)
      loc  == IF impl = "asis" THEN AsisLocals(p, an) ELSE CarefulLocals(p, an, toks, keys)
      one(tk) ==
        IF impl = "scoped"
        THEN LET key == IF tk.r \in {"d", "sd", "sdd"} THEN <<tk.sc, tk.n>> ELSE Resolve(an, keys, tk.sc, tk.n)
                 nn  == IF key[1] <= 0 THEN tk.n ELSE "q" \o ToString(key[1]) \o tk.n
             IN CASE tk.r = "x" -> <<O(OutKind(tk), tk.t)>>
                  [] tk.r = "p" -> <<O("id", tk.t)>>
                  [] tk.r \in {"s", "sd", "sdd"} -> IF nn = tk.n THEN <<O("id", tk.n)>> ELSE <<O("id", tk.n), O("punct", ":"), O("id", nn)>>
                  [] OTHER -> <<O("id", nn)>>
        ELSE LET ren == tk.n \in loc
             IN CASE tk.r = "x" -> <<O(OutKind(tk), IF tk.w = "tmpl-nested" /\ impl = "asis" THEN "`u ${" ELSE tk.t)>>
                  [] tk.r = "p" -> IF tk.w = "bare" /\ ren THEN <<O("id", Fresh(tk.n))>> ELSE <<O("id", tk.n)>>
                  [] tk.r \in {"s", "sd"} -> IF ren THEN <<O("id", tk.n), O("punct", ":"), O("id", Fresh(tk.n))>> ELSE <<O("id", tk.n)>>
                  [] tk.r = "sdd" -> IF ~ren THEN <<O("id", tk.n)>>
                                     ELSE IF impl = "asis" THEN <<O("id", Fresh(tk.n))>>
                                     ELSE <<O("id", tk.n), O("punct", ":"), O("id", Fresh(tk.n))>>
                  [] tk.r = "r" /\ tk.w = "tmpl" /\ impl = "asis" -> <<O("id", tk.n)>>
                  [] OTHER -> IF ren THEN <<O("id", Fresh(tk.n))>> ELSE <<O("id", tk.n)>>
  IN FoldLeft(LAMBDA acc, tk : acc \o one(tk), <<>>, toks)

PlainOut(p) == LET toks == Toks(p, Analyse(p)) IN [x \in 1..Len(toks) |-> O(OutKind(toks[x]), toks[x].t)]

=============================================================================

\* negative control (run with -continue): the renamer as found, rename map keyed by name, must break all four clauses.
SPECIFICATION Spec
CONSTANTS
  Names <- NamesAB
  DeclF = {"var"}
  DstrF = {}
  RefF = {"plain","tmpl","method"}
  TopRefF = {"plain"}
  TopDecl = TRUE
  FnF = {"iife"}
  Defaults = FALSE
  NoParam = FALSE
  Others = {"blk"}
  MaxItems = 3
  MaxDepth = 1
  Impl = "asis"
INVARIANTS NoGlobalRenamed NoStaleReference NoPropertyRenamed NoFileScopeRenamed
CHECK_DEADLOCK FALSE

SPECIFICATION Spec
CONSTANTS
  Names <- NamesAB
  DeclF = {"var","let"}
  DstrF = {}
  RefF = {"plain"}
  FnF = {"iife"}
  Defaults = FALSE
  NoParam = FALSE
  Others = {"blk"}
  MaxItems = 4
  MaxDepth = 2
  Impl = "scoped"
INVARIANTS ModelKeeps Emit
CHECK_DEADLOCK FALSE

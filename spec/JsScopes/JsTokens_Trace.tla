--------------------------- MODULE JsTokens_Trace ---------------------------
(* Token integrity of the SHIPPED dashboard scripts under the real Minify.    *)
(* A record holds the JavaScript tokens of a shipped file and of its minified *)
(* text (both produced by the harness tokenizer).  Contract:                  *)
(*  - same token sequence; only identifier spellings may differ, and an       *)
(*    identifier n directly followed by , or } may have become  n : m         *)
(*  - without shortenNames nothing differs                                    *)
(*  - an identifier after . or ?. , a keyword, and a name declared outside     *)
(*    every brace (function/class/var/let/const NAME) keep their spelling      *)
(*  - the renaming is a function of the name, injective, and onto names that   *)
(*    do not occur in the file                                                 *)
(*  - inside a template substitution a renamed name is renamed too             *)
(* Which names are globals of other files cannot be read off the tokens of    *)
(* one file; that clause is judged on the generated programs (JsScopes).      *)
EXTENDS Integers, Sequences, SequencesExt, FiniteSets, TLC, Json

VARIABLES i, bad

Log == ndJsonDeserialize("files.ndjson")
N   == Len(Log)

HardKeywords == {"break", "case", "catch", "class", "const", "continue", "debugger", "default", "delete", "do", "else",
                 "export", "extends", "false", "finally", "for", "function", "if", "import", "in", "instanceof", "new",
                 "null", "return", "super", "switch", "this", "throw", "true", "try", "typeof", "var", "void", "while",
                 "with", "let", "yield", "await", "static", "async", "of", "get", "set", "undefined", "arguments"}
DeclWords == {"function", "class", "var", "let", "const"}

Idx(s) == [x \in 1..Len(s) |-> x]
EndsSubst(t) == Len(t) >= 2 /\ SubSeq(t, Len(t) - 1, Len(t)) = "${"
StartsClose(t) == Len(t) >= 1 /\ SubSeq(t, 1, 1) = "}"

(* one pass over the input tokens: aligns the output, records for every input  *)
(* identifier its output spelling, brace depth and template nesting            *)
Walk(a, b) ==
  LET step(acc, x) ==
        IF ~acc.ok THEN acc
        ELSE IF acc.j > Len(b) THEN [acc EXCEPT !.ok = FALSE, !.why = "output-ends-early"]
        ELSE LET ta == a[x]
                 tb == b[acc.j]
                 depth == IF ta.k = "punct" /\ ta.t = "{" THEN acc.depth + 1
                          ELSE IF ta.k = "punct" /\ ta.t = "}" /\ acc.depth > 0 THEN acc.depth - 1 ELSE acc.depth
                 tn == IF ta.k # "tmpl" THEN acc.tn
                       ELSE (IF StartsClose(ta.t) THEN acc.tn - 1 ELSE acc.tn) + (IF EndsSubst(ta.t) THEN 1 ELSE 0)
             IN IF ta.k # "id"
                THEN IF ta.k = tb.k /\ ta.t = tb.t THEN [acc EXCEPT !.j = @ + 1, !.depth = depth, !.tn = tn]
                     ELSE [acc EXCEPT !.ok = FALSE, !.why = ta.k]
                ELSE IF tb.k # "id" THEN [acc EXCEPT !.ok = FALSE, !.why = "id"]
                ELSE LET expanded == /\ tb.t = ta.t /\ acc.j + 2 <= Len(b) /\ b[acc.j + 1].t = ":" /\ b[acc.j + 2].k = "id"
                                     /\ x + 1 <= Len(a) /\ a[x + 1].t \in {",", "}", "="} /\ ~(a[x + 1].t = ":")
                         img == IF expanded THEN b[acc.j + 2].t ELSE tb.t
                         rec == [x |-> x, a |-> ta.t, b |-> img, fd |-> acc.depth = 0 /\ x > 1 /\ a[x - 1].t \in DeclWords,
                                 prop |-> x > 1 /\ a[x - 1].t \in {".", "?."},
                                 key |-> expanded \/ (x + 1 <= Len(a) /\ a[x + 1].t = ":"),
                                 intm |-> acc.tn > 0]
                     IN [acc EXCEPT !.j = @ + (IF expanded THEN 3 ELSE 1), !.ids = Append(@, rec)]
      w == FoldLeft(step, [j |-> 1, ok |-> TRUE, why |-> "", depth |-> 0, tn |-> 0, ids |-> <<>>], Idx(a))
  IN IF w.ok /\ w.j # Len(b) + 1 THEN [w EXCEPT !.ok = FALSE, !.why = "trailing-output"] ELSE w

Classes(r) ==
  IF "status" \in DOMAIN r /\ r.status # 200 THEN {"not-served"}
  ELSE IF ~r.lexok THEN {"does-not-lex"}
  ELSE LET w == Walk(r.in, r.out)
       IN IF ~w.ok THEN {"token-skeleton/" \o w.why}
          ELSE LET ids   == w.ids
                   X     == 1..Len(ids)
                   ren   == {<<ids[x].a, ids[x].b>> : x \in {y \in X : ids[y].a # ids[y].b}}
                   dom   == {q[1] : q \in ren}
                   names == {ids[x].a : x \in X}
                   fileNames == {ids[x].a : x \in {y \in X : ids[y].fd}}
               IN (IF ~r.short /\ ren # {} THEN {"renamed-without-shortenNames"} ELSE {})
                  \cup (IF \E x \in X : ids[x].prop /\ ids[x].a # ids[x].b THEN {"property-renamed"} ELSE {})
                  \cup (IF \E q \in ren : q[1] \in HardKeywords \/ q[2] \in HardKeywords THEN {"keyword-touched"} ELSE {})
                  \cup (IF \E q1 \in ren, q2 \in ren : q1[1] = q2[1] /\ q1[2] # q2[2] THEN {"one-name-renamed-two-ways"} ELSE {})
                  \cup (IF \E q1 \in ren, q2 \in ren : q1[1] # q2[1] /\ q1[2] = q2[2] THEN {"two-names-merged"} ELSE {})
                  \cup (IF \E q \in ren : q[2] \in names THEN {"renamed-onto-existing-name"} ELSE {})
                  \cup (IF fileNames \cap dom # {} THEN {"file-scope-name-renamed"} ELSE {})
                  \cup (IF \E x \in X : ids[x].intm /\ ~ids[x].prop /\ ~ids[x].key /\ ids[x].a \in dom /\ ids[x].b = ids[x].a
                        THEN {"template-reference-not-renamed"} ELSE {})
                  \cup (IF r.same THEN {} ELSE {"input-overwritten"})

Key(r, c) == (IF "status" \in DOMAIN r THEN "assets-served/" ELSE "assets/")
             \o (IF r.short THEN "short/" ELSE "plain/") \o c \o "/" \o r.src

TInit == i = 1 /\ bad = {}
TNext == /\ i <= N
         /\ i' = i + 1
         /\ bad' = bad \cup {[idx |-> i, key |-> Key(Log[i], c)] : c \in Classes(Log[i])}
TSpec == TInit /\ [][TNext]_<<i, bad>>

Report == i <= N \/ PrintT(ToJson([n |-> N, bad |-> bad]))
=============================================================================

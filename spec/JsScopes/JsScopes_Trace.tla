--------------------------- MODULE JsScopes_Trace ---------------------------
(* Binding F: every (program, tokens of the minified text) pair logged from   *)
(* the real javascript.Minify is judged by Judge of JsScopes: token skeleton, *)
(* spelling of property names / file-scope names / globals, and Resolve       *)
(* preserved.  One record per step; for every failing record the abstract     *)
(* identities of the failing clauses are accumulated.                          *)
EXTENDS JsScopes, Json

VARIABLES i, bad, fc

TNames == <<"a", "b", "c">>

Log == ndJsonDeserialize("io.ndjson")
N   == Len(Log)

Has(r, f) == f \in DOMAIN r

(* what the program has that makes renaming by name differ from renaming by binding *)
Feature(prog) ==
  LET an   == Analyse(prog)
      bs   == Binds(prog, an)
      keys == BKeys(bs)
      toks == Toks(prog, an)
      locals == {k[2] : k \in {q \in keys : q[1] # 0}}
      refs == {x \in 1..Len(toks) : toks[x].r \in {"r", "s"} /\ toks[x].n \notin FixedGlobals}
      res(x) == Resolve(an, keys, toks[x].sc, toks[x].n)
  IN IF \E x \in refs : res(x)[1] = -1 /\ toks[x].n \in locals THEN "global-and-local-share-a-name"
     ELSE IF \E x \in refs : res(x)[1] = 0 /\ toks[x].n \in locals THEN "file-scope-and-local-share-a-name"
     ELSE IF \E k1 \in keys, k2 \in keys : k1[1] > 0 /\ k2[1] > 0 /\ k1[1] # k2[1] /\ k1[2] = k2[2] THEN "two-locals-share-a-name"
     ELSE IF locals # {} THEN "locals" ELSE "no-locals"
Features == {"global-and-local-share-a-name", "file-scope-and-local-share-a-name", "two-locals-share-a-name", "locals", "no-locals"}

TInit == i = 1 /\ bad = {} /\ fc = [f \in Features |-> 0]
TNext == /\ i <= N
         /\ i' = i + 1
         /\ LET r  == Log[i]
                ks == IF Has(r, "status") /\ r.status # 200 THEN {"served/not-served"}
                      ELSE {(IF Has(r, "status") THEN "served/" ELSE "") \o k : k \in Judge(r.p, r.out, r.short)}
                           \cup (IF r.same THEN {} ELSE {"input-overwritten"})
            IN /\ bad' = bad \cup {[idx |-> i, key |-> k] : k \in ks}
               /\ fc' = IF Has(r, "self") \/ Has(r, "status") \/ ~r.short THEN fc ELSE [fc EXCEPT ![Feature(r.p)] = @ + 1]   \* once per distinct program
TSpec == TInit /\ [][TNext]_<<i, bad, fc>>

Report == i <= N \/ PrintT(ToJson([n |-> N, bad |-> bad, feat |-> fc]))
=============================================================================

SPECIFICATION Spec
CONSTANTS
  Names = {"alice"}
  Pws = {"Secret1", "secret1", "LONG", "P72"}
  LongPws = {"LONG"}
  Pw72 = {"P72"}
  ExtraCands = {"", "SECRET1", "Secret1 ", "wrong"}
  PermSets = {{}, {"ego.logon"}, {"ego.root"}, {"other"}, {"ego.logon", "other"}}
  InitFmts = {"bcrypt", "sha", "plain"}
  InitCosts = {4, 12}
  Spellings = {"exact", "upper", "mixed", "padded", "ghost", "empty"}
  CandKinds = {"lit", "stored", "cyc", "braced", "hashof", "ext"}
  MaxVer = 2
  Impl = "code"
INVARIANTS TypeOK
PROPERTIES ReplyRight AcceptanceKept UpgradeShape FailedWritesNothing
VIEW View
CHECK_DEADLOCK FALSE

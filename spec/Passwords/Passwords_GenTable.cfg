SPECIFICATION GenSpec
CONSTANTS
  Names = {"alice"}
  Pws = {"Secret1", "LONG", "P72"}
  LongPws = {"LONG"}
  Pw72 = {"P72"}
  ExtraCands = {"", "secret1", "SECRET1", "Secret1 ", "wrong"}
  PermSets = {{"ego.logon"}, {"ego.root"}, {"other"}}
  InitFmts = {"sha", "plain"}
  InitCosts = {4}
  Spellings = {"exact", "upper", "mixed", "padded", "ghost", "empty"}
  CandKinds = {"lit", "stored", "cyc", "braced", "hashof", "ext"}
  MaxVer = 2
  Impl = "code"
  Depth = 1
  Budget = 1000
  Mode = "table"
  TableSp = {"exact", "upper", "mixed", "padded"}
  TableKinds = {"stored", "cyc", "braced", "hashof", "ext"}
  TableLits = {"", "secret1", "SECRET1", "Secret1 ", "wrong", "LONG"}
INVARIANTS Emit
CHECK_DEADLOCK FALSE

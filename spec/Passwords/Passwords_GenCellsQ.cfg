SPECIFICATION GenSpec
CONSTANTS
  Names = {"alice"}
  Pws = {"Secret1", "secret1", "LONG"}
  LongPws = {"LONG"}
  Pw72 = {}
  ExtraCands = {"", "SECRET1", "Secret1 ", "wrong"}
  PermSets = {{"ego.logon"}, {"ego.root"}, {"other"}}
  InitFmts = {"bcrypt", "sha", "plain"}
  InitCosts = {4}
  Spellings = {"exact", "upper", "padded", "empty"}
  CandKinds = {"lit", "stored", "cyc", "braced", "hashof", "ext"}
  MaxVer = 2
  Impl = "code"
  Depth = 1
  Budget = 0
  Mode = "cells"
  TableSp = {}
  TableKinds = {}
  TableLits = {}
INVARIANTS Emit
CHECK_DEADLOCK FALSE

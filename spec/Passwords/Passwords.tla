----------------------------- MODULE Passwords -----------------------------
(* C25 - a username/password pair authenticates exactly when it matches.    *)
(*                                                                          *)
(* Code-shaped model of internal/server/auth/validate.go ValidatePassword   *)
(* over the user store (users_file.go / users_sqldb.go are one abstract     *)
(* store here: both must show the same contents, which the replay compares  *)
(* on each of them).  One action per call of the package:                   *)
(*   Validate  = ValidatePassword(session, name, password)                  *)
(*   SetPlain  = the ego.server.plaintext.passwords setting                 *)
(*   Grant / Revoke = setPermission                                         *)
(*   SetUser   = auth.SetUser (the documented path that creates a user or   *)
(*               changes a password: lower-cases the name, stores bcrypt)   *)
(* Legacy credentials (SHA-256 hex, {plaintext}) exist only in the initial  *)
(* store (old user files); nothing writes them any more.                    *)
(*                                                                          *)
(* Cryptography is idealised: Sha(s) and Bc(s) are free (injective)         *)
(* constructors on strings, so "the hash matches" is equality of texts.     *)
(* The property is stated separately and declaratively (Accepts) and TLC    *)
(* checks the code-shaped action against it in every reachable state.       *)
EXTENDS Integers, Sequences, FiniteSets, TLC

CONSTANTS
  Names,       \* stored user names (lower-case: every documented path lower-cases the name before storing)
  Pws,         \* non-empty password strings credentials are made from
  LongPws,     \* members of Pws longer than 72 bytes: bcrypt refuses to hash them, so they are never upgraded
  Pw72,        \* members of Pws of exactly 72 bytes (the longest bcrypt hashes)
  ExtraCands,  \* further literal candidate passwords (empty, case variants, padded, unrelated)
  PermSets,    \* permission sets a stored record may carry
  InitFmts,    \* credential formats present in the initial store
  InitCosts,   \* bcrypt work factors of initial bcrypt credentials (4 = cheap to verify, 12 = as HashPassword makes them)
  Spellings,   \* how the user name is presented
  CandKinds,   \* how the candidate password is derived
  MaxVer,      \* bound on credential rewrites per user
  Impl         \* "code" = ValidatePassword as written; anything else is a negative control

VARIABLES store, plainOn, last
vars == <<store, plainOn, last>>

Logon == "ego.logon"
Root  == "ego.root"
Fmts  == {"bcrypt", "sha", "plain"}
NoUser == [on |-> FALSE, fmt |-> "", pw |-> "", perms |-> {}, ver |-> 0, cost |-> 0, from |-> ""]
\* from: how the current credential came to be ("init" raw record | "upgrade" by Validate | "setuser"); bookkeeping only

(* ---------------- idealised credential texts ---------------- *)
Sha(s) == "sha256(" \o s \o ")"
Bc(s)  == "bcrypt(" \o s \o ")"
Brace(s) == "{" \o s \o "}"
Cyc(s) == s \o "<NUL>" \o s          \* the password, a NUL byte, the password again
Ext(s) == s \o "x"                  \* the password followed by one more character
Text(u) == CASE u.fmt = "bcrypt" -> Bc(u.pw)
             [] u.fmt = "sha"    -> Sha(u.pw)
             [] u.fmt = "plain"  -> Brace(u.pw)
             [] OTHER            -> ""

(* ---------------- what is presented ---------------- *)
Resolves(sp) == sp \in {"exact", "upper", "mixed"}      \* spellings that lower-case to the stored name
CandOf(n, ck, lit) ==
  CASE ck = "lit"    -> lit
    [] ck = "stored" -> Text(store[n])                   \* the stored credential text itself
    [] ck = "cyc"    -> Cyc(store[n].pw)
    [] ck = "braced" -> Brace(store[n].pw)
    [] ck = "hashof" -> Sha(store[n].pw)                 \* the SHA-256 hex of the right password
    [] ck = "ext"    -> Ext(store[n].pw)
Lits == Pws \cup ExtraCands
\* abstract identity of a Validate case (used in finding keys): the credential addressed and how the candidate relates to it
Ctx(n) == IF store[n].on THEN store[n].fmt \o "/" \o store[n].from ELSE "absent"
Rel(n, ck, c) == IF c = "" THEN "empty"
                 ELSE IF store[n].on /\ c = store[n].pw THEN "right"
                 ELSE IF ck = "lit" THEN (IF c \in Pws THEN "otherpw" ELSE "wrong")
                 ELSE IF ck = "ext" /\ store[n].pw \in Pw72 THEN "ext72" ELSE ck

(* ---------------- the property, declaratively ---------------- *)
Exists(n, sp)  == Resolves(sp) /\ store[n].on
Matches(u, c)  == c = u.pw /\ (u.fmt = "plain" => plainOn)
Permitted(u)   == Logon \in u.perms \/ Root \in u.perms
Accepts(n, sp, c) == Exists(n, sp) /\ Matches(store[n], c) /\ Permitted(store[n])

(* every candidate any Validate step can present for user n in this state *)
AllCands(n) == Lits \cup (IF store[n].on
                          THEN {Text(store[n]), Cyc(store[n].pw), Brace(store[n].pw), Sha(store[n].pw), Ext(store[n].pw)}
                          ELSE {})
(* acceptance as a function of (user, candidate) over the candidates of THIS state; compared across a step *)
AcceptSetOf(n) == {c \in AllCands(n) : Accepts(n, "exact", c)}

(* ---------------- ValidatePassword, as written ---------------- *)
BcMatch(c, u) ==
  IF Impl = "bcryptcyc" THEN (c = u.pw \/ c = Cyc(u.pw) \/ (u.pw \in Pw72 /\ c = Ext(u.pw)))
                              \* negative control: bcrypt's key schedule (repeats the key, reads 72 bytes)
  ELSE Bc(c) = Text(u)
HasPerm(u) == IF Impl = "nopermbc" /\ u.fmt = "bcrypt" THEN TRUE ELSE Permitted(u)

Migrated(u, c) ==      \* HashPassword(pass) stored in place of the legacy text
  [u EXCEPT !.fmt = "bcrypt", !.pw = (IF Impl = "rehash" THEN Sha(c) ELSE c), !.ver = @ + 1, !.cost = 12, !.from = "upgrade",
            !.perms = (IF Impl = "dropperms" THEN {} ELSE @)]

\* result of the call in the current state: [ok, st]
Code(n, sp, c) ==
  IF sp = "empty" \/ c = "" THEN [ok |-> FALSE, st |-> store]
  ELSE IF ~(Resolves(sp) /\ store[n].on) THEN [ok |-> FALSE, st |-> store]
  ELSE LET u == store[n] IN
    IF u.fmt = "bcrypt" THEN [ok |-> BcMatch(c, u) /\ HasPerm(u), st |-> store]
    ELSE IF u.fmt = "plain" /\ ~plainOn /\ Impl # "plainalways" THEN [ok |-> FALSE, st |-> store]
    ELSE LET real == IF u.fmt = "plain" THEN Sha(u.pw) ELSE Text(u)
             m    == Sha(c) = real
             st2  == IF m /\ c \notin LongPws
                     THEN [store EXCEPT ![n] = Migrated(u, c)]
                     ELSE store
         IN [ok |-> m /\ HasPerm(u), st |-> st2]

TypeOK ==
  /\ plainOn \in BOOLEAN
  /\ \A n \in Names :
       /\ store[n].on \in BOOLEAN
       /\ store[n].on => /\ store[n].fmt \in Fmts
                         /\ store[n].ver \in 0..MaxVer
                         /\ store[n].perms \subseteq (UNION PermSets)
                         /\ (store[n].fmt = "bcrypt") = (store[n].cost # 0)

InitUsers ==
  {NoUser} \cup
  {[on |-> TRUE, fmt |-> f, pw |-> p, perms |-> ps, ver |-> 0, cost |-> c, from |-> "init"] :
      f \in InitFmts, p \in Pws, ps \in PermSets, c \in InitCosts \cup {0}}
InitUserOK(u) == ~u.on \/ ( /\ (u.fmt = "bcrypt") = (u.cost # 0)
                            /\ (u.fmt = "bcrypt" => u.pw \notin LongPws) )

Init ==
  /\ store \in [Names -> {u \in InitUsers : InitUserOK(u)}]
  /\ plainOn \in BOOLEAN
  /\ last = [call |-> [act |-> "Init"], reply |-> "ok"]

Validate ==
  \E n \in Names, sp \in Spellings, ck \in CandKinds :
    /\ (ck # "lit" => store[n].on)
    /\ \E lit \in (IF ck = "lit" THEN Lits ELSE {""}) :
         LET c == CandOf(n, ck, lit)
             r == Code(n, sp, c)
         IN /\ store' = r.st
            /\ plainOn' = plainOn
            /\ last' = [call |-> [act |-> "Validate", n |-> n, sp |-> sp, ck |-> ck, cand |-> c,
                                  ctx |-> Ctx(n), rel |-> Rel(n, ck, c)],
                        reply |-> r.ok]

SetPlain ==
  \E b \in BOOLEAN :
    /\ plainOn' = b
    /\ UNCHANGED store
    /\ last' = [call |-> [act |-> "SetPlain", on |-> b], reply |-> "ok"]

\* setPermission(user, p, TRUE/FALSE).  Restricted to lists that stay non-empty (what an empty or nil list
\* turns into is C31's subject).
Grant ==
  \E n \in Names, p \in UNION PermSets :
    /\ store[n].on /\ store[n].perms # {} /\ p \notin store[n].perms
    /\ store' = [store EXCEPT ![n].perms = @ \cup {p}]
    /\ UNCHANGED plainOn
    /\ last' = [call |-> [act |-> "Grant", n |-> n, p |-> p], reply |-> "ok"]
Revoke ==
  \E n \in Names, p \in UNION PermSets :
    /\ store[n].on /\ p \in store[n].perms /\ Cardinality(store[n].perms) > 1
    /\ store' = [store EXCEPT ![n].perms = @ \ {p}]
    /\ UNCHANGED plainOn
    /\ last' = [call |-> [act |-> "Revoke", n |-> n, p |-> p], reply |-> "ok"]

\* auth.SetUser({name, password, permissions}): bcrypt of the given password; an empty permission list in the
\* call leaves the permissions alone (a new user then has none).
SetUser ==
  \E n \in Names, sp \in {s \in Spellings : Resolves(s)}, p \in Pws \ LongPws, ps \in PermSets :
    /\ store[n].ver < MaxVer
    /\ store' = [store EXCEPT ![n] = [on |-> TRUE, fmt |-> "bcrypt", pw |-> p,
                                      perms |-> (IF ps = {} THEN store[n].perms ELSE ps),
                                      ver |-> store[n].ver + 1, cost |-> 12, from |-> "setuser"]]
    /\ UNCHANGED plainOn
    /\ last' = [call |-> [act |-> "SetUser", n |-> n, sp |-> sp, pw |-> p, perms |-> ps], reply |-> "ok"]

Next == Validate \/ SetPlain \/ Grant \/ Revoke \/ SetUser
Spec == Init /\ [][Next]_vars

\* `last` only reports the step just taken (for the properties below and for the generator); it is not part of
\* the identity of a state.  The properties are therefore action properties (TLC evaluates them on every
\* transition, also into states it has already seen).
View == <<store, plainOn>>

(* ---------------- the property ---------------- *)
IsValidate == last'.call.act = "Validate"

\* 1. a pair authenticates if and only if: user exists (case-insensitively), password matches in the stored
\*    format (plaintext only when enabled), logon or root held
ReplyRight ==
  [][ IsValidate => LET c == last'.call IN last'.reply = Accepts(c.n, c.sp, c.cand) ]_vars

\* 2. a Validate step (with or without upgrade) never changes which passwords are accepted, for any user
\*    (same plaintext setting; over every candidate of either state)
AcceptanceKept ==
  [][ IsValidate => \A n \in Names : AcceptSetOf(n)' = AcceptSetOf(n) ]_vars

\* 3. Validate changes nothing but the credential of the addressed user, and that only by an upgrade:
\*    legacy -> bcrypt of the same password, same permissions, exactly when the login matched (and bcrypt can hash it)
UpgradeShape ==
  [][ IsValidate =>
        LET c == last'.call IN
        /\ plainOn' = plainOn
        /\ \A n \in Names :
             \/ store'[n] = store[n]
             \/ /\ n = c.n
                /\ store[n].on /\ store[n].fmt \in {"sha", "plain"}
                /\ c.cand = store[n].pw
                /\ store'[n] = [store[n] EXCEPT !.fmt = "bcrypt", !.ver = @ + 1, !.cost = 12, !.from = "upgrade"]
        /\ ( /\ Accepts(c.n, c.sp, c.cand)               \* "on a successful login": whether a matching login that is
             /\ store[c.n].fmt \in {"sha", "plain"}       \* refused for lack of permission upgrades too is left open
             /\ c.cand \notin LongPws )                    \* (the code does; see Passwords_Gen alt)
           => store'[c.n].fmt = "bcrypt" ]_vars

\* 4. a failed attempt never writes
FailedWritesNothing ==
  [][ (IsValidate /\ ~last'.reply /\ ~(Exists(last'.call.n, last'.call.sp) /\ Matches(store[last'.call.n], last'.call.cand)))
        => store' = store ]_vars
=============================================================================

SPECIFICATION GenSpec
CONSTANTS
  Names = {"alice"}
  Pws = {"Secret1"}
  LongPws = {}
  Pw72 = {}
  ExtraCands = {"", "secret1", "SECRET1", "Secret1 ", "wrong"}
  PermSets = {{"ego.logon"}}
  InitFmts = {"sha", "plain"}
  InitCosts = {4}
  Spellings = {"exact", "upper", "mixed", "padded", "ghost", "empty"}
  CandKinds = {"lit", "stored", "cyc", "braced", "hashof", "ext"}
  MaxVer = 2
  Impl = "code"
  Depth = 1
  Budget = 1000
  Mode = "table"
  TableSp = {"upper"}
  TableKinds = {"stored", "cyc"}
  TableLits = {"secret1"}
INVARIANTS Emit
CHECK_DEADLOCK FALSE

SPECIFICATION GenSpec
CONSTANTS
  Names = {"alice", "bob"}
  Pws = {"Secret1", "secret1", "LONG"}
  LongPws = {"LONG"}
  Pw72 = {}
  ExtraCands = {"", "SECRET1", "Secret1 ", "wrong"}
  PermSets = {{}, {"ego.logon"}, {"ego.root"}, {"other"}, {"ego.logon", "other"}}
  InitFmts = {"bcrypt", "sha", "plain"}
  InitCosts = {4}
  Spellings = {"exact", "upper", "mixed", "padded", "ghost", "empty"}
  CandKinds = {"lit", "stored", "cyc", "braced", "hashof", "ext"}
  MaxVer = 2
  Impl = "code"
  Depth = 24
  Budget = 8
  Mode = "walk"
  TableSp = {}
  TableKinds = {}
  TableLits = {}
INVARIANTS Emit
CHECK_DEADLOCK FALSE

SPECIFICATION Spec
CONSTANTS
  Names = {"alice", "bob"}
  Pws = {"Secret1", "secret1", "LONG"}
  LongPws = {"LONG"}
  Pw72 = {}
  ExtraCands = {"", "SECRET1"}
  PermSets = {{"ego.logon"}, {"other"}}
  InitFmts = {"bcrypt", "sha", "plain"}
  InitCosts = {4}
  Spellings = {"exact", "upper", "padded", "empty"}
  CandKinds = {"lit", "stored", "cyc"}
  MaxVer = 2
  Impl = "code"
INVARIANTS TypeOK
PROPERTIES ReplyRight AcceptanceKept UpgradeShape FailedWritesNothing
VIEW View
CHECK_DEADLOCK FALSE

--------------------------- MODULE Passwords_Gen ---------------------------
(* Behaviour generator for binding R of C25: Passwords plus a history        *)
(* variable printed as JSON.  Every element is the call, the reply the       *)
(* specification gives and the store contents that must then be observed.    *)
(* The first element is the Init "call": its st is the store the harness     *)
(* installs (raw records, the only way legacy credentials come to exist).    *)
(*                                                                          *)
(* bcrypt at work factor 12 costs 0.2-2 s per operation, so the generator    *)
(* accounts for them (spent/Budget): a Validate against a cost-12 credential *)
(* is 1, an upgrade or a SetUser is 2 (hash + one verification by the        *)
(* harness's projection).  This bounds the cost of a behaviour, nothing else.*)
(*                                                                          *)
(* Mode "walk"  : any step of Passwords (simulation; Depth steps)            *)
(* Mode "cells" : Validate steps only (exhaustive BFS at Depth 1, Budget 0:  *)
(*                every cell of the table that needs no cost-12 operation)   *)
(* Mode "table" : per initial store one scripted behaviour: log in with the  *)
(*                right password, then every probe of TableProbes in a fixed *)
(*                order, flip the plaintext setting, log in again            *)
(*                (exhaustive BFS: the before/after-upgrade table)           *)
EXTENDS Passwords, Json

CONSTANTS Depth, Budget, Mode,
          TableSp, TableKinds, TableLits   \* probes of the table mode
VARIABLES h, spent, done, ph, todo, w
gvars == <<vars, h, spent, done, ph, todo, w>>

ProjUser(u) == [on |-> u.on, fmt |-> u.fmt, pw |-> u.pw, perms |-> u.perms, ver |-> u.ver, cost |-> u.cost]
Proj == [plain |-> plainOn, users |-> [n \in Names |-> ProjUser(store[n])]]

CostOf(c) ==
  CASE c.act = "Validate" ->
         IF Exists(c.n, c.sp) /\ c.cand # ""
         THEN IF store[c.n].fmt = "bcrypt" THEN (IF store[c.n].cost = 12 THEN 1 ELSE 0)
              ELSE IF store'[c.n] # store[c.n] THEN 2 ELSE 0
         ELSE 0
    [] c.act = "SetUser" -> 2
    [] OTHER -> 0

\* Not asked: P<NUL>P (and P72 followed by more) against a credential that was BORN bcrypt.  bcrypt's key schedule
\* repeats the key and reads 72 bytes, so such a credential verifies these as well; whether that "matches the stored
\* credential" is bcrypt's own definition and the statement does not settle it.  Against an UPGRADED credential it is
\* asked: the legacy format rejected them, and the upgrade must not change which passwords are accepted.
Asked == LET c == last'.call IN
           ~( /\ c.act = "Validate"
              /\ (c.ck = "cyc" \/ (c.ck = "ext" /\ store[c.n].pw \in Pw72))
              /\ store[c.n].fmt = "bcrypt" /\ store[c.n].from # "upgrade" )

\* The statement speaks of upgrading "on a successful login".  A login whose password matches but which is refused for
\* lack of the logon/root permission is not successful; the code upgrades the credential all the same.  Both outcomes
\* are allowed: alt is the other one (store untouched).  A real store that shows alt has left this behaviour (the
\* harness stops following it there; it is not a difference).
Alt == LET c == last'.call IN
         IF /\ c.act = "Validate" /\ store' # store /\ ~last'.reply
         THEN [on |-> TRUE, st |-> Proj]
         ELSE [on |-> FALSE, st |-> Proj']

Record == /\ Asked
          /\ h' = Append(h, [call |-> last'.call, reply |-> last'.reply, st |-> Proj', alt |-> Alt])
          /\ spent' = spent + CostOf(last'.call)
          /\ spent' <= Budget

\* the user of the table mode
TU == CHOOSE n \in Names : TRUE
Probes == {<<sp, "lit", l>> : sp \in {"exact"}, l \in TableLits}
          \cup {<<"exact", k, "">> : k \in TableKinds}
          \cup {<<sp, "right", "">> : sp \in TableSp}
ValidateWith(n, sp, ck, lit) ==
  LET c == IF ck = "right" THEN store[n].pw ELSE CandOf(n, ck, lit)
      r == Code(n, sp, c)
  IN /\ store' = r.st
     /\ plainOn' = plainOn
     /\ last' = [call |-> [act |-> "Validate", n |-> n, sp |-> sp, ck |-> (IF ck = "right" THEN "lit" ELSE ck), cand |-> c,
                           ctx |-> Ctx(n), rel |-> Rel(n, ck, c)],
                 reply |-> r.ok]

LoginRight == \E n \in Names, sp \in {s \in Spellings : Resolves(s)} :
                 store[n].on /\ ValidateWith(n, sp, "right", "")

GenInit == /\ Init
           /\ h = <<[call |-> [act |-> "Init"], reply |-> "ok", st |-> Proj, alt |-> [on |-> FALSE, st |-> Proj]]>>
           /\ spent = 0 /\ done = FALSE /\ ph = 0 /\ todo = Probes /\ w = 0
           /\ (Mode = "table" => store[TU].on)

\* TLC's simulator draws uniformly from the successor STATES; w only multiplies the rarer steps (a successful
\* login is 6 of ~200 successors otherwise) - it carries no meaning.
SetUserW == SetUser /\ last'.call.sp = "upper" /\ last'.call.perms \in {{}, {Logon}}
Walk  == /\ Mode = "walk" /\ Len(h) < Depth + 1
         /\ \E k \in 1..5 :
              /\ w' = k
              /\ \/ k <= 5 /\ LoginRight
                 \/ k <= 1 /\ Validate
                 \/ k <= 5 /\ SetPlain
                 \/ k <= 2 /\ (Grant \/ Revoke)
                 \/ k <= 1 /\ SetUserW
         /\ Record /\ UNCHANGED <<done, ph, todo>>
Cells == /\ Mode = "cells" /\ Len(h) < Depth + 1
         /\ Validate
         /\ Record /\ UNCHANGED <<done, ph, todo, w>>
Table == /\ Mode = "table"
         /\ \/ /\ ph = 0 /\ ValidateWith(TU, "exact", "right", "") /\ ph' = 1 /\ UNCHANGED todo
            \/ /\ ph = 1 /\ todo # {}
               /\ LET p == CHOOSE x \in todo : TRUE IN
                    /\ ValidateWith(TU, p[1], p[2], p[3])
                    /\ todo' = todo \ {p}
               /\ UNCHANGED ph
            \/ /\ ph = 1 /\ todo = {}
               /\ plainOn' = ~plainOn /\ UNCHANGED store
               /\ last' = [call |-> [act |-> "SetPlain", on |-> ~plainOn], reply |-> "ok"]
               /\ ph' = 2 /\ UNCHANGED todo
            \/ /\ ph = 2 /\ ValidateWith(TU, "exact", "right", "") /\ ph' = 3 /\ UNCHANGED todo
         /\ Record /\ UNCHANGED <<done, w>>
Complete == IF Mode = "table" THEN ph = 3 ELSE Len(h) = Depth + 1
Finish == /\ ~done /\ Complete /\ done' = TRUE /\ UNCHANGED <<vars, h, spent, ph, todo, w>>

GenNext == (~done /\ (Walk \/ Cells \/ Table)) \/ Finish
GenSpec == GenInit /\ [][GenNext]_gvars

\* printed once per behaviour (the Finish step is the only successor of a complete history)
Emit == ~done \/ PrintT(ToJson(h))
=============================================================================

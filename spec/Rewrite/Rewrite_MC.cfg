SPECIFICATION Spec
CONSTANTS
  Impl = "fixed"
  MaxCrash = 3
INVARIANTS CrashSafe Clean Result ContentAfterRun Recovers
CHECK_DEADLOCK FALSE

------------------------------- MODULE Rewrite -------------------------------
(* C36: langlint's in-place rewrite of a message file is crash safe.         *)
(* Code-shaped: tools/langlint/lint.go lintFile + rewriteFile, one action    *)
(* per file-system operation, Crash enabled between any two (and in the      *)
(* middle of the write: the content arrives in two pieces).                  *)
(*   Impl = "asis" : CreateTemp(random name) ; Write ; Close ; Chmod ;       *)
(*                   Rename(path -> path.langlint-bak) ; Rename(tmp -> path);*)
(*                   Remove(bak)                                             *)
(*   Impl = "fixed": Open(path.langlint-tmp, create|truncate) ; Write ;      *)
(*                   Close ; Chmod ; Rename(tmp -> path)      (one rename)   *)
(* A crashed process is followed by another run of the tool on the same path *)
(* (lintFile: read the path; error if it cannot be read; nothing to do if it *)
(* is already formatted; otherwise rewrite).  At most MaxCrash runs crash;   *)
(* the one after that is the "later successful run" of the statement.        *)
(* The message file is a regular file, a symbolic link to a file in the same *)
(* directory, or a symbolic link to a file elsewhere (Kinds).                *)
EXTENDS FsModel

CONSTANTS Impl, MaxCrash

Path == "d/f"
Bak  == "d/f.langlint-bak"
Kinds == {"file", "link-same-dir", "link-elsewhere"}
Target(k) == IF k = "link-same-dir" THEN "d/shared" ELSE "e/shared"
Orig == "ORIGINAL"
NewA == "FORM"
NewB == "ATTED"
New  == NewA \o NewB

VARIABLES dir, fds, phase, ip, run, crashes, tmp, kind

vars == <<dir, fds, phase, ip, run, crashes, tmp, kind>>

(* random temp names: a new one for every run *)
TmpName(r) == IF Impl = "asis" THEN "d/f.langlint-" \o ToString(r) ELSE "d/f.langlint-tmp"

Prog(t) ==
  IF Impl = "asis"
  THEN << [ev |-> "open", name |-> t, fd |-> 3, creat |-> TRUE, excl |-> TRUE, trunc |-> FALSE, nofollow |-> FALSE],
          [ev |-> "write", fd |-> 3, data |-> NewA],
          [ev |-> "write", fd |-> 3, data |-> NewB],
          [ev |-> "close", fd |-> 3],
          [ev |-> "chmod", name |-> t],
          [ev |-> "rename", from |-> Path, to |-> Bak],
          [ev |-> "rename", from |-> t, to |-> Path],
          [ev |-> "unlink", name |-> Bak] >>
  ELSE << [ev |-> "open", name |-> t, fd |-> 3, creat |-> TRUE, excl |-> FALSE, trunc |-> TRUE, nofollow |-> FALSE],
          [ev |-> "write", fd |-> 3, data |-> NewA],
          [ev |-> "write", fd |-> 3, data |-> NewB],
          [ev |-> "close", fd |-> 3],
          [ev |-> "chmod", name |-> t],
          [ev |-> "rename", from |-> t, to |-> Path] >>

(* phase: "start" | "run" (ip = index of the next operation) | "done" | "failed" | "crashed" *)
InitDir(k) == IF k = "file" THEN [x \in {Path} |-> File(Orig)]
              ELSE [x \in {Path, Target(k)} |-> IF x = Path THEN Link(Target(k)) ELSE File(Orig)]
Keep == DOMAIN InitDir(kind)

Init == /\ kind \in Kinds /\ dir = InitDir(kind) /\ fds = [x \in {} |-> ""]
        /\ phase = "start" /\ ip = 0 /\ run = 1 /\ crashes = 0 /\ tmp = TmpName(1)

(* lintFile: ReadFile(path), Format, compare *)
Start == /\ phase = "start"
         /\ phase' = IF ~Readable(dir, Path) THEN "failed"            \* ReadFile error
                     ELSE IF Read(dir, Path) = New THEN "done"        \* already formatted: no rewrite
                     ELSE IF Read(dir, Path) = Orig THEN "run"        \* rewriteFile
                     ELSE "failed"                                    \* damaged content: not a successful run of interest
         /\ ip' = 1
         /\ UNCHANGED <<dir, fds, run, crashes, tmp, kind>>

Step == /\ phase = "run"
        /\ LET e == Prog(tmp)[ip] IN
             /\ dir' = ApplyDir(dir, fds, e)
             /\ fds' = ApplyFds(dir, fds, e)
        /\ IF ip = Len(Prog(tmp)) THEN phase' = "done" /\ ip' = 0
                                  ELSE phase' = "run" /\ ip' = ip + 1
        /\ UNCHANGED <<run, crashes, tmp, kind>>

(* the process stops: before its first operation, between any two, or after the last *)
Crash == /\ phase \in {"start", "run"}
         /\ crashes < MaxCrash
         /\ phase' = "crashed" /\ ip' = 0 /\ crashes' = crashes + 1
         /\ fds' = [x \in {} |-> ""]
         /\ UNCHANGED <<dir, run, tmp, kind>>

Restart == /\ phase = "crashed"
           /\ phase' = "start" /\ run' = run + 1 /\ tmp' = TmpName(run + 1)
           /\ UNCHANGED <<dir, fds, crashes, ip, kind>>

Next == Start \/ Step \/ Crash \/ Restart
Spec == Init /\ [][Next]_vars

(* ---- C36 ---- *)
CrashSafe == (phase = "crashed") => CrashSafeDir(dir, Path, Orig, New)
Clean     == (phase = "done") => CleanDir(dir, Keep)
Result    == (phase = "done") => (Readable(dir, Path) /\ Read(dir, Path) = New)
(* the content clause still holds once a later run has happened (whatever its outcome) *)
ContentAfterRun == (phase \in {"done", "failed"}) => CrashSafeDir(dir, Path, Orig, New)
(* a run that follows a crash-safe crash is never refused *)
Recovers  == (phase = "failed") => FALSE
=============================================================================

SPECIFICATION Spec
CONSTANTS
  Impl = "asis"
  MaxCrash = 2
INVARIANTS CrashSafe
CHECK_DEADLOCK FALSE

SPECIFICATION Spec
CONSTANTS
  Impl = "asis"
  MaxCrash = 2
INVARIANTS Clean
CHECK_DEADLOCK FALSE

---------------------------- MODULE Rewrite_Trace ----------------------------
(* Binding T + crash enumeration for C36.                                     *)
(* trace.ndjson holds executions of the REAL langlint binary, one "run" per   *)
(* process, recorded with strace (file-system calls on the scratch directory, *)
(* failed calls removed, names relative to the directory):                    *)
(*   Init  : run, dir (list of [n, k, c]: name, "file"/"link", content/target) *)
(*           the directory tree the process started in,                       *)
(*           path/orig/new/keep, later (a crashed run preceded it),           *)
(*           sim (enumerate a crash before every operation of this run)       *)
(*   open/write/close/chmod/rename/link/unlink/truncate/ftruncate/fsync       *)
(*   Crash : the real process was killed here (crash-point hook);  dir = what *)
(*           the directory really contained afterwards                         *)
(*   Exit  : the process ended by itself; ok = it reported success; dir = ... *)
(* The walk is deterministic.  Every operation is pushed through the generic  *)
(* directory model (FsModel); at Crash/Exit the model's directory must equal  *)
(* the real one (else "mism": the model or the recording is wrong -> no       *)
(* verdict).  The two clauses of C36 are evaluated by TLC                     *)
(*   - on the model directory before every operation of a sim run (= the      *)
(*     process stopping between any two file-system operations),              *)
(*   - on the real directory of every Crash event,                            *)
(*   - Clean on the real directory at the successful Exit of a later run,     *)
(*   - the content clause again on the real directory at the Exit of every    *)
(*     later run that started from a crash-safe state (the path must STILL    *)
(*     hold the complete original or the complete formatted content of the    *)
(*     original once a later run has happened, whatever that run reported).   *)
(* Failing cases are accumulated (not stop-at-first) with an abstract key;    *)
(* the crash states of sim runs are printed so that the driver can put the    *)
(* real tool into each of them for the "later run".                           *)
EXTENDS FsModel, Json

VARIABLES l, dir, fds, cur, lastop, nops, startok, bad, mism, cstates

tvars == <<l, dir, fds, cur, lastop, nops, startok, bad, mism, cstates>>

Log == ndJsonDeserialize("trace.ndjson")
N   == Len(Log)
Ev  == Log[l]

NoFds == [x \in {} |-> ""]
ListDir(s)   == [n \in {s[i].n : i \in 1..Len(s)} |-> LET e == s[CHOOSE i \in 1..Len(s) : s[i].n = n] IN [k |-> e.k, c |-> e.c]]
DirSet(d)    == {[n |-> x, k |-> d[x].k, c |-> d[x].c] : x \in DOMAIN d}
SeqSet(s)    == {s[i] : i \in 1..Len(s)}

NoCur == [run |-> -1, path |-> "", orig |-> "", new |-> "", keep |-> {}, later |-> FALSE, sim |-> FALSE, kind |-> "file"]

TInit == /\ TLCSet(42, 0)
         /\ l = 1 /\ dir = [x \in {} |-> ""] /\ fds = NoFds /\ cur = NoCur
         /\ lastop = "start" /\ nops = 0 /\ startok = FALSE /\ bad = {} /\ mism = {} /\ cstates = {}

(* ---- abstract identity of a failing case ---- *)
PathState(d) == (IF ~Readable(d, cur.path) THEN "path-absent"
                 ELSE IF Read(d, cur.path) = "" THEN "path-empty" ELSE "path-partial-or-other")
                \o (IF cur.kind = "file" THEN "" ELSE "/" \o cur.kind)
CrashKeyTail(d, after) == PathState(d) \o "/after-" \o after
CrashKey(d, after) == "crashsafe/" \o CrashKeyTail(d, after)
CleanKey(d) ==
  LET left == {x \in DOMAIN d : x \notin cur.keep}
      bk   == \E x \in left : d[x] = File(cur.orig)
      tp   == \E x \in left : d[x] # File(cur.orig)
  IN "clean/leftover-" \o (IF bk THEN "backup" ELSE "") \o (IF tp THEN "temp" ELSE "")
     \o "/" \o (IF nops = 0 THEN "later-run-had-nothing-to-rewrite" ELSE "later-run-rewrote")

CrashOK(d) == CrashSafeDir(d, cur.path, cur.orig, cur.new)

TStart == /\ l <= N /\ Ev.ev = "Init"
          /\ dir' = ListDir(Ev.dir) /\ fds' = NoFds
          /\ cur' = [run |-> Ev.run, path |-> Ev.path, orig |-> Ev.orig, new |-> Ev.new,
                     keep |-> SeqSet(Ev.keep), later |-> Ev.later, sim |-> Ev.sim, kind |-> Ev.kind]
          /\ startok' = CrashSafeDir(ListDir(Ev.dir), Ev.path, Ev.orig, Ev.new)
          /\ lastop' = "start" /\ nops' = 0
          /\ UNCHANGED <<bad, mism, cstates>>
          /\ l' = l + 1

(* an operation of the real process; in a sim run the state BEFORE it is a crash state *)
TOp == /\ l <= N /\ Ev.ev \in OpNames /\ Ev.run = cur.run
       /\ dir' = ApplyDir(dir, fds, Ev)
       /\ fds' = ApplyFds(dir, fds, Ev)
       /\ LET changed == dir' # dir IN
          /\ lastop' = IF changed THEN Ev.ev ELSE lastop
          /\ nops' = IF changed THEN nops + 1 ELSE nops
       /\ IF cur.sim
          THEN /\ cstates' = cstates \cup {[run |-> cur.run, idx |-> l, after |-> lastop, dir |-> DirSet(dir)]}
               /\ bad' = IF CrashOK(dir) THEN bad
                         ELSE bad \cup {[run |-> cur.run, idx |-> l, kind |-> "simulated-crash", key |-> CrashKey(dir, lastop)]}
          ELSE UNCHANGED <<cstates, bad>>
       /\ UNCHANGED <<cur, mism, startok>>
       /\ l' = l + 1

TCrash == /\ l <= N /\ Ev.ev = "Crash" /\ Ev.run = cur.run
          /\ LET real == ListDir(Ev.dir) IN
             /\ mism' = IF real = dir THEN mism ELSE mism \cup {[run |-> cur.run, idx |-> l, model |-> DirSet(dir), real |-> DirSet(real)]}
             /\ bad' = IF CrashOK(real) THEN bad
                       ELSE bad \cup {[run |-> cur.run, idx |-> l, kind |-> "real-crash", key |-> CrashKey(real, lastop)]}
          /\ UNCHANGED <<dir, fds, cur, lastop, nops, startok, cstates>>
          /\ l' = l + 1

TExit == /\ l <= N /\ Ev.ev = "Exit" /\ Ev.run = cur.run
         /\ LET real == ListDir(Ev.dir) IN
            /\ mism' = IF real = dir THEN mism ELSE mism \cup {[run |-> cur.run, idx |-> l, model |-> DirSet(dir), real |-> DirSet(real)]}
            /\ bad' = bad
                 \cup (IF (cur.later /\ Ev.ok) => CleanDir(real, cur.keep) THEN {}
                       ELSE {[run |-> cur.run, idx |-> l, kind |-> "later-run", key |-> CleanKey(real)]})
                 \cup (IF (cur.later /\ startok) => CrashOK(real) THEN {}
                       ELSE {[run |-> cur.run, idx |-> l, kind |-> "later-run-content",
                              key |-> "content-lost-by-later-run/" \o CrashKeyTail(real, lastop)]})
            (* the state after the last operation is a crash state too *)
            /\ cstates' = IF cur.sim THEN cstates \cup {[run |-> cur.run, idx |-> l, after |-> lastop, dir |-> DirSet(dir)]} ELSE cstates
         /\ UNCHANGED <<dir, fds, cur, lastop, nops, startok>>
         /\ l' = l + 1

TNext == TStart \/ TOp \/ TCrash \/ TExit
TSpec == TInit /\ [][TNext]_tvars

Reached == TLCSet(42, IF TLCGet(42) < l THEN l ELSE TLCGet(42))
Report == (l = N + 1) => PrintT(ToJson([n |-> N, bad |-> bad, mism |-> mism, cstates |-> cstates]))
Accepted == /\ PrintT(<<"HIGHWATER", TLCGet(42), N + 1>>)
            /\ TLCGet(42) = N + 1
=============================================================================

SPECIFICATION TSpec
INVARIANT Report
CONSTRAINT Reached
POSTCONDITION Accepted
CHECK_DEADLOCK FALSE

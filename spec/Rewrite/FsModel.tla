------------------------------ MODULE FsModel ------------------------------
(* A directory as seen by one process: generic POSIX-like operations.        *)
(* Shared by Rewrite (the code-shaped protocol, model checked) and           *)
(* Rewrite_Trace (replay of the system calls recorded from the real tool),   *)
(* so that ANY observed operation sequence can be pushed through it -- the   *)
(* model is not tied to the protocol langlint happens to use today.          *)
(*   dir : function  name -> content (a string); DOMAIN dir = names present  *)
(*   fds : function  descriptor -> name it was opened on                     *)
(* An operation is a record with field ev:                                   *)
(*   open(name, fd, creat, excl, trunc)  write(fd, data)  close(fd)          *)
(*   chmod(name)  rename(from, to)  unlink(name)  link(from, to)             *)
(*   ftruncate(fd)  truncate(name)  fsync(fd)                                 *)
(* Only successful calls are applied (a failed call changes nothing).        *)
(* "The process stops" = the process dies: descriptors vanish, everything    *)
(* written so far stays (no power loss, so no fsync reasoning).              *)
EXTENDS Integers, Sequences, FiniteSets, TLC

Has(d, n) == n \in DOMAIN d

Put(d, n, c) == [x \in DOMAIN d \cup {n} |-> IF x = n THEN c ELSE d[x]]
Drop(d, n)   == [x \in DOMAIN d \ {n} |-> d[x]]

FsOpen(d, n, creat, excl, trunc) ==
  IF Has(d, n) THEN (IF creat /\ excl THEN d                 \* EEXIST (not applied)
                     ELSE IF trunc THEN Put(d, n, "") ELSE d)
  ELSE IF creat THEN Put(d, n, "") ELSE d

FsAppend(d, n, data) == IF Has(d, n) THEN Put(d, n, d[n] \o data) ELSE d
FsRename(d, a, b)    == IF Has(d, a) /\ a # b THEN Put(Drop(d, a), b, d[a]) ELSE d
FsLink(d, a, b)      == IF Has(d, a) /\ ~Has(d, b) THEN Put(d, b, d[a]) ELSE d
FsUnlink(d, n)       == IF Has(d, n) THEN Drop(d, n) ELSE d
FsTrunc(d, n)        == IF Has(d, n) THEN Put(d, n, "") ELSE d

(* one operation applied to <<dir, fds>> *)
ApplyDir(d, f, e) ==
  CASE e.ev = "open"      -> FsOpen(d, e.name, e.creat, e.excl, e.trunc)
    [] e.ev = "write"     -> IF e.fd \in DOMAIN f THEN FsAppend(d, f[e.fd], e.data) ELSE d
    [] e.ev = "rename"    -> FsRename(d, e.from, e.to)
    [] e.ev = "link"      -> FsLink(d, e.from, e.to)
    [] e.ev = "unlink"    -> FsUnlink(d, e.name)
    [] e.ev = "truncate"  -> FsTrunc(d, e.name)
    [] e.ev = "ftruncate" -> IF e.fd \in DOMAIN f THEN FsTrunc(d, f[e.fd]) ELSE d
    [] OTHER              -> d            \* close, chmod, fsync: content unchanged

ApplyFds(d, f, e) ==
  CASE e.ev = "open"  -> [x \in DOMAIN f \cup {e.fd} |-> IF x = e.fd THEN e.name ELSE f[x]]
    [] e.ev = "close" -> [x \in DOMAIN f \ {e.fd} |-> f[x]]
    [] e.ev = "rename" -> [x \in DOMAIN f |-> IF f[x] = e.from THEN e.to ELSE f[x]]   \* descriptor follows the file
    [] OTHER          -> f

OpNames == {"open", "write", "close", "chmod", "rename", "link", "unlink", "truncate", "ftruncate", "fsync"}

(* ---- the two clauses of C36, on a directory value ---- *)
(* after the process stopped, the path holds the complete original or the    *)
(* complete formatted content                                                *)
CrashSafeDir(d, path, orig, new) == Has(d, path) /\ d[path] \in {orig, new}
(* after a later successful run nothing but the files that were there before *)
(* the (first) rewrite started remains                                       *)
CleanDir(d, keep) == DOMAIN d \subseteq keep
=============================================================================

------------------------------ MODULE FsModel ------------------------------
(* A small tree of directories as seen by one process: generic POSIX-like    *)
(* operations.  Shared by Rewrite (the code-shaped protocol, model checked)  *)
(* and Rewrite_Trace (replay of the system calls recorded from the real      *)
(* tool), so that ANY observed operation sequence can be pushed through it   *)
(* -- the model is not tied to the protocol langlint happens to use today.   *)
(*   dir : function  name -> entry;  DOMAIN dir = names present.  A name is  *)
(*         a path relative to the scratch root ("d/messages_xx.txt").        *)
(*         entry = [k |-> "file", c |-> content]                             *)
(*               | [k |-> "link", c |-> name the symbolic link points to]    *)
(*   fds : function  descriptor -> name of the FILE it was opened on         *)
(* An operation is a record with field ev:                                   *)
(*   open(name, fd, creat, excl, trunc, nofollow)  write(fd, data) close(fd) *)
(*   chmod(name)  rename(from, to)  unlink(name)  link(from, to)             *)
(*   symlink(target, name)  ftruncate(fd)  truncate(name)  fsync(fd)         *)
(* open/truncate follow symbolic links; rename/unlink/link act on the name  *)
(* itself (a rename over a link replaces the link).                          *)
(* Only successful calls are applied (a failed call changes nothing).        *)
(* "The process stops" = the process dies: descriptors vanish, everything    *)
(* written so far stays (no power loss, so no fsync reasoning).              *)
EXTENDS Integers, Sequences, FiniteSets, TLC

File(c) == [k |-> "file", c |-> c]
Link(t) == [k |-> "link", c |-> t]

Has(d, n)    == n \in DOMAIN d
IsLink(d, n) == Has(d, n) /\ d[n].k = "link"
IsFile(d, n) == Has(d, n) /\ d[n].k = "file"
(* follow at most two links (enough for every state built here; a longer chain reads as missing) *)
Resolve(d, n) == IF ~IsLink(d, n) THEN n
                 ELSE LET t == d[n].c IN IF IsLink(d, t) THEN d[t].c ELSE t

Put(d, n, e) == [x \in DOMAIN d \cup {n} |-> IF x = n THEN e ELSE d[x]]
Drop(d, n)   == [x \in DOMAIN d \ {n} |-> d[x]]

(* the name of the file an open() ends up on *)
OpenTarget(d, n, nofollow) == IF nofollow THEN n ELSE Resolve(d, n)

FsOpen(d, n, creat, excl, trunc, nofollow) ==
  LET r == OpenTarget(d, n, nofollow) IN
  IF Has(d, n) /\ creat /\ excl THEN d                         \* EEXIST (not applied)
  ELSE IF Has(d, r) THEN (IF trunc /\ IsFile(d, r) THEN Put(d, r, File("")) ELSE d)
  ELSE IF creat THEN Put(d, r, File("")) ELSE d                \* also creates the target of a dangling link

FsAppend(d, n, data) == IF IsFile(d, n) THEN Put(d, n, File(d[n].c \o data)) ELSE d
FsRename(d, a, b)    == IF Has(d, a) /\ a # b THEN Put(Drop(d, a), b, d[a]) ELSE d
FsLink(d, a, b)      == IF Has(d, a) /\ ~Has(d, b) THEN Put(d, b, d[a]) ELSE d    \* content copied: later writes through one name are not mirrored
FsSymlink(d, t, n)   == IF Has(d, n) THEN d ELSE Put(d, n, Link(t))
FsUnlink(d, n)       == IF Has(d, n) THEN Drop(d, n) ELSE d
FsTrunc(d, n)        == LET r == Resolve(d, n) IN IF IsFile(d, r) THEN Put(d, r, File("")) ELSE d

(* one operation applied to <<dir, fds>> *)
ApplyDir(d, f, e) ==
  CASE e.ev = "open"      -> FsOpen(d, e.name, e.creat, e.excl, e.trunc, e.nofollow)
    [] e.ev = "write"     -> IF e.fd \in DOMAIN f THEN FsAppend(d, f[e.fd], e.data) ELSE d
    [] e.ev = "rename"    -> FsRename(d, e.from, e.to)
    [] e.ev = "link"      -> FsLink(d, e.from, e.to)
    [] e.ev = "symlink"   -> FsSymlink(d, e.target, e.name)
    [] e.ev = "unlink"    -> FsUnlink(d, e.name)
    [] e.ev = "truncate"  -> FsTrunc(d, e.name)
    [] e.ev = "ftruncate" -> IF e.fd \in DOMAIN f THEN FsTrunc(d, f[e.fd]) ELSE d
    [] OTHER              -> d            \* close, chmod, fsync: content unchanged

ApplyFds(d, f, e) ==
  CASE e.ev = "open"  -> LET r == OpenTarget(d, e.name, e.nofollow) IN
                         [x \in DOMAIN f \cup {e.fd} |-> IF x = e.fd THEN r ELSE f[x]]
    [] e.ev = "close" -> [x \in DOMAIN f \ {e.fd} |-> f[x]]
    [] e.ev = "rename" -> [x \in DOMAIN f |-> IF f[x] = e.from THEN e.to ELSE f[x]]   \* descriptor follows the file
    [] OTHER          -> f

OpNames == {"open", "write", "close", "chmod", "rename", "link", "symlink", "unlink", "truncate", "ftruncate", "fsync"}

(* ---- the two clauses of C36, on a directory value ---- *)
(* what a reader of the path gets: through symbolic links *)
Readable(d, path) == IsFile(d, Resolve(d, path))
Read(d, path)     == d[Resolve(d, path)].c
(* the path holds the complete original or the complete formatted content     *)
(* (after the process stopped -- and still after any later run of the tool)   *)
CrashSafeDir(d, path, orig, new) == Readable(d, path) /\ Read(d, path) \in {orig, new}
(* after a later successful run nothing but the names that were there before  *)
(* the (first) rewrite started remains                                        *)
CleanDir(d, keep) == DOMAIN d \subseteq keep
=============================================================================

SPECIFICATION Spec
CONSTANTS
  MaxLen = 3
  MinLen = 0
  Impl = "fixed"
INVARIANTS Isolation Counts Prefix
CHECK_DEADLOCK FALSE

SPECIFICATION Spec
CONSTANTS
  MaxLen = 2
  MinLen = 0
  Impl = "asis"
INVARIANTS Isolation Counts Prefix
CHECK_DEADLOCK FALSE

SPECIFICATION Spec
CONSTANTS
  MaxLen = 3
  MinLen = 0
  Impl = "fixed"
INVARIANTS Isolation Counts Prefix Emit
CHECK_DEADLOCK FALSE

------------------------------ MODULE TestRunner ------------------------------
(* `ego test` on one file: a sequence of @test blocks.                       *)
(*                                                                           *)
(* build : the file is written block by block (kind x variant); BFS = every  *)
(*         file up to MaxLen blocks, -simulate = random sample.              *)
(* run   : shaped like internal/language/compiler/testing.go:                *)
(*           Split   - collectTestBodyTokens: the body of the current test   *)
(*                     is every token up to the next @test seen at brace     *)
(*                     depth 0                                               *)
(*           RunTest - compileTestBody: the body is compiled in a clone; a   *)
(*                     compile error, or a runtime error that reaches the    *)
(*                     per-test guard, reports FAIL; otherwise PASS; an      *)
(*                     explicit @fail flushes the guard and ends the run     *)
(* A block has a kind (what C13 talks about) and a variant (how the source   *)
(* text brings that kind about, and what it leaves behind: an open try, a    *)
(* pending defer, a declared type or variable, printed output, unbalanced    *)
(* braces).  The property says the variant never matters: the result of a    *)
(* block is a function of its own kind.                                      *)
(*                                                                           *)
(* Impl = "fixed" : an @test directive always ends the previous body         *)
(* Impl = "asis"  : the splitter counts braces and only ends a body at depth *)
(*                  0, so a body with unbalanced braces swallows the blocks  *)
(*                  after it (unchanged tree) -- negative control            *)
EXTENDS Integers, Sequences, FiniteSets, TLC

CONSTANTS MaxLen, MinLen, Impl

Kinds == {"pass", "assert", "rterr", "cerr", "fail"}
Variants(k) ==
  CASE k = "pass"   -> {"plain", "caught", "recover", "decl", "output", "return", "loopjump"}
    [] k = "assert" -> {"plain", "decl", "loop", "incatch", "infunc"}
    [] k = "rterr"  -> {"plain", "infunc", "incatch", "afterjump", "output", "decl"}
    [] k = "cerr"   -> {"expr", "paren", "openbrace", "closebrace", "decl", "unused"}
    [] k = "fail"   -> {"plain", "intry"}
\* net number of "{" the source text of a block leaves open
Bal(t) == IF t.k = "cerr" /\ t.v = "openbrace" THEN 1 ELSE IF t.k = "cerr" /\ t.v = "closebrace" THEN -1 ELSE 0
\* what C13 says the report of a block is: a function of its own kind only
Want(k) == CASE k = "pass" -> "PASS" [] k = "fail" -> "ABORT" [] OTHER -> "FAIL"

VARIABLES file, pos, report, passed, failed, status
vars == <<file, pos, report, passed, failed, status>>

Init == file = <<>> /\ pos = 1 /\ report = <<>> /\ passed = 0 /\ failed = 0 /\ status = "build"

AddTest == /\ status = "build" /\ Len(file) < MaxLen
           /\ \E k \in Kinds : \E v \in Variants(k) : file' = Append(file, [k |-> k, v |-> v])
           /\ UNCHANGED <<pos, report, passed, failed, status>>

Start == /\ status = "build" /\ Len(file) >= MinLen /\ Len(file) >= 1
         /\ status' = "run"
         /\ UNCHANGED <<file, pos, report, passed, failed>>

(* collectTestBodyTokens: index of the last block whose tokens end up in the body that starts at block p *)
RECURSIVE Extent(_, _)
Extent(p, d) ==         \* d: brace depth after the tokens of block p
    IF Impl = "fixed" \/ d = 0 \/ p = Len(file) THEN p ELSE Extent(p + 1, d + Bal(file[p + 1]))

RunTest ==
    /\ status = "run" /\ pos <= Len(file)
    /\ LET t == file[pos]
           e == Extent(pos, Bal(t))
           r == IF e > pos THEN "FAIL" ELSE Want(t.k)       \* a body holding further @test directives does not compile
       IN /\ report' = Append(report, [t |-> pos, r |-> r])
          /\ passed' = passed + (IF r = "PASS" THEN 1 ELSE 0)
          /\ failed' = failed + (IF r = "FAIL" THEN 1 ELSE 0)
          /\ pos' = e + 1
          /\ status' = IF r = "ABORT" THEN "aborted" ELSE status
    /\ UNCHANGED file

Finish == /\ status = "run" /\ pos > Len(file)
          /\ status' = "done"
          /\ UNCHANGED <<file, pos, report, passed, failed>>

Next == AddTest \/ Start \/ RunTest \/ Finish
Spec == Init /\ [][Next]_vars

-----------------------------------------------------------------------------
Over == status \in {"done", "aborted"}
FailIdx == {i \in 1..Len(file) : file[i].k = "fail"}
Stop == IF FailIdx = {} THEN Len(file) ELSE CHOOSE i \in FailIdx : \A j \in FailIdx : i <= j

\* C13: every block up to (and including) the first explicit @fail is reported, in order, with the result of its
\* own kind; nothing after an @fail runs; nothing else ends the run.
Isolation == Over =>
    /\ Len(report) = Stop
    /\ \A i \in 1..Len(report) : report[i] = [t |-> i, r |-> Want(file[i].k)]
    /\ (status = "aborted") = (FailIdx # {})
Counts == Over =>
    /\ passed = Cardinality({i \in 1..Len(report) : report[i].r = "PASS"})
    /\ failed = Cardinality({i \in 1..Len(report) : report[i].r = "FAIL"})
\* while running, what has been reported so far is already final (a later block cannot change it)
Prefix == status = "run" => \A i \in 1..Len(report) : report[i].t <= Len(file) /\ report[i].t < pos
=============================================================================

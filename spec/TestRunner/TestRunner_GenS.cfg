SPECIFICATION Spec
CONSTANTS
  MaxLen = 6
  MinLen = 3
  Impl = "fixed"
INVARIANTS Isolation Counts Prefix Emit
CHECK_DEADLOCK FALSE

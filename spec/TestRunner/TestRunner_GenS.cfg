SPECIFICATION Spec
CONSTANTS
  MaxLen = 5
  MinLen = 3
  Impl = "fixed"
INVARIANTS Isolation Counts Prefix Emit
CHECK_DEADLOCK FALSE

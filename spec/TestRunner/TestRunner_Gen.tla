---------------------------- MODULE TestRunner_Gen ----------------------------
(* Case generator for binding R: one JSON record per finished run:           *)
(*   file   [{k,v},...]  the blocks of the test file (kind, variant)         *)
(*   report [{t,r},...]  expected report: block index, PASS | FAIL | ABORT   *)
(*   passed, failed      expected counts of the summary line                 *)
(*   status              done | aborted                                      *)
EXTENDS TestRunner, Json
CaseRec == [file |-> file, report |-> report, passed |-> passed, failed |-> failed, status |-> status]
Emit == ~Over \/ PrintT(ToJson(CaseRec))
=============================================================================

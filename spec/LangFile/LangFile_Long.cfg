SPECIFICATION Spec
CONSTANTS
  Impl = "fixed"
  MaxLen = 40
  EmitLens = {13, 14, 17, 24, 33, 40}
INVARIANTS Holds Emit
CHECK_DEADLOCK FALSE

----------------------------- MODULE LangFile_MC -----------------------------
(* Enumerates message files over the line alphabet of LangFile, exhaustively  *)
(* up to nested bounds: every file of <= Levels[1].n lines over Levels[1].a,  *)
(* every file of <= Levels[2].n lines over the smaller Levels[2].a, ...       *)
(* Checks the contract of C35 on the two function models (Holds) and, when    *)
(* EmitFiles, prints every file as JSON for the harness that runs the real    *)
(* langlint and the real compiler on it (binding F).                          *)
EXTENDS LangFile, Json

CONSTANTS Tier, EmitFiles
VARIABLE f

A8  == 1..8
A12 == A8 \cup {10, 13, 26, 27}
A16 == A8 \cup {10, 13, 20, 24, 26, 27, 29, 30}
A7  == {2, 3, 4, 5, 6, 7, 8}
A5  == {2, 3, 4, 6, 8}

Levels == IF Tier = "quick"
          THEN << [a |-> 1..NLines, n |-> 2], [a |-> A12, n |-> 3], [a |-> A7, n |-> 4] >>
          ELSE << [a |-> 1..NLines, n |-> 3], [a |-> A16, n |-> 4], [a |-> A8, n |-> 5], [a |-> A5, n |-> 6] >>

MaxLen == Levels[Len(Levels)].n
(* the lines a file of n lines may use *)
AlphaFor(n) == Levels[CHOOSE k \in 1..Len(Levels) : n <= Levels[k].n /\ \A j \in 1..(k - 1) : n > Levels[j].n].a

Init == f = <<>>
Next == /\ Len(f) < MaxLen
        /\ \E x \in AlphaFor(Len(f) + 1) :
             /\ \A j \in 1..Len(f) : f[j] \in AlphaFor(Len(f) + 1)
             /\ f' = Append(f, x)
Spec == Init /\ [][Next]_f

Holds == Len(f) = 0 \/ PostModel(FileOf(f))
Emit  == \/ ~EmitFiles
         \/ IF Len(f) = 0 THEN PrintT(ToJson([alphabet |-> Lines]))
                          ELSE PrintT(ToJson([lines |-> f]))
=============================================================================

SPECIFICATION Spec
CONSTANTS
  Impl = "fixed"
  Tier = "quick"
  EmitFiles = TRUE
INVARIANTS Holds Emit
CHECK_DEADLOCK FALSE

------------------------------ MODULE LangFile ------------------------------
(* C35: langlint formatting never changes the message table.                 *)
(*                                                                            *)
(* A message file is a sequence of lines; a line is a sequence of character   *)
(* tokens (one token = one character):                                        *)
(*   "S" white space (blank or tab)   "R" carriage return                     *)
(*   "#" "[" "]" "=" "."              the characters the two tools look at    *)
(*   anything else                    an ordinary character                   *)
(* The text of a file is its lines joined with "\n" (so a last empty line     *)
(* stands for a final newline).                                               *)
(*                                                                            *)
(* Two function models, transcribed from the code at character level:        *)
(*   Compile(f)  tools/lang/compile.go compileFile  : the key -> message      *)
(*               table (last definition wins), or not ok (panic)              *)
(*   Lint(f)     tools/langlint/lint.go parse+render: ok/out/dups             *)
(*       Impl = "asis"  : lines are classified and keys compared UNtrimmed    *)
(*       Impl = "fixed" : headers recognised on the trimmed line, keys        *)
(*                        sorted / checked for duplicates trimmed             *)
(* and the contract C35 relates them by (PostModel, checked on the models in  *)
(* LangFile_MC; the same clauses are evaluated on logged I/O of the REAL      *)
(* tools in LangFile_Trace).                                                  *)
EXTENDS Integers, Sequences, FiniteSets, TLC

CONSTANT Impl

(* ---------------------------------------------------------------- alphabet *)
Lines == <<
  <<>>,                              \*  1  empty line
  <<"#","c">>,                       \*  2  comment
  <<"[","p","]">>,                   \*  3  section header
  <<"a","=","1">>,                   \*  4
  <<"a","=","2">>,                   \*  5  same key, other message
  <<"a","S","=","2">>,               \*  6  key followed by white space
  <<"S","a","=","3">>,               \*  7  key preceded by white space
  <<"b","=","1">>,                   \*  8  another key
  <<"S">>,                           \*  9  white space only
  <<"a","=","1","R">>,               \* 10  CRLF line end
  <<"[","p","]","R">>,               \* 11
  <<"#","c","R">>,                   \* 12
  <<"[","q","]">>,                   \* 13  second section
  <<"[","p","]","S">>,               \* 14  header followed by white space
  <<"S","[","p","]">>,               \* 15  indented header
  <<"[","p">>,                       \* 16  unterminated header
  <<"a">>,                           \* 17  no '='
  <<"=","1">>,                       \* 18  empty key
  <<"S","#","c">>,                   \* 19  indented comment (not a comment for either tool)
  <<"S","#","c","=","1">>,           \* 20  ... with '=': an entry for both
  <<"b","=","a","=","1">>,           \* 21  '=' in the message
  <<"b","=","{","a","}">>,           \* 22  braces in the message
  <<"b","=","{">>,                   \* 23  unbalanced brace (warning only)
  <<"b","=","1","S">>,               \* 24  message followed by white space
  <<"b","=","S","1">>,               \* 25  message preceded by white space
  <<"S","[","b","=","1","]">>,       \* 26  indented "[b=1]": header for the compiler
  <<"a","S","=","1","R">>,           \* 27  CRLF and key followed by white space
  <<"b","=">>,                       \* 28  empty message
  <<"[","]">>,                       \* 29  empty section name
  <<"S","=","1">>                    \* 30  white-space-only key
>>

NLines == Len(Lines)
FileOf(idx) == [i \in 1..Len(idx) |-> Lines[idx[i]]]

(* ------------------------------------------------------------ token helpers *)
IsWs(t) == t \in {"S", "R"}

RECURSIVE TrimL(_), TrimR(_), StripCR(_)
TrimL(s) == IF s # <<>> /\ IsWs(Head(s)) THEN TrimL(Tail(s)) ELSE s
TrimR(s) == IF s # <<>> /\ IsWs(s[Len(s)]) THEN TrimR(SubSeq(s, 1, Len(s) - 1)) ELSE s
Trim(s)  == TrimR(TrimL(s))
StripCR(s) == IF s # <<>> /\ s[Len(s)] = "R" THEN StripCR(SubSeq(s, 1, Len(s) - 1)) ELSE s   \* strings.TrimRight(raw, "\r")

IndexOf(s, t) == IF \E i \in 1..Len(s) : s[i] = t
                 THEN CHOOSE i \in 1..Len(s) : s[i] = t /\ \A j \in 1..(i - 1) : s[j] # t
                 ELSE 0
FullKey(prefix, key) == IF prefix # <<>> THEN prefix \o <<".">> \o key ELSE key

(* byte order of the characters behind the tokens (for sort.SliceStable on keys) *)
Order == <<"R", "S", "#", ".", "0", "1", "2", "3", "4", "5", "6", "7", "8", "9", "=", "[", "]", "a", "b", "c", "d", "e", "f", "p", "q", "{", "}">>
Rank(t) == CHOOSE i \in 1..Len(Order) : Order[i] = t
RECURSIVE Less(_, _)
Less(x, y) == IF y = <<>> THEN FALSE
              ELSE IF x = <<>> THEN TRUE
              ELSE IF Head(x) = Head(y) THEN Less(Tail(x), Tail(y))
              ELSE Rank(Head(x)) < Rank(Head(y))

(* ------------------------------------------------ the compiler (tools/lang) *)
(* result: ok, defs = every definition in file order                          *)
(*   [line, key (full, trimmed), raw (key as written), msg, grp]              *)
(* grp numbers the runs of entry lines not interrupted by a header/comment    *)
RECURSIVE CompileFrom(_, _, _)
CompileFrom(f, i, st) ==
  IF i > Len(f) \/ ~st.ok THEN st
  ELSE LET raw == f[i]
           t   == Trim(raw)                                   \* strings.TrimSpace
       IN IF raw # <<>> /\ raw[1] = "#"                       \* comment test on the UNtrimmed line
          THEN CompileFrom(f, i + 1, [st EXCEPT !.grp = @ + 1])
          ELSE IF t = <<>> THEN CompileFrom(f, i + 1, st)
          ELSE IF t[1] = "["
               THEN IF t[Len(t)] # "]" THEN [st EXCEPT !.ok = FALSE]                 \* panic: malformed prefix line
                    ELSE CompileFrom(f, i + 1, [st EXCEPT !.prefix = SubSeq(t, 2, Len(t) - 1), !.grp = @ + 1])
          ELSE LET e == IndexOf(t, "=") IN
               IF e = 0 THEN [st EXCEPT !.ok = FALSE]                               \* panic: malformed line
               ELSE LET rawkey == SubSeq(t, 1, e - 1)
                        d == [line |-> i, key |-> FullKey(st.prefix, Trim(rawkey)), raw |-> SubSeq(raw, 1, IndexOf(raw, "=") - 1),
                              msg |-> SubSeq(t, e + 1, Len(t)), grp |-> st.grp]
                    IN CompileFrom(f, i + 1, [st EXCEPT !.defs = Append(@, d)])

Compile(f) == CompileFrom(f, 1, [ok |-> TRUE, prefix |-> <<>>, defs |-> <<>>, grp |-> 0])

DefKeys(c) == {c.defs[i].key : i \in 1..Len(c.defs)}
LastDef(c, k) == c.defs[CHOOSE i \in 1..Len(c.defs) : c.defs[i].key = k /\ \A j \in (i + 1)..Len(c.defs) : c.defs[j].key # k]
Table(c) == [k \in DefKeys(c) |-> LastDef(c, k).msg]

(* a compiler line classification the key of a failing case is built from *)
IndentedHeader(f) == \E i \in 1..Len(f) : LET t == Trim(f[i]) IN
                        /\ f[i] # <<>> /\ f[i][1] \notin {"#", "["} /\ t # <<>> /\ t[1] = "[" /\ t[Len(t)] = "]"
TrimVariantDup(c) == \E i, j \in 1..Len(c.defs) : i < j /\ c.defs[i].key = c.defs[j].key /\ c.defs[i].raw # c.defs[j].raw

(* "a duplicate key whose winner could be affected": two definitions of one key, *)
(* with different messages, in one run of entries (what a per-section sort can   *)
(* reorder).  DefLines(K) = the lines defining it.                               *)
AtRisk(c) == {k \in DefKeys(c) : \E i, j \in 1..Len(c.defs) :
                 /\ i < j /\ c.defs[i].key = k /\ c.defs[j].key = k
                 /\ c.defs[i].grp = c.defs[j].grp /\ c.defs[i].msg # c.defs[j].msg}
DefLines(c, k) == {c.defs[i].line : i \in {x \in 1..Len(c.defs) : c.defs[x].key = k}}
(* reported = some duplicate warning names at least two of the defining lines *)
Reported(c, k, duplines) == \E ls \in duplines : Cardinality(ls \cap DefLines(c, k)) >= 2

(* ------------------------------------------------ langlint (tools/langlint) *)
NoBlock == [kind |-> "none", comments |-> <<>>, header |-> <<>>, hasHeader |-> FALSE, entries |-> <<>>]
SortKey(k, impl) == IF impl = "asis" THEN k ELSE Trim(k)

RECURSIVE ParseFrom(_, _, _)
ParseFrom(f, i, st) ==
  IF i > Len(f) \/ ~st.ok THEN st
  ELSE LET line == StripCR(f[i])
           nb   == Len(st.blocks)
           cur  == IF nb = 0 THEN NoBlock ELSE st.blocks[nb]
           hl   == IF st.impl = "asis" THEN line ELSE Trim(line)          \* what the header test looks at
       IN IF Trim(line) = <<>> THEN ParseFrom(f, i + 1, st)
          ELSE IF line[1] = "#"
               THEN IF cur.kind = "c"
                    THEN ParseFrom(f, i + 1, [st EXCEPT !.blocks[nb].comments = Append(@, line)])
                    ELSE ParseFrom(f, i + 1, [st EXCEPT !.blocks = Append(@, [NoBlock EXCEPT !.kind = "c", !.comments = <<line>>])])
          ELSE IF hl[1] = "["
               THEN IF hl[Len(hl)] # "]" THEN [st EXCEPT !.ok = FALSE]
                    ELSE LET h == SubSeq(hl, 2, Len(hl) - 1) IN
                         ParseFrom(f, i + 1, [st EXCEPT !.prefix = h,
                                                        !.blocks = Append(@, [NoBlock EXCEPT !.kind = "s", !.header = h, !.hasHeader = TRUE])])
          ELSE LET e == IndexOf(line, "=") IN
               IF e = 0 \/ e = 1 THEN [st EXCEPT !.ok = FALSE]                       \* missing '=' / empty key
               ELSE LET ent == [key |-> SubSeq(line, 1, e - 1), value |-> SubSeq(line, e + 1, Len(line)), line |-> i] IN
                    IF cur.kind = "s"
                    THEN ParseFrom(f, i + 1, [st EXCEPT !.blocks[nb].entries = Append(@, ent)])
                    ELSE ParseFrom(f, i + 1, [st EXCEPT !.blocks = Append(@, [NoBlock EXCEPT !.kind = "s", !.header = st.prefix, !.entries = <<ent>>])])

Parse(f, impl) == ParseFrom(f, 1, [ok |-> TRUE, prefix |-> <<>>, blocks |-> <<>>, impl |-> impl])

(* sort.SliceStable by key: insertion keeps the original order of equal keys *)
RECURSIVE InsertSorted(_, _, _), SortEntries(_, _, _)
InsertSorted(s, e, impl) == IF s = <<>> THEN <<e>>
                      ELSE IF Less(SortKey(e.key, impl), SortKey(Head(s).key, impl)) THEN <<e>> \o s
                      ELSE <<Head(s)>> \o InsertSorted(Tail(s), e, impl)
SortEntries(done, todo, impl) == IF todo = <<>> THEN done ELSE SortEntries(InsertSorted(done, Head(todo), impl), Tail(todo), impl)

RenderBlock(b, impl) ==
  IF b.kind = "c" THEN b.comments
  ELSE (IF b.hasHeader THEN << <<"[">> \o b.header \o <<"]">> >> ELSE <<>>)
       \o LET es == SortEntries(<<>>, b.entries, impl) IN [i \in 1..Len(es) |-> es[i].key \o <<"=">> \o es[i].value]

RECURSIVE RenderFrom(_, _, _)
RenderFrom(bs, i, impl) == IF i > Len(bs) THEN <<>>
                     ELSE (IF i > 1 THEN << <<>> >> ELSE <<>>) \o RenderBlock(bs[i], impl) \o RenderFrom(bs, i + 1, impl)

(* duplicate warnings: the sets of lines on which one fully qualified key is defined more than once *)
EntrySet(bs, impl) == UNION {{[fk |-> FullKey(bs[b].header, SortKey(bs[b].entries[i].key, impl)), line |-> bs[b].entries[i].line] :
                          i \in 1..Len(bs[b].entries)} : b \in {x \in 1..Len(bs) : bs[x].kind = "s"}}
DupLines(bs, impl) == LET es == EntrySet(bs, impl) IN
                {ls \in {{e.line : e \in {x \in es : x.fk = k}} : k \in {e.fk : e \in es}} : Cardinality(ls) > 1}

(* the text ends with "\n" after every line, so the split text has a last empty piece *)
LintI(f, impl) == LET p == Parse(f, impl) IN
           IF ~p.ok THEN [ok |-> FALSE, out |-> f, dups |-> {}]
           ELSE [ok |-> TRUE, out |-> RenderFrom(p.blocks, 1, impl) \o << <<>> >>, dups |-> DupLines(p.blocks, impl)]
Lint(f) == LintI(f, Impl)

(* ------------------------------------------------------------- the contract *)
(* on the models: formatting fails, or the table is unchanged (when the        *)
(* original compiles), formatting again changes nothing, and every duplicate   *)
(* at risk is reported                                                          *)
PostModel(f) ==
  LET l == Lint(f)
      c == Compile(f)
  IN l.ok => /\ c.ok => (LET c2 == Compile(l.out) IN c2.ok /\ Table(c2) = Table(c))
             /\ (LET l2 == Lint(l.out) IN l2.ok /\ l2.out = l.out)
             /\ c.ok => \A k \in AtRisk(c) : Reported(c, k, l.dups)
=============================================================================

---------------------------- MODULE LangFile_Long ----------------------------
(* Long-section family for C35: files with ONE section of up to MaxLen        *)
(* entries (optionally under a header) over a small alphabet of keys and      *)
(* their white-space variants, so that the same key (as the compiler sees it) *)
(* is defined many times, at many distances; entry number i carries the       *)
(* message "i", so every definition is distinguishable.  The per-section sort *)
(* of langlint must keep equal keys in order on sections of ANY length (sort  *)
(* routines switch algorithm with the length), which the exhaustive family of *)
(* LangFile_MC (<= 6 lines) cannot exercise.                                  *)
(* Run with TLC -simulate (seeded): every generated state whose length is in  *)
(* EmitLens is checked against the contract on the models (Holds) and printed *)
(* for the harness (Emit).                                                    *)
EXTENDS LangFile, Json

CONSTANTS MaxLen, EmitLens
VARIABLES g, hdr

KV == << <<"a">>, <<"a","S">>, <<"S","a">>, <<"b">>, <<"b","S">>, <<"c">>, <<"d">>, <<"S","d","S">>, <<"e">>, <<"f">> >>

Digit(n) == <<"0","1","2","3","4","5","6","7","8","9">>[n + 1]
Num(n)   == IF n < 10 THEN <<Digit(n)>> ELSE <<Digit(n \div 10), Digit(n % 10)>>

LongFile(keys, h) == (IF h THEN << <<"[","p","]">> >> ELSE <<>>)
                     \o [i \in 1..Len(keys) |-> KV[keys[i]] \o <<"=">> \o Num(i)]

Init == g = <<>> /\ hdr \in BOOLEAN
Next == /\ Len(g) < MaxLen
        /\ \E x \in 1..Len(KV) : g' = Append(g, x)
        /\ UNCHANGED hdr
Spec == Init /\ [][Next]_<<g, hdr>>

Holds == Len(g) \notin EmitLens \/ PostModel(LongFile(g, hdr))
Emit  == Len(g) \notin EmitLens \/ PrintT(ToJson([toks |-> LongFile(g, hdr)]))
=============================================================================

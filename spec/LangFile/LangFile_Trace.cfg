SPECIFICATION TSpec
CONSTANTS
  Impl = "fixed"
INVARIANT Report
CHECK_DEADLOCK FALSE

---------------------------- MODULE LangFile_Trace ----------------------------
(* Binding F for C35: io.ndjson holds one record per enumerated file with     *)
(* what the REAL tools did with its text:                                      *)
(*   lines   : the file, as indices into the alphabet (as TLC generated it), or *)
(*   long/toks : for the long-section family, the token lines themselves       *)
(*   lintOk  : lintFile(path, false) returned no error                         *)
(*   after   : content of the path after that call   (lines of tokens)         *)
(*   lint2Ok, after2 : the same for a second call on the result                *)
(*   dups    : the line lists of langlint's "duplicate key" warnings           *)
(*   tin/tout: [ok, tab] the table the real compiler (tools/lang compileFile)  *)
(*             built from the original text / from the content after langlint  *)
(* The contract is evaluated by TLC on every record; failing records are       *)
(* accumulated with the abstract identity of the case (Key).  Separately the   *)
(* two function models of LangFile are compared with the real tools (model     *)
(* conformance: counted, reported, never a property verdict).                  *)
EXTENDS LangFile, Json

VARIABLES i, bad, cmis, agreeA, agreeF

Log == ndJsonDeserialize("io.ndjson")
N   == Len(Log)

InFile(r) == IF r.long THEN r.toks ELSE FileOf(r.lines)
SelfTestBase == 10000000       \* records with larger ids are the driver's deliberately corrupted copies
SeqSet(s) == {s[x] : x \in 1..Len(s)}
TabOf(t)  == [k \in {t[x].k : x \in 1..Len(t)} |-> t[CHOOSE x \in 1..Len(t) : t[x].k = k].v]
DupSets(r) == {SeqSet(r.dups[x]) : x \in 1..Len(r.dups)}

(* domain: the clauses about the table need a table of the original *)
WF(r) == r.tin.ok

Untouched(r, f) == (~r.lintOk) => r.after = f
SameTable(r)    == (r.lintOk /\ WF(r)) => (r.tout.ok /\ TabOf(r.tout.tab) = TabOf(r.tin.tab))
Idempotent(r)   == r.lintOk => (r.lint2Ok /\ r.after2 = r.after)
DupsReported(r, c) == (r.lintOk /\ WF(r) /\ c.ok) => \A k \in AtRisk(c) : Reported(c, k, DupSets(r))

Cause(f, c) == LET ih == IndentedHeader(f)
                   tv == c.ok /\ TrimVariantDup(c)
                   (* a run of more than 12 entries: sort routines change algorithm with the length *)
                   lg == c.ok /\ \E x \in 1..Len(c.defs) : Cardinality({y \in 1..Len(c.defs) : c.defs[y].grp = c.defs[x].grp}) > 12
               IN (IF ih /\ tv THEN "indented-header+trim-variant-duplicate"
                   ELSE IF ih THEN "indented-header"
                   ELSE IF tv THEN "trim-variant-duplicate"
                   ELSE "other")
                  \o (IF lg THEN "/section-longer-than-12" ELSE "")

Failures(r) ==
  LET f == InFile(r)
      c == Compile(f)
  IN    (IF Untouched(r, f) THEN {} ELSE {"touched-on-failure/" \o Cause(f, c)})
   \cup (IF SameTable(r) THEN {} ELSE {(IF r.tout.ok THEN "table-changed/" ELSE "formatted-file-does-not-compile/") \o Cause(f, c)})
   \cup (IF Idempotent(r) THEN {} ELSE {"not-idempotent/" \o Cause(f, c)})
   \cup (IF DupsReported(r, c) THEN {} ELSE {"duplicate-not-reported/" \o Cause(f, c)})

(* model conformance *)
CompileAgrees(r) == LET c == Compile(InFile(r)) IN
                    /\ c.ok = r.tin.ok
                    /\ c.ok => Table(c) = TabOf(r.tin.tab)
LintAgrees(r, impl) == LET l == LintI(InFile(r), impl) IN
                 /\ l.ok = r.lintOk
                 /\ l.ok => (l.out = r.after /\ l.dups = DupSets(r))

TInit == i = 1 /\ bad = {} /\ cmis = {} /\ agreeA = 0 /\ agreeF = 0
TNext == /\ i <= N
         /\ LET r == Log[i] IN
            /\ bad' = bad \cup {[idx |-> i, id |-> r.id, key |-> k] : k \in Failures(r)}
            /\ cmis' = IF CompileAgrees(r) THEN cmis ELSE cmis \cup {r.id}
            /\ agreeA' = IF r.id < SelfTestBase /\ LintAgrees(r, "asis") THEN agreeA + 1 ELSE agreeA
            /\ agreeF' = IF r.id < SelfTestBase /\ LintAgrees(r, "fixed") THEN agreeF + 1 ELSE agreeF
         /\ i' = i + 1
TSpec == TInit /\ [][TNext]_<<i, bad, cmis, agreeA, agreeF>>

Report == (i = N + 1) => PrintT(ToJson([n |-> N, bad |-> bad, compile_model_mismatch |-> cmis, lint_asis_model_agrees |-> agreeA, lint_fixed_model_agrees |-> agreeF]))
=============================================================================

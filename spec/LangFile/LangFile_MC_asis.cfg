SPECIFICATION Spec
CONSTANTS
  Impl = "asis"
  Tier = "quick"
  EmitFiles = FALSE
INVARIANTS Holds
CHECK_DEADLOCK FALSE

SPECIFICATION Spec
CONSTANTS
  Impl = "asis"
  MaxLen = 40
  EmitLens = {13, 14, 17, 24, 33, 40}
INVARIANTS Holds
CHECK_DEADLOCK FALSE

SPECIFICATION Spec
CONSTANTS
  Impl = "fixed"
  Tier = "thorough"
  EmitFiles = TRUE
INVARIANTS Holds Emit
CHECK_DEADLOCK FALSE

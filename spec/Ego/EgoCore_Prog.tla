---------------------------- MODULE EgoCore_Prog ----------------------------
(* The program corpus of C01 / C02 / C04 / C12 as a state space.             *)
(*                                                                           *)
(* A state is one small Ego program, built from a TEMPLATE WITH HOLES        *)
(* (variable ix: family + small indices for the holes: numeric kind, value   *)
(* class, operator, statement form, loop form, call depth ...).  Action Exec *)
(* builds the program (prog, an AST of EgoCore) and runs the reference       *)
(* semantics once per --types mode: out[mode] = [wf, out, status, ec, pv] =  *)
(* the lines the program must print and how it must end.  Invariant Emit     *)
(* prints every post state as JSON; lib/egocore.py pretty-prints the AST as  *)
(* Ego (and Go) source and the checks run it on the real interpreter.        *)
(*                                                                           *)
(* Theorems TLC checks on the corpus (invariants):                           *)
(*   StrictIncluded  (C04) a program strict mode accepts means the same in   *)
(*                   relaxed mode                                            *)
(*   ConfigFree      (C02/C12) the outcome does not depend on the            *)
(*                   performance / diagnostics configuration                 *)
(*   ErrorsClassified, LinesBounded (sanity)                                 *)
(* Negative controls: Impl = "relaxpromote" (relaxed mode promotes a         *)
(* constant like a typed value) must violate StrictIncluded; Impl = "fused"  *)
(* (x = x + k compiled to a fused increment without an int8 case at          *)
(* optimizer level 2 - the defect class named by C02) must violate           *)
(* ConfigFree.                                                               *)
EXTENDS EgoCore, Json

CONSTANTS Tier,     \* "q" quick (seeded choice of kinds / values per family), "t" thorough, "neg" negative controls
          Seed,
          Impl      \* "doc" | "relaxpromote" | "fused"

VARIABLES pc, ix, prog, out
vars == <<pc, ix, prog, out>>

\* ------------------------------------------------------------------ pools
NumKindSeq == <<"int8", "int16", "int32", "int64", "int", "uint8", "uint16", "uint32", "uint64", "uint", "float32", "float64">>
NK == 12
IntKindIdx == 1..10
KI(k) == CHOOSE i \in 1..NK : NumKindSeq[i] = k
Full == Tier \in {"t", "all"}
\* kinds taken by a family (salt): all of them in tiers "t" and "all", three seeded ones otherwise
KSel(salt, n) == IF Full THEN 1..NK ELSE { ((Seed * 5 + salt * 3 + j * 7) % NK) + 1 : j \in 0..(n - 1) }
ISel(salt, n) == IF Full THEN IntKindIdx ELSE { ((Seed * 3 + salt * 7 + j * 3) % 10) + 1 : j \in 0..(n - 1) }
\* one of 1..n, seeded
Pick(a, b, n) == ((Seed * 31 + a * 7 + b * 13) % n) + 1
MinOf(S) == CHOOSE x \in S : \A y \in S : x <= y
\* shapes that do not depend on the numeric kind carry the fixed kind index 5 ("int"), so that their identity does not vary with the seed
KindFree(fam, shapes) == { [fam |-> fam, k |-> 5, s |-> sh] : sh \in shapes }
Thin(h, d) == Full \/ (h + Seed) % d = 0
\* tier "t" takes a seeded quarter of the (very large) family "acc"; tier "all" (used to enumerate known findings) takes everything
ThinT(h, dq, dt) == Tier = "all" \/ (h + Seed) % (IF Tier = "t" THEN dt ELSE dq) = 0

\* value classes of a kind: 1 "3", 2 max, 3 min (signed) / max-1 (unsigned), 4 "100", 5 "1", 6 "0"
BigK(k) == k \in {"uint64", "uint"}                  \* literals above MaxInt64 are not used (Ego reads them as floats)
IZ(k, i) == CASE i = 1 -> ZInt(3)
              [] i = 2 -> IF BigK(k) THEN MaxZ("int64") ELSE MaxZ(k)
              [] i = 3 -> IF Signed(k) THEN MinZ(k) ELSE IF BigK(k) THEN Narrow(ZAdd(MaxZ("int64"), ZInt(-1)), k) ELSE Narrow(ZAdd(MaxZ(k), ZInt(-1)), k)
              [] i = 4 -> ZInt(100)
              [] i = 5 -> ZInt(1)
              [] OTHER -> Z0
FQ == <<12, 4000, -10, 401, 4, 0>>                   \* floats (quarters): 3 1000 -2.5 100.25 1 0
KVal(k, i) == IF k \in IntKinds THEN IntV(k, IZ(k, i)) ELSE FltV(k, FQ[i])
\* the typed literal  K(lit)  for a value of kind k
TLit1(v) == IF v.k \in IntKinds THEN Cv(v.k, LitV(IntV("int", v.z))) ELSE Cv(v.k, LitV(FltV("float64", v.re)))
TL(k, i) == TLit1(KVal(k, i))
TI(k, n) == Cv(k, Lit(n))                             \* K(n), small n
T(k)     == TNum(k)
TInt     == TNum("int")

\* constants used as right operands: 1 "1", 2 "2", 3 "7", 4 "300", 5 "2.0", 6 "2.5", 7 "-1"
ConstE == << Lit(1), Lit(2), Lit(7), Lit(300), LitF(8), LitF(10), Un("-", Lit(1)) >>
NConst == 7

Decl(style, x, k, e) == IF style = "var" THEN SVar(x, T(k), e) ELSE SDef(x, e)
Loop3(n, body) == SFor3("", SDef("i", Lit(0)), Bin("<", V("i"), Lit(n)), SInc(V("i"), "+"), body)
PrA(lbl, x) == SPr(<<PL(lbl), PV(V(x)), PT(V(x))>>)
P0(main) == Prog(<<>>, <<>>, <<>>, <<>>, main)
PF(fns, main) == Prog(<<>>, <<>>, fns, <<>>, main)

\* ------------------------------------------------------------------ family "acc": typed arithmetic inside loops
\* p: k kind, o op (1 + 2 - 3 *), f form (1 asg x = x op R, 2 asgl x = R op x, 3 cas x op= R, 4 inc), r operand (1..NConst constant,
\*    8 variable of the same kind, 9 variable of another kind), v value class, l loop form (1 for3, 2 forc, 3 forr, 4 none), d decl
AccOps == <<"+", "-", "*">>
\* a wider kind where there is one, so that storing the promoted result back into the variable needs a conversion
OtherK(k) == IF k = "int64" THEN "int16" ELSE IF k = "float32" THEN "float64" ELSE IF k = "float64" THEN "float32" ELSE "int64"
AccStep(p, rhs) ==
  LET op == AccOps[p.o]
  IN  CASE p.f = 1 -> SAsg(V("a"), Bin(op, V("a"), rhs))
        [] p.f = 2 -> SAsg(V("a"), Bin(op, rhs, V("a")))
        [] p.f = 3 -> SOpa(V("a"), op, rhs)
        [] OTHER   -> SInc(V("a"), IF p.o = 2 THEN "-" ELSE "+")
FamAcc(p) ==
  LET k   == NumKindSeq[p.k]
      dst == IF p.d = 1 THEN "var" ELSE "def"
      rh  == IF p.r <= NConst THEN ConstE[p.r] ELSE V("b")
      db  == IF p.r = 8 THEN <<Decl(dst, "b", k, TL(k, 1))>>
             ELSE IF p.r = 9 THEN <<Decl(dst, "b", OtherK(k), TI(OtherK(k), 3))>> ELSE <<>>
      st  == AccStep(p, rh)
      lp  == CASE p.l = 1 -> <<Loop3(3, <<st>>)>>
               [] p.l = 2 -> <<SDef("n", Lit(0)), SForC("", Bin("<", V("n"), Lit(3)), <<st, SAsg(V("n"), Bin("+", V("n"), Lit(1)))>>)>>
               [] p.l = 3 -> <<SForR("", "_", "d", SLit(T(k), <<TL(k, 1), TL(k, 5)>>), <<AccStep(p, V("d"))>>)>>
               [] OTHER   -> <<st, PrA("a", "a"), st>>
  IN  P0(<<Decl(dst, "a", k, TL(k, p.v))>> \o (IF p.l = 3 THEN <<>> ELSE db) \o lp \o <<PrA("a", "a")>>)
AccIdx == { p \in [fam : {"acc"}, k : KSel(1, 3), o : 1..3, f : 1..4, r : 1..9, v : {1, 2, 3, 4}, l : 1..4, d : 1..2] :
              /\ (p.f = 4 => p.r = 1 /\ p.o # 3)
              /\ (p.l = 3 => p.r = 8 /\ p.f # 4)
              /\ ThinT(p.k + p.o * 3 + p.f * 5 + p.r * 7 + p.v * 11 + p.l * 13 + p.d * 17, 23, 4) }

\* ------------------------------------------------------------------ family "expr": the expression boundary (a new variable takes the result)
\* p: k kind, o op, r constant, v value class
FamExpr(p) ==
  LET k == NumKindSeq[p.k]
  IN  P0(<<SVar("a", T(k), TL(k, p.v)), SDef("r", Bin(AccOps[p.o], V("a"), ConstE[p.r])), PrA("r", "r"),
           SDef("q", Bin(AccOps[p.o], ConstE[p.r], V("a"))), PrA("q", "q"),
           SIf(Bin(">", Bin(AccOps[p.o], V("a"), ConstE[p.r]), V("a")), <<SPr(<<PL("grew")>>)>>, <<SPr(<<PL("not")>>)>>)>>)
ExprIdx == { p \in [fam : {"expr"}, k : KSel(15, 3), o : 1..3, r : 1..NConst, v : {1, 2, 4}] :
               Thin(p.k + p.o * 3 + p.r * 5 + p.v * 7, IF Full THEN 1 ELSE 4) }

\* ------------------------------------------------------------------ family "cmp": comparison of a typed variable with a constant
\* p: k kind, o (1 < 2 <= 3 != 4 > 5 >=), c constant form (1 integer literal, 2 float literal x.0, 3 lossy x.5), s step (1 n = n + 1, 2 n++, 3 n += 1)
FamCmp(p) ==
  LET k    == NumKindSeq[p.k]
      up   == p.o <= 3
      op   == <<"<", "<=", "!=", ">", ">=">>[p.o]
      lim  == <<4, 3, 4, 2, 3>>[p.o]
      ce   == CASE p.c = 1 -> Lit(lim) [] p.c = 2 -> LitF(4 * lim) [] OTHER -> LitF(4 * lim + 2)
      sg   == IF up THEN "+" ELSE "-"
      step == CASE p.s = 1 -> SAsg(V("n"), Bin(sg, V("n"), Lit(1))) [] p.s = 2 -> SInc(V("n"), sg) [] OTHER -> SOpa(V("n"), sg, Lit(1))
  IN  P0(<< SVar("n", T(k), TI(k, IF up THEN 1 ELSE 5)), SDef("cnt", Lit(0)),
            SForC("", Bin(op, V("n"), ce), <<step, SInc(V("cnt"), "+"), SIf1(Bin(">=", V("cnt"), Lit(6)), <<SBrk("")>>)>>),
            SIf(Bin("==", V("n"), Lit(4)), <<SPr(<<PL("eq")>>)>>, <<SPr(<<PL("ne")>>)>>),
            SPr(<<PL("n"), PV(V("n")), PT(V("n")), PV(V("cnt"))>>) >>)
CmpIdx == { p \in [fam : {"cmp"}, k : KSel(2, 3), o : 1..5, c : 1..3, s : 1..3] : Thin(p.k + p.o * 3 + p.c * 5 + p.s * 7, IF Full THEN 1 ELSE 4) }

\* ------------------------------------------------------------------ family "call": the argument and return boundaries
\* p: pk parameter kind, rk result kind, a argument (1 const 4, 2 const 2.5, 3 const 300, 4 variable of kind ak), ak,
\*    b body (1 return p, 2 return p * 2, 3 return 7, 4 return 2.5, 5 q := p + 1; return q, 6 return p * 2.5)
FamCall(p) ==
  LET pk == NumKindSeq[p.pk]
      rk == NumKindSeq[p.rk]
      ak == NumKindSeq[p.ak]
      body == CASE p.b = 1 -> <<SRet(<<V("p")>>)>>
                [] p.b = 2 -> <<SRet(<<Bin("*", V("p"), Lit(2))>>)>>
                [] p.b = 3 -> <<SRet(<<Lit(7)>>)>>
                [] p.b = 4 -> <<SRet(<<LitF(10)>>)>>
                [] p.b = 5 -> <<SDef("q", Bin("+", V("p"), Lit(1))), SRet(<<V("q")>>)>>
                [] OTHER   -> <<SRet(<<Bin("*", V("p"), LitF(10))>>)>>
      use  == IF p.b \in {3, 4} THEN <<SPr(<<PL("in"), PV(V("p")), PT(V("p"))>>)>> ELSE <<>>
      arg  == CASE p.a = 1 -> Lit(4) [] p.a = 2 -> LitF(10) [] p.a = 3 -> Lit(300) [] OTHER -> V("v")
  IN  PF(<<Fn("f", <<Par("p", T(pk))>>, <<T(rk)>>, use \o body)>>,
         (IF p.a = 4 THEN <<SVar("v", T(ak), TI(ak, 3))>> ELSE <<>>)
         \o <<SPr(<<PL("start")>>), SDef("r", Call(V("f"), <<arg>>)), PrA("r", "r")>>)
Oth(k, j) == (((k - 1) + <<5, 1, 7, 10, 3, 8, 2, 4, 9>>[j]) % NK) + 1                    \* another kind than k (fixed choices, so that identities do not vary with the seed)
CallIdx == { p \in { [fam |-> "call", pk |-> k, rk |-> IF rs = 0 THEN k ELSE Oth(k, rs), a |-> a, ak |-> IF as = 0 THEN k ELSE Oth(k, as + 2), b |-> b] :
                       k \in KSel(3, 3), rs \in 0..(IF Full THEN 3 ELSE 1), a \in 1..4, as \in 0..(IF Full THEN 3 ELSE 1), b \in 1..6 } :
               /\ (p.a # 4 => p.ak = p.pk)
               /\ Thin(p.pk + p.rk * 3 + p.a * 5 + p.ak * 7 + p.b * 11, IF Full THEN 1 ELSE 3) }

\* ------------------------------------------------------------------ family "asgb": the assignment boundary
\* p: k kind of the variable, a (1..NConst constant, 8 variable of kind ak), ak, w (1 x = e with x declared by var, 2 var y K = e, 3 x = e with x := K(1))
FamAsgb(p) ==
  LET k  == NumKindSeq[p.k]
      ak == NumKindSeq[p.ak]
      e  == IF p.a <= NConst THEN ConstE[p.a] ELSE V("v")
  IN  P0((IF p.a = 8 THEN <<Decl(IF p.w = 3 THEN "def" ELSE "var", "v", ak, TI(ak, 3))>> ELSE <<>>)
         \o (IF p.w \in {1, 3} THEN <<Decl(IF p.w = 3 THEN "def" ELSE "var", "x", k, TI(k, 5)), SPr(<<PL("start")>>), SAsg(V("x"), e), PrA("x", "x"),
                                       SAsg(V("x"), Bin("+", V("x"), V("x"))), PrA("x", "x")>>
             ELSE <<SPr(<<PL("start")>>), SVar("y", T(k), e), PrA("y", "y")>>))
AsgbIdx == { p \in { [fam |-> "asgb", k |-> k, a |-> a, ak |-> IF as = 0 THEN k ELSE Oth(k, as + 5), w |-> w] :
                       k \in KSel(6, 3), a \in 1..8, as \in 0..(IF Full THEN 4 ELSE 2), w \in 1..3 } :
               /\ (p.a # 8 => p.ak = p.k)
               /\ Thin(p.k + p.a * 3 + p.ak * 5 + p.w * 7, IF Full THEN 1 ELSE 2) }

\* ------------------------------------------------------------------ family "clos": closures
\* p: k kind, s shape
FamClos(p) ==
  LET k  == NumKindSeq[p.k]
      fk == TFn(<<>>, <<T(k)>>)
  IN  CASE p.s = 1 ->       \* a function that makes counters: each closure owns its variable
           PF(<<Fn("mk", <<Par("step", T(k))>>, <<fk>>,
                   <<SVar("c", T(k), TL(k, 4)),
                     SRet(<<FnE(<<>>, <<T(k)>>, <<SAsg(V("c"), Bin("+", V("c"), V("step"))), SRet(<<V("c")>>)>>)>>)>>)>>,
              <<SDef("c1", Call(V("mk"), <<TI(k, 1)>>)), SDef("c2", Call(V("mk"), <<TI(k, 20)>>)),
                SPr(<<PV(Call(V("c1"), <<>>)), PV(Call(V("c1"), <<>>)), PV(Call(V("c2"), <<>>)), PV(Call(V("c1"), <<>>))>>),
                SDef("r", Call(V("c2"), <<>>)), PrA("r", "r")>>)
        [] p.s = 2 ->       \* closures made in a loop each see their own iteration's variable
           P0(<<SDef("fs", SLit(TFn(<<>>, <<TInt>>), <<>>)),
                Loop3(3, <<SAsg(V("fs"), App(V("fs"), <<FnE(<<>>, <<TInt>>, <<SRet(<<Bin("*", V("i"), Lit(10))>>)>>)>>))>>),
                SForR("", "j", "f", V("fs"), <<SPr(<<PV(V("j")), PV(Call(V("f"), <<>>))>>)>>)>>)
        [] p.s = 3 ->       \* a closure reads the live variable, not a snapshot
           P0(<<SVar("x", T(k), TL(k, 1)), SDef("g", FnE(<<>>, <<T(k)>>, <<SRet(<<V("x")>>)>>)),
                SPr(<<PV(Call(V("g"), <<>>))>>), SAsg(V("x"), Bin("+", V("x"), Lit(1))), SPr(<<PV(Call(V("g"), <<>>))>>),
                SOpa(V("x"), "*", Lit(2)), SDef("r", Call(V("g"), <<>>)), PrA("r", "r")>>)
        [] p.s = 4 ->       \* a closure writes the enclosing function's variable
           P0(<<SVar("total", T(k), TL(k, 4)),
                SDef("add", FnE(<<Par("d", T(k))>>, <<>>, <<SOpa(V("total"), "+", V("d"))>>)),
                SEx(Call(V("add"), <<TI(k, 2)>>)), SEx(Call(V("add"), <<TI(k, 30)>>)),
                Loop3(2, <<SEx(Call(V("add"), <<TI(k, 1)>>))>>), PrA("total", "total")>>)
        [] p.s = 5 ->       \* a closure passed as an argument
           PF(<<Fn("apply", <<Par("f", TFn(<<T(k)>>, <<T(k)>>)), Par("v", T(k))>>, <<T(k)>>,
                   <<SRet(<<Call(V("f"), <<Call(V("f"), <<V("v")>>)>>)>>)>>)>>,
              <<SVar("m", T(k), TI(k, 3)),
                SDef("r", Call(V("apply"), <<FnE(<<Par("a", T(k))>>, <<T(k)>>, <<SRet(<<Bin("*", V("a"), V("m"))>>)>>), TL(k, 4)>>)),
                PrA("r", "r")>>)
        [] OTHER   ->       \* two levels of capture
           PF(<<Fn("adder", <<Par("a", T(k))>>, <<TFn(<<T(k)>>, <<T(k)>>)>>,
                   <<SRet(<<FnE(<<Par("b", T(k))>>, <<T(k)>>, <<SAsg(V("a"), Bin("+", V("a"), V("b"))), SRet(<<V("a")>>)>>)>>)>>)>>,
              <<SDef("ad", Call(V("adder"), <<TL(k, 4)>>)), SPr(<<PV(Call(V("ad"), <<TI(k, 20)>>)), PV(Call(V("ad"), <<TI(k, 20)>>))>>),
                SDef("r", Call(V("ad"), <<TI(k, 1)>>)), PrA("r", "r")>>)
ClosIdx == [fam : {"clos"}, k : KSel(8, 3), s : {1, 3, 4, 5, 6}] \cup KindFree("clos", {2})

\* ------------------------------------------------------------------ family "slice"
FamSlice(p) ==
  LET k == NumKindSeq[p.k]
      sum == <<SVar0("t", T(k)), SForR("", "_", "e", V("s"), <<SAsg(V("t"), Bin("+", V("t"), V("e")))>>), PrA("t", "t")>>
  IN  CASE p.s = 1 -> P0(<<SDef("s", SLit(T(k), <<Lit(1), Lit(2), Lit(3)>>)), SAsg(V("s"), App(V("s"), <<Lit(4), TL(k, 4)>>)),
                          SAsg(Idx(V("s"), Lit(0)), Lit(9)), SPr(<<PL("len"), PV(LenE(V("s")))>>)>> \o sum)
        [] p.s = 2 -> P0(<<SDef("s", SLit(T(k), <<Lit(1), Lit(2), Lit(3)>>)), SPr(<<PV(Idx(V("s"), Lit(2)))>>),
                          SDef("i", Lit(3)), SPr(<<PV(Idx(V("s"), V("i")))>>), SPr(<<PL("unreachable")>>)>>)
        [] p.s = 3 -> P0(<<SDef("s", SLit(T(k), <<Lit(1)>>)), SDef("i", Lit(1)), SPr(<<PL("before")>>),
                          SAsg(Idx(V("s"), V("i")), Lit(5)), SPr(<<PL("unreachable")>>)>>)
        [] p.s = 4 -> P0(<<SVar0("s", TSlice(T(k))), SPr(<<PL("len"), PV(LenE(V("s")))>>),
                          Loop3(4, <<SAsg(V("s"), App(V("s"), <<Cv(k, V("i"))>>))>>),
                          SPr(<<PV(LenE(V("s"))), PV(Idx(V("s"), Lit(2))), PT(Idx(V("s"), Lit(2)))>>)>> \o sum)
        [] p.s = 5 -> P0(<<SDef("s", SLit(T(k), <<TL(k, 1), TL(k, 2), TL(k, 3)>>)),
                          SForR("", "i", "e", V("s"), <<SPr(<<PV(V("i")), PV(V("e")), PT(V("e"))>>)>>)>> \o sum)
        [] p.s = 6 -> P0(<<SDef("s", SLit(TStr, <<Str("a"), Str("b")>>)), SAsg(V("s"), App(V("s"), <<Str("go")>>)), SDef("t", Str("")),
                          SForR("", "i", "e", V("s"), <<SIf1(Bin(">", V("i"), Lit(0)), <<SOpa(V("t"), "+", Str("-"))>>), SOpa(V("t"), "+", V("e"))>>),
                          SPr(<<PV(V("t")), PV(LenE(V("t"))), PV(LenE(V("s")))>>)>>)
        [] OTHER   -> P0(<<SDef("s", SLit(T(k), <<Lit(5), Lit(6), Lit(7)>>)), SVar0("t", T(k)),
                          SFor3("", SDef("i", Lit(0)), Bin("<", V("i"), LenE(V("s"))), SInc(V("i"), "+"),
                                <<SAsg(Idx(V("s"), V("i")), Bin("*", Idx(V("s"), V("i")), Lit(2))), SOpa(V("t"), "+", Idx(V("s"), V("i")))>>),
                          PrA("t", "t"), SPr(<<PV(Idx(V("s"), Lit(1)))>>)>>)
SliceIdx == [fam : {"slice"}, k : KSel(9, 3), s : {1, 2, 3, 4, 5, 7}] \cup KindFree("slice", {6})

\* ------------------------------------------------------------------ family "map"
FamMap(p) ==
  LET k == NumKindSeq[p.k]
  IN  CASE p.s = 1 -> P0(<<SDef("m", MLit(TStr, T(k), <<Str("a"), Str("b")>>, <<Lit(1), Lit(2)>>)), SAsg(Idx(V("m"), Str("k1")), Lit(3)),
                          SMGet("v", "ok", V("m"), Str("a"), TRUE), SPr(<<PV(V("v")), PT(V("v")), PV(V("ok"))>>),
                          SMGet("_", "ok2", V("m"), Str("zz"), TRUE), SPr(<<PV(V("ok2")), PV(LenE(V("m")))>>),
                          SDel("m", Str("a")), SDel("m", Str("nokey")), SMGet("_", "ok", V("m"), Str("a"), FALSE),
                          SPr(<<PV(V("ok")), PV(LenE(V("m")))>>),
                          SAsg(Idx(V("m"), Str("b")), Bin("+", Idx(V("m"), Str("b")), Idx(V("m"), Str("k1")))), SDef("r", Idx(V("m"), Str("b"))), PrA("r", "r")>>)
        [] p.s = 2 -> P0(<<SDef("m", MLit(TInt, TStr, <<>>, <<>>)), SAsg(Idx(V("m"), Lit(1)), Str("a")), SAsg(Idx(V("m"), Lit(2)), Str("b")),
                          SAsg(Idx(V("m"), Lit(1)), Bin("+", Idx(V("m"), Lit(1)), Str("x"))),
                          SMGet("s", "ok", V("m"), Lit(1), TRUE), SPr(<<PV(V("s")), PV(V("ok")), PV(LenE(V("m")))>>),
                          SMGet("_", "ok", V("m"), Lit(3), FALSE), SPr(<<PV(V("ok"))>>)>>)
        [] OTHER   -> P0(<<SDef("m", MLit(TStr, T(k), <<>>, <<>>)),
                          SForR("", "_", "w", SLit(TStr, <<Str("a"), Str("b"), Str("a"), Str("a")>>),
                                <<SMGet("c", "ok", V("m"), V("w"), TRUE),
                                  SIf(V("ok"), <<SAsg(Idx(V("m"), V("w")), Bin("+", V("c"), Lit(1)))>>, <<SAsg(Idx(V("m"), V("w")), Lit(1))>>)>>),
                          SDef("a", Idx(V("m"), Str("a"))), SDef("b", Idx(V("m"), Str("b"))),
                          SPr(<<PV(V("a")), PT(V("a")), PV(V("b")), PV(LenE(V("m")))>>)>>)
MapIdx == [fam : {"map"}, k : KSel(10, 2), s : {1, 3}] \cup KindFree("map", {2})

\* ------------------------------------------------------------------ family "struct": structs and methods
FamStruct(p) ==
  LET k  == NumKindSeq[p.k]
      tp == TypeD("P", <<Par("a", T(k)), Par("b", TStr)>>)
      ms == <<Meth("P", FALSE, "p", "Get", <<>>, <<T(k)>>, <<SRet(<<Fld(V("p"), "a")>>)>>),
              Meth("P", TRUE,  "p", "Set", <<Par("v", T(k))>>, <<>>, <<SAsg(Fld(V("p"), "a"), V("v"))>>),
              Meth("P", FALSE, "p", "Bump", <<>>, <<T(k)>>, <<SAsg(Fld(V("p"), "a"), Bin("+", Fld(V("p"), "a"), Lit(1))), SRet(<<Fld(V("p"), "a")>>)>>),
              Meth("P", TRUE,  "p", "Add", <<Par("d", T(k))>>, <<>>, <<SAsg(Fld(V("p"), "a"), Bin("+", Fld(V("p"), "a"), V("d")))>>),
              Meth("P", FALSE, "p", "Tag", <<Par("s", TStr)>>, <<TStr>>, <<SRet(<<Bin("+", Fld(V("p"), "b"), V("s"))>>)>>)>>
  IN  CASE p.s = 1 -> Prog(<<tp>>, ms, <<>>, <<>>,
                          <<SDef("p", TLit("P", <<"a", "b">>, <<Lit(1), Str("q")>>)), SDef("q", V("p")), SAsg(Fld(V("q"), "a"), Lit(7)),
                            SEx(MCall("p", "Set", <<Lit(9)>>)), SPr(<<PV(Fld(V("p"), "a")), PV(Fld(V("q"), "a")), PV(MCall("p", "Get", <<>>))>>),
                            SPr(<<PV(MCall("q", "Bump", <<>>)), PV(Fld(V("q"), "a")), PV(MCall("q", "Tag", <<Str("x")>>))>>),
                            SDef("r", MCall("q", "Get", <<>>)), PrA("r", "r")>>)
        [] p.s = 2 -> Prog(<<tp>>, ms, <<>>, <<>>,
                          <<SDef("p", TLit("P", <<"a">>, <<TL(k, 4)>>)), SPr(<<PL("b"), PV(LenE(Fld(V("p"), "b")))>>),
                            Loop3(3, <<SEx(MCall("p", "Add", <<TL(k, 4)>>))>>), SDef("r", MCall("p", "Get", <<>>)), PrA("r", "r")>>)
        [] p.s = 3 -> Prog(<<tp>>, ms,
                          <<Fn("chg", <<Par("x", TStruct("P"))>>, <<TStruct("P")>>, <<SAsg(Fld(V("x"), "a"), Lit(5)), SAsg(Fld(V("x"), "b"), Str("z")), SRet(<<V("x")>>)>>)>>, <<>>,
                          <<SVar0("p", TStruct("P")), SPr(<<PV(Fld(V("p"), "a")), PT(Fld(V("p"), "a")), PV(LenE(Fld(V("p"), "b")))>>),
                            SDef("q", Call(V("chg"), <<V("p")>>)),
                            SPr(<<PV(Fld(V("p"), "a")), PV(Fld(V("q"), "a")), PV(Fld(V("q"), "b")), PV(Fld(V("p"), "b"))>>)>>)
        [] OTHER   -> Prog(<<TypeD("Info", <<Par("Age", T(k)), Par("Name", TStr)>>), TypeD("Emp", <<Par("Info", TStruct("Info")), Par("Mgr", TBool)>>)>>,
                          <<Meth("Emp", FALSE, "e", "Older", <<Par("n", T(k))>>, <<T(k)>>, <<SRet(<<Bin("+", Fld(Fld(V("e"), "Info"), "Age"), V("n"))>>)>>)>>, <<>>, <<>>,
                          <<SDef("e", TLit("Emp", <<"Info", "Mgr">>, <<TLit("Info", <<"Age", "Name">>, <<TL(k, 4), Str("ab")>>), Bool(TRUE)>>)),
                            SPr(<<PV(Fld(Fld(V("e"), "Info"), "Age")), PV(Fld(Fld(V("e"), "Info"), "Name")), PV(Fld(V("e"), "Mgr"))>>),
                            SDef("r", MCall("e", "Older", <<TL(k, 4)>>)), PrA("r", "r")>>)
StructIdx == [fam : {"struct"}, k : KSel(11, 3), s : 1..4]

\* ------------------------------------------------------------------ family "switch"
FamSwitch(p) ==
  LET k == NumKindSeq[p.k]
  IN  CASE p.s = 1 -> P0(<<SFor3("", SDef("i", Lit(0)), Bin("<", V("i"), Lit(5)), SInc(V("i"), "+"),
                            <<SSw(V("i"), <<Case(<<Lit(0)>>, <<SPr(<<PL("zero")>>)>>), Case(<<Lit(1), Lit(2)>>, <<SPr(<<PL("low"), PV(V("i"))>>)>>)>>,
                                  <<SPr(<<PL("other"), PV(V("i"))>>)>>)>>)>>)
        [] p.s = 2 -> P0(<<SForR("", "_", "w", SLit(TStr, <<Str("go"), Str("x"), Str("ab"), Str("")>>),
                            <<SSw(V("w"), <<Case(<<Str("go"), Str("ab")>>, <<SPr(<<PL("known"), PV(V("w"))>>)>>), Case(<<Str("")>>, <<SPr(<<PL("empty")>>)>>)>>,
                                  <<SPr(<<PL("other"), PV(V("w"))>>)>>)>>)>>)
        [] p.s = 3 -> P0(<<SForR("", "_", "x", SLit(T(k), <<TL(k, 1), TL(k, 4), TL(k, 2), TL(k, 6)>>),
                            <<SSwT(<<Case(<<Bin(">=", V("x"), Lit(100))>>, <<SPr(<<PL("big"), PV(V("x"))>>)>>),
                                     Case(<<Bin(">", V("x"), Lit(0))>>, <<SPr(<<PL("pos"), PV(V("x"))>>)>>)>>,
                                   <<SPr(<<PL("zero")>>)>>)>>)>>)
        [] p.s = 4 -> P0(<<SFor3("", SDef("i", Lit(0)), Bin("<", V("i"), Lit(5)), SInc(V("i"), "+"),        \* break ends the switch only
                            <<SSwN(V("i"), <<Case(<<Lit(3)>>, <<SPr(<<PL("three")>>), SBrk(""), SPr(<<PL("unreachable")>>)>>),
                                             Case(<<Lit(1)>>, <<SCnt("")>>)>>),
                              SPr(<<PV(V("i"))>>)>>)>>)
        [] p.s = 5 -> P0(<<SFor3("outer", SDef("i", Lit(0)), Bin("<", V("i"), Lit(5)), SInc(V("i"), "+"),   \* labelled break out of a switch
                            <<SSwN(V("i"), <<Case(<<Lit(3)>>, <<SBrk("outer")>>), Case(<<Lit(1)>>, <<SCnt("outer")>>)>>),
                              SPr(<<PV(V("i"))>>)>>), SPr(<<PL("done")>>)>>)
        [] OTHER   -> P0(<<SVar("x", T(k), TL(k, 4)),                                                         \* typed tag against constants
                          SSw(V("x"), <<Case(<<Lit(1), Lit(2)>>, <<SPr(<<PL("small")>>)>>), Case(<<Lit(100)>>, <<SPr(<<PL("hundred")>>)>>)>>, <<SPr(<<PL("other")>>)>>),
                          SSw(Bin("+", V("x"), Lit(1)), <<Case(<<Lit(100)>>, <<SPr(<<PL("hundred")>>)>>)>>, <<SPr(<<PL("other"), PV(Bin("+", V("x"), Lit(1)))>>)>>)>>)
SwitchIdx == [fam : {"switch"}, k : KSel(12, 3), s : {3, 6}] \cup KindFree("switch", {1, 2, 4, 5})

\* ------------------------------------------------------------------ family "loops": nested loops with plain / labelled break and continue
\* p: a action (1 break 2 continue 3 break outer 4 continue outer), i0 j0 site, fo fi loop forms (1 for3 2 forc 3 forr)
MkLoop(form, lab, x, n, body) ==
  CASE form = 1 -> <<SFor3(lab, SDef(x, Lit(0)), Bin("<", V(x), Lit(n)), SInc(V(x), "+"), body)>>
    [] form = 2 -> <<SDef(x, Un("-", Lit(1))), SForC(lab, Bin("<", V(x), Lit(n - 1)), <<SInc(V(x), "+")>> \o body)>>
    [] OTHER    -> <<SForR(lab, x, "_", SLit(TInt, [q \in 1..n |-> Lit(0)]), body)>>
FamLoops(p) ==
  LET act == CASE p.a = 1 -> SBrk("") [] p.a = 2 -> SCnt("") [] p.a = 3 -> SBrk("outer") [] OTHER -> SCnt("outer")
      inner == MkLoop(p.fi, "", "j", 3,
                 <<SIf1(Bin("&&", Bin("==", V("i"), Lit(p.i0)), Bin("==", V("j"), Lit(p.j0))), <<act>>), SPr(<<PV(V("i")), PV(V("j"))>>)>>)
  IN  P0(MkLoop(p.fo, IF p.a >= 3 THEN "outer" ELSE "", "i", 3, inner \o <<SPr(<<PL("end"), PV(V("i"))>>)>>) \o <<SPr(<<PL("done")>>)>>)
LoopsIdx == { p \in [fam : {"loops"}, a : 1..4, i0 : 0..1, j0 : 0..2, fo : 1..3, fi : 1..3] :
                Thin(p.a + p.i0 * 3 + p.j0 * 5 + p.fo * 7 + p.fi * 11, IF Full THEN 1 ELSE 6) }

\* ------------------------------------------------------------------ family "multi": variadics, multiple returns, parallel assignment
FamMulti(p) ==
  LET k == NumKindSeq[p.k]
      fsum == FnVar("sum", <<Par("xs", TSlice(T(k)))>>, <<T(k)>>,
                    <<SVar0("t", T(k)), SForR("", "_", "x", V("xs"), <<SOpa(V("t"), "+", V("x"))>>), SRet(<<V("t")>>)>>)
      fdm  == Fn("divmod", <<Par("a", T(k)), Par("b", T(k))>>, <<T(k), T(k)>>, <<SRet(<<Bin("/", V("a"), V("b")), Bin("%", V("a"), V("b"))>>)>>)
  IN  CASE p.s = 1 -> PF(<<fsum>>, <<SPr(<<PV(Call(V("sum"), <<>>)), PV(Call(V("sum"), <<Lit(5)>>)), PV(Call(V("sum"), <<Lit(1), TL(k, 4), Lit(3)>>))>>),
                                  SDef("s", SLit(T(k), <<TL(k, 4), TL(k, 4), TL(k, 1)>>)), SDef("r", CallSp(V("sum"), <<V("s")>>)), PrA("r", "r")>>)
        [] p.s = 2 -> PF(<<fdm>>, <<SDef2(<<"q", "r">>, Call(V("divmod"), <<TL(k, 4), TI(k, 7)>>)), SPr(<<PV(V("q")), PV(V("r")), PT(V("r"))>>),
                                   SVar0("z", T(k)), SDef2(<<"q2", "_">>, Call(V("divmod"), <<TL(k, 1), V("z")>>)), SPr(<<PL("unreachable"), PV(V("q2"))>>)>>)
        [] p.s = 3 -> P0(<<SVar("a", T(k), TL(k, 1)), SVar("b", T(k), TL(k, 4)), SVar("c", T(k), TL(k, 5)),
                          SAsg2(<<V("a"), V("b")>>, <<V("b"), V("a")>>), SPr(<<PV(V("a")), PV(V("b"))>>),
                          SAsg2(<<V("a"), V("b"), V("c")>>, <<V("b"), V("c"), Bin("+", V("a"), V("b"))>>), SPr(<<PV(V("a")), PV(V("b")), PV(V("c")), PT(V("c"))>>)>>)
        [] p.s = 4 -> PF(<<Fn("info", <<Par("n", T(k))>>, <<T(k), TStr, TBool>>,
                              <<SIf1(Bin(">", V("n"), Lit(50)), <<SRet(<<V("n"), Str("big"), Bool(TRUE)>>)>>), SRet(<<Bin("*", V("n"), Lit(2)), Str("small"), Bool(FALSE)>>)>>)>>,
                         <<SDef2(<<"v", "s", "ok">>, Call(V("info"), <<TL(k, 4)>>)), SPr(<<PV(V("v")), PV(V("s")), PV(V("ok"))>>),
                           SDef2(<<"w", "_", "ok2">>, Call(V("info"), <<TL(k, 1)>>)), SPr(<<PV(V("w")), PT(V("w")), PV(V("ok2"))>>)>>)
        [] p.s = 5 -> PF(<<FnVar("join", <<Par("sep", TStr), Par("xs", TSlice(TStr))>>, <<TStr>>,
                              <<SDef("t", Str("")), SForR("", "i", "x", V("xs"), <<SIf1(Bin(">", V("i"), Lit(0)), <<SOpa(V("t"), "+", V("sep"))>>), SOpa(V("t"), "+", V("x"))>>), SRet(<<V("t")>>)>>)>>,
                         <<SPr(<<PL("j"), PV(Call(V("join"), <<Str("-")>>)), PV(Call(V("join"), <<Str("-"), Str("a")>>)), PV(Call(V("join"), <<Str("+"), Str("a"), Str("b"), Str("go")>>))>>)>>)
        [] p.s = 6 -> PF(<<Fn("say", <<Par("s", TStr)>>, <<TInt>>, <<SPr(<<PL("say"), PV(V("s"))>>), SRet(<<LenE(V("s"))>>)>>),      \* operands in the order written
                           Fn("two", <<>>, <<TInt, TInt>>, <<SRet(<<Call(V("say"), <<Str("a")>>), Call(V("say"), <<Str("ab")>>)>>)>>),
                           Fn("add", <<Par("a", TInt), Par("b", TInt)>>, <<TInt>>, <<SRet(<<Bin("+", V("a"), V("b"))>>)>>)>>,
                         <<SDef2(<<"x", "y">>, Call(V("two"), <<>>)), SPr(<<PV(V("x")), PV(V("y"))>>),
                           SPr(<<PV(Call(V("add"), <<Call(V("say"), <<Str("b")>>), Call(V("say"), <<Str("go")>>)>>))>>),
                           SPr(<<PV(Bin("-", Call(V("say"), <<Str("x")>>), Call(V("say"), <<Str("xy")>>)))>>)>>)
        [] OTHER   -> PF(<<Fn("say", <<Par("s", TStr)>>, <<TInt>>, <<SPr(<<PL("say"), PV(V("s"))>>), SRet(<<LenE(V("s"))>>)>>)>>,               \* parallel definition / assignment with calls
                         <<SDefP(<<"a", "b">>, <<Call(V("say"), <<Str("a")>>), Call(V("say"), <<Str("ab")>>)>>), SPr(<<PV(V("a")), PV(V("b"))>>),
                           SAsg2(<<V("a"), V("b")>>, <<Call(V("say"), <<Str("abc")>>), V("a")>>), SPr(<<PV(V("a")), PV(V("b"))>>)>>)
MultiIdx == [fam : {"multi"}, k : KSel(13, 3), s : 1..4] \cup KindFree("multi", {5, 6, 7})

\* ------------------------------------------------------------------ family "defer": defer / panic / recover
\* p: s shape, d depth of the panic (1..3), r level that recovers (0 none, 1..d)
Chain(p) ==      \* f1 calls f2 calls f3; the panic is raised in f<d>; level r recovers
  [n \in 1..3 |->
     Fn("f" \o ToString(n), <<Par("x", TInt)>>, <<TInt>>,
        (IF p.r = n THEN <<SDefer(Call(FnE(<<>>, <<>>, <<SDef("e", Rec), SPr(<<PL("rec" \o ToString(n)), PV(V("e"))>>)>>), <<>>))>>
         ELSE <<SDeferPr(<<PL("d" \o ToString(n)), PV(V("x"))>>)>>)
        \o <<SPr(<<PL("in" \o ToString(n))>>)>>
        \o (IF p.d = n THEN <<SIf1(Bin(">", V("x"), Lit(0)), <<SPanic(Str("p" \o ToString(n)))>>)>>
            ELSE IF n < 3 THEN <<SDef("y", Call(V("f" \o ToString(n + 1)), <<Bin("+", V("x"), Lit(1))>>)), SPr(<<PL("back" \o ToString(n)), PV(V("y"))>>)>> ELSE <<>>)
        \o <<SRet(<<Bin("*", V("x"), Lit(10))>>)>>)]
FamDefer(p) ==
  CASE p.s = 1 -> PF(<<Fn("note", <<Par("s", TStr), Par("n", TInt)>>, <<>>, <<SPr(<<PL("note"), PV(V("s")), PV(V("n"))>>)>>),
                      Fn("work", <<>>, <<TInt>>,
                         <<SDef("x", Lit(1)), SDefer(Call(V("note"), <<Str("a"), V("x")>>)), SAsg(V("x"), Lit(2)), SDeferPr(<<PL("pr"), PV(V("x"))>>),
                           SAsg(V("x"), Lit(3)), SDefer(Call(FnE(<<>>, <<>>, <<SPr(<<PL("clo"), PV(V("x"))>>), SAsg(V("x"), Lit(50))>>), <<>>)),
                           SAsg(V("x"), Lit(4)), SPr(<<PL("body"), PV(V("x"))>>), SRet(<<V("x")>>)>>)>>,
                     <<SPr(<<PL("r"), PV(Call(V("work"), <<>>))>>)>>)
    [] p.s = 2 -> PF(<<Fn("work", <<>>, <<>>, <<Loop3(3, <<SDeferPr(<<PL("i"), PV(V("i"))>>)>>),
                                                SFor3("", SDef("j", Lit(0)), Bin("<", V("j"), Lit(2)), SInc(V("j"), "+"),
                                                      <<SDefer(Call(FnE(<<Par("n", TInt)>>, <<>>, <<SPr(<<PL("j"), PV(V("n"))>>)>>), <<V("j")>>))>>),
                                                SPr(<<PL("end")>>)>>)>>,
                     <<SEx(Call(V("work"), <<>>)), SPr(<<PL("after")>>)>>)
    [] p.s = 3 -> PF(Chain(p), <<SDeferPr(<<PL("main-deferred")>>), SDef("v", Call(V("f1"), <<Lit(1)>>)), SPr(<<PL("v"), PV(V("v"))>>),
                                 SDef("w", Call(V("f" \o ToString(p.d)), <<Lit(0)>>)), SPr(<<PL("w"), PV(V("w"))>>)>>)
    [] p.s = 4 -> PF(<<Fn("try", <<>>, <<>>, <<SDefer(Call(FnE(<<>>, <<>>, <<SDef("e", Rec), SPr(<<PL("rec"), PV(V("e"))>>),
                                                                          SDef("e2", Rec), SPr(<<PL("again"), PV(V("e2"))>>)>>), <<>>)),
                                               SPr(<<PL("no panic")>>)>>)>>,
                     <<SEx(Call(V("try"), <<>>)), SDef("e", Rec), SPr(<<PL("main"), PV(V("e"))>>)>>)
    [] p.s = 5 -> PF(<<Fn("work", <<Par("n", TInt)>>, <<TInt>>,
                          <<SDef("t", Lit(0)),
                            SDefer(Call(FnE(<<>>, <<>>, <<SDef("e", Rec), SPr(<<PL("rec"), PV(V("e")), PV(V("t"))>>)>>), <<>>)),
                            Loop3(5, <<SIf1(Bin("==", V("i"), V("n")), <<SPanic(Str("at"))>>), SOpa(V("t"), "+", V("i")), SPr(<<PL("t"), PV(V("t"))>>)>>),
                            SRet(<<V("t")>>)>>)>>,
                     <<SPr(<<PL("a"), PV(Call(V("work"), <<Lit(2)>>))>>), SPr(<<PL("b"), PV(Call(V("work"), <<Lit(9)>>))>>)>>)
    [] OTHER   -> PF(<<Fn("work", <<>>, <<>>,
                          <<SDef("x", Lit(1)),
                            SDefer(Call(FnE(<<>>, <<>>, <<SPr(<<PL("last"), PV(V("x"))>>)>>), <<>>)),
                            SDefer(Call(FnE(<<>>, <<>>, <<SOpa(V("x"), "*", Lit(10))>>), <<>>)),
                            SOpa(V("x"), "+", Lit(1))>>)>>,
                     <<SEx(Call(V("work"), <<>>))>>)
DeferIdx == { p \in [fam : {"defer"}, s : 1..6, d : 1..3, r : 0..3] : /\ p.r <= p.d
                                                                     /\ (p.s # 3 => p.d = 1 /\ p.r = 0) }

\* ------------------------------------------------------------------ family "text": strings and booleans
FamText(p) ==
  CASE p.s = 1 -> P0(<<SDef("s", Str("")), Loop3(3, <<SOpa(V("s"), "+", Str("ab"))>>), SPr(<<PV(V("s")), PV(LenE(V("s"))), PT(V("s"))>>),
                      SDef("a", Str("ab")), SDef("b", Str("b")),
                      SPr(<<PV(Bin("<", V("a"), V("b"))), PV(Bin(">=", V("a"), V("b"))), PV(Bin("==", V("a"), Str("ab"))), PV(Bin("!=", V("a"), V("b"))),
                            PV(Bin("==", Bin("+", V("a"), V("b")), Str("abb")))>>),
                      SIf(Bin("<", V("b"), Str("ba")), <<SPr(<<PL("lt")>>)>>, <<SPr(<<PL("ge")>>)>>)>>)
    [] p.s = 2 -> PF(<<Fn("yes", <<Par("s", TStr)>>, <<TBool>>, <<SPr(<<PL("yes"), PV(V("s"))>>), SRet(<<Bool(TRUE)>>)>>),
                      Fn("no", <<Par("s", TStr)>>, <<TBool>>, <<SPr(<<PL("no"), PV(V("s"))>>), SRet(<<Bool(FALSE)>>)>>)>>,
                     <<SIf(Bin("&&", Call(V("no"), <<Str("a")>>), Call(V("yes"), <<Str("b")>>)), <<SPr(<<PL("T1")>>)>>, <<SPr(<<PL("F1")>>)>>),
                       SIf(Bin("||", Call(V("yes"), <<Str("x")>>), Call(V("no"), <<Str("y")>>)), <<SPr(<<PL("T2")>>)>>, <<SPr(<<PL("F2")>>)>>),
                       SDef("b", Bin("&&", Call(V("yes"), <<Str("z")>>), Un("!", Call(V("no"), <<Str("go")>>)))), SPr(<<PV(V("b")), PT(V("b"))>>),
                       SDef("c", Bin("||", Bin("==", V("b"), Bool(FALSE)), Call(V("no"), <<Str("k1")>>))), SPr(<<PV(V("c"))>>)>>)
    [] OTHER   -> P0(<<SDef("t", Lit(0)),
                      SFor3("", SDef("i", Lit(0)), Bin("<", V("i"), Lit(6)), SInc(V("i"), "+"),
                            <<SIf(Bin("==", Bin("%", V("i"), Lit(2)), Lit(0)), <<SOpa(V("t"), "+", V("i"))>>,
                                  <<SIf(Bin(">", V("i"), Lit(3)), <<SOpa(V("t"), "-", Lit(1))>>, <<SOpa(V("t"), "*", Lit(2))>>)>>)>>),
                      SPr(<<PV(V("t")), PT(V("t"))>>)>>)
TextIdx == [fam : {"text"}, s : 1..3]

\* ------------------------------------------------------------------ family "glob": package-level variables
FamGlob(p) ==
  LET k == NumKindSeq[p.k]
  IN  Prog(<<>>, <<>>,
           <<Fn("bump", <<>>, <<>>, <<SAsg(V("g"), Bin("+", V("g"), Lit(1))), SOpa(V("name"), "+", Str("x"))>>),
             Fn("get", <<>>, <<T(k)>>, <<SRet(<<V("g")>>)>>)>>,
           <<Glob("g", T(k), TL(k, p.v)), Glob("name", TStr, Str("a"))>>,
           <<Loop3(3, <<SEx(Call(V("bump"), <<>>))>>), SDef("r", Call(V("get"), <<>>)), PrA("r", "r"),
             SDef("f", FnE(<<>>, <<>>, <<SOpa(V("g"), "*", Lit(2))>>)), SEx(Call(V("f"), <<>>)), SPr(<<PV(V("g")), PT(V("g")), PV(V("name"))>>)>>)
GlobIdx == [fam : {"glob"}, k : KSel(14, 3), v : {2, 4}]

\* ------------------------------------------------------------------ the table
NegIdx == { [fam |-> "acc", k |-> kk, o |-> 1, f |-> 1, r |-> rr, v |-> 4, l |-> ll, d |-> 1] : kk \in {1, 3, 6}, rr \in {1, 4}, ll \in {1, 4} }
          \cup { [fam |-> "expr", k |-> kk, o |-> 1, r |-> 1, v |-> vv] : kk \in {1, 3}, vv \in {2, 4} }
Index == IF Tier = "neg" THEN NegIdx
         ELSE AccIdx \cup ExprIdx \cup CmpIdx \cup CallIdx \cup AsgbIdx \cup ClosIdx \cup SliceIdx \cup MapIdx \cup StructIdx \cup SwitchIdx
              \cup LoopsIdx \cup MultiIdx \cup DeferIdx \cup TextIdx \cup GlobIdx
Build(p) == CASE p.fam = "acc" -> FamAcc(p) [] p.fam = "expr" -> FamExpr(p) [] p.fam = "cmp" -> FamCmp(p) [] p.fam = "call" -> FamCall(p) [] p.fam = "asgb" -> FamAsgb(p)
              [] p.fam = "clos" -> FamClos(p) [] p.fam = "slice" -> FamSlice(p) [] p.fam = "map" -> FamMap(p) [] p.fam = "struct" -> FamStruct(p)
              [] p.fam = "switch" -> FamSwitch(p) [] p.fam = "loops" -> FamLoops(p) [] p.fam = "multi" -> FamMulti(p) [] p.fam = "defer" -> FamDefer(p)
              [] p.fam = "text" -> FamText(p) [] p.fam = "glob" -> FamGlob(p)

\* abstract identity of a case: the family and every hole except the value class
Fields == <<"k", "pk", "rk", "ak", "o", "f", "r", "l", "d", "c", "s", "a", "b", "w", "i0", "j0", "fo", "fi">>
KindFields == {"k", "pk", "rk", "ak"}
Key(p) == FoldLeft(LAMBDA acc, f : IF f \in DOMAIN p
                                    THEN acc \o "/" \o f \o "=" \o (IF f \in KindFields THEN NumKindSeq[p[f]] ELSE ToString(p[f]))
                                    ELSE acc, p.fam, Fields)

\* ------------------------------------------------------------------ the state machine
\* performance / diagnostics configurations: NOT an input of the semantics (that is the property); Impl = "fused" is the
\* negative control in which the compiler's fused increment lacks an int8 case at optimizer level 2
Cfgs == IF Impl = "fused" THEN {"o0", "o2"} ELSE {"any"}
FusedHit(P, cfg) == Impl = "fused" /\ cfg = "o2"
                    /\ \E i \in DOMAIN P.main : /\ P.main[i].s = "var" /\ P.main[i].ty = TNum("int8")
RunCfg(P, m, cfg) == LET o == Observe(RunProg(P, m, IF Impl = "fused" THEN "doc" ELSE Impl))
                     IN  IF FusedHit(P, cfg) THEN [o EXCEPT !.status = "error", !.ec = "type", !.out = <<>>] ELSE o

NoProg == P0(<<>>)
NoOut  == [m \in Modes |-> [c \in Cfgs |-> [wf |-> FALSE, out |-> <<>>, status |-> "bad", ec |-> "", pv |-> ""]]]
Init == pc = "pre" /\ ix \in Index /\ prog = NoProg /\ out = NoOut
Exec == /\ pc = "pre"
        /\ pc' = "post"
        /\ prog' = Build(ix)
        /\ out' = [m \in Modes |-> [c \in Cfgs |-> RunCfg(prog', m, c)]]
        /\ UNCHANGED ix
Next == Exec
Spec == Init /\ [][Next]_vars

AnyCfg == One1(Cfgs)
Exp(m) == out[m][AnyCfg]
Rec1 == [key |-> Key(ix), fam |-> ix.fam, prog |-> prog, exp |-> [m \in Modes |-> Exp(m)]]
Emit == pc = "post" /\ (\E m \in Modes : Exp(m).wf) => PrintT(ToJson(Rec1))

\* ------------------------------------------------------------------ theorems
Post == pc = "post"
\* C04: strict mode only removes programs
TypeRejected(o) == o.status = "error" /\ o.ec = "type"
StrictIncluded == Post /\ Exp("strict").wf /\ ~TypeRejected(Exp("strict")) =>
                    /\ Exp("relaxed").wf
                    /\ Exp("relaxed").out = Exp("strict").out /\ Exp("relaxed").status = Exp("strict").status
                    /\ Exp("relaxed").ec = Exp("strict").ec /\ Exp("relaxed").pv = Exp("strict").pv
\* C02 / C12: no configuration changes the outcome
ConfigFree == Post => \A m \in Modes : \A c1, c2 \in Cfgs : out[m][c1] = out[m][c2]
ErrorsClassified == Post => \A m \in Modes : Exp(m).wf =>
                      /\ (Exp(m).status = "error") = (Exp(m).ec \in {"type", "div0", "index"})
                      /\ (Exp(m).status = "panic") = (Exp(m).pv # "")
LinesBounded == Post => \A m \in Modes : Len(Exp(m).out) <= MaxLines
TypeOK == pc \in {"pre", "post"} /\ DOMAIN out = Modes
=============================================================================

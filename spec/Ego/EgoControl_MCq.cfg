SPECIFICATION Spec
CONSTANTS
  MaxStm = 3
  MinStm = 0
  MaxFn = 2
  MaxNest = 2
  MaxDefer = 2
  Iter = 2
  Impl = "fixed"
INVARIANTS TryStackSound DefersOnce PanicSound NoWedge EndSound
CHECK_DEADLOCK FALSE

INIT Init
NEXT Next
CONSTANTS
  Tier = "neg"
  Seed = 1
  Impl = "fused"
INVARIANTS TypeOK ConfigFree
CHECK_DEADLOCK FALSE

--------------------------- MODULE EgoControl_Gen ---------------------------
(* Case generator for binding R: every finished behaviour of EgoControl is  *)
(* printed as one JSON record (program + the lines it must print + how it   *)
(* must end).  BFS = every program at the bound; -simulate = random sample. *)
(* Record format (consumed by lib/egoctl.py; documented in notes/C10.md):   *)
(*   toks   : the program as a token string list ("try" "call2" "end" ...)  *)
(*   fns    : the program as an AST: list of function bodies; a statement is *)
(*            {k, id, a, b, f, hc}: kind, pre-order id, try body / loop body,*)
(*            catch body, callee index, has-catch-clause                    *)
(*   out    : expected stdout lines;  status : ok | error | panic           *)
(*   pv     : expected panic value when status = panic                      *)
(*   mask   : marker prefixes whose presence is unspecified (see EgoControl) *)
(*   feat   : features of the execution used to classify a divergence       *)
(*   solo   : the case must not share a process with other cases            *)
EXTENDS EgoControl, Json

TokStr(t) == IF t.t = "call" THEN "call" \o ToString(t.f) ELSE t.t
CaseRec == [toks |-> [i \in DOMAIN toks |-> TokStr(toks[i])],
            fns |-> fns, out |-> out, status |-> status,
            pv |-> IF status = "panic" THEN "p" \o ToString(pan.v) ELSE "",
            mask |-> mask, feat |-> feat,
            solo |-> (status # "ok" \/ feat # {})]

Emit == ~Finished \/ PrintT(ToJson(CaseRec))
=============================================================================

INIT Init
NEXT Next
CONSTANTS
  Tier = "neg"
  Seed = 1
  Impl = "relaxpromote"
INVARIANTS TypeOK StrictIncluded
CHECK_DEADLOCK FALSE

------------------------------ MODULE EgoTypes ------------------------------
(* Numeric kinds, values and the typing rules of Ego arithmetic as written   *)
(* in docs/LANGUAGE.md ("Base Types", "Operators", "Type Conversions",       *)
(* "@type").  Pure operators only (no variables): the state machines that    *)
(* enumerate programs (EgoTypes_Arith for C03; later EgoCore) build on it.    *)
(*                                                                           *)
(* TLC integers are 32 bit, the language has 64-bit kinds, so integer values *)
(* are carried as 64-bit two's complement numbers made of 8 limbs (base 256, *)
(* least significant first): the value of an integer of kind k is the        *)
(* canonical extension (sign extension for signed kinds, zero extension for  *)
(* unsigned ones) of its Bits(k)-bit pattern.  Conversion between integer    *)
(* kinds is then exactly Go's: keep the low Bits(k) bits, re-extend.         *)
(* Floating values are carried exactly as a count of quarters (2.5 = 10);    *)
(* the module only claims operations whose result is exact in the result     *)
(* type (field ok = FALSE otherwise: the case is outside the domain).        *)
EXTENDS Integers, Sequences, FiniteSets, TLC, SequencesExt

\* ------------------------------------------------------------------ kinds
SIntKinds    == {"int8", "int16", "int32", "int64", "int"}
UIntKinds    == {"uint8", "uint16", "uint32", "uint64", "uint"}
IntKinds     == SIntKinds \cup UIntKinds
FloatKinds   == {"float32", "float64"}
ComplexKinds == {"complex64", "complex128"}
Kinds        == IntKinds \cup FloatKinds \cup ComplexKinds

KindSeq == <<"int8", "int16", "int32", "int64", "int", "uint8", "uint16", "uint32", "uint64", "uint",
             "float32", "float64", "complex64", "complex128">>
KIdx(k) == CHOOSE i \in 1..Len(KindSeq) : KindSeq[i] = k

Bits(k) == CASE k \in {"int8", "uint8"}   -> 8
             [] k \in {"int16", "uint16"} -> 16
             [] k \in {"int32", "uint32"} -> 32
             [] OTHER                     -> 64      \* int, uint are 64 bit ("in all current ports")
Signed(k)   == k \in SIntKinds
Family(k)   == IF k \in IntKinds THEN 1 ELSE IF k \in FloatKinds THEN 2 ELSE 3
MantBits(k) == IF k \in {"float32", "complex64"} THEN 24 ELSE 53

\* ------------------------------------------------------------------ 64-bit numbers
Z0   == [i \in 1..8 |-> 0]
Pow256 == <<1, 256, 65536, 16777216>>
Pow2   == <<1, 2, 4, 8, 16, 32, 64, 128>>

ZNat(n) == [i \in 1..8 |-> IF i <= 4 THEN (n \div Pow256[i]) % 256 ELSE 0]        \* 0 <= n < 2^31

Idx8 == <<1, 2, 3, 4, 5, 6, 7, 8>>
\* (limb-by-limb loops are written as folds: TLC runs FoldLeft iteratively, with evaluated accumulators)
ZAddC(a, b, cin) ==
  FoldLeft(LAMBDA st, i : LET t == a[i] + b[i] + st.c IN [z |-> Append(st.z, t % 256), c |-> t \div 256],
           [z |-> <<>>, c |-> cin], Idx8).z
ZNot(a)    == [i \in 1..8 |-> 255 - a[i]]
ZAdd(a, b) == ZAddC(a, b, 0)
ZSub(a, b) == ZAddC(a, ZNot(b), 1)
ZNeg(a)    == ZAddC(ZNot(a), Z0, 1)
ZInt(n)    == IF n >= 0 THEN ZNat(n) ELSE ZNeg(ZNat(0 - n))                         \* |n| < 2^31

ZMul(a, b) ==                                                                     \* low 64 bits of the product
  FoldLeft(LAMBDA st, k : LET t == FoldLeft(LAMBDA acc, i : acc + a[i] * b[k + 1 - i], st.c, SubSeq(Idx8, 1, k))
                          IN  [z |-> Append(st.z, t % 256), c |-> t \div 256],
           [z |-> <<>>, c |-> 0], Idx8).z

ZLtU(a, b) == \E i \in 1..8 : a[i] < b[i] /\ \A j \in (i+1)..8 : a[j] = b[j]       \* unsigned <
ZNegS(a)   == a[8] >= 128                                                          \* negative as a signed 64-bit number
ZAbsS(a)   == IF ZNegS(a) THEN ZNeg(a) ELSE a                                      \* magnitude, as an unsigned number

Narrow(z, k) ==                                                                   \* Go's integer conversion to kind k
  LET nb  == Bits(k) \div 8
      ext == IF Signed(k) /\ z[nb] >= 128 THEN 255 ELSE 0
  IN  [i \in 1..8 |-> IF i <= nb THEN z[i] ELSE ext]

MaxZ(k) == LET nb == Bits(k) \div 8
           IN  [i \in 1..8 |-> IF i > nb THEN 0 ELSE IF i = nb /\ Signed(k) THEN 127 ELSE 255]
MinZ(k) == LET nb == Bits(k) \div 8                                                \* signed kinds; for unsigned kinds: 0
           IN  IF Signed(k) THEN [i \in 1..8 |-> IF i < nb THEN 0 ELSE IF i = nb THEN 128 ELSE 255] ELSE Z0

Fits31(z)  == z[5] = 0 /\ z[6] = 0 /\ z[7] = 0 /\ z[8] = 0 /\ z[4] < 128
NatOfZ(z)  == z[1] + 256 * z[2] + 65536 * z[3] + 16777216 * z[4]                   \* when Fits31(z)

\* unsigned division by a small divisor 0 < d <= 2^23 (limb by limb from the top)
ZDivSmall(a, d) ==
  LET st == FoldLeft(LAMBDA acc, i : LET t == acc.r * 256 + a[9 - i] IN [q |-> <<t \div d>> \o acc.q, r |-> t % d],
                     [q |-> <<>>, r |-> 0], Idx8)
  IN  [q |-> st.q, r |-> ZNat(st.r)]

ZBit(a, i)    == (a[(i \div 8) + 1] \div Pow2[(i % 8) + 1]) % 2                      \* i in 0..63
ZSetBit(a, i) == [a EXCEPT ![(i \div 8) + 1] = @ + Pow2[(i % 8) + 1]]
ZShl1(a, bit) == LET st == FoldLeft(LAMBDA acc, i : LET t == 2 * a[i] + acc.c IN [z |-> Append(acc.z, t % 256), c |-> t \div 256],
                                    [z |-> <<>>, c |-> bit], Idx8)
                 IN  [z |-> st.z, c |-> st.c]
BitsDown == [j \in 1..64 |-> 64 - j]
ZDivStep(a, d, st, i) ==                                                          \* restoring division, one bit
  LET s  == ZShl1(st.r, ZBit(a, i))
      ge == s.c = 1 \/ ~ZLtU(s.z, d)
  IN  [q |-> IF ge THEN ZSetBit(st.q, i) ELSE st.q, r |-> IF ge THEN ZSub(s.z, d) ELSE s.z]
ZDivBits(a, d) == FoldLeft(LAMBDA st, i : ZDivStep(a, d, st, i), [q |-> Z0, r |-> Z0], BitsDown)   \* any divisor # 0
ZDivModU(a, d) == IF Fits31(d) /\ NatOfZ(d) <= 8388608 THEN ZDivSmall(a, NatOfZ(d)) ELSE ZDivBits(a, d)

\* Go's truncated division of two integers of kind k (d # 0); the results wrap like Go (MinInt / -1 = MinInt)
ZDivK(a, d, k) ==
  IF ~Signed(k) THEN LET u == ZDivModU(a, d) IN [q |-> u.q, r |-> u.r]
  ELSE LET u == ZDivModU(ZAbsS(a), ZAbsS(d))
       IN  [q |-> Narrow(IF ZNegS(a) # ZNegS(d) THEN ZNeg(u.q) ELSE u.q, k),
            r |-> Narrow(IF ZNegS(a) THEN ZNeg(u.r) ELSE u.r, k)]

\* decimal text, four digits at a time
Pad4(n) == (IF n < 10 THEN "000" ELSE IF n < 100 THEN "00" ELSE IF n < 1000 THEN "0" ELSE "") \o ToString(n)
RECURSIVE DecU(_)
DecU(z)      == IF Fits31(z) THEN ToString(NatOfZ(z))
                ELSE LET d == ZDivSmall(z, 10000) IN DecU(d.q) \o Pad4(NatOfZ(d.r))
DecUns(z)    == DecU(z)
DecS(z)      == IF ZNegS(z) THEN "-" \o DecUns(ZNeg(z)) ELSE DecUns(z)               \* as a signed 64-bit number
DecOf(z, k)  == IF Signed(k) THEN DecS(z) ELSE DecUns(z)                            \* as a number of kind k

\* ------------------------------------------------------------------ values
\* one record shape for every kind (TLC cannot compare records of different shapes):
\*   integers use z; floats use re (quarters); complex use re, im (quarters)
IntV(k, z)      == [k |-> k, z |-> z,  re |-> 0,  im |-> 0]
FltV(k, q)      == [k |-> k, z |-> Z0, re |-> q,  im |-> 0]
CpxV(k, re, im) == [k |-> k, z |-> Z0, re |-> re, im |-> im]
V0 == IntV("int", Z0)

Abs(n) == IF n < 0 THEN 0 - n ELSE n
RECURSIVE OddPart(_)
OddPart(n) == IF n = 0 \/ n % 2 = 1 THEN n ELSE OddPart(n \div 2)
MantFits(q, k) == MantBits(k) = 53 \/ OddPart(Abs(q)) < 16777216                    \* |q| < 2^31 always fits 53 bits
FBound == 8388608                                                                 \* quarters: floats in play stay below 2^21

QLit(q) == (IF q < 0 THEN "-" ELSE "") \o ToString(Abs(q) \div 4) \o <<".0", ".25", ".5", ".75">>[(Abs(q) % 4) + 1]
\* canonical value text (what the harness parses printed output back to)
ValStr(v) == IF v.k \in IntKinds THEN DecOf(v.z, v.k)
             ELSE IF v.k \in FloatKinds THEN ToString(v.re)
             ELSE ToString(v.re) \o "," \o ToString(v.im)
\* literal source text denoting the value (Go and Ego), without the conversion to kind k around it
LitStr(v) == IF v.k \in IntKinds THEN DecOf(v.z, v.k)
             ELSE IF v.k \in FloatKinds THEN QLit(v.re)
             ELSE "complex(" \o QLit(v.re) \o ", " \o QLit(v.im) \o ")"
\* the same number written as a signed 64-bit literal (Ego reads integer literals above MaxInt64 as floats,
\* so the harness initialises such a variable by converting the two's complement literal)
SLitStr(v) == IF v.k \in IntKinds THEN DecS(v.z) ELSE LitStr(v)

\* ------------------------------------------------------------------ conversion  ("Type Conversions", precision.error=false)
\* result: d   = this module decides the conversion at all (FALSE: outside the domain)
\*         ll  = the conversion loses no information (the strict-mode rule for constants)
\*         ok  = the converted value v is defined here (a lossy conversion may be decided but its value not modelled)
SmallZ(z, k)  == LET m == IF Signed(k) THEN ZAbsS(z) ELSE z IN Fits31(m) /\ NatOfZ(m) < 1048576
SmallInt(z, k) == IF Signed(k) /\ ZNegS(z) THEN 0 - NatOfZ(ZNeg(z)) ELSE NatOfZ(z)
Trunc4(q) == IF q >= 0 THEN q \div 4 ELSE 0 - ((0 - q) \div 4)                       \* toward zero

BadC == [d |-> FALSE, ok |-> FALSE, ll |-> FALSE, v |-> V0]
Exact(b, v) == IF b THEN [d |-> TRUE, ok |-> TRUE, ll |-> TRUE, v |-> v] ELSE BadC
Conv(v, k) ==
  IF v.k = k THEN Exact(TRUE, v)
  ELSE IF v.k \in IntKinds THEN
     IF k \in IntKinds
     THEN LET z2 == Narrow(v.z, k)                            \* "silently wraps"
          IN  [d |-> TRUE, ok |-> TRUE, ll |-> (z2 = v.z /\ (Signed(v.k) = Signed(k) \/ v.z[8] < 128)), v |-> IntV(k, z2)]
     ELSE IF SmallZ(v.z, v.k) /\ MantFits(SmallInt(v.z, v.k), k)
          THEN LET q == 4 * SmallInt(v.z, v.k)
               IN  Exact(TRUE, IF k \in FloatKinds THEN FltV(k, q) ELSE CpxV(k, q, 0))
          ELSE BadC                                          \* inexact / large int -> float conversions are not modelled
  ELSE IF v.k \in FloatKinds THEN
     IF k \in FloatKinds THEN Exact(MantFits(v.re, k), FltV(k, v.re))
     ELSE IF k \in ComplexKinds THEN Exact(MantFits(v.re, k), CpxV(k, v.re, 0))
     ELSE LET n    == Trunc4(v.re)                            \* float -> integer: "truncated toward zero"
              zi   == ZInt(n)
              z2   == Narrow(zi, k)
              fits == z2 = zi /\ (Signed(k) \/ n >= 0)
          IN  [d |-> TRUE, ok |-> fits, ll |-> fits /\ v.re % 4 = 0, v |-> IntV(k, z2)]
  ELSE IF k \in ComplexKinds
       THEN Exact(MantFits(v.re, k) /\ MantFits(v.im, k), CpxV(k, v.re, v.im))
       ELSE BadC                                             \* complex -> real: not documented

\* ------------------------------------------------------------------ promotion of two typed operands (dynamic / relaxed)
\* "converted to whichever type loses the least precision", "promoted to the most complex type in the expression",
\* "10.0/3 ... converts the integer to a floating point value": integer < float < complex; inside a family the kind
\* that holds every value of the other; where neither (or each) holds the other the reference does not choose: either.
ContainsK(a, b) ==
  IF a \in IntKinds THEN (Signed(a) = Signed(b) /\ Bits(a) >= Bits(b)) \/ (Signed(a) /\ ~Signed(b) /\ Bits(a) > Bits(b))
  ELSE MantBits(a) >= MantBits(b)
PromoteKinds(a, b) ==
  IF a = b THEN {a}
  ELSE IF Family(a) > Family(b) THEN {a}
  ELSE IF Family(b) > Family(a) THEN {b}
  ELSE IF ContainsK(a, b) /\ ~ContainsK(b, a) THEN {a}
  ELSE IF ContainsK(b, a) /\ ~ContainsK(a, b) THEN {b}
  ELSE {a, b}

\* ------------------------------------------------------------------ results
\* ok: inside the domain;  err: the operation is rejected;  v: the value otherwise
BadR    == [ok |-> FALSE, err |-> FALSE, v |-> V0]
ErrR    == [ok |-> TRUE,  err |-> TRUE,  v |-> V0]
Good(v) == [ok |-> TRUE,  err |-> FALSE, v |-> v]
FGood(v) == IF Abs(v.re) < FBound /\ Abs(v.im) < FBound /\ MantFits(v.re, v.k) /\ MantFits(v.im, v.k) THEN Good(v) ELSE BadR
\* products and quotients: a zero component may be -0 in IEEE arithmetic; signed zeros are not modelled
NZGood(v) == IF v.re = 0 \/ (v.k \in ComplexKinds /\ v.im = 0) THEN BadR ELSE FGood(v)

ArithOps == {"+", "-", "*", "/", "%"}
DivExact(n, d) == d # 0 /\ (4 * Abs(n)) % Abs(d) = 0
DivQ(n, d)     == LET m == (4 * Abs(n)) \div Abs(d) IN IF (n < 0) # (d < 0) THEN 0 - m ELSE m

\* both operands have the same kind k: the operation is done in k and wraps like Go
Arith(op, a, b) ==
  LET k == a.k IN
  IF k \in IntKinds THEN
     CASE op = "+" -> Good(IntV(k, Narrow(ZAdd(a.z, b.z), k)))
       [] op = "-" -> Good(IntV(k, Narrow(ZSub(a.z, b.z), k)))
       [] op = "*" -> Good(IntV(k, Narrow(ZMul(a.z, b.z), k)))
       [] op = "/" -> IF b.z = Z0 THEN ErrR ELSE Good(IntV(k, ZDivK(a.z, b.z, k).q))
       [] op = "%" -> IF b.z = Z0 THEN ErrR ELSE Good(IntV(k, ZDivK(a.z, b.z, k).r))
  ELSE IF k \in FloatKinds THEN
     CASE op = "+" -> FGood(FltV(k, a.re + b.re))
       [] op = "-" -> FGood(FltV(k, a.re - b.re))
       [] op = "*" -> IF Abs(a.re) < 32768 /\ Abs(b.re) < 32768 /\ (a.re * b.re) % 4 = 0
                      THEN NZGood(FltV(k, (a.re * b.re) \div 4)) ELSE BadR
       [] op = "/" -> IF DivExact(a.re, b.re) THEN NZGood(FltV(k, DivQ(a.re, b.re))) ELSE BadR    \* x/0.0 not modelled
       [] op = "%" -> ErrR                                    \* "The modulo operator is only valid on integer types"
  ELSE
     CASE op = "+" -> FGood(CpxV(k, a.re + b.re, a.im + b.im))
       [] op = "-" -> FGood(CpxV(k, a.re - b.re, a.im - b.im))
       [] op = "*" -> IF Abs(a.re) < 16384 /\ Abs(a.im) < 16384 /\ Abs(b.re) < 16384 /\ Abs(b.im) < 16384
                         /\ (a.re * b.re - a.im * b.im) % 4 = 0 /\ (a.re * b.im + a.im * b.re) % 4 = 0
                      THEN NZGood(CpxV(k, (a.re * b.re - a.im * b.im) \div 4, (a.re * b.im + a.im * b.re) \div 4)) ELSE BadR
       [] op = "/" -> IF b.im = 0 /\ DivExact(a.re, b.re) /\ DivExact(a.im, b.re)      \* real divisors only
                      THEN NZGood(CpxV(k, DivQ(a.re, b.re), DivQ(a.im, b.re))) ELSE BadR
       [] op = "%" -> ErrR

NegV(v) == IF v.k \in IntKinds THEN Good(IntV(v.k, Narrow(ZNeg(v.z), v.k)))
           ELSE IF v.re = 0 \/ (v.k \in ComplexKinds /\ v.im = 0) THEN BadR            \* signed zeros are not modelled
           ELSE Good(CpxV(v.k, 0 - v.re, 0 - v.im))

\* ------------------------------------------------------------------ operands, expressions, assignment
\* operand: [c |-> is an untyped constant literal, v |-> value (a literal has kind "int" or "float64"), cls |-> name]
Modes == {"dynamic", "relaxed", "strict"}

\* "Combining values in an expression": the set of permitted results of  L op R  in a mode
BinR(L, R, op, mode) ==
  IF ~L.c /\ ~R.c THEN
     IF L.v.k = R.v.k THEN {Arith(op, L.v, R.v)}
     ELSE IF mode = "strict" THEN {ErrR}                      \* two typed operands of different kinds: rejected
     ELSE { LET a == Conv(L.v, T)
                b == Conv(R.v, T)
            IN  IF a.ok /\ b.ok THEN Arith(op, a.v, b.v) ELSE BadR : T \in PromoteKinds(L.v.k, R.v.k) }
  ELSE IF L.c /\ R.c THEN {BadR}                              \* two constants: not in this module
  ELSE LET var == IF L.c THEN R ELSE L
           con == IF L.c THEN L ELSE R
           cc  == Conv(con.v, var.v.k)                        \* the constant adapts to the typed operand
       IN  IF ~cc.d THEN {BadR}
           ELSE IF mode = "strict" /\ ~cc.ll THEN {ErrR}      \* ... "but only losslessly" in strict mode
           ELSE IF ~cc.ok THEN {BadR}
           ELSE {IF L.c THEN Arith(op, cc.v, R.v) ELSE Arith(op, L.v, cc.v)}

\* "Assigning to a variable" of kind xk (a non-constant value)
Store(xk, r, mode) ==
  IF ~r.ok \/ r.err THEN r
  ELSE IF mode = "dynamic" THEN r                              \* the variable's type changes to match
  ELSE IF mode = "relaxed" THEN LET c == Conv(r.v, xk) IN IF c.ok THEN Good(c.v) ELSE BadR
  ELSE IF r.v.k = xk THEN r ELSE ErrR

\* x = x op R   (x a variable);  x op= R  "is the same as"  x = x op R
AsgR(x, R, op, mode) == { Store(x.v.k, b, mode) : b \in BinR(x, R, op, mode) }

\* observable outcome (what is compared with the real interpreter)
ErrO    == [err |-> TRUE, k |-> "", s |-> ""]
ResO(v) == [err |-> FALSE, k |-> v.k, s |-> ValStr(v)]
OutOf(rs) == { IF r.err THEN ErrO ELSE ResO(r.v) : r \in rs }
InDomain(rs) == \A r \in rs : r.ok
=============================================================================

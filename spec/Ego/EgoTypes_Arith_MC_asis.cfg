INIT Init
NEXT Next
CONSTANTS
  Tier = "q"
  Seed = 1
  Impl = "asis"
INVARIANTS IncFormsAgree
CHECK_DEADLOCK FALSE

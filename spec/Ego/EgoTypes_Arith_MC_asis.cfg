INIT Init
NEXT Next
CONSTANTS
  Tier = "inc"
  Seed = 1
  Impl = "asis"
INVARIANTS IncFormsAgree
CHECK_DEADLOCK FALSE

------------------------------ MODULE EgoCore ------------------------------
(* Reference semantics of the documented Go-compatible core of Ego           *)
(* (docs/LANGUAGE.md: Data Types, Variables and Expressions, Operators, Type *)
(* Conversions, Conditional and Iterative Execution, User Function           *)
(* Definitions, defer, panic/recover).  Programs are DATA (an AST of records) *)
(* and this module is a definitional interpreter for them, parameterised by  *)
(* the type-checking mode (dynamic / relaxed / strict); numeric typing comes *)
(* from EgoTypes (BinR, Store, Conv).  Pure operators only: EgoCore_Prog      *)
(* enumerates programs and records, per mode, the lines a program must print *)
(* and how it must end.  Used by C01 C02 C04 C12.                            *)
(*                                                                           *)
(* Machine state (record st), shaped like internal/language/bytecode:        *)
(*   store  - every variable ever created (location = index); scopes (env)   *)
(*            map names to locations, closures keep their env: capture of    *)
(*            the LIVE scope (callBytecodeFunction.go capturedScope)         *)
(*   out    - lines printed so far          ctl - run|brk|cnt|ret|pan|err|bad *)
(*   dfr    - deferred calls of the running frame (defer.go), pend - those of *)
(*            the frames below;  pan - panicActive/panicValue (panic.go)     *)
(*   ec     - class of the runtime error that stopped the program            *)
(*   bad    - the execution left the domain this module specifies            *)
(* Performance settings (optimizer, registers, ...) and diagnostics modes are *)
(* deliberately NOT inputs of the semantics: that is C02 / C12.  The only    *)
(* exception is Impl # "doc" (negative controls, see EgoCore_Prog).          *)
EXTENDS EgoTypes

MaxIter  == 8      \* passes of one loop (more: outside the domain)
MaxDepth == 6      \* call depth
MaxLines == 60

\* ------------------------------------------------------------------ types
TNum(k)      == [ty |-> "num", k |-> k]
TStr         == [ty |-> "str"]
TBool        == [ty |-> "bool"]
TSlice(el)   == [ty |-> "slice", el |-> el]
TMap(kt, vt) == [ty |-> "map", kt |-> kt, vt |-> vt]
TStruct(n)   == [ty |-> "struct", n |-> n]
TFn(ps, rs)  == [ty |-> "fn", ps |-> ps, rs |-> rs]

\* ------------------------------------------------------------------ values
NumV(n, c)       == [t |-> "num", n |-> n, c |-> c]        \* c: untyped constant (a literal)
StrV(s)          == [t |-> "str", s |-> s]
BoolV(b)         == [t |-> "bool", b |-> b]
NilV             == [t |-> "nil"]
SliceV(el, xs)   == [t |-> "slice", el |-> el, xs |-> xs]
MapV(kt, vt, m)  == [t |-> "map", kt |-> kt, vt |-> vt, m |-> m]
StructV(tn, f)   == [t |-> "struct", tn |-> tn, f |-> f]
FnV(ps, rs, vr, body, env) == [t |-> "fn", ps |-> ps, rs |-> rs, vr |-> vr, body |-> body, env |-> env]
IntN(n)          == NumV(IntV("int", ZInt(n)), FALSE)
EmptyFn          == [x \in {} |-> 0]

\* ------------------------------------------------------------------ AST constructors (expressions: field e)
Lit(n)          == [e |-> "lit", n |-> IntV("int", ZInt(n)), txt |-> ToString(n)]
LitF(q)         == [e |-> "lit", n |-> FltV("float64", q), txt |-> QLit(q)]
LitV(v)         == [e |-> "lit", n |-> v, txt |-> LitStr(v)]       \* v of kind int or float64
Str(s)          == [e |-> "str", s |-> s]
Bool(b)         == [e |-> "bool", b |-> b]
V(x)            == [e |-> "var", x |-> x]
Cv(k, a)        == [e |-> "conv", k |-> k, a |-> a]
Bin(op, l, r)   == [e |-> "bin", op |-> op, l |-> l, r |-> r]
Un(op, a)       == [e |-> "un", op |-> op, a |-> a]
Call(f, a)      == [e |-> "call", f |-> f, a |-> a, sp |-> FALSE]
CallSp(f, a)    == [e |-> "call", f |-> f, a |-> a, sp |-> TRUE]   \* last argument spread: f(a, s...)
MCall(x, m, a)  == [e |-> "mcall", x |-> x, m |-> m, a |-> a]
Idx(a, i)       == [e |-> "idx", a |-> a, i |-> i]
Fld(a, f)       == [e |-> "fld", a |-> a, f |-> f]
LenE(a)         == [e |-> "len", a |-> a]
SLit(el, xs)    == [e |-> "slit", el |-> el, xs |-> xs]
MLit(kt, vt, ks, vs) == [e |-> "mlit", kt |-> kt, vt |-> vt, ks |-> ks, vs |-> vs]
TLit(tn, fs, vs) == [e |-> "tlit", tn |-> tn, fs |-> fs, vs |-> vs]
App(a, xs)      == [e |-> "app", a |-> a, xs |-> xs]
FnE(ps, rs, body) == [e |-> "fn", ps |-> ps, rs |-> rs, vr |-> FALSE, body |-> body]
Rec             == [e |-> "rec"]
Par(n, ty)      == [n |-> n, ty |-> ty]

\* statements: field s
SDef(x, e)        == [s |-> "def", x |-> x, e |-> e]
SVar(x, ty, e)    == [s |-> "var", x |-> x, ty |-> ty, has |-> TRUE, e |-> e]
SVar0(x, ty)      == [s |-> "var", x |-> x, ty |-> ty, has |-> FALSE, e |-> Bool(FALSE)]
SAsg(l, e)        == [s |-> "asg", l |-> l, e |-> e]
SOpa(l, op, e)    == [s |-> "opa", l |-> l, op |-> op, e |-> e]
SInc(l, op)       == [s |-> "inc", l |-> l, op |-> op]
SDef2(xs, e)      == [s |-> "def2", xs |-> xs, e |-> e]
SAsg2(ls, es)     == [s |-> "asg2", ls |-> ls, es |-> es]
SDefP(xs, es)     == [s |-> "defp", xs |-> xs, es |-> es]                   \* a, b := e1, e2
SMGet(v, ok, m, k, def) == [s |-> "mget", v |-> v, ok |-> ok, m |-> m, k |-> k, def |-> def]
PV(e)             == [f |-> "v", e |-> e, s |-> ""]
PT(e)             == [f |-> "T", e |-> e, s |-> ""]
PL(s)             == [f |-> "lit", e |-> Bool(FALSE), s |-> s]
SPr(items)        == [s |-> "pr", items |-> items]
SIf(c, a, b)      == [s |-> "if", c |-> c, a |-> a, b |-> b, he |-> TRUE]
SIf1(c, a)        == [s |-> "if", c |-> c, a |-> a, b |-> <<>>, he |-> FALSE]
NoS               == [s |-> "none"]
SFor3(lab, init, c, post, body) == [s |-> "for3", lab |-> lab, init |-> init, c |-> c, post |-> post, body |-> body]
SForC(lab, c, body)             == [s |-> "forc", lab |-> lab, c |-> c, body |-> body]
SForR(lab, i, v, e, body)       == [s |-> "forr", lab |-> lab, i |-> i, v |-> v, e |-> e, body |-> body]
Case(vs, body)    == [vs |-> vs, body |-> body]
SSw(tag, cases, def)   == [s |-> "sw", ht |-> TRUE,  tag |-> tag, cases |-> cases, hd |-> TRUE, def |-> def]
SSwN(tag, cases)       == [s |-> "sw", ht |-> TRUE,  tag |-> tag, cases |-> cases, hd |-> FALSE, def |-> <<>>]
SSwT(cases, def)       == [s |-> "sw", ht |-> FALSE, tag |-> Bool(TRUE), cases |-> cases, hd |-> TRUE, def |-> def]
SBrk(lab)         == [s |-> "brk", lab |-> lab]
SCnt(lab)         == [s |-> "cnt", lab |-> lab]
SRet(es)          == [s |-> "ret", es |-> es]
SDefer(e)         == [s |-> "defer", e |-> e]
SDeferPr(items)   == [s |-> "dpr", items |-> items]
SPanic(e)         == [s |-> "panic", e |-> e]
SEx(e)            == [s |-> "ex", e |-> e]
SDel(m, k)        == [s |-> "del", m |-> m, k |-> k]

Fn(n, ps, rs, body)   == [n |-> n, ps |-> ps, rs |-> rs, vr |-> FALSE, body |-> body]
FnVar(n, ps, rs, body) == [n |-> n, ps |-> ps, rs |-> rs, vr |-> TRUE, body |-> body]      \* last parameter is variadic
Meth(tn, ptr, rn, n, ps, rs, body) == [tn |-> tn, ptr |-> ptr, rn |-> rn, n |-> n, ps |-> ps, rs |-> rs, body |-> body]
TypeD(n, fs)          == [n |-> n, fs |-> fs]                                             \* fs: sequence of Par
Glob(x, ty, e)        == [x |-> x, ty |-> ty, e |-> e, k |-> "var"]
Prog(types, meths, fns, globs, main) == [types |-> types, meths |-> meths, fns |-> fns, globs |-> globs, main |-> main]

\* ------------------------------------------------------------------ state helpers
R(v, st)     == [v |-> v, vs |-> <<v>>, st |-> st]
RS(vs, st)   == [v |-> IF vs = <<>> THEN NilV ELSE vs[1], vs |-> vs, st |-> st]
ES(env, st)  == [env |-> env, st |-> st]
Running(st)  == st.ctl = "run"
Out(st)      == [st EXCEPT !.ctl = "bad", !.bad = TRUE]
\* a runtime error stops the program; deferred calls still pending are not run by Ego but are run by Go:
\* the statement does not say which, so such executions are outside the domain
Fail(st, cls) == [st EXCEPT !.ctl = "err", !.ec = cls, !.bad = @ \/ (st.pend + Len(st.dfr) > 0)]
Alloc(st, v)  == [st EXCEPT !.store = Append(@, v)]
NewLoc(st)    == Len(st.store) + 1
Bind(env, x, loc) == IF x = "_" THEN env ELSE (x :> loc) @@ env
Untype(v)     == IF v.t = "num" THEN NumV(v.n, FALSE) ELSE v       \* a constant stored somewhere gets its default type
One1(S)       == CHOOSE x \in S : TRUE
Upto(n)      == [i \in 1..n |-> i]

IsIntV(v)     == v.t = "num" /\ v.n.k \in IntKinds
SmallV(v)     == IsIntV(v) /\ SmallZ(v.n.z, v.n.k)
IntOf(v)      == SmallInt(v.n.z, v.n.k)

\* ------------------------------------------------------------------ printing (fmt.Printf %v %d %s %t and %T on scalars)
FmtQ(q) == (IF q < 0 THEN "-" ELSE "") \o ToString(Abs(q) \div 4) \o <<"", ".25", ".5", ".75">>[(Abs(q) % 4) + 1]
CanFmt(v) == \/ v.t \in {"str", "bool", "nil"}
             \/ v.t = "num" /\ v.n.k \in IntKinds \cup FloatKinds
FmtV(v) == CASE v.t = "str"  -> v.s
             [] v.t = "bool" -> IF v.b THEN "true" ELSE "false"
             [] v.t = "nil"  -> "<nil>"
             [] v.t = "num"  -> IF v.n.k \in IntKinds THEN DecOf(v.n.z, v.n.k) ELSE FmtQ(v.n.re)
             [] OTHER        -> "?"
CanType(v) == v.t \in {"str", "bool", "num"}
TypeName(v) == CASE v.t = "str" -> "string" [] v.t = "bool" -> "bool" [] v.t = "num" -> v.n.k [] OTHER -> "?"
Join(ss) == FoldLeft(LAMBDA acc, s : IF acc = "" THEN s ELSE acc \o " " \o s, "", ss)

\* ------------------------------------------------------------------ strings: order on a fixed pool (TLC cannot order strings)
StrPool == <<"", "a", "ab", "abc", "b", "ba", "go", "k1", "k2", "k3", "x", "xy", "y", "z">>
InPool(s) == \E i \in DOMAIN StrPool : StrPool[i] = s
StrIdx(s) == CHOOSE i \in DOMAIN StrPool : StrPool[i] = s

\* ------------------------------------------------------------------ numeric operations under a mode
OpdOf(v) == [c |-> v.c, v |-> v.n, cls |-> ""]
CmpOps   == {"==", "!=", "<", "<=", ">", ">="}
IsZeroN(n) == IF n.k \in IntKinds THEN n.z = Z0 ELSE n.re = 0 /\ n.im = 0
\* is the rejection of  a op b  a typing matter (strict mode) rather than a division by zero ?
TypeErr(a, b, op, mode) ==
  \/ op = "%" /\ (a.n.k \notin IntKinds \/ b.n.k \notin IntKinds)
  \/ mode = "strict" /\ ~a.c /\ ~b.c /\ a.n.k # b.n.k
  \/ mode = "strict" /\ (a.c # b.c) /\ LET con == IF a.c THEN a ELSE b
                                           var == IF a.c THEN b ELSE a
                                       IN  ~Conv(con.n, var.n.k).ll

NumArith(op, a, b, st) ==
  IF a.c /\ b.c THEN R(NilV, Out(st))                         \* constant expressions: not in the reference
  ELSE LET a1 == IF st.impl = "relaxpromote" /\ st.mode = "relaxed" THEN Untype(a) ELSE a    \* negative control (C04)
           b1 == IF st.impl = "relaxpromote" /\ st.mode = "relaxed" THEN Untype(b) ELSE b
           rs == BinR(OpdOf(a1), OpdOf(b1), op, st.mode)
       IN  IF Cardinality(rs) # 1 THEN R(NilV, Out(st))
           ELSE LET r == One1(rs)
                IN  IF ~r.ok THEN R(NilV, Out(st))
                    ELSE IF r.err THEN R(NilV, Fail(st, IF TypeErr(a, b, op, st.mode) THEN "type" ELSE "div0"))
                    ELSE R(NumV(r.v, FALSE), st)

LtZ(a, b, k) == IF Signed(k) /\ ZNegS(a) # ZNegS(b) THEN ZNegS(a) ELSE ZLtU(a, b)
CmpSame(op, x, y) ==                                         \* two numbers of one kind (not complex for the order)
  LET lt == IF x.k \in IntKinds THEN LtZ(x.z, y.z, x.k) ELSE x.re < y.re
      eq == x = y
  IN  CASE op = "==" -> eq [] op = "!=" -> ~eq [] op = "<" -> lt [] op = "<=" -> lt \/ eq
        [] op = ">" -> ~lt /\ ~eq [] op = ">=" -> ~lt
CmpOK(op, k) == k \notin ComplexKinds \/ op \in {"==", "!="}

NumCmp(op, a, b, st) ==
  IF a.c /\ b.c THEN R(NilV, Out(st))
  ELSE IF a.c \/ b.c THEN
     LET var == IF a.c THEN b ELSE a
         con == IF a.c THEN a ELSE b
         cc  == Conv(con.n, var.n.k)                          \* the constant adapts to the typed operand
     IN  IF ~cc.d \/ ~CmpOK(op, var.n.k) THEN R(NilV, Out(st))
         ELSE IF st.mode = "strict" /\ ~cc.ll THEN R(NilV, Fail(st, "type"))
         ELSE IF ~cc.ok THEN R(NilV, Out(st))
         ELSE R(BoolV(IF a.c THEN CmpSame(op, cc.v, b.n) ELSE CmpSame(op, a.n, cc.v)), st)
  ELSE IF a.n.k = b.n.k THEN (IF CmpOK(op, a.n.k) THEN R(BoolV(CmpSame(op, a.n, b.n)), st) ELSE R(NilV, Out(st)))
  ELSE IF st.mode = "strict" THEN R(NilV, Fail(st, "type"))
  ELSE LET ps == PromoteKinds(a.n.k, b.n.k)
       IN  IF Cardinality(ps) # 1 THEN R(NilV, Out(st))
           ELSE LET T == One1(ps)
                    x == Conv(a.n, T)
                    y == Conv(b.n, T)
                IN  IF x.ok /\ y.ok /\ CmpOK(op, T) THEN R(BoolV(CmpSame(op, x.v, y.v)), st) ELSE R(NilV, Out(st))

BinOp(op, a, b, st) ==
  IF a.t = "num" /\ b.t = "num" THEN (IF op \in CmpOps THEN NumCmp(op, a, b, st)
                                      ELSE IF op \in ArithOps THEN NumArith(op, a, b, st) ELSE R(NilV, Out(st)))
  ELSE IF a.t = "str" /\ b.t = "str" THEN
     CASE op = "+"  -> R(StrV(a.s \o b.s), st)
       [] op = "==" -> R(BoolV(a.s = b.s), st)
       [] op = "!=" -> R(BoolV(a.s # b.s), st)
       [] op \in {"<", "<=", ">", ">="} ->
            IF InPool(a.s) /\ InPool(b.s)
            THEN LET i == StrIdx(a.s)
                     j == StrIdx(b.s)
                 IN  R(BoolV(CASE op = "<" -> i < j [] op = "<=" -> i <= j [] op = ">" -> i > j [] op = ">=" -> i >= j), st)
            ELSE R(NilV, Out(st))
       [] OTHER -> R(NilV, Out(st))
  ELSE IF a.t = "bool" /\ b.t = "bool" /\ op \in {"==", "!="} THEN R(BoolV((a.b = b.b) = (op = "==")), st)
  ELSE R(NilV, Out(st))

\* ------------------------------------------------------------------ the four coercion boundaries ("Type Conversions")
\* Fit: a value meets a declared type.  where = "var" (declaration with a type, element / field / map value store),
\* "arg" (function argument), "ret" (return value).  Result [v, st].
FitNum(k, v, st, where) ==
  IF v.c THEN                                                \* a constant literal adapts, in strict mode only losslessly
     LET cc == Conv(v.n, k)
     IN  IF ~cc.d THEN R(NilV, Out(st))
         ELSE IF cc.ll THEN R(NumV(cc.v, FALSE), st)
         ELSE IF st.mode = "strict" THEN R(NilV, Fail(st, "type"))
         ELSE IF cc.ok /\ where \in {"arg", "ret"} THEN R(NumV(cc.v, FALSE), st)
         ELSE R(NilV, Out(st))
  ELSE IF v.n.k = k THEN R(v, st)
  ELSE IF where = "var" THEN R(NilV, Out(st))                 \* declaration / element store of another kind: the reference is silent
  ELSE IF st.mode = "strict" THEN R(NilV, Fail(st, "type"))   \* a non-constant argument / result of another type: rejected
  ELSE LET cc == Conv(v.n, k) IN IF cc.ok THEN R(NumV(cc.v, FALSE), st) ELSE R(NilV, Out(st))
Fit(ty, v, st, where) ==
  IF ty.ty = "num" THEN (IF v.t = "num" THEN FitNum(ty.k, v, st, where) ELSE R(NilV, Out(st)))
  ELSE IF (ty.ty = "str" /\ v.t = "str") \/ (ty.ty = "bool" /\ v.t = "bool") \/ (ty.ty = "slice" /\ v.t = "slice")
          \/ (ty.ty = "map" /\ v.t = "map") \/ (ty.ty = "fn" /\ v.t = "fn")
          \/ (ty.ty = "struct" /\ v.t = "struct" /\ v.tn = ty.n) THEN R(v, st)
  ELSE R(NilV, Out(st))

\* "Assigning to a variable" that holds old
StoreVal(old, v, st) ==
  IF old.t = "num" /\ v.t = "num" THEN
     IF v.c THEN
        IF st.mode = "dynamic" THEN R(Untype(v), st)         \* the variable's type changes to match
        ELSE LET cc == Conv(v.n, old.n.k)
             IN  IF ~cc.d THEN R(NilV, Out(st))
                 ELSE IF cc.ll THEN R(NumV(cc.v, FALSE), st)
                 ELSE IF st.mode = "strict" THEN R(NilV, Fail(st, "type"))
                 ELSE IF cc.ok THEN R(NumV(cc.v, FALSE), st) ELSE R(NilV, Out(st))
     ELSE LET r == Store(old.n.k, Good(v.n), st.mode)
          IN  IF ~r.ok THEN R(NilV, Out(st)) ELSE IF r.err THEN R(NilV, Fail(st, "type")) ELSE R(NumV(r.v, FALSE), st)
  ELSE IF old.t = v.t /\ old.t \in {"str", "bool", "slice", "map", "fn"} THEN R(v, st)
  ELSE IF old.t = "struct" /\ v.t = "struct" /\ old.tn = v.tn THEN R(v, st)
  ELSE R(NilV, Out(st))

\* ------------------------------------------------------------------ zero values
TypeDef(P, n) == LET S == {i \in DOMAIN P.types : P.types[i].n = n} IN P.types[One1(S)]
FieldTy(P, tn, f) == LET td == TypeDef(P, tn)
                     IN  td.fs[One1({i \in DOMAIN td.fs : td.fs[i].n = f})].ty
HasField(P, tn, f) == \E i \in DOMAIN TypeDef(P, tn).fs : TypeDef(P, tn).fs[i].n = f
ZeroNum(k) == IF k \in IntKinds THEN IntV(k, Z0) ELSE IF k \in FloatKinds THEN FltV(k, 0) ELSE CpxV(k, 0, 0)
RECURSIVE Zero(_, _)
Zero(ty, P) ==
  CASE ty.ty = "num"    -> NumV(ZeroNum(ty.k), FALSE)
    [] ty.ty = "str"    -> StrV("")
    [] ty.ty = "bool"   -> BoolV(FALSE)
    [] ty.ty = "slice"  -> SliceV(ty.el, <<>>)
    [] ty.ty = "map"    -> MapV(ty.kt, ty.vt, EmptyFn)
    [] ty.ty = "struct" -> LET td == TypeDef(P, ty.n)
                           IN  StructV(ty.n, [f \in {td.fs[i].n : i \in DOMAIN td.fs} |-> Zero(FieldTy(P, ty.n, f), P)])
    [] OTHER            -> NilV

\* key of a map: strings and small integers
KeyOK(v) == v.t = "str" \/ SmallV(v)
KeyOf(v) == IF v.t = "str" THEN v.s ELSE IntOf(v)

\* ------------------------------------------------------------------ the interpreter
RECURSIVE Eval(_, _, _), EvalSeq(_, _, _), ExecS(_, _, _), ExecB(_, _, _), CallV(_, _, _, _), AssignTo(_, _, _, _),
          RunDefers(_), FitSeq(_, _, _, _)

EvalSeq(es, env, st) ==
  FoldLeft(LAMBDA acc, e : IF ~Running(acc.st) THEN acc
                           ELSE LET r == Eval(e, env, acc.st) IN [vs |-> Append(acc.vs, r.v), st |-> r.st],
           [vs |-> <<>>, st |-> st], es)

\* every value of vs meets type ty
FitSeq(ty, vs, st, where) ==
  FoldLeft(LAMBDA acc, v : IF ~Running(acc.st) THEN acc
                           ELSE LET f == Fit(ty, v, acc.st, where) IN [vs |-> Append(acc.vs, f.v), st |-> f.st],
           [vs |-> <<>>, st |-> st], vs)

NamedFn(P, x)  == LET S == {i \in DOMAIN P.fns : P.fns[i].n = x} IN IF S = {} THEN 0 ELSE One1(S)
MethIdx(P, tn, m) == LET S == {i \in DOMAIN P.meths : P.meths[i].tn = tn /\ P.meths[i].n = m} IN IF S = {} THEN 0 ELSE One1(S)

Eval(e, env, st) ==
  IF ~Running(st) THEN R(NilV, st)
  ELSE CASE e.e = "lit"  -> R(NumV(e.n, TRUE), st)
    [] e.e = "str"  -> R(StrV(e.s), st)
    [] e.e = "bool" -> R(BoolV(e.b), st)
    [] e.e = "nil"  -> R(NilV, st)
    [] e.e = "var"  -> IF e.x \in DOMAIN env THEN R(st.store[env[e.x]], st)
                       ELSE LET i == NamedFn(st.P, e.x)
                            IN  IF i = 0 THEN R(NilV, Out(st))
                                ELSE LET f == st.P.fns[i] IN R(FnV(f.ps, f.rs, f.vr, f.body, st.genv), st)
    [] e.e = "conv" -> LET r == Eval(e.a, env, st)
                       IN  IF ~Running(r.st) THEN r
                           ELSE IF r.v.t # "num" THEN R(NilV, Out(r.st))
                           ELSE LET cc == Conv(r.v.n, e.k) IN IF cc.ok THEN R(NumV(cc.v, FALSE), r.st) ELSE R(NilV, Out(r.st))
    [] e.e = "un"   -> LET r == Eval(e.a, env, st)
                       IN  IF ~Running(r.st) THEN r
                           ELSE IF e.op = "!" THEN (IF r.v.t = "bool" THEN R(BoolV(~r.v.b), r.st) ELSE R(NilV, Out(r.st)))
                           ELSE IF r.v.t # "num" THEN R(NilV, Out(r.st))
                           ELSE LET n == NegV(r.v.n)           \* a negated literal is still an untyped constant
                                IN  IF n.ok THEN R(NumV(n.v, r.v.c), r.st) ELSE R(NilV, Out(r.st))
    [] e.e = "bin"  -> LET l == Eval(e.l, env, st)
                       IN  IF ~Running(l.st) THEN l
                           ELSE IF e.op \in {"&&", "||"} THEN
                                IF l.v.t # "bool" THEN R(NilV, Out(l.st))
                                ELSE IF l.v.b = (e.op = "||") THEN l                    \* short circuit
                                ELSE LET r == Eval(e.r, env, l.st)
                                     IN  IF ~Running(r.st) THEN r
                                         ELSE IF r.v.t = "bool" THEN r ELSE R(NilV, Out(r.st))
                           ELSE LET r == Eval(e.r, env, l.st)
                                IN  IF ~Running(r.st) THEN r ELSE BinOp(e.op, l.v, r.v, r.st)
    [] e.e = "len"  -> LET r == Eval(e.a, env, st)
                       IN  IF ~Running(r.st) THEN r
                           ELSE CASE r.v.t = "slice" -> R(IntN(Len(r.v.xs)), r.st)
                                  [] r.v.t = "str"   -> R(IntN(Len(r.v.s)), r.st)
                                  [] r.v.t = "map"   -> R(IntN(Cardinality(DOMAIN r.v.m)), r.st)
                                  [] OTHER           -> R(NilV, Out(r.st))
    [] e.e = "idx"  -> LET a == Eval(e.a, env, st)
                           i == Eval(e.i, env, a.st)
                       IN  IF ~Running(i.st) THEN i
                           ELSE IF a.v.t = "slice" THEN
                                  IF ~SmallV(i.v) THEN R(NilV, Out(i.st))
                                  ELSE IF IntOf(i.v) < 0 \/ IntOf(i.v) >= Len(a.v.xs) THEN R(NilV, Fail(i.st, "index"))
                                  ELSE R(a.v.xs[IntOf(i.v) + 1], i.st)
                           ELSE IF a.v.t = "map" /\ KeyOK(i.v) /\ KeyOf(i.v) \in DOMAIN a.v.m THEN R(a.v.m[KeyOf(i.v)], i.st)
                           ELSE R(NilV, Out(i.st))           \* missing key (nil in Ego, zero in Go), string indexing: excluded
    [] e.e = "fld"  -> LET a == Eval(e.a, env, st)
                       IN  IF ~Running(a.st) THEN a
                           ELSE IF a.v.t = "struct" /\ e.f \in DOMAIN a.v.f THEN R(a.v.f[e.f], a.st) ELSE R(NilV, Out(a.st))
    [] e.e = "slit" -> LET xs == EvalSeq(e.xs, env, st)
                           fs == FitSeq(e.el, xs.vs, xs.st, "var")
                       IN  R(SliceV(e.el, fs.vs), fs.st)
    [] e.e = "mlit" -> LET ks == EvalSeq(e.ks, env, st)
                           vs == EvalSeq(e.vs, env, ks.st)
                           fs == FitSeq(e.vt, vs.vs, vs.st, "var")
                       IN  IF ~Running(fs.st) THEN R(NilV, fs.st)
                           ELSE IF \E i \in DOMAIN ks.vs : ~KeyOK(ks.vs[i]) THEN R(NilV, Out(fs.st))
                           ELSE R(MapV(e.kt, e.vt, [k \in {KeyOf(ks.vs[i]) : i \in DOMAIN ks.vs} |->
                                                     fs.vs[One1({i \in DOMAIN ks.vs : KeyOf(ks.vs[i]) = k})]]), fs.st)
    [] e.e = "tlit" -> LET vs == EvalSeq(e.vs, env, st)
                           z  == Zero(TStruct(e.tn), st.P)
                           r  == FoldLeft(LAMBDA acc, i : IF ~Running(acc.st) THEN acc
                                            ELSE LET f == Fit(FieldTy(st.P, e.tn, e.fs[i]), vs.vs[i], acc.st, "var")
                                                 IN  [v |-> IF Running(f.st) THEN [acc.v EXCEPT !.f[e.fs[i]] = f.v] ELSE acc.v, st |-> f.st],
                                          [v |-> z, st |-> vs.st], Upto(Len(e.fs)))
                       IN  R(r.v, r.st)
    [] e.e = "app"  -> LET a  == Eval(e.a, env, st)
                           xs == EvalSeq(e.xs, env, a.st)
                       IN  IF ~Running(xs.st) THEN R(NilV, xs.st)
                           ELSE IF a.v.t # "slice" THEN R(NilV, Out(xs.st))
                           ELSE LET fs == FitSeq(a.v.el, xs.vs, xs.st, "var") IN R(SliceV(a.v.el, a.v.xs \o fs.vs), fs.st)
    [] e.e = "fn"   -> R(FnV(e.ps, e.rs, e.vr, e.body, env), st)
    [] e.e = "rec"  -> IF st.canrec /\ st.pan.on THEN R(st.pan.v, [st EXCEPT !.pan = [on |-> FALSE, v |-> NilV]])
                       ELSE R(NilV, st)
    [] e.e = "call" -> LET f  == Eval(e.f, env, st)
                           as == EvalSeq(e.a, env, f.st)
                       IN  IF ~Running(as.st) THEN RS(<<>>, as.st)
                           ELSE IF f.v.t # "fn" THEN RS(<<>>, Out(as.st))
                           ELSE IF e.sp THEN
                                  (IF as.vs # <<>> /\ as.vs[Len(as.vs)].t = "slice" /\ f.v.vr
                                   THEN CallV(f.v, SubSeq(as.vs, 1, Len(as.vs) - 1) \o as.vs[Len(as.vs)].xs, as.st, FALSE)
                                   ELSE RS(<<>>, Out(as.st)))
                           ELSE CallV(f.v, as.vs, as.st, FALSE)
    [] e.e = "mcall" -> IF e.x \notin DOMAIN env THEN RS(<<>>, Out(st))
                        ELSE LET loc == env[e.x]
                                 rv  == st.store[loc]
                                 mi  == IF rv.t = "struct" THEN MethIdx(st.P, rv.tn, e.m) ELSE 0
                             IN  IF mi = 0 THEN RS(<<>>, Out(st))
                                 ELSE LET m  == st.P.meths[mi]
                                          as == EvalSeq(e.a, env, st)
                                          \* pointer receiver: the receiver IS the variable; value receiver: a copy
                                          s1 == IF m.ptr THEN as.st ELSE Alloc(as.st, rv)
                                          rl == IF m.ptr THEN loc ELSE Len(s1.store)
                                      IN  IF ~Running(as.st) THEN RS(<<>>, as.st)
                                          ELSE CallV(FnV(m.ps, m.rs, FALSE, m.body, Bind(st.genv, m.rn, rl)), as.vs, s1, FALSE)
    [] OTHER -> R(NilV, Out(st))

\* the call: parameters (argument boundary), body, deferred calls, results (return boundary)
CallV(f, args, st, isDefer) ==
  LET np   == Len(f.ps)
      nfix == IF f.vr THEN np - 1 ELSE np
  IN  IF st.depth >= MaxDepth \/ (IF f.vr THEN Len(args) < nfix ELSE Len(args) # np) THEN RS(<<>>, Out(st))
      ELSE
      LET b1 == FoldLeft(LAMBDA acc, i :
                   IF ~Running(acc.st) THEN acc
                   ELSE LET ft == Fit(f.ps[i].ty, args[i], acc.st, "arg")
                        IN  IF ~Running(ft.st) THEN ES(acc.env, ft.st)
                            ELSE ES(Bind(acc.env, f.ps[i].n, NewLoc(ft.st)), Alloc(ft.st, Untype(ft.v))),
                 ES(f.env, st), Upto(nfix))
          b2 == IF ~f.vr \/ ~Running(b1.st) THEN b1
                ELSE LET el == f.ps[np].ty.el
                         fs == FitSeq(el, SubSeq(args, nfix + 1, Len(args)), b1.st, "arg")
                     IN  IF ~Running(fs.st) THEN ES(b1.env, fs.st)
                         ELSE ES(Bind(b1.env, f.ps[np].n, NewLoc(fs.st)), Alloc(fs.st, SliceV(el, fs.vs)))
      IN  IF ~Running(b2.st) THEN RS(<<>>, b2.st)
          ELSE
          LET s1 == [b2.st EXCEPT !.dfr = <<>>, !.pend = st.pend + Len(st.dfr), !.depth = @ + 1, !.canrec = isDefer,
                                  !.rv = <<>>, !.recd = FALSE]
              s2 == ExecB(f.body, b2.env, s1)
              s3 == RunDefers(s2)
              back == [s3 EXCEPT !.dfr = st.dfr, !.pend = st.pend, !.depth = st.depth, !.canrec = st.canrec,
                                 !.rv = <<>>, !.recd = st.recd, !.lab = ""]
          IN  IF s3.ctl \in {"err", "bad", "pan"} THEN RS(<<>>, back)
              ELSE IF s3.ctl \in {"brk", "cnt"} THEN RS(<<>>, Out(back))
              ELSE LET vals == IF s3.recd THEN [i \in DOMAIN f.rs |-> Zero(f.rs[i], st.P)] ELSE s3.rv   \* recovered: zero results
                       b0   == [back EXCEPT !.ctl = "run"]
                   IN  IF Len(vals) # Len(f.rs) THEN RS(<<>>, Out(b0))
                       ELSE LET r == FoldLeft(LAMBDA acc, i :
                                        IF ~Running(acc.st) THEN acc
                                        ELSE LET ft == Fit(f.rs[i], vals[i], acc.st, "ret")
                                             IN  [vs |-> Append(acc.vs, Untype(ft.v)), st |-> ft.st],
                                      [vs |-> <<>>, st |-> b0], Upto(Len(vals)))
                            IN  IF Running(r.st) THEN RS(r.vs, r.st) ELSE RS(<<>>, r.st)

\* deferred calls of the frame that is ending (return, end of body, or panic): last registered first
RunDefers(s) ==
  IF s.ctl \in {"err", "bad"} THEN s
  ELSE FoldLeft(LAMBDA acc, d :
         IF acc.ctl \in {"err", "bad"} THEN acc
         ELSE LET a0 == [acc EXCEPT !.ctl = "run"]
                  r  == IF d.pr THEN [a0 EXCEPT !.out = Append(@, d.line)] ELSE CallV(d.f, d.args, a0, TRUE).st
              IN  IF r.ctl \in {"err", "bad", "pan"} THEN r
                  ELSE IF acc.ctl = "pan" /\ ~r.pan.on THEN [r EXCEPT !.ctl = "ret", !.rv = <<>>, !.recd = TRUE]  \* recovered
                  ELSE [r EXCEPT !.ctl = acc.ctl, !.rv = acc.rv],
       [s EXCEPT !.dfr = <<>>], Reverse(s.dfr))

AssignTo(l, v, env, st) ==
  IF ~Running(st) THEN st
  ELSE IF l.e = "var" THEN
     IF l.x = "_" THEN st
     ELSE IF l.x \notin DOMAIN env THEN Out(st)
     ELSE LET n == StoreVal(st.store[env[l.x]], v, st)
          IN  IF Running(n.st) THEN [n.st EXCEPT !.store[env[l.x]] = n.v] ELSE n.st
  ELSE IF l.e = "idx" /\ l.a.e = "var" /\ l.a.x \in DOMAIN env THEN
     LET loc == env[l.a.x]
         c   == st.store[loc]
         i   == Eval(l.i, env, st)
     IN  IF ~Running(i.st) THEN i.st
         ELSE IF c.t = "slice" THEN
              IF ~SmallV(i.v) THEN Out(i.st)
              ELSE IF IntOf(i.v) < 0 \/ IntOf(i.v) >= Len(c.xs) THEN Fail(i.st, "index")
              ELSE LET f == Fit(c.el, v, i.st, "var")
                   IN  IF Running(f.st) THEN [f.st EXCEPT !.store[loc] = [c EXCEPT !.xs[IntOf(i.v) + 1] = f.v]] ELSE f.st
         ELSE IF c.t = "map" /\ KeyOK(i.v) THEN
              LET f == Fit(c.vt, v, i.st, "var")
              IN  IF Running(f.st) THEN [f.st EXCEPT !.store[loc] = [c EXCEPT !.m = (KeyOf(i.v) :> f.v) @@ c.m]] ELSE f.st
         ELSE Out(i.st)
  ELSE IF l.e = "fld" /\ l.a.e = "var" /\ l.a.x \in DOMAIN env THEN
     LET loc == env[l.a.x]
         c   == st.store[loc]
     IN  IF c.t # "struct" \/ l.f \notin DOMAIN c.f THEN Out(st)
         ELSE LET f == Fit(FieldTy(st.P, c.tn, l.f), v, st, "var")
              IN  IF Running(f.st) THEN [f.st EXCEPT !.store[loc] = [c EXCEPT !.f[l.f] = f.v]] ELSE f.st
  ELSE Out(st)

DefVar(env, st, x, v) == IF x = "_" THEN ES(env, st) ELSE ES(Bind(env, x, NewLoc(st)), Alloc(st, v))

\* the text of one printed line
PrLine(items, env, st) ==
  FoldLeft(LAMBDA acc, it :
      IF ~Running(acc.st) THEN acc
      ELSE IF it.f = "lit" THEN [ss |-> Append(acc.ss, it.s), st |-> acc.st]
      ELSE LET r == Eval(it.e, env, acc.st)
           IN  IF ~Running(r.st) THEN [ss |-> acc.ss, st |-> r.st]
               ELSE IF it.f = "T" THEN (IF CanType(r.v) THEN [ss |-> Append(acc.ss, TypeName(r.v)), st |-> r.st]
                                        ELSE [ss |-> acc.ss, st |-> Out(r.st)])
               ELSE IF CanFmt(r.v) THEN [ss |-> Append(acc.ss, FmtV(r.v)), st |-> r.st]
               ELSE [ss |-> acc.ss, st |-> Out(r.st)],
    [ss |-> <<>>, st |-> st], items)

\* does this loop take the break / continue that is in flight ?
Takes(st, lab) == st.lab = "" \/ st.lab = lab
AfterBody(st, lab) ==          \* [st, stop]: state after one pass of a loop body
  IF st.ctl = "brk" /\ Takes(st, lab) THEN [st |-> [st EXCEPT !.ctl = "run", !.lab = ""], stop |-> TRUE]
  ELSE IF st.ctl = "cnt" /\ Takes(st, lab) THEN [st |-> [st EXCEPT !.ctl = "run", !.lab = ""], stop |-> FALSE]
  ELSE [st |-> st, stop |-> ~Running(st)]

\* names a for-clause declares (they get a fresh copy per iteration, as in Go 1.22)
InitNames(s) == IF s.s = "def" THEN <<s.x>> ELSE IF s.s = "def2" THEN s.xs ELSE <<>>
CopyVars(env, st, names) ==
  FoldLeft(LAMBDA acc, x : IF x = "_" THEN acc ELSE DefVar(acc.env, acc.st, x, acc.st.store[acc.env[x]]), ES(env, st), names)

ExecB(b, env, st) == FoldLeft(LAMBDA acc, s : IF ~Running(acc.st) THEN acc ELSE ExecS(s, acc.env, acc.st), ES(env, st), b).st

ExecS(s, env, st) ==
  IF ~Running(st) THEN ES(env, st)
  ELSE CASE s.s = "none" -> ES(env, st)
    [] s.s = "def" -> LET r == Eval(s.e, env, st)
                      IN  IF ~Running(r.st) THEN ES(env, r.st) ELSE DefVar(env, r.st, s.x, Untype(r.v))
    [] s.s = "var" -> IF ~s.has THEN DefVar(env, st, s.x, Zero(s.ty, st.P))
                      ELSE LET r == Eval(s.e, env, st)
                               f == Fit(s.ty, r.v, r.st, "var")
                           IN  IF ~Running(r.st) THEN ES(env, r.st)
                               ELSE IF ~Running(f.st) THEN ES(env, f.st) ELSE DefVar(env, f.st, s.x, Untype(f.v))
    [] s.s = "asg" -> LET r == Eval(s.e, env, st) IN ES(env, AssignTo(s.l, r.v, env, r.st))
    [] s.s = "opa" -> LET r == Eval(Bin(s.op, s.l, s.e), env, st) IN ES(env, AssignTo(s.l, r.v, env, r.st))     \* x op= e is x = x op e
    [] s.s = "inc" -> LET r == Eval(Bin(s.op, s.l, Lit(1)), env, st) IN ES(env, AssignTo(s.l, r.v, env, r.st)) \* x++ is x = x + 1
    [] s.s = "def2" -> LET r == Eval(s.e, env, st)
                       IN  IF ~Running(r.st) THEN ES(env, r.st)
                           ELSE IF Len(r.vs) # Len(s.xs) THEN ES(env, Out(r.st))
                           ELSE FoldLeft(LAMBDA acc, i : DefVar(acc.env, acc.st, s.xs[i], Untype(r.vs[i])), ES(env, r.st), Upto(Len(s.xs)))
    [] s.s = "defp" -> LET r == EvalSeq(s.es, env, st)                \* all values first, in the order written
                       IN  IF ~Running(r.st) THEN ES(env, r.st)
                           ELSE IF Len(r.vs) # Len(s.xs) THEN ES(env, Out(r.st))
                           ELSE FoldLeft(LAMBDA acc, i : DefVar(acc.env, acc.st, s.xs[i], Untype(r.vs[i])), ES(env, r.st), Upto(Len(s.xs)))
    [] s.s = "asg2" -> LET r == EvalSeq(s.es, env, st)                \* all values first, then the assignments
                       IN  IF ~Running(r.st) \/ Len(r.vs) # Len(s.ls) THEN ES(env, IF Running(r.st) THEN Out(r.st) ELSE r.st)
                           ELSE ES(env, FoldLeft(LAMBDA acc, i : AssignTo(s.ls[i], r.vs[i], env, acc), r.st, Upto(Len(s.ls))))
    [] s.s = "mget" -> LET m == Eval(s.m, env, st)
                           k == Eval(s.k, env, m.st)
                       IN  IF ~Running(k.st) THEN ES(env, k.st)
                           ELSE IF m.v.t # "map" \/ ~KeyOK(k.v) THEN ES(env, Out(k.st))
                           ELSE LET has == KeyOf(k.v) \in DOMAIN m.v.m
                                    val == IF has THEN m.v.m[KeyOf(k.v)] ELSE NilV        \* a missing key yields nil
                                IN  IF s.def THEN LET d1 == DefVar(env, k.st, s.v, val) IN DefVar(d1.env, d1.st, s.ok, BoolV(has))
                                    ELSE IF (s.v # "_" /\ s.v \notin DOMAIN env) \/ (s.ok # "_" /\ s.ok \notin DOMAIN env) THEN ES(env, Out(k.st))
                                    ELSE LET s1 == IF s.v = "_" THEN k.st ELSE [k.st EXCEPT !.store[env[s.v]] = val]
                                         IN  ES(env, IF s.ok = "_" THEN s1 ELSE [s1 EXCEPT !.store[env[s.ok]] = BoolV(has)])
    [] s.s = "pr"  -> LET p == PrLine(s.items, env, st)
                      IN  IF ~Running(p.st) THEN ES(env, p.st)
                          ELSE IF Len(p.st.out) >= MaxLines THEN ES(env, Out(p.st))
                          ELSE ES(env, [p.st EXCEPT !.out = Append(@, Join(p.ss))])
    [] s.s = "dpr" -> LET p == PrLine(s.items, env, st)                \* defer fmt.Printf(...): arguments evaluated now
                      IN  IF ~Running(p.st) THEN ES(env, p.st)
                          ELSE ES(env, [p.st EXCEPT !.dfr = Append(@, [pr |-> TRUE, line |-> Join(p.ss)])])
    [] s.s = "defer" -> LET f  == Eval(s.e.f, env, st)                 \* callee and arguments are evaluated now, the call is made later
                            as == EvalSeq(s.e.a, env, f.st)
                        IN  IF ~Running(as.st) THEN ES(env, as.st)
                            ELSE IF f.v.t # "fn" THEN ES(env, Out(as.st))
                            ELSE ES(env, [as.st EXCEPT !.dfr = Append(@, [pr |-> FALSE, f |-> f.v, args |-> as.vs])])
    [] s.s = "if"  -> LET c == Eval(s.c, env, st)
                      IN  IF ~Running(c.st) THEN ES(env, c.st)
                          ELSE IF c.v.t # "bool" THEN ES(env, Out(c.st))
                          ELSE ES(env, ExecB(IF c.v.b THEN s.a ELSE s.b, env, c.st))
    [] s.s = "forc" ->
         LET r == FoldLeft(LAMBDA acc, n :
                    IF acc.stop THEN acc
                    ELSE LET c == Eval(s.c, env, acc.st)
                         IN  IF ~Running(c.st) THEN [st |-> c.st, stop |-> TRUE]
                             ELSE IF c.v.t # "bool" THEN [st |-> Out(c.st), stop |-> TRUE]
                             ELSE IF ~c.v.b THEN [st |-> c.st, stop |-> TRUE]
                             ELSE IF n > MaxIter THEN [st |-> Out(c.st), stop |-> TRUE]
                             ELSE AfterBody(ExecB(s.body, env, c.st), s.lab),
                  [st |-> st, stop |-> FALSE], Upto(MaxIter + 1))
         IN  ES(env, r.st)
    [] s.s = "for3" ->
         LET i0 == ExecS(s.init, env, st)
             nm == InitNames(s.init)
             r  == FoldLeft(LAMBDA acc, n :
                    IF acc.stop THEN acc
                    ELSE LET c == Eval(s.c, acc.env, acc.st)
                         IN  IF ~Running(c.st) THEN [env |-> acc.env, st |-> c.st, stop |-> TRUE]
                             ELSE IF c.v.t # "bool" THEN [env |-> acc.env, st |-> Out(c.st), stop |-> TRUE]
                             ELSE IF ~c.v.b THEN [env |-> acc.env, st |-> c.st, stop |-> TRUE]
                             ELSE IF n > MaxIter THEN [env |-> acc.env, st |-> Out(c.st), stop |-> TRUE]
                             ELSE LET b == AfterBody(ExecB(s.body, acc.env, c.st), s.lab)
                                  IN  IF b.stop THEN [env |-> acc.env, st |-> b.st, stop |-> TRUE]
                                      ELSE LET cp == CopyVars(acc.env, b.st, nm)           \* next iteration's own variable
                                               p  == ExecS(s.post, cp.env, cp.st)
                                           IN  [env |-> cp.env, st |-> p.st, stop |-> ~Running(p.st)],
                  [env |-> i0.env, st |-> i0.st, stop |-> ~Running(i0.st)], Upto(MaxIter + 1))
         IN  ES(env, r.st)
    [] s.s = "forr" ->
         LET x == Eval(s.e, env, st)                                   \* the range expression is evaluated once
         IN  IF ~Running(x.st) THEN ES(env, x.st)
             ELSE IF x.v.t # "slice" \/ Len(x.v.xs) > MaxIter THEN ES(env, Out(x.st))
             ELSE ES(env, FoldLeft(LAMBDA acc, n :
                    IF acc.stop THEN acc
                    ELSE LET d1 == DefVar(env, acc.st, s.i, IntN(n - 1))
                             d2 == DefVar(d1.env, d1.st, s.v, x.v.xs[n])
                         IN  AfterBody(ExecB(s.body, d2.env, d2.st), s.lab),
                  [st |-> x.st, stop |-> FALSE], Upto(Len(x.v.xs))).st)
    [] s.s = "sw" ->
         LET t == IF s.ht THEN Eval(s.tag, env, st) ELSE R(BoolV(TRUE), st)
             \* the first case with a value equal to the tag (values are evaluated in order until one matches)
             m == FoldLeft(LAMBDA acc, ci :
                    IF acc.hit > 0 \/ ~Running(acc.st) THEN acc
                    ELSE FoldLeft(LAMBDA a2, ve :
                           IF a2.hit > 0 \/ ~Running(a2.st) THEN a2
                           ELSE LET v == Eval(ve, env, a2.st)
                                    q == IF Running(v.st) THEN BinOp("==", t.v, v.v, v.st) ELSE v
                                IN  IF ~Running(q.st) THEN [hit |-> 0, st |-> q.st]
                                    ELSE [hit |-> IF q.v.b THEN ci ELSE 0, st |-> q.st],
                         acc, s.cases[ci].vs),
                  [hit |-> 0, st |-> t.st], Upto(Len(s.cases)))
             body == IF m.hit > 0 THEN s.cases[m.hit].body ELSE IF s.hd THEN s.def ELSE <<>>
             r == ExecB(body, env, m.st)
         IN  IF ~Running(m.st) THEN ES(env, m.st)
             ELSE ES(env, IF r.ctl = "brk" /\ r.lab = "" THEN [r EXCEPT !.ctl = "run"] ELSE r)   \* break ends the switch only
    [] s.s = "brk" -> ES(env, [st EXCEPT !.ctl = "brk", !.lab = s.lab])
    [] s.s = "cnt" -> ES(env, [st EXCEPT !.ctl = "cnt", !.lab = s.lab])
    [] s.s = "ret" -> LET r == EvalSeq(s.es, env, st)
                      IN  IF ~Running(r.st) THEN ES(env, r.st) ELSE ES(env, [r.st EXCEPT !.ctl = "ret", !.rv = r.vs])
    [] s.s = "panic" -> LET r == Eval(s.e, env, st)
                        IN  IF ~Running(r.st) THEN ES(env, r.st)
                            ELSE ES(env, [r.st EXCEPT !.ctl = "pan", !.pan = [on |-> TRUE, v |-> r.v]])
    [] s.s = "ex"  -> ES(env, Eval(s.e, env, st).st)
    [] s.s = "del" -> LET k == Eval(s.k, env, st)
                      IN  IF ~Running(k.st) THEN ES(env, k.st)
                          ELSE IF s.m \notin DOMAIN env \/ st.store[env[s.m]].t # "map" \/ ~KeyOK(k.v) THEN ES(env, Out(k.st))
                          ELSE LET c == k.st.store[env[s.m]]
                               IN  ES(env, [k.st EXCEPT !.store[env[s.m]] = [c EXCEPT !.m = [x \in DOMAIN c.m \ {KeyOf(k.v)} |-> c.m[x]]]])
    [] OTHER -> ES(env, Out(st))

\* ------------------------------------------------------------------ a whole program under one mode
S0(P, mode, impl) == [P |-> P, mode |-> mode, impl |-> impl, genv |-> EmptyFn, store |-> <<>>, out |-> <<>>, ctl |-> "run", lab |-> "",
                      rv |-> <<>>, pan |-> [on |-> FALSE, v |-> NilV], dfr |-> <<>>, pend |-> 0, ec |-> "", bad |-> FALSE,
                      canrec |-> FALSE, recd |-> FALSE, depth |-> 0]

RunProg(P, mode, impl) ==
  LET g  == FoldLeft(LAMBDA acc, d : IF ~Running(acc.st) THEN acc ELSE ExecS(SVar(d.x, d.ty, d.e), acc.env, acc.st),
                     ES(EmptyFn, S0(P, mode, impl)), P.globs)
      s1 == [g.st EXCEPT !.genv = g.env]
      s2 == RunDefers(ExecB(P.main, g.env, s1))
  IN  s2

\* what is observable: the lines printed, how the program ended, the class of the error / the panic value
Status(s) == CASE s.ctl \in {"run", "ret"} -> "ok" [] s.ctl = "pan" -> "panic" [] s.ctl = "err" -> "error" [] OTHER -> "bad"
Observe(s) == [wf |-> ~s.bad /\ s.ctl \in {"run", "ret", "pan", "err"} /\ (s.ctl # "pan" \/ CanFmt(s.pan.v)),
               out |-> s.out, status |-> Status(s), ec |-> s.ec,
               pv |-> IF s.ctl = "pan" /\ CanFmt(s.pan.v) THEN FmtV(s.pan.v) ELSE ""]
=============================================================================

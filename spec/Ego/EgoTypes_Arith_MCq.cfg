INIT Init
NEXT Next
CONSTANTS
  Tier = "q"
  Seed = 1
  Impl = "doc"
INVARIANTS TypeOK IncFormsAgree IncKeepsKind NegTotal ConstAdapts StrictRejects StrictIncluded LenientAgree RelaxedKeeps KindOfOperand DivLemma AddSubLemma Emit
CHECK_DEADLOCK FALSE

INIT Init
NEXT Next
CONSTANTS
  Tier = "all"
  Seed = 1
  Impl = "doc"
INVARIANTS TypeOK StrictIncluded ConfigFree ErrorsClassified LinesBounded Emit
CHECK_DEADLOCK FALSE

INIT Init
NEXT Next
CONSTANTS
  Tier = "t"
  Seed = 1
  Impl = "doc"
INVARIANTS TypeOK StrictIncluded ConfigFree ErrorsClassified LinesBounded Emit
CHECK_DEADLOCK FALSE

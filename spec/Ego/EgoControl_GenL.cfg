SPECIFICATION Spec
CONSTANTS
  MaxStm = 11
  MinStm = 8
  MaxFn = 3
  MaxNest = 3
  MaxDefer = 3
  Iter = 2
  Impl = "fixed"
INVARIANTS TryStackSound DefersOnce PanicSound NoWedge EndSound Emit
CHECK_DEADLOCK FALSE

SPECIFICATION Spec
CONSTANTS
  MaxStm = 4
  MinStm = 0
  MaxFn = 2
  MaxNest = 3
  MaxDefer = 2
  Iter = 2
  Impl = "fixed"
INVARIANTS TryStackSound DefersOnce PanicSound NoWedge EndSound Emit
CHECK_DEADLOCK FALSE

--------------------------- MODULE EgoTypes_Arith ---------------------------
(* C03 - arithmetic follows the documented typing rules.                     *)
(*                                                                           *)
(* A state is one small program ("cell"): typed variables are declared with  *)
(* chosen values (pc = "pre"), then ONE statement of one of the forms        *)
(*     bin   r := L op R          neg   r := -x                              *)
(*     inc   x++ / x--            cas   x op= R          asg   x = x op R    *)
(* is executed under each of the three --types modes (action Exec) and the   *)
(* observable outcome is the value and type of r / x, or a rejection.        *)
(* out[mode].o is the SET of outcomes the language reference permits (more   *)
(* than one only where the reference does not choose the result kind of two  *)
(* typed operands); out[mode].wf says whether the case is inside the domain  *)
(* of EgoTypes (exact results only) in that mode.                            *)
(* The set of initial states (small indices, variable ix) is the rule table of the property's quantifier: *)
(* kinds x values x constant/variable operands x operators x forms x modes.  *)
(* Every post state is printed as JSON (invariant Emit) and executed on the  *)
(* real interpreter by checks/C03.py; the invariants below are the           *)
(* "theorems" of the table that TLC checks on the specification itself.      *)
EXTENDS EgoTypes, Json

CONSTANTS Tier,      \* "q": one seeded value choice per table cell;  "t": several boundary values per cell;  "inc": see Index
          Seed,      \* rotates the value choices of tier "q"
          Impl       \* "doc": x++ is x = x + 1 with the constant 1 (LANGUAGE.md);  "asis": the as-built compilation
                     \*        of x++ (adds a typed, non-constant int 1) - negative control only

VARIABLES pc,    \* "pre": variables declared, statement not yet run;  "post": run
          ix,    \* which cell of the table (small indices: kinds, value classes, operator, form)
          cell,  \* the program: operands with their values
          out    \* per --types mode: the outcomes the reference permits
vars == <<pc, ix, cell, out>>

\* ------------------------------------------------------------------ operand values
Var(v, name)   == [c |-> FALSE, v |-> v, cls |-> name]
Con(v, name)   == [c |-> TRUE,  v |-> v, cls |-> name]
NoOperand      == Con(V0, "none")

\* boundary and ordinary values of each kind (index = value class)
SKindOfBits(k) == IF Bits(k) = 8 THEN "int8" ELSE IF Bits(k) = 16 THEN "int16" ELSE IF Bits(k) = 32 THEN "int32" ELSE "int64"
IntVal(k, i) ==
  IF Signed(k) THEN CASE i = 1 -> Var(IntV(k, ZInt(3)), "3")     [] i = 2 -> Var(IntV(k, MaxZ(k)), "max")
                      [] i = 3 -> Var(IntV(k, MinZ(k)), "min")   [] i = 4 -> Var(IntV(k, ZInt(-1)), "-1")
                      [] i = 5 -> Var(IntV(k, ZInt(1)), "1")     [] i = 6 -> Var(IntV(k, ZInt(100)), "100")
                      [] i = 7 -> Var(IntV(k, Z0), "0")          [] i = 8 -> Var(IntV(k, ZInt(-7)), "-7")
  ELSE             CASE i = 1 -> Var(IntV(k, ZInt(3)), "3")     [] i = 2 -> Var(IntV(k, MaxZ(k)), "max")
                      [] i = 3 -> Var(IntV(k, Narrow(ZAdd(MaxZ(k), ZInt(-1)), k)), "max-1")
                      [] i = 4 -> Var(IntV(k, Narrow(MinZ(SKindOfBits(k)), k)), "half")
                      [] i = 5 -> Var(IntV(k, ZInt(1)), "1")     [] i = 6 -> Var(IntV(k, ZInt(100)), "100")
                      [] i = 7 -> Var(IntV(k, Z0), "0")          [] i = 8 -> Var(IntV(k, ZInt(200)), "200")
FltVals(k) == << Var(FltV(k, 10), "2.5"),  Var(FltV(k, -10), "-2.5"), Var(FltV(k, 2), "0.5"),   Var(FltV(k, 401), "100.25"),
                 Var(FltV(k, 4), "1"),     Var(FltV(k, 4000), "1000"), Var(FltV(k, -12), "-3"), Var(FltV(k, 16), "4") >>
CpxVals(k) == << Var(CpxV(k, 4, 8), "1+2i"),   Var(CpxV(k, 10, -4), "2.5-1i"), Var(CpxV(k, -8, 2), "-2+0.5i"), Var(CpxV(k, 8, 0), "2+0i"),
                 Var(CpxV(k, 0, 4), "0+1i"),   Var(CpxV(k, 12, 12), "3+3i"),   Var(CpxV(k, 2, 2), "0.5+0.5i"), Var(CpxV(k, -4, -4), "-1-1i") >>
Val(k, i) == IF k \in IntKinds THEN IntVal(k, i) ELSE IF k \in FloatKinds THEN FltVals(k)[i] ELSE CpxVals(k)[i]
NVals == 8

\* untyped constant literals (an integer literal is an Ego int, a literal with a decimal point a float64)
IC(n, name) == Con(IntV("int", ZInt(n)), name)
FC(q, name) == Con(FltV("float64", q), name)
Consts == << IC(1, "1"), IC(2, "2"), IC(7, "7"), IC(300, "300"), IC(70000, "70000"),
             Con(IntV("int", ZMul(ZInt(50000), ZInt(100000))), "5000000000"),
             IC(-1, "-1"), IC(-200, "-200"), IC(0, "0"),
             FC(8, "2.0"), FC(10, "2.5"), FC(-10, "-2.5"), FC(2, "0.5"), FC(1200, "300.0") >>
NConsts == 14
One == IC(1, "1")
OneTyped == Var(IntV("int", ZInt(1)), "1")          \* what the as-built x++ adds (negative control)

\* ------------------------------------------------------------------ the table (as indices)
\* operand descriptor: t = "v" (variable of kind k with value class i), "c" (constant number i), "n" (no operand)
DV(k, i) == [t |-> "v", k |-> k, i |-> i]
DC(i)    == [t |-> "c", k |-> "", i |-> i]
DN       == [t |-> "n", k |-> "", i |-> 0]
Opd(d)   == IF d.t = "v" THEN Val(d.k, d.i) ELSE IF d.t = "c" THEN Consts[d.i] ELSE NoOperand

Pick(a, b, c, n) == ((Seed * 31 + a * 7 + b * 13 + c * 5) % n) + 1
\* value classes taken per operand position (salt).  Tier "t": two variables take the boundary classes 3, max, min/max-1,
\* -1/half on the left and 3, max, min/max-1, 0 on the right; a variable next to a constant takes every class on the left
\* of an expression; tier "q" takes one seeded class per position
ValIdx(k, salt)  == IF Tier = "t" THEN (CASE salt = 1 -> {1, 2, 3, 4} [] salt = 3 -> 1..NVals [] salt = 4 -> {1, 2, 3, 4}
                                          [] salt = 7 -> {1, 2, 3, 4, 7} [] salt = 8 -> {1, 2} [] OTHER -> 1..NVals)
                    ELSE {Pick(KIdx(k), salt, 1, NVals)}
ValIdx2(k, salt) == IF Tier = "t" THEN (CASE salt = 2 -> {1, 2, 3, 7} [] salt = 9 -> {1, 3, 7} [] OTHER -> {1, 2, 3, 4})
                    ELSE {Pick(KIdx(k), salt, 2, NVals)}
VarDs(salt)  == UNION { { DV(k, i) : i \in ValIdx(k, salt) } : k \in Kinds }
VarDs2(salt) == UNION { { DV(k, i) : i \in ValIdx2(k, salt) } : k \in Kinds }
VarDs3(salt) == UNION { { DV(k, i) : i \in ValIdx(k, salt) \cup ValIdx2(k, salt) \cup {2, 3} } : k \in Kinds }
ConDs        == { DC(i) : i \in 1..NConsts }
\* kind pairs taken for the assignment forms with a variable right operand (all of them in tier "t")
PairTaken(k1, k2) == Tier = "t" \/ (KIdx(k1) + 2 * KIdx(k2) + Seed) % 3 = 0
\* operators taken for the expression form with two variables (all of them in tier "t"; "+" and two seeded ones otherwise)
OpSeq == <<"+", "-", "*", "/", "%">>
OpTaken(op, k1, k2) == Tier = "t" \/ op = "+" \/ op = OpSeq[Pick(KIdx(k1), KIdx(k2), 3, 4) + 1] \/ op = OpSeq[Pick(KIdx(k2), KIdx(k1), 4, 4) + 1]

\* decl: how the variables are declared - "var" (var a T = T(v)) or "def" (a := T(v)).  The reference gives both the same
\* meaning (the semantics below ignores decl); the interpreter compiles them differently (named vs register-slot locals).
I(form, op, l, r) == [form |-> form, op |-> op, l |-> l, r |-> r, decl |-> "var"]
Def(X) == X \cup { [x EXCEPT !.decl = "def"] : x \in X }
AsgOps == {"+", "-", "*", "/"}
BinVV == { x \in { I("bin", op, l, r) : op \in ArithOps, l \in VarDs(1), r \in VarDs2(2) } : OpTaken(x.op, x.l.k, x.r.k) }
BinVC == { I("bin", op, l, r) : op \in ArithOps, l \in VarDs(3), r \in ConDs }
\* tier "q" halves the constant-on-the-left cells and alternates the two assignment forms (seeded)
Half(a, b) == Tier = "t" \/ (a + b + Seed) % 2 = 0
BinCV == { x \in { I("bin", op, l, r) : op \in ArithOps, l \in ConDs, r \in VarDs(4) } : Half(x.l.i, KIdx(x.r.k)) }
NegC  == Def({ I("neg", "-", l, DN) : l \in VarDs3(5) })
IncC  == Def({ I("inc", op, l, DN) : op \in {"+", "-"}, l \in VarDs3(6) })
AsgVC(form) == { x \in { I(form, op, l, r) : op \in AsgOps, l \in VarDs(7), r \in ConDs } :
                 Half(x.r.i + (IF form = "cas" THEN 1 ELSE 0), KIdx(x.l.k)) }
AsgVV(form) == { x \in { I(form, op, l, r) : op \in AsgOps, l \in VarDs(8), r \in VarDs2(9) } : PairTaken(x.l.k, x.r.k) }
\* the increment forms written out with the constant 1, so that the three forms of the statement are all executed
AsgOne(form) == { [x EXCEPT !.form = form, !.r = DC(1)] : x \in IncC }

Index == IF Tier = "inc" THEN IncC ELSE       \* tier "inc": the increment cells only (negative control)
         BinVV \cup BinVC \cup BinCV \cup NegC \cup IncC
         \cup AsgVC("cas") \cup AsgVC("asg") \cup AsgVV("cas") \cup AsgVV("asg") \cup AsgOne("cas") \cup AsgOne("asg")
Build(x) == [form |-> x.form, op |-> x.op, l |-> Opd(x.l), r |-> Opd(x.r), decl |-> x.decl]
NoCell   == [form |-> "none", op |-> "", l |-> NoOperand, r |-> NoOperand, decl |-> "var"]

\* ------------------------------------------------------------------ semantics of a cell (in one type-checking mode)
\* the expression the statement evaluates: x++ is x + 1, x op= R is x op R (LANGUAGE.md "identical function", "the same as")
Expr(c, mode) ==
  CASE c.form = "neg" -> {NegV(c.l.v)}
    [] c.form = "inc" -> BinR(c.l, IF Impl = "asis" THEN OneTyped ELSE One, c.op, mode)
    [] OTHER          -> BinR(c.l, c.r, c.op, mode)           \* bin, cas, asg
\* ... and what the statement does with its value: bin/neg define a new variable, the others assign to x
Finish(c, mode, rs) ==
  LET fs == IF c.form \in {"bin", "neg"} THEN rs ELSE { Store(c.l.v.k, b, mode) : b \in rs }
  IN  [wf |-> InDomain(fs), o |-> IF InDomain(fs) THEN OutOf(fs) ELSE {}]
Outcome(c, mode) == Finish(c, mode, Expr(c, mode))

NoOut == [m \in Modes |-> [wf |-> FALSE, o |-> {}]]
Init == pc = "pre" /\ ix \in Index /\ cell = NoCell /\ out = NoOut
Exec == /\ pc = "pre"                      \* the program is run once under each --types mode
        /\ pc' = "post"
        /\ cell' = Build(ix)
        /\ LET lenient == Expr(cell', "dynamic")              \* expressions are evaluated alike in dynamic and relaxed mode
               strict  == Expr(cell', "strict")
           IN  out' = [m \in Modes |-> Finish(cell', m, IF m = "strict" THEN strict ELSE lenient)]
        /\ UNCHANGED ix
Next == Exec
Spec == Init /\ [][Next]_vars

\* ------------------------------------------------------------------ what is printed for the harness
OpdRec(o) == [c |-> o.c, k |-> o.v.k, cls |-> o.cls, lit |-> LitStr(o.v), slit |-> SLitStr(o.v), val |-> ValStr(o.v)]
OpdKey(o) == IF o.cls = "none" THEN "-" ELSE IF o.c THEN "c:" \o o.cls ELSE "v:" \o o.v.k
\* abstract identity of the case: everything except the values of the variables (the harness appends the mode)
Key(c) == c.form \o (IF c.decl = "def" THEN ":=" ELSE "") \o "/" \o c.op \o "/" \o OpdKey(c.l) \o "/" \o OpdKey(c.r)
Rec(c, o) == [key |-> Key(c), form |-> c.form, decl |-> c.decl, op |-> c.op, l |-> OpdRec(c.l), r |-> OpdRec(c.r), exp |-> o]
Emit == pc = "post" /\ (\E m \in Modes : out[m].wf) => PrintT(ToJson(Rec(cell, out)))

\* ------------------------------------------------------------------ theorems of the table
Post(m) == pc = "post" /\ out[m].wf
OutF(c, f, r, m) == Outcome([c EXCEPT !.form = f, !.r = r], m)

\* x++ / x += 1 / x = x + 1 (and the -- forms) agree in value and type, for every kind, value and mode
IncFormsAgree == \A m \in Modes : Post(m) /\ cell.form = "inc" =>
                   /\ OutF(cell, "cas", One, m).o = out[m].o
                   /\ OutF(cell, "asg", One, m).o = out[m].o
\* ... and they keep the kind of x and never fail
IncKeepsKind  == \A m \in Modes : Post(m) /\ cell.form = "inc" => \A x \in out[m].o : ~x.err /\ x.k = cell.l.v.k
\* unary minus is total (and kind preserving) on every numeric kind
NegTotal      == \A m \in Modes : Post(m) /\ cell.form = "neg" => \A x \in out[m].o : ~x.err /\ x.k = cell.l.v.k
\* a constant adapts to the typed operand: the result has the typed operand's kind
ConstAdapts   == \A m \in Modes : Post(m) /\ cell.form = "bin" /\ (cell.l.c # cell.r.c) =>
                   \A x \in out[m].o : x.err \/ x.k = (IF cell.l.c THEN cell.r.v.k ELSE cell.l.v.k)
\* strict mode rejects two typed operands of different kinds, whatever the operator
StrictRejects == Post("strict") /\ ~cell.l.c /\ ~cell.r.c /\ cell.r.cls # "none" /\ cell.l.v.k # cell.r.v.k =>
                   out["strict"].o = {ErrO}
\* a program accepted in strict mode means the same in relaxed and dynamic mode
StrictIncluded == Post("strict") /\ ErrO \notin out["strict"].o =>
                   /\ out["relaxed"].wf /\ out["relaxed"].o = out["strict"].o
                   /\ out["dynamic"].wf /\ out["dynamic"].o = out["strict"].o
\* without an assignment the two lenient modes agree
LenientAgree  == pc = "post" /\ cell.form \in {"bin", "neg"} => out["relaxed"] = out["dynamic"]
\* relaxed assignment never changes the kind of the variable
RelaxedKeeps  == Post("relaxed") /\ cell.form \in {"inc", "cas", "asg"} => \A x \in out["relaxed"].o : x.err \/ x.k = cell.l.v.k
\* the result kind of an expression is the kind of one of its operands
KindOfOperand == \A m \in Modes : Post(m) /\ cell.form = "bin" => \A x \in out[m].o : x.err \/ x.k \in {cell.l.v.k, cell.r.v.k}
\* sanity of the 64-bit arithmetic: q*d + r = n for the integer division cells of one kind
DivLemma == pc = "post" /\ cell.form = "bin" /\ cell.op = "/" /\ ~cell.l.c /\ ~cell.r.c /\ cell.l.v.k = cell.r.v.k
            /\ cell.l.v.k \in IntKinds /\ cell.r.v.z # Z0 =>
              LET k == cell.l.v.k
                  d == ZDivK(cell.l.v.z, cell.r.v.z, k)
              IN  Narrow(ZAdd(ZMul(d.q, cell.r.v.z), d.r), k) = cell.l.v.z
\* (a + b) - b = a in every integer kind (wrap-around is a group)
AddSubLemma == pc = "post" /\ cell.form = "bin" /\ cell.op = "+" /\ ~cell.l.c /\ ~cell.r.c /\ cell.l.v.k = cell.r.v.k
               /\ cell.l.v.k \in IntKinds =>
              LET s == Arith("+", cell.l.v, cell.r.v) IN Arith("-", s.v, cell.r.v).v = cell.l.v
\* every value in the table is canonical for its kind
Canon(v) == v.k \in IntKinds => Narrow(v.z, v.k) = v.z
TypeOK  == /\ pc \in {"pre", "post"}
           /\ Canon(cell.l.v) /\ Canon(cell.r.v)
           /\ DOMAIN out = Modes
=============================================================================

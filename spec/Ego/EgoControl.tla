----------------------------- MODULE EgoControl -----------------------------
(* Control-flow reference machine for the Ego interpreter (tucats/ego):     *)
(* try/catch, defer, panic/recover, loops with break/continue, calls.       *)
(*                                                                          *)
(* A behaviour has two phases.                                              *)
(*  build : a program is written token by token (every well-formed program  *)
(*          of at most MaxStm statements, MaxFn functions, nesting MaxNest   *)
(*          is reachable; BFS = exhaustive, -simulate = random sample).     *)
(*  run   : the program is executed by a small-step machine shaped like     *)
(*          internal/language/bytecode:                                     *)
(*            stack     - call frames (callframe.go): continuation, defer   *)
(*                        stack, tryDepth saved at the call                 *)
(*            tryStack  - the context-wide try stack (try.go/catch.go): one *)
(*                        entry per try statement entered and not left,     *)
(*                        armed until its catch clause starts               *)
(*            pan       - panicActive / panicValue (panic.go)               *)
(*          one action per instruction that matters to C10:                 *)
(*            EnterTry (Try) ExitBlock (TryPop) Raise (handleCatch)         *)
(*            Defer RunDefer (RunDefers / invokePanicDefers)                *)
(*            StartReturn FinishReturn (Return, callFramePop)               *)
(*            Panic FinishUnwind (UserPanic, unwindPanic) Break Continue    *)
(*            Call EnterLoop                                                *)
(* The program prints a marker at every observable site; `out` is the       *)
(* sequence of lines the program must print, `status` how it must end.      *)
(*                                                                          *)
(* Impl = "fixed" : what C10 demands (leaving a try block by break/continue *)
(*                  discards its try entry; a frame pop truncates the try   *)
(*                  stack to the depth saved at the call)                   *)
(* Impl = "asis"  : break/continue leave the try entries of the blocks they *)
(*                  jump out of (what compileBreak/compileContinue emit on   *)
(*                  the unchanged tree)          -- negative control 1      *)
(* Impl = "notd"  : a frame pop does not restore the try depth              *)
(*                                               -- negative control 2      *)
(*                                                                          *)
(* Reading notes (what the statement of C10 leaves open is not demanded):   *)
(*  - panic() is not a "catchable runtime error": it bypasses try/catch     *)
(*    (LANGUAGE.md, @capture "Known limitation").                           *)
(*  - defers of frames discarded because a runtime error was caught further *)
(*    down, and pending defers when an uncaught error stops the program,    *)
(*    are unspecified: their markers go to `mask` (ignored on both sides).  *)
EXTENDS Integers, Sequences, FiniteSets, TLC

CONSTANTS MaxStm,    \* statements in a program
          MinStm,    \* ... and at least this many (0 for exhaustive runs; keeps random samples from ending early)
          MaxFn,     \* functions (function 1 is the entry, called by main)
          MaxNest,   \* nesting of try/loop blocks inside one function
          MaxDefer,  \* defer statements (lexically) per function
          Iter,      \* iterations of every loop
          Impl

VARIABLES toks, open, dead, nst, curfn, maxcalled, ndef,          \* build phase
          fns, stack, tryStack, pan, out, status, fired, mask,    \* run phase
          feat, dok                                               \* history

bvars == <<toks, open, dead, nst, curfn, maxcalled, ndef>>
rvars == <<fns, stack, tryStack, pan, out, fired, mask, feat, dok>>
vars  == <<bvars, rvars, status>>

Max(S) == CHOOSE x \in S : \A y \in S : y <= x
MinI(a, b) == IF a < b THEN a ELSE b
Front(s) == SubSeq(s, 1, Len(s) - 1)
Last(s) == s[Len(s)]
RECURSIVE Rev(_)
Rev(s) == IF s = <<>> THEN <<>> ELSE Append(Rev(Tail(s)), Head(s))
Str(n) == ToString(n)

-----------------------------------------------------------------------------
(* Build phase: the token grammar                                          *)

Tok(t, f) == [t |-> t, f |-> f]
NLoops == Cardinality({i \in 1..Len(open) : open[i] = "loop"})
InLoop == NLoops >= 1
Building == status = "build"
CanStm == Building /\ ~dead /\ nst < MaxStm

AddTok(tk, op, dd, ds) ==
    /\ toks' = Append(toks, tk) /\ open' = op /\ dead' = dd /\ nst' = nst + ds
    /\ UNCHANGED <<rvars, status>>

\* err: division by zero; err1: the same, but only the first time the statement is reached
\* brk/cnt: break/continue of the innermost loop; brkO/cntO: labelled, of the loop around it
BSimple == /\ CanStm
           /\ \E t \in {"err", "err1", "panic", "ret"} \cup (IF InLoop THEN {"brk", "cnt"} ELSE {})
                                                       \cup (IF NLoops >= 2 THEN {"brkO", "cntO"} ELSE {}) :
                 AddTok(Tok(t, 0), open, t # "err1", 1)
           /\ UNCHANGED <<curfn, maxcalled, ndef>>

BCall == /\ CanStm
         /\ \E j \in (curfn + 1)..MinI(maxcalled + 1, MaxFn) :
               /\ AddTok(Tok("call", j), open, FALSE, 1)
               /\ maxcalled' = IF j > maxcalled THEN j ELSE maxcalled
         /\ UNCHANGED <<curfn, ndef>>

\* dm: defer note(id)   df: defer func(){ print }()   dr: defer func(){ print recover() }()
BDefer == /\ CanStm /\ ndef < MaxDefer
          /\ \E t \in {"dm", "df", "dr"} : AddTok(Tok(t, 0), open, FALSE, 1)
          /\ ndef' = ndef + 1
          /\ UNCHANGED <<curfn, maxcalled>>

BOpen == /\ CanStm /\ Len(open) < MaxNest
         /\ \E t \in {"try", "loop"} : AddTok(Tok(t, 0), Append(open, t), FALSE, 1)
         /\ UNCHANGED <<curfn, maxcalled, ndef>>

BCatch == /\ Building /\ Len(open) > 0 /\ Last(open) = "try"
          /\ AddTok(Tok("catch", 0), [open EXCEPT ![Len(open)] = "catch"], FALSE, 0)
          /\ UNCHANGED <<curfn, maxcalled, ndef>>

BEnd == /\ Building /\ Len(open) > 0
        /\ AddTok(Tok("end", 0), Front(open), FALSE, 0)
        /\ UNCHANGED <<curfn, maxcalled, ndef>>

BFn == /\ Building /\ open = <<>> /\ curfn < maxcalled
       /\ AddTok(Tok("fn", 0), <<>>, FALSE, 0)
       /\ curfn' = curfn + 1 /\ ndef' = 0
       /\ UNCHANGED maxcalled

(* tokens -> functions (sequences of statement nodes, numbered in pre-order) *)
Closers == {"catch", "end", "fn"}
Node(k, id, a, b, f, hc) == [k |-> k, id |-> id, a |-> a, b |-> b, f |-> f, hc |-> hc]

RECURSIVE PBlock(_, _, _)
PBlock(ts, i, id) ==
  IF i > Len(ts) \/ ts[i].t \in Closers THEN [blk |-> <<>>, i |-> i, id |-> id]
  ELSE IF ts[i].t = "try" THEN
    LET A  == PBlock(ts, i + 1, id + 1)
        hc == A.i <= Len(ts) /\ ts[A.i].t = "catch"
        B  == IF hc THEN PBlock(ts, A.i + 1, A.id) ELSE [blk |-> <<>>, i |-> A.i, id |-> A.id]
        R  == PBlock(ts, B.i + 1, B.id)
    IN [blk |-> <<Node("try", id, A.blk, B.blk, 0, hc)>> \o R.blk, i |-> R.i, id |-> R.id]
  ELSE IF ts[i].t = "loop" THEN
    LET A == PBlock(ts, i + 1, id + 1)
        R == PBlock(ts, A.i + 1, A.id)
    IN [blk |-> <<Node("loop", id, A.blk, <<>>, 0, FALSE)>> \o R.blk, i |-> R.i, id |-> R.id]
  ELSE
    LET R == PBlock(ts, i + 1, id + 1)
    IN [blk |-> <<Node(ts[i].t, id, <<>>, <<>>, ts[i].f, FALSE)>> \o R.blk, i |-> R.i, id |-> R.id]

RECURSIVE PFns(_, _, _)
PFns(ts, i, id) == LET A == PBlock(ts, i, id)
                   IN IF A.i > Len(ts) THEN <<A.blk>> ELSE <<A.blk>> \o PFns(ts, A.i + 1, A.id)

-----------------------------------------------------------------------------
(* Run phase                                                               *)

Kont(kind, id, rest, h, n, hc) == [kind |-> kind, id |-> id, rest |-> rest, h |-> h, n |-> n, hc |-> hc]
NewFrame(p, fn, cid, td) == [fn |-> fn, cid |-> cid, k |-> <<Kont("body", 0, p[fn], <<>>, 0, FALSE)>>,
                             defers |-> <<>>, td |-> td, mode |-> "run", reg |-> <<>>, ran |-> <<>>]

BDone == /\ Building /\ open = <<>> /\ curfn = maxcalled /\ (nst >= MinStm \/ dead)
         /\ LET p == PFns(toks, 1, 1)
            IN /\ fns' = p
               /\ stack' = <<NewFrame(p, 1, 0, 0)>>
         /\ status' = "run"
         /\ out' = <<"F1">>
         /\ UNCHANGED <<bvars, tryStack, pan, fired, mask, feat, dok>>

N   == Len(stack)
Top == stack[N]
KN  == Len(Top.k)
K   == Top.k[KN]
Running == status = "run" /\ N > 0 /\ Top.mode = "run"
HasStm  == Running /\ K.rest # <<>>
S    == Head(K.rest)
Ks0  == [Top.k EXCEPT ![KN].rest = Tail(K.rest)]          \* continuation with S consumed
SetTop(f) == [stack EXCEPT ![N] = f]

EnterTry ==                                                \* Try + Push marker
    /\ HasStm /\ S.k = "try"
    /\ stack' = SetTop([Top EXCEPT !.k = Append(Ks0, Kont("try", S.id, S.a, S.b, 0, S.hc))])
    /\ tryStack' = Append(tryStack, [fd |-> N, kd |-> KN + 1, armed |-> TRUE])
    /\ out' = Append(out, "T" \o Str(S.id))
    /\ UNCHANGED <<bvars, fns, pan, status, fired, mask, feat, dok>>

EnterLoop ==
    /\ HasStm /\ S.k = "loop"
    /\ stack' = SetTop([Top EXCEPT !.k = Append(Ks0, Kont("loop", S.id, S.a, S.a, Iter, FALSE))])
    /\ out' = Append(out, "L" \o Str(S.id))
    /\ UNCHANGED <<bvars, fns, tryStack, pan, status, fired, mask, feat, dok>>

Call ==                                                    \* callFramePush: saves tryDepth
    /\ HasStm /\ S.k = "call"
    /\ stack' = Append(SetTop([Top EXCEPT !.k = Ks0]), NewFrame(fns, S.f, S.id, Len(tryStack)))
    /\ out' = Append(out, "F" \o Str(S.f))
    /\ UNCHANGED <<bvars, fns, tryStack, pan, status, fired, mask, feat, dok>>

Defer ==                                                   \* deferByteCode
    /\ HasStm /\ S.k \in {"dm", "df", "dr"}
    /\ stack' = SetTop([Top EXCEPT !.k = Ks0, !.defers = Append(@, [id |-> S.id, k |-> S.k]),
                                   !.reg = Append(@, S.id)])
    /\ UNCHANGED <<bvars, fns, tryStack, pan, out, status, fired, mask, feat, dok>>

StartReturn ==                                             \* return statement, or end of the function body
    /\ Running
    /\ \/ K.rest # <<>> /\ S.k = "ret"
       \/ K.rest = <<>> /\ K.kind = "body"
    /\ stack' = SetTop([Top EXCEPT !.mode = "ret"])
    /\ UNCHANGED <<bvars, fns, tryStack, pan, out, status, fired, mask, feat, dok>>

Panic ==                                                   \* userPanicByteCode: not offered to handleCatch
    /\ HasStm /\ S.k = "panic"
    /\ pan' = [on |-> TRUE, v |-> S.id]
    /\ stack' = SetTop([Top EXCEPT !.mode = "unw"])
    /\ UNCHANGED <<bvars, fns, tryStack, out, status, fired, mask, feat, dok>>

(* handleCatch: the innermost armed try entry takes the error; frames above  *)
(* it are discarded; the entry is disarmed while its catch clause runs.      *)
ArmedIdx == {i \in 1..Len(tryStack) : tryStack[i].armed}
PendingMarks(fs) == UNION {{(IF stack[j].defers[x].k = "dr" THEN "R" ELSE "D") \o Str(stack[j].defers[x].id)
                              : x \in DOMAIN stack[j].defers} : j \in fs}
RaiseEff ==
  IF ArmedIdx = {} THEN
      /\ status' = "error"                                  \* no try: the program stops
      /\ mask' = mask \cup PendingMarks(1..N)
      /\ UNCHANGED <<stack, tryStack, out>>
  ELSE LET i  == Max(ArmedIdx)
           e  == tryStack[i]
           fr == stack[e.fd]
       IN IF e.fd > N \/ e.kd > Len(fr.k) \/ fr.k[e.kd].kind # "try" THEN
               /\ status' = "wedged"                        \* stale entry (only reachable when Impl # "fixed")
               /\ UNCHANGED <<stack, tryStack, out, mask>>
          ELSE LET tk == fr.k[e.kd]
               IN /\ stack' = [SubSeq(stack, 1, e.fd) EXCEPT ![e.fd].k =
                                  Append(SubSeq(fr.k, 1, e.kd - 1), Kont("catch", tk.id, tk.h, <<>>, 0, tk.hc))]
                  /\ tryStack' = [SubSeq(tryStack, 1, i) EXCEPT ![i].armed = FALSE]
                  /\ out' = IF tk.hc THEN Append(out, "C" \o Str(tk.id)) ELSE out
                  /\ mask' = mask \cup PendingMarks((e.fd + 1)..N)
                  /\ status' = status

Raise ==
    /\ HasStm /\ S.k = "err"
    /\ RaiseEff
    /\ UNCHANGED <<bvars, fns, pan, fired, feat, dok>>

RaiseOnce ==
    /\ HasStm /\ S.k = "err1"
    /\ IF S.id \in fired
         THEN /\ stack' = SetTop([Top EXCEPT !.k = Ks0])
              /\ out' = Append(out, "A" \o Str(S.id))
              /\ UNCHANGED <<tryStack, status, mask, fired>>
         ELSE /\ fired' = fired \cup {S.id}
              /\ RaiseEff
    /\ UNCHANGED <<bvars, fns, pan, feat, dok>>

(* break / continue: leave every block between the statement and its loop    *)
LoopIdx == {j \in 1..KN : Top.k[j].kind = "loop"}
JL == Max(LoopIdx)                      \* innermost loop
JO == Max(LoopIdx \ {JL})              \* the loop around it
TryAfterJump(j) ==      \* try stack once the blocks of the top frame at continuation depth >= j are left
    IF Impl = "asis" THEN tryStack
    ELSE SelectSeq(tryStack, LAMBDA e : ~(e.fd = N /\ e.kd >= j))
JumpFeat(w, j) == {w \o "-out-of-" \o Top.k[x].kind : x \in {y \in (j + 1)..KN : Top.k[y].kind \in {"try", "catch"}}}

BreakTo(j, w) ==
    /\ stack' = SetTop([Top EXCEPT !.k = SubSeq(Ks0, 1, j - 1)])
    /\ tryStack' = TryAfterJump(j)
    /\ out' = Append(out, "A" \o Str(Top.k[j].id))
    /\ feat' = feat \cup JumpFeat(w, j)
    /\ UNCHANGED <<bvars, fns, pan, status, fired, mask, dok>>

NextIter(ks, j) ==      \* the loop at continuation depth j finished one pass
    IF ks[j].n > 1 THEN [ks EXCEPT ![j].rest = ks[j].h, ![j].n = @ - 1] ELSE SubSeq(ks, 1, j - 1)
IterMark(ks, j) == (IF ks[j].n > 1 THEN "L" ELSE "A") \o Str(ks[j].id)

ContinueTo(j, w) ==
    /\ stack' = SetTop([Top EXCEPT !.k = NextIter(SubSeq(Ks0, 1, j), j)])
    /\ tryStack' = TryAfterJump(j + 1)
    /\ out' = Append(out, IterMark(Top.k, j))
    /\ feat' = feat \cup JumpFeat(w, j)
    /\ UNCHANGED <<bvars, fns, pan, status, fired, mask, dok>>

Break    == \/ HasStm /\ S.k = "brk"  /\ BreakTo(JL, "break")
            \/ HasStm /\ S.k = "brkO" /\ BreakTo(JO, "break")
Continue == \/ HasStm /\ S.k = "cnt"  /\ ContinueTo(JL, "continue")
            \/ HasStm /\ S.k = "cntO" /\ ContinueTo(JO, "continue")

ExitBlock ==            \* end of a try body / catch clause (TryPop), or of a loop pass
    /\ Running /\ K.rest = <<>> /\ K.kind # "body"
    /\ IF K.kind = "loop"
         THEN /\ stack' = SetTop([Top EXCEPT !.k = NextIter(Top.k, KN)])
              /\ out' = Append(out, IterMark(Top.k, KN))
              /\ UNCHANGED tryStack
         ELSE /\ stack' = SetTop([Top EXCEPT !.k = Front(Top.k)])
              /\ tryStack' = Front(tryStack)
              /\ out' = Append(out, "A" \o Str(K.id))
    /\ UNCHANGED <<bvars, fns, pan, status, fired, mask, feat, dok>>

(* one deferred call (RunDefers on return, invokePanicDefers while unwinding); *)
(* the bodies only print, so a deferred call is one step                      *)
RunDefer ==
    /\ status = "run" /\ N > 0 /\ Top.mode \in {"ret", "unw"} /\ Top.defers # <<>>
    /\ LET d == Last(Top.defers)
           rec == Top.mode = "unw" /\ pan.on
       IN /\ stack' = SetTop([Top EXCEPT !.defers = Front(@), !.ran = Append(@, d.id)])
          /\ out' = Append(out, IF d.k = "dr"
                                  THEN "R" \o Str(d.id) \o "=" \o (IF rec THEN "p" \o Str(pan.v) ELSE "<nil>")
                                  ELSE "D" \o Str(d.id))
          /\ pan' = IF d.k = "dr" /\ rec THEN [on |-> FALSE, v |-> 0] ELSE pan
    /\ UNCHANGED <<bvars, fns, tryStack, status, fired, mask, feat, dok>>

PopTry(f) == IF Impl = "notd" THEN tryStack ELSE SubSeq(tryStack, 1, MinI(Len(tryStack), f.td))
ReturnToCaller ==       \* callFramePop of a frame that ends normally (also after a recover)
    /\ tryStack' = PopTry(Top)
    /\ IF N = 1 THEN /\ stack' = <<>> /\ status' = "ok" /\ out' = Append(out, "END")
                ELSE /\ stack' = Front(stack) /\ status' = status
                     /\ out' = Append(out, "A" \o Str(Top.cid))

FinishReturn ==
    /\ status = "run" /\ N > 0 /\ Top.mode = "ret" /\ Top.defers = <<>>
    /\ dok' = (dok /\ Top.ran = Rev(Top.reg))
    /\ ReturnToCaller
    /\ UNCHANGED <<bvars, fns, pan, fired, mask, feat>>

FinishUnwind ==         \* unwindPanic after the frame's defers ran
    /\ status = "run" /\ N > 0 /\ Top.mode = "unw" /\ Top.defers = <<>>
    /\ dok' = (dok /\ Top.ran = Rev(Top.reg))
    /\ IF ~pan.on THEN ReturnToCaller                       \* recovered: resume in the caller
       ELSE /\ tryStack' = PopTry(Top)
            /\ out' = out
            /\ IF N = 1 THEN /\ stack' = <<>> /\ status' = "panic"
                        ELSE /\ stack' = [Front(stack) EXCEPT ![N - 1].mode = "unw"]
                             /\ status' = status
    /\ UNCHANGED <<bvars, fns, pan, fired, mask, feat>>

-----------------------------------------------------------------------------
Init == /\ toks = <<>> /\ open = <<>> /\ dead = FALSE /\ nst = 0 /\ curfn = 1 /\ maxcalled = 1 /\ ndef = 0
        /\ fns = <<>> /\ stack = <<>> /\ tryStack = <<>> /\ pan = [on |-> FALSE, v |-> 0]
        /\ out = <<>> /\ status = "build" /\ fired = {} /\ mask = {} /\ feat = {} /\ dok = TRUE

Build == BSimple \/ BCall \/ BDefer \/ BOpen \/ BCatch \/ BEnd \/ BFn \/ BDone
Step  == EnterTry \/ EnterLoop \/ Call \/ Defer \/ StartReturn \/ Panic \/ Raise \/ RaiseOnce
         \/ Break \/ Continue \/ ExitBlock \/ RunDefer \/ FinishReturn \/ FinishUnwind
Next == Build \/ Step
Spec == Init /\ [][Next]_vars

-----------------------------------------------------------------------------
(* The property, on the machine                                            *)

TryKonts == UNION {{[fd |-> f, kd |-> j, armed |-> stack[f].k[j].kind = "try"]
                      : j \in {x \in DOMAIN stack[f].k : stack[f].k[x].kind \in {"try", "catch"}}} : f \in 1..N}
Before(a, b) == a.fd < b.fd \/ (a.fd = b.fd /\ a.kd < b.kd)

\* P1: the try entries are exactly the try statements entered and not yet left (innermost last), armed iff their
\* catch clause has not started -- so "the innermost armed entry" in Raise is "the try block that is active",
\* and an error with no armed entry is an error outside any try.
TryStackSound == Running =>
    /\ {tryStack[i] : i \in DOMAIN tryStack} = TryKonts
    /\ \A i \in 1..(Len(tryStack) - 1) : Before(tryStack[i], tryStack[i + 1])

\* P2: every frame that returned (return statement, end of body) or was unwound by panic() ran each of the
\* deferred calls it registered exactly once, in reverse registration order.
DefersOnce == dok

\* P3: a panic is in progress only while frames are being unwound; once recovered the caller runs normally.
PanicSound == (status = "run" /\ N > 0 /\ pan.on) => Top.mode = "unw"
NoWedge == status # "wedged"

Finished == status \in {"ok", "error", "panic"}
\* P4: outcomes: normal end prints END with nothing left; a stop leaves no catch pending
EndSound == Finished => /\ stack = <<>> \/ status = "error"
                        /\ (status = "ok" => ~pan.on /\ tryStack = <<>>)
                        /\ (status = "panic" => pan.on)
=============================================================================

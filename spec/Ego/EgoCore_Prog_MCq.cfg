INIT Init
NEXT Next
CONSTANTS
  Tier = "q"
  Seed = 1
  Impl = "doc"
INVARIANTS TypeOK StrictIncluded ConfigFree ErrorsClassified LinesBounded Emit
CHECK_DEADLOCK FALSE

---------------------------- MODULE RouteResolve_Gen ----------------------------
(* Case generator for binding F.  Every emitted case is one initial state       *)
(* [t |-> table, q |-> request]; the harness registers the table in the real    *)
(* router (every insertion order), calls the real FindRoute repeatedly and logs *)
(* the set of results next to the case.                                         *)
(* Emitted for every request q of the domain:                                   *)
(*   - every one-route table (what "this route matches q" means for the code),  *)
(*   - every table of 2..GenMax routes that are all candidates for q            *)
(*     (a non-candidate takes no part in the selection); unless Wide, tables of *)
(*     more than two routes only for POST requests (they reach the ANY routes   *)
(*     and "/": the same path logic on a quarter of the tables),                *)
(*   - every candidate paired with each route of Distract (does a route that    *)
(*     does not match disturb the choice?).                                     *)
EXTENDS RouteResolve_MC, Json

CONSTANTS GenMax, Wide

Distract == {[m |-> "GET", e |-> <<"a">>], [m |-> AnyM, e |-> <<MCVar, "a">>], [m |-> "GET", e |-> Root]}

GenCases(q) ==
  LET CU == Cands(MCUniverse, q)
  IN {{r} : r \in MCUniverse}
     \cup UNION {kSubset(k, CU) : k \in 2..(IF Wide \/ q.m = "POST" THEN GenMax ELSE 2)}
     \cup UNION {{{r, s} : s \in Distract \ {r}} : r \in CU}

GenInit == \E q \in MCReqs : req = q /\ table \in GenCases(q) /\ seen = {}
GenNext == UNCHANGED vars
GenSpec == GenInit /\ [][GenNext]_vars
Emit == PrintT(ToJson([t |-> table, q |-> req]))

\* random larger tables (TLC -simulate, seeded): only candidates of the request are registered
SimMax  == GenMax + 2
SimNext == \E r \in Cands(MCUniverse, req) \ table : Cardinality(table) < SimMax /\ Register(r)
SimSpec == Init /\ [][SimNext]_vars
SimEmit == Cardinality(table) < SimMax \/ PrintT(ToJson([t |-> table, q |-> req]))
=============================================================================

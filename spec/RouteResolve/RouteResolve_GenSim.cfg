SPECIFICATION SimSpec
CONSTANTS
  Impl = "asis"
  VarTexts <- MCVarTexts
  GlobTexts <- MCGlobTexts
  Universe <- MCUniverse
  Reqs <- MCReqs
  TokRank <- MCTokRank
  MaxRoutes = 5
  ELits = {"a", "b"}
  PLits = {"a", "b"}
  Depth = 2
  PathDepth = 3
  GenMax = 3
  Wide = FALSE
INVARIANTS SimEmit
CHECK_DEADLOCK FALSE

SPECIFICATION GenSpec
CONSTANTS
  Impl = "asis"
  VarTexts <- MCVarTexts
  GlobTexts <- MCGlobTexts
  Universe <- MCUniverse
  Reqs <- MCReqs
  TokRank <- MCTokRank
  MaxRoutes = 3
  ELits = {"a"}
  PLits = {"a", "b"}
  Depth = 2
  PathDepth = 3
  GenMax = 3
  Wide = FALSE
INVARIANTS Emit
CHECK_DEADLOCK FALSE

---------------------------- MODULE RouteResolve_MC ----------------------------
(* Finite domain for model checking and for generating the cases of binding F.  *)
(* Endpoints: up to Depth segments over the literals ELits and one variable,    *)
(* each with and without a trailing "/", glob routes behind literal prefixes,   *)
(* and the catch-all "/".  Route methods GET and ANY (and "/" also for POST);   *)
(* requests GET and POST (POST reaches only ANY routes - and "/" whatever its   *)
(* method).                                                                     *)
(* Request paths: up to PathDepth segments over PLits and the empty segment     *)
(* (so "/", trailing slashes and doubled slashes all occur).                    *)
EXTENDS RouteResolve

CONSTANTS ELits,      \* literals of endpoints
          PLits,      \* literals of request paths
          Depth, PathDepth

MCVar  == "{{x}}"
MCGlob == "{{g...}}"
MCVarTexts  == {MCVar}
MCGlobTexts == {MCGlob}

SeqsUpTo(S, n) == UNION {[1..k -> S] : k \in 1..n}

Bases     == SeqsUpTo(ELits \cup {MCVar}, Depth)
GlobPre   == {<<>>} \cup SeqsUpTo(ELits, Depth - 1)
Endpoints == Bases \cup {Append(b, "") : b \in Bases} \cup {Append(g, MCGlob) : g \in GlobPre} \cup {Root}

MCUniverse == {[m |-> m, e |-> e] : m \in {"GET", AnyM}, e \in Endpoints} \cup {[m |-> "POST", e |-> Root]}
MCReqs     == {[m |-> m, p |-> p] : m \in {"GET", "POST"}, p \in SeqsUpTo(PLits \cup {""}, PathDepth)}

\* byte order of the texts: "" < "a" < "b" < "c" < "{{g...}}" < "{{x}}"
MCTokRank == ("" :> 0) @@ ("a" :> 1) @@ ("b" :> 2) @@ ("c" :> 3) @@ (MCGlob :> 4) @@ (MCVar :> 5)
=============================================================================

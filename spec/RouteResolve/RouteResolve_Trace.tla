--------------------------- MODULE RouteResolve_Trace ---------------------------
(* Binding F: the contract that judges what the real FindRoute returned.        *)
(*                                                                              *)
(* io.ndjson: one record per executed case                                      *)
(*   t    the table (sequence of routes) - empty means the table of side.json   *)
(*        (the server's real route table)                                       *)
(*   q    the request                                                           *)
(*   solo solo[k] = status FindRoute returned for q on a router holding only    *)
(*        t[k]: 404 = t[k] does not match q; 200/405 = it matches               *)
(*   obs  the distinct results (status, index of the chosen route in t, 0 = no  *)
(*        route) FindRoute returned for q over every insertion order of t and   *)
(*        repeated calls (Go randomises map iteration per range statement)      *)
(* side.json: vars / globs = the variable and glob segment texts, table,        *)
(*        rank = byte order of the segment texts (only for the canonical order) *)
(*                                                                              *)
(* Verdict (the property, nothing else):                                        *)
(*   Det      every call returned the same result;                              *)
(*   Prefers  when matching routes with fewer and with more variables exist,    *)
(*            the chosen route is a matching one with the fewest.               *)
(* Reported besides (never a verdict): whether the observation is explained by  *)
(* the as-is model (Outcomes) / the design (Canon), and whether every result    *)
(* the as-is model allows was seen (did repetition explore the orders?).        *)
EXTENDS RouteResolve, Json

Log  == ndJsonDeserialize("io.ndjson")
Side == JsonDeserialize("side.json")
TrVarTexts  == {Side.vars[k] : k \in DOMAIN Side.vars}
TrGlobTexts == {Side.globs[k] : k \in DOMAIN Side.globs}
TrRank      == Side.rank
TrNone      == {}

RouteMethods == {"GET", "HEAD", "POST", "DELETE", "UPDATE", "PUT", "PATCH", AnyM}     \* Router.New accepts exactly these
ReqMethods   == {"GET", "HEAD", "POST", "DELETE", "PUT", "PATCH", "OPTIONS"}
Statuses     == {200, 404, 405}

WFTable(T) == /\ Len(T) >= 1
              /\ \A k \in 1..Len(T) : T[k].m \in RouteMethods /\ Len(T[k].e) >= 1
              /\ \A j, k \in 1..Len(T) : j # k => T[j] # T[k]
BaseOK == Side.table = <<>> \/ WFTable(Side.table)          \* evaluated once (it is a constant)

Tab(rec) == IF rec.t = <<>> THEN Side.table ELSE rec.t

\* the domain of the contract: a record outside it is reported as "not-a-case" (no verdict), never as a violation
WF(rec) ==
  LET T == Tab(rec)
  IN /\ IF rec.t = <<>> THEN Len(T) >= 1 /\ BaseOK ELSE WFTable(T)
     /\ rec.q.m \in ReqMethods /\ Len(rec.q.p) >= 1
     /\ \A k \in 1..Len(rec.q.p) : ~IsVar(rec.q.p[k])
     /\ Len(rec.solo) = Len(T) /\ \A k \in 1..Len(T) : rec.solo[k] \in Statuses
     /\ Len(rec.obs) >= 1
     /\ \A k \in 1..Len(rec.obs) : rec.obs[k].st \in Statuses /\ rec.obs[k].r \in 0..Len(T)

Matching(rec) == LET T == Tab(rec) IN {T[k] : k \in {k \in 1..Len(T) : rec.solo[k] # 404}}
Results(rec)  == LET T == Tab(rec)
                 IN {[st |-> rec.obs[k].st, r |-> IF rec.obs[k].r = 0 THEN NoRoute ELSE T[rec.obs[k].r]] : k \in 1..Len(rec.obs)}

\* abstract identity of a case: the step of the cascade at which the matching routes are still tied
Step(C, q) ==
  LET path == Norm(q.p)
      cnts == {VarCount(r.e) : r \in C}
  IN IF Cardinality(C) <= 1 THEN "single"
     ELSE IF \E r \in C : r.e = path THEN "exact"
     ELSE IF \E r \in C : VarCount(r.e) = 0 THEN "novars"
     ELSE IF Cardinality(cnts) > 1 THEN "fewest"
     ELSE IF \E r \in C : Len(Norm(r.e)) = Len(path) THEN "parts"
     ELSE "longest"
Kind(R) ==
  LET rs == {res.r : res \in {x \in R : x.st = 200 /\ x.r # NoRoute}}
  IN IF \E res \in R : res.st # 200 \/ res.r = NoRoute THEN "route-or-none"
     ELSE IF \E r \in rs : r.e = Root THEN "root-vs-other"
     ELSE IF Cardinality({r.e : r \in rs}) = 1 THEN "same-endpoint-any-vs-method"
     ELSE "distinct-endpoints"

Judge(rec) ==
  IF ~WF(rec) THEN "not-a-case"
  ELSE LET M == Matching(rec)
           R == Results(rec)
       IN IF Cardinality(R) > 1 THEN "nondet/" \o Step(M, rec.q) \o "/" \o Kind(R)
          ELSE IF \E res \in R : ~Prefers(res, M)
                 THEN LET res == CHOOSE x \in R : ~Prefers(x, M)
                      IN "prefer/" \o (IF res.st = 200 /\ res.r \in M THEN "more-variables" ELSE "not-a-matching-route")
                                   \o "/" \o Step(M, rec.q)
          ELSE ""

\* --- model conformance (informational): 1/0 flags
\*   solo : every one-route result is the model's;  asis : the results are among those the as-is model allows;
\*   fixed: the result is the design's choice;  tie : the as-is model allows more than one result;  all : all of them were seen
B(x) == IF x THEN 1 ELSE 0
Conf(rec) ==
  IF ~WF(rec) THEN <<0, 0, 0, 0, 0>>
  ELSE LET T  == Tab(rec)
           q  == rec.q
           tp == Parts(Norm(q.p))
           CI == {k \in 1..Len(T) : IF T[k].e = Root THEN TRUE ELSE MethodOK(T[k], q) /\ PartsMatch(Parts(Norm(T[k].e)), tp)}
           C  == {T[k] : k \in CI}
           A  == Outcomes(C, q)
           R  == Results(rec)
       IN << B(\A k \in 1..Len(T) : rec.solo[k] = IF k \notin CI THEN 404 ELSE IF MethodOK(T[k], q) THEN 200 ELSE 405),
             B(R \subseteq A),
             B(R = {Cascade(Canon(C, q), q)}),
             B(Cardinality(A) > 1),
             B(R = A) >>

StepOf(rec) == IF WF(rec) THEN Step(Matching(rec), rec.q) ELSE "not-a-case"

\* one line per record; the check only counts the flags and collects the non-empty keys
Judged(z) == \A n \in 1..Len(Log) : PrintT(ToJson([i |-> n, k |-> Judge(Log[n]), c |-> Conf(Log[n]), s |-> StepOf(Log[n])]))
ASSUME Judged(0)   \* (an argument so that it is evaluated here, once, and not pre-evaluated as a constant)

TInit == table = {} /\ req = [m |-> "", p |-> <<>>] /\ seen = {}
TNext == UNCHANGED vars
TSpec == TInit /\ [][TNext]_vars
Done == PrintT(ToJson([n |-> Len(Log), done |-> TRUE]))
=============================================================================

SPECIFICATION Spec
CONSTANTS
  Impl = "most"
  VarTexts <- MCVarTexts
  GlobTexts <- MCGlobTexts
  Universe <- MCUniverse
  Reqs <- MCReqs
  TokRank <- MCTokRank
  MaxRoutes = 2
  ELits = {"a"}
  PLits = {"a", "b"}
  Depth = 2
  PathDepth = 1
INVARIANTS MostSpecific
CHECK_DEADLOCK FALSE

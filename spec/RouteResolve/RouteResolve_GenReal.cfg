SPECIFICATION GRSpec
CONSTANTS
  Impl = "asis"
  VarTexts <- GRVarTexts
  GlobTexts <- GRGlobTexts
  Universe <- GRTable
  Reqs <- GRNoReqs
  TokRank <- GRNoRank
  MaxRoutes = 0
  Wide = FALSE
  MethodPick = {}
INVARIANTS Emit
CHECK_DEADLOCK FALSE

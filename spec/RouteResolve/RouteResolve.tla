------------------------------ MODULE RouteResolve ------------------------------
(* C32 - route resolution is deterministic and most specific.                   *)
(*                                                                              *)
(* Model of internal/router: Router.New (one critical section under m.mutex)    *)
(* and Router.FindRoute (one critical section under routeLock).                 *)
(*                                                                              *)
(* A text ("/a/{{x}}/") is the sequence of the segments that follow each "/":   *)
(*   "/" = <<"">>   "/a" = <<"a">>   "/a/" = <<"a","">>   "/a//b" = <<"a","","b">> *)
(* so  text = concatenation of ("/" \o seg)  and the representation is unique.  *)
(* A segment is a string; which strings are variables ("{{x}}") or glob         *)
(* variables ("{{g...}}") is given by the constants VarTexts / GlobTexts        *)
(* (TLC cannot look inside a string).  Every other segment is a literal and     *)
(* contains neither "{{" nor "}}" (domain condition, see WF in _Trace).         *)
(*                                                                              *)
(* Impl = "asis" : the candidates are considered in the order in which          *)
(*                 `range m.routes` happens to deliver them (any permutation).  *)
(* Impl = "fixed": the candidates are first put into a canonical order          *)
(*                 (fewer variables, longer text, text order, the request's     *)
(*                 method before ANY) - the design / the proposed repair.       *)
(* Impl = "most" : negative control only - canonical order, but the candidate   *)
(*                 with the MOST variables wins (must violate MostSpecific).    *)
EXTENDS Integers, Sequences, FiniteSets, FiniteSetsExt, SequencesExt, TLC

CONSTANTS Impl, VarTexts, GlobTexts,
          Universe,     \* routes that may be registered
          Reqs,         \* requests that are looked up
          MaxRoutes,    \* bound on the size of the table
          TokRank       \* text order of segments (a function to Nat), used only by the canonical order

VARIABLES table,        \* set of registered routes  [m |-> method, e |-> text]   (Router.routes; its keys are (e, m))
          req,          \* the request being resolved [m |-> method, p |-> text]
          seen          \* results FindRoute has returned for req since the table last changed
vars == <<table, req, seen>>

AnyM    == "ANY"
Root    == <<"">>
NoRoute == [m |-> "", e |-> <<>>]

-----------------------------------------------------------------------------
(* text level helpers *)
IsGlob(t) == t \in GlobTexts
VarLike   == VarTexts \cup GlobTexts
IsVar(t)  == t \in VarLike                             \* strings.HasPrefix(part, "{{")

\* if len(s) > 1 { s = strings.TrimSuffix(s, "/") + "/" }
Norm(s)   == IF s = Root THEN s ELSE IF s[Len(s)] = "" THEN s ELSE Append(s, "")
Parts(s)  == <<"">> \o s                               \* strings.Split(s, "/")
VarCount(s) == Cardinality({i \in 1..Len(s) : IsVar(s[i])})        \* strings.Count(s, "{{")
RECURSIVE Width(_)
Width(s)  == IF s = <<>> THEN 0 ELSE 1 + Len(Head(s)) + Width(Tail(s))   \* len(s)

MethodOK(r, q) == r.m = AnyM \/ r.m = q.m

\* the masking loop of FindRoute, as a predicate on the parts of the (normalised) endpoint and path
PartsMatch(ep, tp) ==
  LET G == {i \in 1..Len(ep) : IsGlob(ep[i])}
  IN IF G # {}
       THEN LET g == Min(G)                            \* globIdx + 1: the fixed parts before the glob must be equal
            IN Len(tp) >= g - 1 /\ \A i \in 1..(g - 1) : ep[i] = tp[i]
       ELSE \A i \in 1..Len(ep) : IsVar(ep[i]) \/ i > Len(tp) \/ tp[i] = ep[i]
PathMatch(e, p) == PartsMatch(Parts(Norm(e)), Parts(Norm(p)))

\* "/" is always a candidate (whatever its method); every other route needs path and method
Candidate(r, q) == IF r.e = Root THEN TRUE ELSE MethodOK(r, q) /\ PathMatch(r.e, q.p)
Cands(T, q)     == LET tp == Parts(Norm(q.p))
                   IN {r \in T : IF r.e = Root THEN TRUE ELSE MethodOK(r, q) /\ PartsMatch(Parts(Norm(r.e)), tp)}

Ok(r) == [st |-> 200, r |-> r]

\* the selection cascade of FindRoute for candidates considered in the order o (a sequence)
Cascade(o, q) ==
  LET n    == Len(o)
      path == Norm(q.p)
      I    == 1..n
      X    == {i \in I : o[i].e = path}                                  \* exact text
      N    == {i \in I : VarCount(o[i].e) = 0}                           \* no variables
      cnt  == [i \in I |-> VarCount(o[i].e)]
      mn   == Min({cnt[i] : i \in I})
      mx   == Max({cnt[i] : i \in I})
      P    == {i \in I : Len(Norm(o[i].e)) = Len(path)}                  \* same number of parts
      wmx  == Max({Width(o[i].e) : i \in I})
  IN IF n = 0 THEN [st |-> 404, r |-> NoRoute]
     ELSE IF n = 1 THEN (IF MethodOK(o[1], q) THEN Ok(o[1]) ELSE [st |-> 405, r |-> NoRoute])
     ELSE IF X # {} THEN Ok(o[Min(X)])
     ELSE IF N # {} THEN Ok(o[Min(N)])
     ELSE IF mx > mn THEN Ok(o[Min({i \in I : cnt[i] = (IF Impl = "most" THEN mx ELSE mn)})])
     ELSE IF P # {} THEN Ok(o[Min(P)])
     ELSE Ok(o[Min({i \in I : Width(o[i].e) = wmx})])

\* the same cascade on the candidate *set*: every result some order can produce
Outcomes(C, q) ==
  LET path == Norm(q.p)
      X    == {r \in C : r.e = path}
      N    == {r \in C : VarCount(r.e) = 0}
      mn   == Min({VarCount(r.e) : r \in C})
      mx   == Max({VarCount(r.e) : r \in C})
      P    == {r \in C : Len(Norm(r.e)) = Len(path)}
      wmx  == Max({Width(r.e) : r \in C})
  IN IF C = {} THEN {[st |-> 404, r |-> NoRoute]}
     ELSE IF Cardinality(C) = 1 THEN {Cascade(<<CHOOSE r \in C : TRUE>>, q)}
     ELSE IF X # {} THEN {Ok(r) : r \in X}
     ELSE IF N # {} THEN {Ok(r) : r \in N}
     ELSE IF mx > mn THEN {Ok(r) : r \in {c \in C : VarCount(c.e) = mn}}
     ELSE IF P # {} THEN {Ok(r) : r \in P}
     ELSE {Ok(r) : r \in {c \in C : Width(c.e) = wmx}}

-----------------------------------------------------------------------------
(* the canonical order of the design *)
RECURSIVE TextLess(_, _)
TextLess(s, t) == IF s = <<>> THEN t # <<>>
                  ELSE IF t = <<>> THEN FALSE
                  ELSE IF Head(s) = Head(t) THEN TextLess(Tail(s), Tail(t))
                  ELSE TokRank[Head(s)] < TokRank[Head(t)]
\* for one endpoint: the route for the request's own method, then the one for any method, then by method name
MethodOrder == <<"ANY", "DELETE", "GET", "HEAD", "PATCH", "POST", "PUT", "UPDATE">>
MethodPos(m) == IF \E k \in 1..Len(MethodOrder) : MethodOrder[k] = m
                  THEN CHOOSE k \in 1..Len(MethodOrder) : MethodOrder[k] = m ELSE 0
MethodRank(r, q) == IF r.m = q.m THEN 0 ELSE IF r.m = AnyM THEN 1 ELSE 2
Before(a, b, q) ==
  IF VarCount(a.e) # VarCount(b.e) THEN VarCount(a.e) < VarCount(b.e)
  ELSE IF Width(a.e) # Width(b.e) THEN Width(a.e) > Width(b.e)
  ELSE IF a.e # b.e THEN TextLess(a.e, b.e)
  ELSE IF MethodRank(a, q) # MethodRank(b, q) THEN MethodRank(a, q) < MethodRank(b, q)
  ELSE MethodPos(a.m) < MethodPos(b.m)
Canon(C, q) == SetToSortSeq(C, LAMBDA a, b : Before(a, b, q))

Perms(C)  == {o \in [1..Cardinality(C) -> C] : \A i, j \in 1..Cardinality(C) : i # j => o[i] # o[j]}
ScanOrders(C, q) == IF Impl = "asis" THEN Perms(C) ELSE {Canon(C, q)}

-----------------------------------------------------------------------------
(* state machine *)
Init == table = {} /\ req \in Reqs /\ seen = {}

\* Router.New: the table is a map keyed by (endpoint, method); a duplicate key is a panic (not modelled)
Register(r) == /\ Cardinality(table) < MaxRoutes
               /\ r \notin table
               /\ table' = table \cup {r}
               /\ seen' = {}
               /\ UNCHANGED req

\* Router.FindRoute(req.m, req.p): scan the map (some order), keep the candidates, select
Lookup == \E o \in ScanOrders(Cands(table, req), req) :
             /\ seen' = seen \cup {Cascade(o, req)}
             /\ UNCHANGED <<table, req>>

Next == Lookup \/ \E r \in Universe : Register(r)
Spec == Init /\ [][Next]_vars

-----------------------------------------------------------------------------
(* the property *)
\* (1) the result depends only on the table (as a set), the method and the path
Det == Cardinality(seen) <= 1

\* (2) when candidates with fewer and with more variables both match, one with the fewest is chosen.
\*     C is the set of routes that match the request (for the real code: observed on one-route tables).
Prefers(res, C) ==
  LET counts == {VarCount(r.e) : r \in C}
  IN Cardinality(counts) >= 2 => res.st = 200 /\ res.r \in C /\ VarCount(res.r.e) = Min(counts)
MostSpecific == \A res \in seen : Prefers(res, Cands(table, req))

\* model sanity: the set-level cascade is exactly what the orders can produce (as-is);
\* in the design every order-dependent choice is made among the same set
OutcomesExact ==
  LET C == Cands(table, req)
  IN IF Impl = "asis" THEN {Cascade(o, req) : o \in Perms(C)} = Outcomes(C, req)
     ELSE Cascade(Canon(C, req), req) \in Outcomes(C, req)
=============================================================================

SPECIFICATION Spec
CONSTANTS
  Impl = "asis"
  VarTexts <- MCVarTexts
  GlobTexts <- MCGlobTexts
  Universe <- MCUniverse
  Reqs <- MCReqs
  TokRank <- MCTokRank
  MaxRoutes = 2
  ELits = {"a"}
  PLits = {"a", "b"}
  Depth = 2
  PathDepth = 3
INVARIANTS Det
CHECK_DEADLOCK FALSE

-------------------------- MODULE RouteResolve_GenReal --------------------------
(* Requests for the server's real route table (binding F, second domain).       *)
(* side.json = [table |-> the routes the real server registered (projected by   *)
(* the harness), vars / globs |-> the variable and glob segment texts].         *)
(* From every endpoint: each variable replaced by a literal that a compatible   *)
(* sibling route has at that position (the requests where two routes compete)   *)
(* or by a fresh name; a glob replaced by 0, 1 or 2 segments; then the variants *)
(* with/without trailing slash, every proper prefix, doubled slashes, and "/";  *)
(* each with every method the table uses plus one it does not.                  *)
EXTENDS RouteResolve, Json

CONSTANTS Wide,
          MethodPick   \* request methods to use ({} = every method of the table and one it does not use)

Side        == JsonDeserialize("side.json")
GRVarTexts  == {Side.vars[k] : k \in DOMAIN Side.vars}
GRGlobTexts == {Side.globs[k] : k \in DOMAIN Side.globs}
GRTable     == {Side.table[k] : k \in DOMAIN Side.table}
GRNoRank    == [t \in {} |-> 0]

Fresh == "zz9"
Sib(r, i) == {s.e[i] : s \in {s \in GRTable : /\ Len(s.e) >= i
                                             /\ ~IsVar(s.e[i]) /\ s.e[i] # ""
                                             /\ \A j \in 1..(i - 1) : s.e[j] = r.e[j] \/ IsVar(s.e[j]) \/ IsVar(r.e[j])}}
GlobTails == {<<>>, <<"f.js">>, <<"d", "f.js">>}

RECURSIVE Fills(_, _)
Fills(r, i) == IF i > Len(r.e) THEN {<<>>}
               ELSE IF IsGlob(r.e[i]) THEN GlobTails
               ELSE LET heads == IF IsVar(r.e[i]) THEN Sib(r, i) \cup {Fresh} ELSE {r.e[i]}
                    IN {<<h>> \o t : h \in heads, t \in Fills(r, i + 1)}

Toggle(p)   == IF p[Len(p)] # "" THEN Append(p, "") ELSE IF Len(p) > 1 THEN SubSeq(p, 1, Len(p) - 1) ELSE p
Doubled(p)  == {SubSeq(p, 1, k - 1) \o <<"">> \o SubSeq(p, k, Len(p)) : k \in (IF Wide THEN 1..Len(p) ELSE {Len(p)})}
ProperPrefixes(p) == {SubSeq(p, 1, k) : k \in 1..(Len(p) - 1)}
Variants(p) == {p, Toggle(p)} \cup ProperPrefixes(p) \cup Doubled(p) \cup (IF Wide THEN {Toggle(d) : d \in Doubled(p)} ELSE {})

\* (the derived sets take a dummy argument so that TLC evaluates them once, at GRInit, after the constants
\*  read from side.json have been cached - as zero-arity definitions they would be pre-evaluated in an
\*  unspecified order, re-reading side.json at every reference)
Paths(z) == {Root} \cup UNION {Variants(p) : p \in {f \in UNION {Fills(r, 1) : r \in GRTable} : Len(f) >= 1}}
Methods == IF MethodPick = {} THEN {r.m : r \in GRTable} \cup {"OPTIONS"} ELSE MethodPick
GRReqs(z) == {[m |-> m, p |-> p] : m \in Methods \ {AnyM}, p \in Paths(z)}
GRNoReqs == {}

GRInit == table = {} /\ seen = {} /\ req \in GRReqs(0)
GRNext == UNCHANGED vars
GRSpec == GRInit /\ [][GRNext]_vars
Emit == PrintT(ToJson([t |-> <<>>, q |-> req]))
=============================================================================

SPECIFICATION GRSpec
CONSTANTS
  Impl = "asis"
  VarTexts <- GRVarTexts
  GlobTexts <- GRGlobTexts
  Universe <- GRTable
  Reqs <- GRReqs
  TokRank <- GRNoRank
  MaxRoutes = 0
  Wide = TRUE
INVARIANTS Emit
CHECK_DEADLOCK FALSE

SPECIFICATION Spec
CONSTANTS
  Impl = "fixed"
  VarTexts <- MCVarTexts
  GlobTexts <- MCGlobTexts
  Universe <- MCUniverse
  Reqs <- MCReqs
  TokRank <- MCTokRank
  MaxRoutes = 2
  ELits = {"a", "b"}
  PLits = {"a", "b"}
  Depth = 2
  PathDepth = 3
INVARIANTS Det MostSpecific OutcomesExact
CHECK_DEADLOCK FALSE

SPECIFICATION TSpec
CONSTANTS
  Impl = "fixed"
  VarTexts <- TrVarTexts
  GlobTexts <- TrGlobTexts
  Universe <- TrNone
  Reqs <- TrNone
  TokRank <- TrRank
  MaxRoutes = 0
INVARIANTS Done
CHECK_DEADLOCK FALSE

------------------------------- MODULE Secrets -------------------------------
(* C44 - stored secrets never appear in responses.                            *)
(*                                                                            *)
(* Model of the stores and of the handlers that read them, one action per     *)
(* handler (each handler is one read of the store followed by one write of    *)
(* the response; the stores are process-global maps).  Every stored value is  *)
(* a fresh natural number (its "generation"), so a response is the set of     *)
(* stored values it shows.                                                    *)
(*                                                                            *)
(*   internal/server/admin/config.go   GetAllConfig, GetConfig, PatchConfig   *)
(*   internal/server/admin/users/*.go  List/Get/Create/Update/DeleteUser      *)
(*   internal/router  LogonHandler     Logon (re-hashes a legacy credential)  *)
(*   internal/server/dsns/handler.go   List/Get/Create/Update/DeleteDSN       *)
(*   internal/server/oauth/authserver  Jwks, Token                            *)
(*                                                                            *)
(* Impl = "shared"  the design: every configuration endpoint elides exactly   *)
(*                  SecretSetting (one predicate);                            *)
(*        "asis"    config.go as read: GetAllConfig elides four names and the *)
(*                  two markers, GetConfig three names, nobody the OAuth      *)
(*                  client secret;                                            *)
(*        "onelist" the obvious half repair: GetConfig re-uses GetAllConfig's *)
(*                  list (still shows the OAuth client secret).               *)
(* A response may show fewer non-secret values than the model says (the       *)
(* statement only forbids): handlers pick any subset of what is visible.      *)
EXTENDS SecretsClass, TLC

CONSTANTS Impl, MaxGen

MNames == {"ego.server.token.key", "ego.logon.token", "ego.logon.refresh.token",
           "ego.server.oauth.client.secret", "app.db.password",
           "ego.server.database.credentials", "app.plain.note"}
MMarks(n) == IF n = "app.db.password" THEN <<"password">>
             ELSE IF n = "ego.server.database.credentials" THEN <<"credentials">>
             ELSE <<>>
\* defs.ReadonlySetting: PATCH /admin/config refuses these
ReadOnly == {"ego.server.token.key", "ego.logon.token", "ego.logon.refresh.token"}
Users == {"u1", "u2"}
DSNs == {"d1"}

VARIABLES cfg,    \* setting name -> stored value (0: not set)
          hash,   \* user -> stored password hash (0: no such user)
          dsn,    \* dsn -> [plain, stored] (password as given / as stored; 0: no such dsn)
          skey,   \* [priv, pub] of the authorization server's signing key
          chash,  \* stored OAuth client secret hash
          gen,    \* last value handed out
          resp    \* [route, shown]: the last response
vars == <<cfg, hash, dsn, skey, chash, gen, resp>>

AsIsAllList == {"ego.server.token", "ego.server.token.key", "ego.logon.token", "ego.logon.refresh.token"}
AsIsOneList == {"ego.server.token", "ego.server.token.key", "ego.logon.token"}

ElideAll(n) == IF Impl = "shared" THEN SecretSetting(n, MMarks(n))
               ELSE n \in AsIsAllList \/ Len(MMarks(n)) > 0
ElideOne(n) == IF Impl = "shared" THEN SecretSetting(n, MMarks(n))
               ELSE IF Impl = "onelist" THEN n \in AsIsAllList \/ Len(MMarks(n)) > 0
               ELSE n \in AsIsOneList

NoDSN == [plain |-> 0, stored |-> 0]

Init == /\ cfg = [n \in MNames |-> 0]
        /\ hash = [u \in Users |-> 0]
        /\ dsn = [d \in DSNs |-> NoDSN]
        /\ skey = [priv |-> 1, pub |-> 2]
        /\ chash = 3
        /\ gen = 3
        /\ resp = [route |-> "none", shown |-> {}]

Reply(route, visible) == \E S \in SUBSET (visible \ {0}) : resp' = [route |-> route, shown |-> S]

\* ---- configuration
\* planting a profile value before the server starts (any name), no response
Plant(n) == /\ gen < MaxGen /\ cfg[n] = 0
            /\ cfg' = [cfg EXCEPT ![n] = gen + 1] /\ gen' = gen + 1
            /\ UNCHANGED <<hash, dsn, skey, chash, resp>>
PatchConfig(n) == /\ gen < MaxGen /\ n \notin ReadOnly
                  /\ cfg' = [cfg EXCEPT ![n] = gen + 1] /\ gen' = gen + 1
                  /\ Reply("PATCH /admin/config", {})
                  /\ UNCHANGED <<hash, dsn, skey, chash>>
GetAllConfig == /\ Reply("GET /admin/config", {cfg[n] : n \in {m \in MNames : ~ElideAll(m)}})
                /\ UNCHANGED <<cfg, hash, dsn, skey, chash, gen>>
GetConfig(N) == /\ Reply("POST /admin/config", {cfg[n] : n \in {m \in N : ~ElideOne(m)}})
                /\ UNCHANGED <<cfg, hash, dsn, skey, chash, gen>>

\* ---- users (every handler builds its reply without the stored hash)
CreateUser(u) == /\ gen < MaxGen /\ hash[u] = 0
                 /\ hash' = [hash EXCEPT ![u] = gen + 1] /\ gen' = gen + 1
                 /\ Reply("POST /admin/users/", {})
                 /\ UNCHANGED <<cfg, dsn, skey, chash>>
UpdateUser(u) == /\ gen < MaxGen /\ hash[u] # 0
                 /\ hash' = [hash EXCEPT ![u] = gen + 1] /\ gen' = gen + 1
                 /\ Reply("PATCH /admin/users/{{name}}", {})
                 /\ UNCHANGED <<cfg, dsn, skey, chash>>
Logon(u) == /\ gen < MaxGen /\ hash[u] # 0        \* legacy credential upgraded to bcrypt at first logon
            /\ hash' = [hash EXCEPT ![u] = gen + 1] /\ gen' = gen + 1
            /\ Reply("POST /services/admin/logon", {})
            /\ UNCHANGED <<cfg, dsn, skey, chash>>
DeleteUser(u) == /\ hash[u] # 0
                 /\ hash' = [hash EXCEPT ![u] = 0]
                 /\ Reply("DELETE /admin/users/{{name}}", {})
                 /\ UNCHANGED <<cfg, dsn, skey, chash, gen>>
ReadUsers == /\ \E r \in {"GET /admin/users/", "GET /admin/users/{{name}}"} : Reply(r, {})
             /\ UNCHANGED <<cfg, hash, dsn, skey, chash, gen>>

\* ---- data source names
CreateDSN(d) == /\ gen + 1 < MaxGen /\ dsn[d] = NoDSN
                /\ dsn' = [dsn EXCEPT ![d] = [plain |-> gen + 1, stored |-> gen + 2]] /\ gen' = gen + 2
                /\ Reply("POST /dsns/", {})
                /\ UNCHANGED <<cfg, hash, skey, chash>>
UpdateDSN(d) == /\ gen + 1 < MaxGen /\ dsn[d] # NoDSN
                /\ dsn' = [dsn EXCEPT ![d] = [plain |-> gen + 1, stored |-> gen + 2]] /\ gen' = gen + 2
                /\ Reply("PATCH /dsns/{{dsn}}/", {})
                /\ UNCHANGED <<cfg, hash, skey, chash>>
DeleteDSN(d) == /\ dsn[d] # NoDSN
                /\ dsn' = [dsn EXCEPT ![d] = NoDSN]
                /\ Reply("DELETE /dsns/{{dsn}}/", {})
                /\ UNCHANGED <<cfg, hash, skey, chash, gen>>
ReadDSNs == /\ \E r \in {"GET /dsns/", "GET /dsns/{{dsn}}/"} : Reply(r, {})
            /\ UNCHANGED <<cfg, hash, dsn, skey, chash, gen>>

\* ---- OAuth2 authorization server: the key set shows the public half only
Jwks == /\ Reply("GET /.well-known/jwks.json", {skey.pub})
        /\ UNCHANGED <<cfg, hash, dsn, skey, chash, gen>>
Token == /\ Reply("POST /oauth2/token", {})
         /\ UNCHANGED <<cfg, hash, dsn, skey, chash, gen>>

Next == \/ \E n \in MNames : Plant(n) \/ PatchConfig(n)
        \/ GetAllConfig
        \/ \E N \in SUBSET MNames : Cardinality(N) \in {1, 2} /\ GetConfig(N)
        \/ \E u \in Users : CreateUser(u) \/ UpdateUser(u) \/ Logon(u) \/ DeleteUser(u)
        \/ ReadUsers
        \/ \E d \in DSNs : CreateDSN(d) \/ UpdateDSN(d) \/ DeleteDSN(d)
        \/ ReadDSNs \/ Jwks \/ Token

Spec == Init /\ [][Next]_vars

\* ---- the property
StoredSecrets == ( {cfg[n] : n \in {m \in MNames : SecretSetting(m, MMarks(m))}}
                   \cup {hash[u] : u \in Users}
                   \cup {dsn[d].plain : d \in DSNs} \cup {dsn[d].stored : d \in DSNs}
                   \cup {skey.priv, chash} ) \ {0}

TypeOK == /\ cfg \in [MNames -> 0..MaxGen] /\ hash \in [Users -> 0..MaxGen]
          /\ gen \in 0..MaxGen /\ resp.shown \subseteq 1..MaxGen
\* no response contains a stored secret
NoLeak == resp.shown \cap StoredSecrets = {}
\* the two configuration endpoints implement the same predicate (for every setting that holds a value)
Agree == \A n \in MNames : cfg[n] # 0 => ElideAll(n) = ElideOne(n)
\* ... and it is the statement's
ElisionIsSecrecy == \A n \in MNames : cfg[n] # 0 => ElideAll(n) = SecretSetting(n, MMarks(n))
=============================================================================

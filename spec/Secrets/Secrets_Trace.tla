--------------------------- MODULE Secrets_Trace ---------------------------
(* Binding F: io.ndjson holds one record per response of the real server,     *)
(*   [route   |-> the route pattern of the real route table that served it,   *)
(*    method, path, status, asked |-> setting names requested (config POST),  *)
(*    found   |-> sequence of findings: every planted / stored value located  *)
(*                in the body or the headers, under any encoding].            *)
(* The harness only *locates* values (substring search) and tells which store *)
(* each one lives in; whether a located value is a secret - and therefore     *)
(* whether the response violates C44 - is decided here, by                    *)
(* SecretsClass!IsSecret.  Records outside the domain (WF) are reported as    *)
(* "not-a-case" (the check turns those into "no verdict").                    *)
EXTENDS SecretsClass, Json, TLC

VARIABLES i, bad

Log == ndJsonDeserialize("io.ndjson")

WFFinding(f) == /\ f.store \in Stores
                /\ f.enc \in Encodings
                /\ f.where \in {"body", "header"}
                /\ \A k \in DOMAIN f.marks : f.marks[k] \in Markers
                /\ (f.store = "setting") = (f.name # "")
WF(rec) == /\ rec.method \in {"GET", "POST", "PUT", "PATCH", "DELETE", "HEAD"}
           /\ rec.status \in 100..599
           /\ \A k \in DOMAIN rec.found : WFFinding(rec.found[k])

Leaks(rec) == {k \in DOMAIN rec.found : IsSecret(rec.found[k])}
Key(rec, k) == rec.route \o "/" \o Class(rec.found[k])

Judge(rec, idx) == IF ~WF(rec) THEN {[idx |-> idx, key |-> "not-a-case"]}
                   ELSE {[idx |-> idx, key |-> Key(rec, k)] : k \in Leaks(rec)}

TInit == i = 1 /\ bad = {}
TNext == /\ i <= Len(Log)
         /\ bad' = bad \cup Judge(Log[i], i)
         /\ i' = i + 1
TSpec == TInit /\ [][TNext]_<<i, bad>>
Report == i <= Len(Log) \/ PrintT(ToJson([n |-> Len(Log), bad |-> bad]))
=============================================================================

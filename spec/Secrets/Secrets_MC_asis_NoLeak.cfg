SPECIFICATION Spec
CONSTANTS
  Impl = "asis"
  MaxGen = 5
INVARIANTS NoLeak
CHECK_DEADLOCK FALSE

SPECIFICATION Spec
CONSTANTS
  Impl = "onelist"
  MaxGen = 5
INVARIANTS NoLeak
CHECK_DEADLOCK FALSE

SPECIFICATION Spec
CONSTANTS
  Impl = "shared"
  MaxGen = 6
INVARIANTS TypeOK NoLeak Agree ElisionIsSecrecy
CHECK_DEADLOCK FALSE

SPECIFICATION Spec
CONSTANTS
  Impl = "asis"
  MaxGen = 5
INVARIANTS Agree
CHECK_DEADLOCK FALSE

SPECIFICATION Spec
CONSTANTS
  Impl = "shared"
  MaxGen = 8
INVARIANTS TypeOK NoLeak Agree ElisionIsSecrecy
CHECK_DEADLOCK FALSE

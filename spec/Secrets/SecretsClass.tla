--------------------------- MODULE SecretsClass ---------------------------
(* C44 - which stored values are secrets.  Constant-level definitions shared  *)
(* by the handler model (Secrets) and the response contract (Secrets_Trace).  *)
(*                                                                            *)
(* A *finding* is one stored value located in one response:                   *)
(*   [store |-> kind of store, name |-> setting name ("" for other stores),   *)
(*    marks |-> the markers occurring in the setting name (a sequence),       *)
(*    enc |-> encoding under which it was located, where |-> "body"/"header"] *)
(* The statement (properties.jsonl C44) lists the stored secrets:             *)
(*   user password hashes            -> store "userhash"                      *)
(*   DSN passwords                   -> "dsnpassword" (as given),             *)
(*                                      "dsnstored" (the stored ciphertext)   *)
(*   the server token key            -> setting ego.server.token.key          *)
(*   logon / refresh tokens in the configuration                              *)
(*                                   -> ego.logon.token, ...refresh.token     *)
(*   OAuth client secrets            -> setting ego.server.oauth.client.secret*)
(*                                      (resource-server side), "clientsecret"*)
(*                                      / "clienthash" (the AS client file)   *)
(*   signing keys                    -> "signingkey" (private half of the     *)
(*                                      AS key file)                          *)
(* and the configuration listing's own documented policy (GetAllConfigHandler:*)
(* "any setting whose name contains password or credentials") makes every     *)
(* such setting a stored secret of the configuration: one predicate,          *)
(* SecretSetting, that every configuration endpoint has to implement.         *)
EXTENDS Integers, Sequences, FiniteSets

NamedSecretSettings == {"ego.server.token.key", "ego.logon.token",
                        "ego.logon.refresh.token", "ego.server.oauth.client.secret"}
Markers == {"password", "credentials"}

SecretSetting(name, marks) == name \in NamedSecretSettings \/ Len(marks) > 0

SecretStores == {"userhash", "dsnpassword", "dsnstored", "clientsecret", "clienthash", "signingkey"}
\* stores holding values the statement does not list: planted and located like the others, never a violation
\* ("control": plain settings / names / public key halves; "unclaimed": values the code encrypts at rest but
\*  the statement does not name, e.g. ego.server.default.credential)
OpenStores == {"control", "unclaimed"}
Stores == SecretStores \cup OpenStores \cup {"setting"}
Encodings == {"raw", "base64", "base64url", "hex", "HEX", "urlescaped", "jsonescaped"}

IsSecret(f) == IF f.store = "setting" THEN SecretSetting(f.name, f.marks)
               ELSE f.store \in SecretStores

\* abstract identity of a located secret (the class of the value, never the value)
Class(f) == IF f.store # "setting" THEN f.store
            ELSE IF f.name \in NamedSecretSettings THEN "setting:" \o f.name
            ELSE "setting:*" \o f.marks[1] \o "*"
=============================================================================

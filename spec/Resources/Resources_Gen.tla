---------------------------- MODULE Resources_Gen ----------------------------
(* Binding R for Resources: what TLC hands to the harness.                   *)
(*  (1) EmitTransitions - an action property that prints every transition    *)
(*      (state before, call with allowed replies, state after) of the        *)
(*      exhaustive run at a small bound (run with -workers 1).               *)
(*  (2) WalkSpec - random walks at a larger bound: each step draws ONE call  *)
(*      (kind first, then its arguments, so that kinds are balanced) with    *)
(*      RandomElement; every walk is a behaviour of Spec.  h is the history  *)
(*      printed at depth Depth.                                              *)
EXTENDS Resources, Json

CONSTANT Depth
VARIABLE h

St      == [created |-> created, rows |-> rows]
CallOf(l) == [act |-> l.act, rec |-> l.rec, fs |-> l.fs, key |-> l.key, reply |-> l.reply,
              out |-> l.out, n |-> l.n, cls |-> Cls(l.fs)]

\* ---- (1)
TSpec == Init /\ h = <<>> /\ [][Next /\ UNCHANGED h]_<<vars, h>>
EmitTransitions ==
  [][PrintT(ToJson([pre |-> St, call |-> CallOf(last'), st |-> [created |-> created', rows |-> rows']]))]_vars

\* ---- (2)
One(S) == {RandomElement(S)}
KindsCold == <<"CreateIf", "CreateIf", "CreateIf", "Insert", "Read", "Delete", "Update">>
KindsWarm == <<"Insert", "Insert", "Insert", "Insert", "Read", "Read", "Read", "ReadOne",
               "Update", "Update", "Update", "UpdateOne", "Delete", "Delete", "DeleteOne", "CreateIf">>
EntryKinds == <<"ok", "ok", "ok", "ok", "ok", "nil", "bad">>

Entry(kind) == IF kind = "ok" THEN GoodFilters ELSE IF kind = "bad" THEN BadFilters ELSE {Absent}

WalkStep ==
  LET kinds == IF created THEN KindsWarm ELSE KindsCold IN
  \E i \in One(1..Len(kinds)) :
  \E rec \in One(Rec), key \in One(KDom), len \in One(0..MaxFilters) :
  \E k1 \in One(1..Len(EntryKinds)), k2 \in One(1..Len(EntryKinds)), k3 \in One(1..Len(EntryKinds)) :
  \E f1 \in One(Entry(EntryKinds[k1])), f2 \in One(Entry(EntryKinds[k2])), f3 \in One(Entry(EntryKinds[k3])) :
    LET fs == SubSeq(<<f1, f2, f3>>, 1, len)
        a  == kinds[i] IN
    CASE a = "CreateIf"  -> CreateIf
      [] a = "Insert"    -> Insert(rec)
      [] a = "Read"      -> Read(fs)
      [] a = "ReadOne"   -> ReadOne(key)
      [] a = "Update"    -> Update(rec, fs)
      [] a = "UpdateOne" -> UpdateOne(rec)
      [] a = "Delete"    -> Delete(fs)
      [] a = "DeleteOne" -> DeleteOne(key)

WalkInit == Init /\ h = <<>>
WalkNext == /\ Len(h) < Depth
            /\ WalkStep
            /\ h' = Append(h, [call |-> CallOf(last'), st |-> [created |-> created', rows |-> rows']])
WalkSpec == WalkInit /\ [][WalkNext]_<<vars, h>>

Emit == Len(h) < Depth \/ PrintT(ToJson(h))
=============================================================================

SPECIFICATION TSpec
CONSTANTS
  KDom = {1, 2}
  SDom = {1}
  NDom = {1}
  BDom = {1}
  UDom = {1}
  JDom = {1}
  RDom = {1}
  FilterCols = {"s"}
  PairCols = {"s"}
  MaxFilters = 1
  Impl = "asis-recv"
  Depth = 0
INVARIANTS TypeOK KeyedSet NothingBeforeCreate
PROPERTIES DeleteExact
VIEW View
CHECK_DEADLOCK FALSE

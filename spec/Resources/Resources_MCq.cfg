SPECIFICATION TSpec
CONSTANTS
  KDom = {1, 2, 3}
  SDom = {1}
  NDom = {1}
  BDom = {1}
  UDom = {1}
  JDom = {1}
  RDom = {1}
  FilterCols = {"k", "s", "n", "b", "u"}
  PairCols = {"k", "s"}
  MaxFilters = 2
  Impl = "fixed"
  Depth = 0
INVARIANTS TypeOK KeyedSet NothingBeforeCreate
PROPERTIES ErrorsChangeNothing InsertExact ReadExact ReadOneExact UpdateExact UpdateOneExact DeleteExact DeleteOneExact CreateExact OnlyCreateCreates EmitTransitions
VIEW View
CHECK_DEADLOCK FALSE

SPECIFICATION TSpec
CONSTANTS
  KDom = {1, 2}
  SDom = {1}
  NDom = {1}
  BDom = {1}
  UDom = {1}
  JDom = {1}
  RDom = {1}
  FilterCols = {"s"}
  PairCols = {"s"}
  MaxFilters = 2
  Impl = "asis-where"
  Depth = 0
INVARIANTS TypeOK KeyedSet NothingBeforeCreate
PROPERTIES ReadExact
VIEW View
CHECK_DEADLOCK FALSE

SPECIFICATION WalkSpec
CONSTANTS
  KDom = {1, 2, 3}
  SDom = {1, 2}
  NDom = {1, 2}
  BDom = {1, 2}
  UDom = {1, 2}
  JDom = {1, 2}
  RDom = {1, 2}
  FilterCols = {"k", "s", "n", "b", "u"}
  PairCols = {"k", "s", "n", "b", "u"}
  MaxFilters = 3
  Impl = "fixed"
  Depth = 10
INVARIANTS Emit
CHECK_DEADLOCK FALSE

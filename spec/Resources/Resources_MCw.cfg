SPECIFICATION TSpec
CONSTANTS
  KDom = {1, 2, 3}
  SDom = {1, 2}
  NDom = {1, 2}
  BDom = {1, 2}
  UDom = {1}
  JDom = {1}
  RDom = {1}
  FilterCols = {"k", "s", "n", "b", "u"}
  PairCols = {"k", "s", "n", "b", "u"}
  MaxFilters = 1
  Impl = "fixed"
  Depth = 0
INVARIANTS TypeOK KeyedSet NothingBeforeCreate
PROPERTIES ErrorsChangeNothing InsertExact ReadExact ReadOneExact UpdateExact UpdateOneExact DeleteExact DeleteOneExact CreateExact OnlyCreateCreates
VIEW View
CHECK_DEADLOCK FALSE

------------------------------ MODULE Resources ------------------------------
(* C30 - the struct-backed resource store (internal/resources) behaves like a  *)
(* keyed record set.                                                           *)
(*                                                                             *)
(* Field values are RANKS (small integers): the harness concretises rank i of  *)
(* a column as the i-th of an increasing list of real values (strings compared *)
(* bytewise, ints numerically, false<true, uuids by canonical text), so "<"    *)
(* on ranks is "<" on the stored values.  Record fields:                       *)
(*   k string (primary key)  s string  n int  b bool  u uuid                   *)
(*   j []string (stored as JSON text)  r json.RawMessage                       *)
(*                                                                             *)
(* The spec is shaped like the code: one action per public method (each is one *)
(* SQL statement = one atomic step), the filter constructors (filters.go) and  *)
(* the where-clause builder shared by Read/Update/Delete are written the way   *)
(* the code works, with Impl selecting the as-is or repaired variant of the    *)
(* two places where they differ:                                               *)
(*   recv : Equals/NotEquals/LessThan/GreaterThan have VALUE receivers, so the *)
(*          "invalid column" error newFilter records goes to a private copy of *)
(*          the handle and is lost; the constructor's nil result is then       *)
(*          skipped by the where-builder as if no filter had been given.       *)
(*   where: the builder emits " where " only for the filter at index 0, so a   *)
(*          caller-supplied nil ("no filter", used by tables/security.go) in   *)
(*          front of a real filter produces malformed SQL.                     *)
(* The property (the *Exact invariants) is written separately, against an      *)
(* ideal in-memory keyed table, and never refers to the code-shaped operators. *)
EXTENDS Integers, Sequences, FiniteSets, TLC

CONSTANTS KDom, SDom, NDom, BDom, UDom, JDom, RDom,   \* rank domains per field
          FilterCols,                                 \* columns the filters of one-element lists are built on (subset of Cols)
          PairCols,                                   \* columns the filters of longer lists are built on (subset of Cols)
          MaxFilters,                                 \* bound on the length of a filter list
          Impl                                        \* "fixed" | "asis" | "asis-recv" | "asis-where"

ASSUME Impl \in {"fixed", "asis", "asis-recv", "asis-where"}
RecvLost   == Impl \in {"asis", "asis-recv"}
WhereIndex == Impl \in {"asis", "asis-where"}

VARIABLES created,   \* does the table exist
          rows,      \* the table: a set of records
          last       \* the last call with its reply (observation; not part of the VIEW)
vars == <<created, rows, last>>

Rec   == [k : KDom, s : SDom, n : NDom, b : BDom, u : UDom, j : JDom, r : RDom]
NoRec == [k |-> 0, s |-> 0, n |-> 0, b |-> 0, u |-> 0, j |-> 0, r |-> 0]

Cols   == {"k", "s", "n", "b", "u"}          \* columns filters may be built on (the two JSON columns: outside the domain, see notes)
ASSUME FilterCols \subseteq Cols /\ PairCols \subseteq Cols
BadCol == "zz"                                \* a column the struct does not have
Dom(c) == CASE c = "k" -> KDom [] c = "s" -> SDom [] c = "n" -> NDom [] c = "b" -> BDom [] c = "u" -> UDom
Ops    == {"eq", "ne", "lt", "gt"}

Absent        == [col |-> "-", op |-> "-", v |-> 0]     \* the caller passed a nil *Filter: "no filter"
GoodOn(C)     == UNION {[col : {c}, op : Ops, v : Dom(c)] : c \in C}
GoodFilters   == GoodOn(FilterCols \cup PairCols)
BadFilters    == [col : {BadCol}, op : {"eq", "gt"}, v : {1}]
EntriesOn(C)  == GoodOn(C) \cup BadFilters \cup {Absent}
FilterEntries == EntriesOn(FilterCols \cup PairCols)
\* every list of length <= 1 over FilterCols, every list of length 2..MaxFilters over PairCols
FilterLists   == {<<>>} \cup (IF MaxFilters >= 1 THEN [1..1 -> EntriesOn(FilterCols)] ELSE {})
                        \cup UNION {[1..n -> EntriesOn(PairCols)] : n \in 2..MaxFilters}
KeyFilter(key) == <<[col |-> "k", op |-> "eq", v |-> key]>>

Match(r, f) == LET x == r[f.col] IN
               CASE f.op = "eq" -> x = f.v
                 [] f.op = "ne" -> x # f.v
                 [] f.op = "lt" -> x < f.v
                 [] f.op = "gt" -> x > f.v

-----------------------------------------------------------------------------
(* The code, as written                                                      *)

\* newFilter: a known column gives a filter; anything else gives nil (and an error in r.Err)
IsNil(f) == f.col \notin Cols
\* r.Err as the operation sees it after Begin() and the construction of its filters
HandleErr(fs) == ~RecvLost /\ \E i \in DOMAIN fs : fs[i].col = BadCol
\* where-builder: nil filters are skipped ("continue"); as-is, " where " comes only from index 0
SqlErr(fs) == /\ WhereIndex
              /\ Len(fs) > 0 /\ IsNil(fs[1])
              /\ \E i \in 2..Len(fs) : ~IsNil(fs[i])
OpErr(fs)   == ~created \/ HandleErr(fs) \/ SqlErr(fs)
CodeSel(fs) == {r \in rows : \A i \in DOMAIN fs : IsNil(fs[i]) \/ Match(r, fs[i])}

Mk(act, rec, fs, key, reply, out, n) ==
  [act |-> act, rec |-> rec, fs |-> fs, key |-> key, reply |-> reply, out |-> out, n |-> n]

CreateIf ==
  /\ created' = TRUE
  /\ UNCHANGED rows
  /\ last' = Mk("CreateIf", NoRec, <<>>, 0, {"ok"}, {}, 0)

Insert(rec) ==
  LET fail == ~created \/ \E r \in rows : r.k = rec.k IN      \* no table / primary key constraint
  /\ rows' = IF fail THEN rows ELSE rows \cup {rec}
  /\ UNCHANGED created
  /\ last' = Mk("Insert", rec, <<>>, 0, IF fail THEN {"error"} ELSE {"ok"}, {}, 0)

Read(fs) ==
  LET e == OpErr(fs) IN
  /\ UNCHANGED <<created, rows>>
  /\ last' = Mk("Read", NoRec, fs, 0, IF e THEN {"error"} ELSE {"ok"}, IF e THEN {} ELSE CodeSel(fs), 0)

ReadOne(key) ==
  LET fs == KeyFilter(key)
      M  == CodeSel(fs) IN
  /\ UNCHANGED <<created, rows>>
  /\ last' = Mk("ReadOne", NoRec, <<>>, key,
                IF OpErr(fs) THEN {"error"} ELSE IF M = {} THEN {"notfound"} ELSE {"ok"},
                IF OpErr(fs) THEN {} ELSE M, 0)

\* UPDATE t SET every column = rec WHERE ... : one statement, rolled back as a whole on a key conflict
UpdateCore(act, rec, fs, missReply) ==
  LET e        == OpErr(fs)
      M        == CodeSel(fs)
      rest     == rows \ M
      conflict == Cardinality(M) > 1 \/ (M # {} /\ \E r \in rest : r.k = rec.k)
      fail     == e \/ conflict IN
  /\ rows' = IF fail \/ M = {} THEN rows ELSE rest \cup {rec}
  /\ UNCHANGED created
  /\ last' = Mk(act, rec, IF act = "Update" THEN fs ELSE <<>>, 0,
                IF fail THEN {"error"} ELSE IF M = {} THEN missReply ELSE {"ok"}, {}, 0)

Update(rec, fs) == UpdateCore("Update", rec, fs, {"ok"})
\* UpdateOne's comment promises an error when the object is not found, the code reports success:
\* the statement of C30 is about records, so both replies are allowed here (see notes).
UpdateOne(rec)  == UpdateCore("UpdateOne", rec, KeyFilter(rec.k), {"ok", "notfound"})

Delete(fs) ==
  LET e == OpErr(fs)
      M == CodeSel(fs) IN
  /\ rows' = IF e THEN rows ELSE rows \ M
  /\ UNCHANGED created
  /\ last' = Mk("Delete", NoRec, fs, 0, IF e THEN {"error"} ELSE {"ok"}, {}, IF e THEN 0 ELSE Cardinality(M))

DeleteOne(key) ==
  LET fs == KeyFilter(key)
      e  == OpErr(fs)
      M  == CodeSel(fs) IN
  /\ rows' = IF e THEN rows ELSE rows \ M
  /\ UNCHANGED created
  /\ last' = Mk("DeleteOne", NoRec, <<>>, key,
                IF e THEN {"error"} ELSE IF M = {} THEN {"notfound"} ELSE {"ok"}, {}, 0)

Init == /\ created = FALSE
        /\ rows = {}
        /\ last = [act |-> "Init", rec |-> NoRec, fs |-> <<>>, key |-> 0, reply |-> {"ok"}, out |-> {}, n |-> 0]

Next == \/ CreateIf
        \/ \E rec \in Rec : Insert(rec) \/ UpdateOne(rec)
        \/ \E fs \in FilterLists : Read(fs) \/ Delete(fs)
        \/ \E rec \in Rec, fs \in FilterLists : Update(rec, fs)
        \/ \E key \in KDom : ReadOne(key) \/ DeleteOne(key)

Spec == Init /\ [][Next]_vars

-----------------------------------------------------------------------------
(* The property: what a simple in-memory keyed table answers.  Every clause  *)
(* is an action property over (state before, call+reply in last', state      *)
(* after), so TLC evaluates it on every transition (last is outside the VIEW).*)

Bad(fs)    == \E i \in DOMAIN fs : fs[i].col = BadCol                       \* a filter on a column that does not exist
Sel(fs, R) == {r \in R : \A i \in DOMAIN fs : fs[i] = Absent \/ Match(r, fs[i])}
HasKey(R, key) == \E r \in R : r.k = key
L      == last'
Same   == rows' = rows
Err    == L.reply = {"error"}
Ok     == L.reply = {"ok"}

TypeOK == /\ created \in BOOLEAN
          /\ rows \subseteq Rec
          /\ last.reply \subseteq {"ok", "error", "notfound"} /\ last.reply # {}
          /\ last.out \subseteq Rec
          /\ last.n \in 0..Cardinality(Rec)

KeyedSet == \A r1, r2 \in rows : r1.k = r2.k => r1 = r2

NothingBeforeCreate == ~created => rows = {}

ErrorsChangeNothing == [][(Err \/ L.reply = {"notfound"}) => Same]_vars

InsertExact == [][
  L.act = "Insert" =>
    IF created /\ ~HasKey(rows, L.rec.k)
    THEN Ok /\ rows' = rows \cup {L.rec}
    ELSE Err /\ Same ]_vars

ReadExact == [][
  L.act = "Read" =>
    /\ Same
    /\ IF ~created \/ Bad(L.fs)
       THEN Err /\ L.out = {}                          \* never "match everything"
       ELSE Ok /\ L.out = Sel(L.fs, rows) ]_vars

ReadOneExact == [][
  L.act = "ReadOne" =>
    /\ Same
    /\ IF ~created THEN Err /\ L.out = {}
       ELSE IF HasKey(rows, L.key)
            THEN Ok /\ L.out = {r \in rows : r.k = L.key}
            ELSE L.reply = {"notfound"} /\ L.out = {} ]_vars

UpdateIdeal(rec, fs, miss) ==
  IF ~created \/ Bad(fs) THEN Err /\ Same
  ELSE LET M == Sel(fs, rows) IN
       IF M = {} THEN L.reply = miss /\ Same
       ELSE IF Cardinality(M) = 1 /\ ~HasKey(rows \ M, rec.k)
            THEN Ok /\ rows' = (rows \ M) \cup {rec}
            ELSE Err /\ Same                            \* would put two records under one key

UpdateExact    == [][L.act = "Update" => UpdateIdeal(L.rec, L.fs, {"ok"})]_vars
UpdateOneExact == [][L.act = "UpdateOne" => UpdateIdeal(L.rec, KeyFilter(L.rec.k), {"ok", "notfound"})]_vars

DeleteExact == [][
  L.act = "Delete" =>
    IF ~created \/ Bad(L.fs)
    THEN Err /\ Same /\ L.n = 0
    ELSE LET M == Sel(L.fs, rows) IN
         Ok /\ rows' = rows \ M /\ L.n = Cardinality(M) ]_vars

DeleteOneExact == [][
  L.act = "DeleteOne" =>
    IF ~created THEN Err /\ Same
    ELSE IF HasKey(rows, L.key)
         THEN Ok /\ rows' = {r \in rows : r.k # L.key}
         ELSE L.reply = {"notfound"} /\ Same ]_vars

CreateExact == [][L.act = "CreateIf" => created' /\ Ok /\ Same]_vars
OnlyCreateCreates == [][L.act # "CreateIf" => created' = created]_vars

View == <<created, rows>>

\* abstract class of a filter list (used as the identity of a finding)
Kind(f) == IF f = Absent THEN "nil" ELSE IF f.col = BadCol THEN "bad" ELSE "ok"
Cls(fs) == [i \in DOMAIN fs |-> Kind(fs[i])]
=============================================================================

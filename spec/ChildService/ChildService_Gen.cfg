SPECIFICATION GenSpec
CONSTANTS
  EchoRadius = 2
  GenRadius = 2
INVARIANTS Emit
CHECK_DEADLOCK FALSE

SPECIFICATION Spec
CONSTANTS
  Lossy = {}
  EchoRadius = 2
  GenRadius = 2
INVARIANTS TypeOK Agreement Composed
CHECK_DEADLOCK FALSE

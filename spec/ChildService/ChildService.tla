---------------------------- MODULE ChildService ----------------------------
(* C41 as a state machine: one service request, answered both ways.  Each     *)
(* action is one step of the code (see ChildWire for the value model):        *)
(*   Route          router.ServeHTTP builds the session, ServiceHandler picks *)
(*                  the mode (ego.server.child.services) and the transport    *)
(*                  (ego.server.child.services.dir: a directory or "pipe")    *)
(*   IView IRun IRespond           service.go ServiceHandler (in-process)     *)
(*   CEncode        child.go callChildServices: ChildServiceRequest           *)
(*   CSend          runChildViaFile / runChildViaPipe + getRequestObject /    *)
(*                  ChildServicePipe: the request document reaches the child  *)
(*   CView CRun CAnswer            runChildRequest in the spawned process     *)
(*   CReturn        writeChildResponse+ReadFile / Encoder+Decoder             *)
(*   CDeliver       callChildServices writes the http.ResponseWriter          *)
(* The two pipelines share nothing but the request, so the in-process one is  *)
(* run first (no interleaving to explore).                                    *)
(* Agreement is the statement: same status, headers and body.                 *)
EXTENDS ChildWire

CONSTANTS Lossy,       \* the edges in force: {} = the wire the statement needs, AsIs = child.go as read
          EchoRadius, GenRadius
VARIABLES case, transport, pc, sess, view, wire, res, obsI, obsC
vars == <<case, transport, pc, sess, view, wire, res, obsI, obsC>>

None == [none |-> TRUE]

Init == /\ case \in Space("echo", EchoRadius) \cup Space("gen", GenRadius)      \* radius >= 3: the whole product
        /\ transport \in {"file", "pipe"}
        /\ pc = "route" /\ sess = None /\ view = None /\ wire = None /\ res = None /\ obsI = None /\ obsC = None

Route    == pc = "route"    /\ sess' = Session(case) /\ pc' = "iview"   /\ UNCHANGED <<case, transport, view, wire, res, obsI, obsC>>
IView    == pc = "iview"    /\ view' = ViewI(sess)   /\ pc' = "irun"    /\ UNCHANGED <<case, transport, sess, wire, res, obsI, obsC>>
IRun     == pc = "irun"     /\ res' = Run(case, view) /\ pc' = "irespond" /\ UNCHANGED <<case, transport, sess, view, wire, obsI, obsC>>
IRespond == pc = "irespond" /\ obsI' = RespondI(res, sess) /\ pc' = "cencode" /\ UNCHANGED <<case, transport, sess, view, wire, res, obsC>>
CEncode  == pc = "cencode"  /\ wire' = Encode(sess, Lossy) /\ pc' = "csend" /\ UNCHANGED <<case, transport, sess, view, res, obsI, obsC>>
CSend    == pc = "csend"    /\ wire' = Transport(wire, transport) /\ pc' = "cview" /\ UNCHANGED <<case, transport, sess, view, res, obsI, obsC>>
CView    == pc = "cview"    /\ view' = ViewC(wire)   /\ pc' = "crun"    /\ UNCHANGED <<case, transport, sess, wire, res, obsI, obsC>>
CRun     == pc = "crun"     /\ res' = Run(case, view) /\ pc' = "canswer" /\ UNCHANGED <<case, transport, sess, view, wire, obsI, obsC>>
CAnswer  == pc = "canswer"  /\ wire' = WireResp(res, Lossy) /\ pc' = "creturn" /\ UNCHANGED <<case, transport, sess, view, res, obsI, obsC>>
CReturn  == pc = "creturn"  /\ wire' = Transport(wire, transport) /\ pc' = "cdeliver" /\ UNCHANGED <<case, transport, sess, view, res, obsI, obsC>>
CDeliver == pc = "cdeliver" /\ obsC' = Deliver(wire, sess, Lossy) /\ pc' = "done" /\ UNCHANGED <<case, transport, sess, view, wire, res, obsI>>

Next == Route \/ IView \/ IRun \/ IRespond \/ CEncode \/ CSend \/ CView \/ CRun \/ CAnswer \/ CReturn \/ CDeliver
Spec == Init /\ [][Next]_vars

TypeOK == /\ IsCase(case) /\ Lossy \subseteq Edges
          /\ pc \in {"route", "iview", "irun", "irespond", "cencode", "csend", "cview", "crun", "canswer", "creturn", "cdeliver", "done"}

\* C41
AgreeStatus  == pc = "done" => obsI.status = obsC.status
AgreeHeaders == pc = "done" => obsI.ct = obsC.ct /\ obsI.xa = obsC.xa /\ obsI.echo = obsC.echo /\ obsI.realm = obsC.realm
AgreeBody    == pc = "done" => obsI.body = obsC.body
Agreement    == AgreeStatus /\ AgreeHeaders /\ AgreeBody

\* the step-wise machine computes what the constant-level composition says (the contract uses the latter)
Composed == pc = "done" => obsI = ObsI(case) /\ obsC = ObsC(case, transport, Lossy)
=============================================================================

SPECIFICATION TSpec
INVARIANTS Report
CHECK_DEADLOCK FALSE

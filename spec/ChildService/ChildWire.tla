----------------------------- MODULE ChildWire -----------------------------
(* C41 - child-process services answer like in-process services.             *)
(*                                                                            *)
(* Constant-level model of the two ways one service request is answered       *)
(* (internal/server/services):                                                *)
(*   in-process : ServiceHandler builds the Ego request value from the        *)
(*                router session and the *http.Request, runs the service,     *)
(*                writes status / headers / body to the http.ResponseWriter;  *)
(*   child      : callChildServices copies the session into a                 *)
(*                ChildServiceRequest (JSON; file or loopback socket),        *)
(*                runChildRequest in the spawned process rebuilds the Ego     *)
(*                request, runs the service, answers a ChildServiceResponse   *)
(*                (JSON), callChildServices writes it to the ResponseWriter.  *)
(* Every value that travels is an abstract token (a string).  A step either   *)
(* preserves the token or - when its named *edge* is in the set L - replaces  *)
(* it the way the code as read does.  L = {} is the wire the statement needs  *)
(* (every step the identity), L = AsIs is child.go as read.  The edges are    *)
(* candidates: no verdict depends on them (ChildService_Trace judges pairs of *)
(* real responses by plain equality); they give a failing pair its abstract   *)
(* identity (which known lossy step explains it - or none).                   *)
(*                                                                            *)
(* A case is [fam, d].  fam "echo": the echo-everything service; the          *)
(* dimensions describe the REQUEST.  fam "gen": a generated service whose     *)
(* handler sets status / headers / body / fails; the dimensions describe the  *)
(* SERVICE (plus the Accept header of the request).                           *)
EXTENDS Integers, Sequences, FiniteSets, TLC

EDims == <<"method", "query", "vars", "hdr", "body", "auth", "accept">>
GDims == <<"status", "hdr", "body", "fault", "accept">>
DimsOf(fam) == IF fam = "echo" THEN EDims ELSE GDims

Dom == [echo |-> [method |-> {"GET", "POST", "DELETE"},
                  query  |-> {"none", "one", "multi", "esc", "flag"},
                  vars   |-> {"two", "one", "none", "esc"},
                  hdr    |-> {"none", "one", "multi", "sens"},
                  body   |-> {"none", "ascii", "utf8", "bin"},
                  auth   |-> {"anon", "basic", "bearer", "admin"},
                  accept |-> {"none", "json", "text", "any"}],
        gen  |-> [status |-> {"default", "201", "301", "400", "401", "404", "500"},
                  hdr    |-> {"none", "one", "multi", "ctype"},
                  body   |-> {"text", "none", "bin", "value"},
                  fault  |-> {"none", "before", "after", "exit"},
                  accept |-> {"none", "json", "text", "any"}]]

Base == [echo |-> [method |-> "GET", query |-> "none", vars |-> "two", hdr |-> "none", body |-> "none",
                   auth |-> "anon", accept |-> "none"],
         gen  |-> [status |-> "default", hdr |-> "none", body |-> "text", fault |-> "none", accept |-> "none"]]

Fams == {"echo", "gen"}
Range(s) == {s[i] : i \in DOMAIN s}
DimSet(f) == Range(DimsOf(f))
ASSUME \A f \in Fams : \A k \in DimSet(f) : Base[f][k] \in Dom[f][k]

IsCase(c)     == c.fam \in Fams /\ DOMAIN c.d = DimSet(c.fam) /\ \A k \in DOMAIN c.d : c.d[k] \in Dom[c.fam][k]
Deviations(c) == {k \in DimSet(c.fam) : c.d[k] # Base[c.fam][k]}
Alts(f)  == UNION {{<<k, v>> : v \in Dom[f][k] \ {Base[f][k]}} : k \in DimSet(f)}
Ball0(f) == {[fam |-> f, d |-> Base[f]]}
Ball1(f) == {[fam |-> f, d |-> [Base[f] EXCEPT ![kv[1]] = kv[2]]] : kv \in Alts(f)}
Ball2(f) == UNION {{[fam |-> f, d |-> [c.d EXCEPT ![kv[1]] = kv[2]]] : kv \in {x \in Alts(f) : x[1] \notin Deviations(c)}}
                   : c \in Ball1(f)}
Ball(f, r) == IF r = 0 THEN Ball0(f) ELSE IF r = 1 THEN Ball0(f) \cup Ball1(f) ELSE Ball0(f) \cup Ball1(f) \cup Ball2(f)
\* the whole product of a family's dimensions (model checking only: 15360 echo + 1792 gen cases)
Full(f) == IF f = "echo"
           THEN {[fam |-> f, d |-> [method |-> m, query |-> q, vars |-> v, hdr |-> h, body |-> b, auth |-> u, accept |-> a]] :
                    m \in Dom.echo.method, q \in Dom.echo.query, v \in Dom.echo.vars, h \in Dom.echo.hdr, b \in Dom.echo.body,
                    u \in Dom.echo.auth, a \in Dom.echo.accept}
           ELSE {[fam |-> f, d |-> [status |-> st, hdr |-> h, body |-> b, fault |-> fl, accept |-> a]] :
                    st \in Dom.gen.status, h \in Dom.gen.hdr, b \in Dom.gen.body, fl \in Dom.gen.fault, a \in Dom.gen.accept}
Space(f, r) == IF r >= 3 THEN Full(f) ELSE Ball(f, r)

\* "status=404,body=none": the deviations of a case in the fixed order of its dimensions ("base" when there is none)
RECURSIVE DevStr(_, _, _)
DevStr(c, i, acc) ==
    IF i > Len(DimsOf(c.fam)) THEN (IF acc = "" THEN "base" ELSE acc)
    ELSE LET k == DimsOf(c.fam)[i]
         IN DevStr(c, i + 1, IF c.d[k] = Base[c.fam][k] THEN acc
                              ELSE (IF acc = "" THEN "" ELSE acc \o ",") \o k \o "=" \o c.d[k])

(* ------------------------------------------------------------------------ *)
(* Edges: where child.go as read does not carry a value over unchanged.       *)
EdgeSeq == <<"url-pattern",          \* req.URL.Path: the route pattern without "/" instead of r.URL.String()
             "parts-string",         \* URLParts map[string]string: data.String() of every typed part
             "reqbody-json-string",  \* request Body string through JSON: invalid UTF-8 becomes U+FFFD
             "header-join",          \* response Headers map[string]string: values joined with ", "
             "respbody-json-string", \* response Body string through JSON
             "json-ctype",           \* Content-Type: application/json for an Accept: application/json request is not added
             "realm-401",            \* WWW-Authenticate added to a 401 the handler chose itself
             "empty-error-body",     \* status >= 400 with an empty body is replaced by the server's error document
             "error-text",           \* run-time error text is not wrapped in error.service.error
             "error-keeps-output",   \* after a run-time error the handler's headers (and a non-empty body) are still delivered
             "exit-text",            \* os.Exit text is not wrapped in error.service.aborted
             "error-ctype-dup">>     \* an error document is sent with two Content-Type values
Edges == Range(EdgeSeq)
AsIs  == Edges

(* ------------------------------------------------------------------------ *)
(* The router session both modes start from (router.ServeHTTP).               *)
AcceptsJSON(a) == a \in {"json", "any"}
AcceptsText(a) == a \in {"text", "any"}
IsJSONHdr(a)   == a = "json"            \* strings.Contains(Accept value, "application/json")

Session(c) ==
    IF c.fam = "echo"
    THEN [method |-> c.d.method, url |-> "url:" \o c.d.vars \o "?" \o c.d.query, parts |-> "typed:" \o c.d.vars,
          params |-> c.d.query, hdrs |-> c.d.hdr \o "+" \o c.d.accept \o "+" \o c.d.body, body |-> c.d.body,
          ident |-> c.d.auth, accept |-> c.d.accept]
    ELSE [method |-> "GET", url |-> "url:fixed", parts |-> "typed:fixed", params |-> "none", hdrs |-> c.d.accept,
          body |-> "none", ident |-> "anon", accept |-> c.d.accept]

\* ServiceHandler: the Ego request value of the in-process service
ViewI(s) == s

\* callChildServices: the ChildServiceRequest (Go struct; its field types decide what survives)
Encode(s, L) == [s EXCEPT !.url   = IF "url-pattern" \in L THEN "pattern" ELSE @,
                          !.parts = IF "parts-string" \in L THEN "strings:" \o @ ELSE @,
                          !.body  = IF "reqbody-json-string" \in L /\ @ = "bin" THEN "bin-fffd" ELSE @]
\* file: json.MarshalIndent + WriteFile / ReadFile + Unmarshal; pipe: json.Encoder / Decoder on the socket: the same document
Transport(w, t) == w
\* runChildRequest: the Ego request value of the child
ViewC(w) == w

(* ------------------------------------------------------------------------ *)
(* Running the service on the Ego request value it is given.                  *)
StatusOf(x) == IF x = "default" THEN 200 ELSE IF x = "201" THEN 201 ELSE IF x = "301" THEN 301 ELSE IF x = "400" THEN 400
               ELSE IF x = "401" THEN 401 ELSE IF x = "404" THEN 404 ELSE 500
NoHdrs == [ct |-> "absent", xa |-> "absent", echo |-> "absent"]

Run(c, v) ==
    IF c.fam = "echo"
    THEN [fault |-> "none", status |-> 200, hdrs |-> [NoHdrs EXCEPT !.echo = "1"], btok |-> "echo",
          body  |-> [method |-> v.method, path |-> v.url, parts |-> v.parts, parameters |-> v.params, headers |-> v.hdrs,
                     body |-> v.body, ident |-> v.ident, media |-> v.accept]]
    ELSE LET f   == c.d.fault
             ran == f \in {"none", "after", "exit"}     \* the handler's statements before the fault point were executed
             b   == IF ~ran \/ c.d.body = "none" THEN "empty"
                    ELSE IF c.d.body = "value"
                         THEN (IF AcceptsJSON(v.accept) /\ ~AcceptsText(v.accept) THEN "value-json" ELSE "value-text")
                         ELSE c.d.body
         IN [fault  |-> f,
             status |-> IF ran THEN StatusOf(c.d.status) ELSE 200,
             hdrs   |-> IF ~ran THEN NoHdrs
                        ELSE [NoHdrs EXCEPT !.xa = IF c.d.hdr = "one" THEN "v1" ELSE IF c.d.hdr = "multi" THEN "v1|v2" ELSE "absent",
                                            !.ct = IF c.d.hdr = "ctype" THEN "text/vnd.vf" ELSE "absent"],
             btok |-> b, body |-> b]

(* ------------------------------------------------------------------------ *)
(* Observation: what the HTTP client reads.                                   *)
ErrDoc(status, msg) == "errdoc:" \o ToString(status) \o ":" \o msg
Sniffed(btok) == IF btok = "empty" THEN "absent" ELSE "sniffed:" \o btok
Obs(status, ct, xa, echo, realm, body) ==
    [status |-> ToString(status), ct |-> ct, xa |-> xa, echo |-> echo, realm |-> realm, body |-> body]

\* ServiceHandler after ctx.Run()
RespondI(r, s) ==
    IF r.fault = "exit" THEN Obs(500, "errjson", "absent", "absent", "absent", ErrDoc(500, "aborted-wrapped"))
    ELSE IF r.fault \in {"before", "after"} THEN Obs(500, "errjson", "absent", "absent", "absent", ErrDoc(500, "failed-wrapped"))
    ELSE Obs(r.status,
             IF r.hdrs.ct # "absent" THEN r.hdrs.ct ELSE IF IsJSONHdr(s.accept) THEN "application/json" ELSE Sniffed(r.btok),
             r.hdrs.xa, r.hdrs.echo, "absent", r.body)

\* runChildRequest after ctx.Run(): the ChildServiceResponse
Joined(v, L)  == IF "header-join" \in L /\ v = "v1|v2" THEN "v1, v2" ELSE v
BodyOut(b, L) == IF "respbody-json-string" \in L /\ b = "bin" THEN "bin-fffd" ELSE b
Realm(r, L)   == IF "realm-401" \in L /\ r.status = 401 THEN "basic-realm" ELSE "absent"
WireResp(r, L) ==
    IF r.fault = "exit"
    THEN [kind |-> "error", status |-> 500, msg |-> IF "exit-text" \in L THEN "aborted-raw" ELSE "aborted-wrapped",
          hdrs |-> NoHdrs, realm |-> "absent", btok |-> "empty", body |-> "empty"]
    ELSE IF r.fault \in {"before", "after"}
    THEN LET keep == "error-keeps-output" \in L
         IN [kind |-> "error", status |-> 500, msg |-> IF "error-text" \in L THEN "failed-raw" ELSE "failed-wrapped",
             hdrs |-> IF keep THEN [r.hdrs EXCEPT !.xa = Joined(@, L)] ELSE NoHdrs,
             realm |-> IF keep THEN Realm(r, L) ELSE "absent",
             btok |-> IF keep THEN BodyOut(r.btok, L) ELSE "empty",
             body |-> IF keep THEN BodyOut(r.body, L) ELSE "empty"]
    ELSE [kind |-> "ok", status |-> r.status, msg |-> "", hdrs |-> [r.hdrs EXCEPT !.xa = Joined(@, L)], realm |-> Realm(r, L),
          btok |-> IF r.btok = "echo" THEN "echo" ELSE BodyOut(r.btok, L),
          body |-> IF r.btok = "echo" THEN r.body ELSE BodyOut(r.body, L)]

\* callChildServices after the child answered
Deliver(w, s, L) ==
    LET asErr == \/ w.kind = "error" /\ w.btok = "empty"
                 \/ w.kind = "ok" /\ "empty-error-body" \in L /\ w.status >= 400 /\ w.btok = "empty"
        errct == IF "error-ctype-dup" \in L THEN "application/json|errjson" ELSE "errjson"
    IN IF asErr
       THEN Obs(w.status, IF w.hdrs.ct # "absent" THEN w.hdrs.ct \o "|" \o errct ELSE errct,
                w.hdrs.xa, w.hdrs.echo, w.realm, ErrDoc(w.status, w.msg))
       ELSE Obs(w.status,
                IF w.hdrs.ct # "absent" THEN w.hdrs.ct
                ELSE IF IsJSONHdr(s.accept) /\ "json-ctype" \notin L /\ w.kind = "ok" THEN "application/json" ELSE Sniffed(w.btok),
                w.hdrs.xa, w.hdrs.echo, w.realm, w.body)

ObsI(c)       == RespondI(Run(c, ViewI(Session(c))), Session(c))
ObsC(c, t, L) == Deliver(Transport(WireResp(Run(c, ViewC(Transport(Encode(Session(c), L), t))), L), t), Session(c), L)

(* ------------------------------------------------------------------------ *)
(* From a field of a REAL observation (names used in the logged pairs:        *)
(* "status", "h:<Header-Name>", "body" for gen, "b.<member>" for echo) to the *)
(* token the model gives it; "?" = the model says nothing about that field.   *)
HdrMap  == {<<"h:Content-Type", "ct">>, <<"h:X-Vf-A", "xa">>, <<"h:X-Vf-Echo", "echo">>, <<"h:Www-Authenticate", "realm">>}
EchoMap == {<<"b.method", "method">>, <<"b.path", "path">>, <<"b.parts", "parts">>, <<"b.parameters", "parameters">>,
            <<"b.headers", "headers">>, <<"b.body", "body">>, <<"b.bodylen", "body">>, <<"b.bodyb64", "body">>,
            <<"b.user", "ident">>, <<"b.admin", "ident">>, <<"b.auth", "ident">>, <<"b.authn", "ident">>, <<"b.perms", "ident">>,
            <<"b.isjson", "media">>, <<"b.istext", "media">>}
Has(m, f)    == \E p \in m : p[1] = f
Lookup(m, f) == (CHOOSE p \in m : p[1] = f)[2]
FieldTok(o, fam, f) ==
    IF f = "status" THEN o.status
    ELSE IF Has(HdrMap, f) THEN o[Lookup(HdrMap, f)]
    ELSE IF fam = "gen" /\ f = "body" THEN o.body
    ELSE IF fam = "echo" /\ Has(EchoMap, f) THEN o.body[Lookup(EchoMap, f)]
    ELSE "?"
ModelFields(fam) == {"status"} \cup {p[1] : p \in HdrMap} \cup (IF fam = "gen" THEN {"body"} ELSE {p[1] : p \in EchoMap})

\* Abstract identity of a failing field f of case c answered over transport t:
\*   the single edges that, alone, make the model's child differ from the model's in-process answer in that field;
\*   "edges-combined" when only child.go as read (all edges) differs there; otherwise "unexplained" (the contract then
\*   names the case).
RECURSIVE EdgeStr(_, _, _)
EdgeStr(es, i, acc) == IF i > Len(EdgeSeq) THEN acc
                       ELSE EdgeStr(es, i + 1, IF EdgeSeq[i] \in es THEN (IF acc = "" THEN "" ELSE acc \o "+") \o EdgeSeq[i] ELSE acc)
Cause(c, f, oi, eo, oa) ==
    LET ti == FieldTok(oi, c.fam, f)
        ex == {e \in Edges : FieldTok(eo[e], c.fam, f) # ti}
    IN IF ex # {} THEN EdgeStr(ex, 1, "")
       ELSE IF FieldTok(oa, c.fam, f) # ti THEN "edges-combined"
       ELSE "unexplained"
=============================================================================

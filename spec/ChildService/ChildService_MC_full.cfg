SPECIFICATION Spec
CONSTANTS
  Lossy = {}
  EchoRadius = 3
  GenRadius = 3
INVARIANTS TypeOK Agreement Composed
CHECK_DEADLOCK FALSE

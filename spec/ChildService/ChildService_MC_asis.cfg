SPECIFICATION Spec
CONSTANTS
  Lossy <- AsIs
  EchoRadius = 2
  GenRadius = 2
INVARIANTS TypeOK Composed Agreement
CHECK_DEADLOCK FALSE

--------------------------- MODULE ChildService_Gen ---------------------------
(* Case generator for the binding: every case of the two families within      *)
(* the given radius of its base case is one initial state, printed as JSON    *)
(* (with its deviation string and radius).  The driver renders gen cases as   *)
(* Ego service files, echo cases as HTTP requests (tables of concrete bytes   *)
(* per dimension value: a projection documented in notes/C41.md), sends each  *)
(* to the in-process server and to both child-mode servers and logs the three *)
(* observations next to the case.                                             *)
EXTENDS ChildWire, Json
CONSTANTS EchoRadius, GenRadius
VARIABLE cur
GenSpace == Ball("echo", EchoRadius) \cup Ball("gen", GenRadius)

(* Vacuity guard for the edge vocabulary, evaluated once when the generator   *)
(* starts: every named edge, alone, must make the model's child answer differ *)
(* from the model's in-process answer for at least one generated case, and    *)
(* with no edge nothing may differ (the driver requires hits > 0, quiet).     *)
Hit(e) == {c \in GenSpace : ObsI(c) # ObsC(c, "pipe", {e}) \/ ObsI(c) # ObsC(c, "file", {e})}
Quiet  == \A c \in GenSpace : \A t \in {"file", "pipe"} : ObsI(c) = ObsC(c, t, {})
ASSUME EdgeReport == PrintT(ToJson([edgereport |-> TRUE, cases |-> Cardinality(GenSpace), quiet |-> Quiet,
                                    hits |-> [e \in Edges |-> Cardinality(Hit(e))]]))
GenInit == cur \in GenSpace
GenNext == UNCHANGED cur
GenSpec == GenInit /\ [][GenNext]_cur
(* Pairs of dimensions the code couples (one statement reads both): the      *)
(* quick tier always includes these radius-2 cases, the rest is sampled.      *)
(*   gen : Write(value) formats by the negotiated media (writer.go doJson);   *)
(*         an error status with / without a body; what was written before a   *)
(*         run-time error.   echo : a body with a method that carries one.    *)
Coupled(c) ==
    IF c.fam = "gen"
    THEN \/ c.d.body = "value" /\ c.d.accept # "none"
         \/ StatusOf(c.d.status) >= 400 /\ c.d.body = "none"
         \/ c.d.fault = "after" /\ (c.d.hdr # "none" \/ c.d.status # "default")
    ELSE c.d.body # "none" /\ c.d.method # "GET"
Emit == PrintT(ToJson([fam |-> cur.fam, d |-> cur.d, dev |-> DevStr(cur, 1, ""), radius |-> Cardinality(Deviations(cur)),
                       coupled |-> Coupled(cur)]))
=============================================================================

-------------------------- MODULE ChildService_Trace --------------------------
(* Binding F: io.ndjson holds one record per service request sent to three    *)
(* REAL `ego server` processes with identical scratch configuration:          *)
(*   [id, fam, label, c |-> the abstract case (echo / gen) or [label |-> ..], *)
(*    inproc |-> observation of the server running services in-process,       *)
(*    pipe   |-> observation of the --child-services server, socket transport,*)
(*    file   |-> observation of the --child-services server, file transport]  *)
(* An observation is a function field -> text: "status", "h:<Header-Name>"    *)
(* (the list of values as sent), "body" (bytes) or, for the echo service,     *)
(* "b.<member>" (each member of the echoed request).  The driver only sends,  *)
(* reads and splits; C41 - same status, headers and body - is decided here,   *)
(* field by field, by equality.  Key gives every failing field its abstract   *)
(* identity (ChildWire!Cause for modelled families).                          *)
EXTENDS ChildWire, Json

VARIABLES i, bad

Log == ndJsonDeserialize("io.ndjson")

Modelled(rec) == rec.fam \in Fams
CaseOf(rec)   == [fam |-> rec.fam, d |-> rec.c]
WFObs(o)      == "status" \in DOMAIN o
WF(rec) == /\ rec.fam \in Fams \cup {"lib", "prog"}
           /\ WFObs(rec.inproc) /\ DOMAIN rec.pipe = DOMAIN rec.inproc /\ DOMAIN rec.file = DOMAIN rec.inproc
           /\ Modelled(rec) => IsCase(CaseOf(rec))

\* C41 for one request
DiffersOn(rec, t) == {f \in DOMAIN rec.inproc : rec[t][f] # rec.inproc[f]}
Post(rec) == DiffersOn(rec, "pipe") = {} /\ DiffersOn(rec, "file") = {}

Suffix(rec, f) == IF f \in DiffersOn(rec, "pipe") /\ f \in DiffersOn(rec, "file")
                  THEN (IF rec.pipe[f] = rec.file[f] THEN "" ELSE "@transports-disagree")
                  ELSE IF f \in DiffersOn(rec, "pipe") THEN "@pipe" ELSE "@file"

Keys(rec) ==
    LET fs == DiffersOn(rec, "pipe") \cup DiffersOn(rec, "file")
    IN IF fs = {} THEN {}
       ELSE IF ~Modelled(rec) THEN {rec.fam \o "/" \o rec.label \o "/" \o f \o Suffix(rec, f) : f \in fs}
       ELSE LET c  == CaseOf(rec)
                oi == ObsI(c)
                eo == [e \in Edges |-> ObsC(c, "pipe", {e})]
                oa == ObsC(c, "pipe", AsIs)
            IN {rec.fam \o "/" \o f \o "/" \o Cause(c, f, oi, eo, oa) \o Suffix(rec, f) : f \in fs}

Judge(rec, idx) == IF ~WF(rec) THEN {[idx |-> idx, key |-> "not-a-case"]}
                   ELSE {[idx |-> idx, key |-> k] : k \in Keys(rec)}

TInit == i = 1 /\ bad = {}
TNext == /\ i <= Len(Log)
         /\ bad' = bad \cup Judge(Log[i], i)
         /\ i' = i + 1
TSpec == TInit /\ [][TNext]_<<i, bad>>
Report == i <= Len(Log) \/ PrintT(ToJson([n |-> Len(Log), bad |-> bad]))
=============================================================================

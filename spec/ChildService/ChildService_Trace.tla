-------------------------- MODULE ChildService_Trace --------------------------
(* Binding F: io.ndjson holds one record per service request sent to three    *)
(* REAL `ego server` processes with identical scratch configuration:          *)
(*   [id, fam, label, c |-> the abstract case (echo / gen) or [label |-> ..], *)
(*    inproc |-> observation of the server running services in-process,       *)
(*    pipe   |-> observation of the --child-services server, socket transport,*)
(*    file   |-> observation of the --child-services server, file transport]  *)
(* An observation is a function field -> text: "status", "h:<Header-Name>"    *)
(* (the list of values as sent), "body" (bytes) or, for the echo service,     *)
(* "b.<member>" (each member of the echoed request).  The driver only sends,  *)
(* reads and splits; C41 - same status, headers and body - is decided here,   *)
(* field by field, by equality.  Key gives every failing field its abstract   *)
(* identity (ChildWire!Cause for modelled families).                          *)
EXTENDS ChildWire, Json

VARIABLES i, bad

Log == ndJsonDeserialize("io.ndjson")

Modelled(rec) == rec.fam \in Fams
CaseOf(rec)   == [fam |-> rec.fam, d |-> rec.c]
WFObs(o)      == "status" \in DOMAIN o
WF(rec) == /\ rec.fam \in Fams \cup {"lib", "prog"} /\ "selftest" \in DOMAIN rec
           /\ WFObs(rec.inproc) /\ DOMAIN rec.pipe = DOMAIN rec.inproc /\ DOMAIN rec.file = DOMAIN rec.inproc
           /\ Modelled(rec) => IsCase(CaseOf(rec))

\* C41 for one request
DiffersOn(rec, t) == {f \in DOMAIN rec.inproc : rec[t][f] # rec.inproc[f]}
Post(rec) == DiffersOn(rec, "pipe") = {} /\ DiffersOn(rec, "file") = {}

Suffix(rec, f) == IF f \in DiffersOn(rec, "pipe") /\ f \in DiffersOn(rec, "file")
                  THEN (IF rec.pipe[f] = rec.file[f] THEN "" ELSE "@transports-disagree")
                  ELSE IF f \in DiffersOn(rec, "pipe") THEN "@pipe" ELSE "@file"

\* A field nothing in the model explains is named by the case - reduced to the smallest logged case of the same family
\* that deviates from the base only where this one does and fails in the same field (so that one defect seen through
\* twenty pairs of deviations has one identity).  Self-test records are never roots.
FailsOn(r, f) == f \in DOMAIN r.inproc /\ (r.pipe[f] # r.inproc[f] \/ r.file[f] # r.inproc[f])
Within(c1, c2) == c1.fam = c2.fam /\ \A k \in DimSet(c1.fam) : c1.d[k] = Base[c1.fam][k] \/ c1.d[k] = c2.d[k]
Roots(rec, f) == {j \in 1..Len(Log) : /\ Log[j].selftest = "" /\ Log[j].fam = rec.fam /\ WF(Log[j])
                                       /\ Within(CaseOf(Log[j]), CaseOf(rec)) /\ FailsOn(Log[j], f)}
RootDev(rec, f) ==
    LET rs  == Roots(rec, f)
        sz(j) == Cardinality(Deviations(CaseOf(Log[j])))
        min == {j \in rs : \A k \in rs : sz(j) <= sz(k)}
        names == {DevStr(CaseOf(Log[j]), 1, "") : j \in min}
    IN IF Cardinality(names) = 1 THEN CHOOSE x \in names : TRUE ELSE DevStr(CaseOf(rec), 1, "")

Keys(rec) ==
    LET fs == DiffersOn(rec, "pipe") \cup DiffersOn(rec, "file")
    IN IF fs = {} THEN {}
       ELSE IF ~Modelled(rec) THEN {rec.fam \o "/" \o rec.label \o "/" \o f \o Suffix(rec, f) : f \in fs}
       ELSE LET c  == CaseOf(rec)
                oi == ObsI(c)
                eo == [e \in Edges |-> ObsC(c, "pipe", {e})]
                oa == ObsC(c, "pipe", AsIs)
                cause(f) == LET k == Cause(c, f, oi, eo, oa)
                            IN IF k = "unexplained" THEN "unexplained/" \o RootDev(rec, f) ELSE k
            IN {rec.fam \o "/" \o f \o "/" \o cause(f) \o Suffix(rec, f) : f \in fs}

Judge(rec, idx) == IF ~WF(rec) THEN {[idx |-> idx, key |-> "not-a-case"]}
                   ELSE {[idx |-> idx, key |-> k] : k \in Keys(rec)}

TInit == i = 1 /\ bad = {}
TNext == /\ i <= Len(Log)
         /\ bad' = bad \cup Judge(Log[i], i)
         /\ i' = i + 1
TSpec == TInit /\ [][TNext]_<<i, bad>>
Report == i <= Len(Log) \/ PrintT(ToJson([n |-> Len(Log), bad |-> bad]))
=============================================================================

SPECIFICATION Spec
CONSTANTS
  Full3 = FALSE
INVARIANT OnlyShipped
INVARIANT FunctionAgrees
INVARIANT BestQuality
INVARIANT Bites
INVARIANT Emit
POSTCONDITION ControlsBite
CHECK_DEADLOCK FALSE

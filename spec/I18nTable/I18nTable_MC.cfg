SPECIFICATION Spec
CONSTANTS
  NTexts = 6
INVARIANT Holds
INVARIANT FunctionAgrees
INVARIANT Bites
POSTCONDITION ControlBites
CHECK_DEADLOCK FALSE

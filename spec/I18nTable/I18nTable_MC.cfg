SPECIFICATION Spec
CONSTANTS
  Impl = "asis"
  NTexts = 6
INVARIANT Holds
INVARIANT FunctionAgrees
CHECK_DEADLOCK FALSE

--------------------------- MODULE I18nTable_Trace ---------------------------
(* Binding F for C38.  io.ndjson, written by harness/i18ntable from the REAL  *)
(* code of the current tree:                                                  *)
(*   line 1  [t |-> "cat"]  cat: the compiled catalog (full key -> language   *)
(*           -> [s: the text, c: the text as code points]) exactly as         *)
(*           internal/i18n holds it;                                          *)
(*           shipped: the languages of the messages_<lang>.txt files;         *)
(*           supported: what i18n.SupportedLanguages() returns                *)
(*   [t |-> "site"]  one per distinct (kind, key) constant the source passes  *)
(*           to a message sink: kind, key, kc (the key as code points), live, *)
(*           out: language -> what the real sink shows for that key           *)
(*   [t |-> "neg"]   one per generated Accept-Language header: items (as      *)
(*           I18nNeg_MC printed them), reply of the real NegotiateLanguage    *)
(* Every record is judged by the contract of I18nTable; failing records are   *)
(* accumulated with the abstract identity of the failure (clause / kind /     *)
(* catalog key / language).  Agreement of the real NegotiateLanguage with the *)
(* model NegotiateF is counted and reported, never a verdict.                 *)
EXTENDS I18nTable, Json

VARIABLES i, bad, agree, judged

Log == ndJsonDeserialize("io.ndjson")
N   == Len(Log)

SeqSet(s)  == {s[x] : x \in 1..Len(s)}
CatRec     == Log[1]
Cat        == Catalog(CatRec.cat)
Shipped    == SeqSet(CatRec.shipped)
Supported  == SeqSet(CatRec.supported)

CatFailures ==
     UNION {EntryFailures(Cat, fk) : fk \in Cat.keys}
  \cup {"catalog-language-not-shipped/" \o l : l \in Supported \ Shipped}
  \cup (IF "en" \in Shipped THEN {} ELSE {"english-not-shipped"})

NegFailures(r) == IF r.reply \in Shipped \cup {""} THEN {} ELSE {"negotiate-unshipped/" \o r.reply}

Failures(r) ==
  CASE r.t = "cat"  -> IF DOMAIN r.cat = {} THEN {} ELSE CatFailures
    [] r.t = "site" -> TableFailures(Cat, Shipped, r) \cup LookupFailures(Cat, Shipped, r)
    [] r.t = "neg"  -> NegFailures(r)
    [] OTHER        -> {"unknown-record"}

SelfTestBase == 10000000       \* records with larger ids are the driver's deliberately corrupted / hand-made records
Judged(r) == /\ r.id < SelfTestBase
             /\ (r.t = "site" /\ WF(r)) \/ r.t = "neg" \/ (r.t = "cat" /\ DOMAIN r.cat # {})

TInit == i = 1 /\ bad = {} /\ agree = 0 /\ judged = 0
TNext == /\ i <= N
         /\ LET r == Log[i] IN
            /\ bad' = bad \cup {[idx |-> i, id |-> r.id, key |-> k] : k \in Failures(r)}
            /\ agree' = IF r.t = "neg" /\ NegotiateF(r.items, Supported) = r.reply THEN agree + 1 ELSE agree
            /\ judged' = IF Judged(r) THEN judged + 1 ELSE judged
         /\ i' = i + 1
TSpec == TInit /\ [][TNext]_<<i, bad, agree, judged>>

Report == (i = N + 1) => PrintT(ToJson([n |-> N, bad |-> bad, negotiate_model_agrees |-> agree, judged |-> judged]))
=============================================================================

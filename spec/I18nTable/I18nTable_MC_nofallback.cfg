SPECIFICATION Spec
CONSTANTS
  Impl = "nofallback"
  NTexts = 4
INVARIANT Holds
CHECK_DEADLOCK FALSE

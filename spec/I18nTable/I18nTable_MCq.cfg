SPECIFICATION Spec
CONSTANTS
  Impl = "asis"
  NTexts = 4
INVARIANT Holds
INVARIANT FunctionAgrees
CHECK_DEADLOCK FALSE

SPECIFICATION Spec
CONSTANTS
  NTexts = 4
INVARIANT Holds
INVARIANT FunctionAgrees
INVARIANT Bites
POSTCONDITION ControlBites
CHECK_DEADLOCK FALSE

SPECIFICATION Spec
CONSTANTS
  Impl = "nocheck"
  Full3 = FALSE
INVARIANT OnlyShipped
CHECK_DEADLOCK FALSE

--------------------------- MODULE I18nTable_MC ---------------------------
(* The key lookup of internal/i18n/strings.go (translate + ofTypeLang) as a   *)
(* machine, one action per branch of the code, explored exhaustively over     *)
(* every small catalog: two entries ("k", "label.k") x two languages x the    *)
(* texts below (or no entry).                                                 *)
(*                                                                           *)
(* Holds: whenever the catalog satisfies the contract that I18nTable_Trace    *)
(* evaluates on the real catalog (TableFailures = {}), what a user of a       *)
(* shipped language is shown is a found, non-empty text naming the same       *)
(* placeholders as the English text.  FunctionAgrees: the functions used by   *)
(* the contract (Found/Text/Shown) compute what the machine computes.         *)
(* impl = "nofallback" (a lookup without the English fallback) is the         *)
(* negative control, explored in the same run: TLC must find a state of it    *)
(* that violates the body of Holds (recorded with TLCSet, demanded by the     *)
(* POSTCONDITION ControlBites), otherwise Holds is vacuous.  Run with one     *)
(* worker (TLCSet registers are per worker).                                  *)
EXTENDS I18nTable

CONSTANTS NTexts         \* how many of AllTexts (4 quick, 6 thorough)

VARIABLES impl, cat, kind, lang, pc, txt, found, shown
vars == <<impl, cat, kind, lang, pc, txt, found, shown>>
Impls == {"asis", "nofallback"}

Shipped == {"en", "fr"}
Kinds   == {"T", "L"}
KC      == <<107>>                                         \* "k"
AllTexts == << <<>>,                                       \* (empty)
              <<123, 123, 120, 124, 102, 125, 125, 97>>,  \* {{x|f}}a
              <<123, 123, 121, 125, 125>>,                \* {{y}}
              <<108, 97, 98, 101, 108, 46, 97>>,          \* label.a
              <<123, 123, 120, 125, 125>>,                \* {{x}}
              <<97>> >>                                   \* a
Texts   == {AllTexts[n] : n \in 1..NTexts}
Entry   == UNION {[ls -> Texts] : ls \in SUBSET Shipped}   \* language -> text, any subset of the languages
Cats    == UNION {[ks -> Entry] : ks \in SUBSET {"k", "label.k"}}

C    == Catalog([k \in DOMAIN cat |-> [l \in DOMAIN cat[k] |-> [c |-> cat[k][l]]]])
Site == [kind |-> kind, key |-> "k", kc |-> KC, live |-> TRUE]
FK   == FullKey(kind, "k", KC)
FKC  == IF kind = "L" THEN LabelDot \o KC ELSE KC

Init == /\ TLCSet(7, FALSE)
        /\ impl \in Impls /\ cat \in Cats /\ kind \in Kinds /\ lang \in Shipped
        /\ pc = "lang" /\ txt = <<>> /\ found = FALSE /\ shown = <<>>

TryLang == /\ pc = "lang"                                  \* text, ok := messages[key][lang]
           /\ IF Has(C, FK, lang)
              THEN txt' = cat[FK][lang] /\ found' = TRUE /\ pc' = "render"
              ELSE UNCHANGED <<txt, found>> /\ pc' = IF impl = "nofallback" THEN "key" ELSE "en"
           /\ UNCHANGED <<impl, cat, kind, lang, shown>>

TryEn   == /\ pc = "en"                                    \* text, ok = messages[key]["en"]
           /\ IF Has(C, FK, "en")
              THEN txt' = cat[FK]["en"] /\ found' = TRUE /\ pc' = "render"
              ELSE UNCHANGED <<txt, found>> /\ pc' = "key"
           /\ UNCHANGED <<impl, cat, kind, lang, shown>>

UseKey  == /\ pc = "key"                                   \* text = key
           /\ txt' = FKC /\ pc' = "render"
           /\ UNCHANGED <<impl, cat, kind, lang, found, shown>>

Render  == /\ pc = "render"                                \* strings.TrimPrefix(translated, prefix + ".")
           /\ shown' = Shown(kind, txt) /\ pc' = "done"
           /\ UNCHANGED <<impl, cat, kind, lang, txt, found>>

Next == TryLang \/ TryEn \/ UseKey \/ Render
Spec == Init /\ [][Next]_vars

HoldsBody == (pc = "done" /\ TableFailures(C, Shipped, Site) = {}) =>
            /\ found
            /\ txt # <<>>
            /\ Placeholders(txt) = Placeholders(cat[FK]["en"])
Holds == impl = "asis" => HoldsBody

Bites        == (impl = "nofallback" /\ ~HoldsBody) => TLCSet(7, TRUE)       \* listed as an invariant; always TRUE
ControlBites == TLCGet(7) = TRUE                                            \* POSTCONDITION

FunctionAgrees == (impl = "asis" /\ pc = "done") =>
            /\ found = Found(C, FK, lang)
            /\ found => (txt = Text(C, FK, lang) /\ shown = Shown(kind, Text(C, FK, lang)))
=============================================================================

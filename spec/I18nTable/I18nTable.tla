----------------------------- MODULE I18nTable -----------------------------
(* C38 - every user-visible message has localized text.                      *)
(*                                                                           *)
(* Definitions shared by the model-checking modules (I18nTable_MC: the key   *)
(* lookup with its documented English fallback; I18nNeg_MC: Accept-Language   *)
(* negotiation) and by the contract that judges the real code's logged I/O    *)
(* (I18nTable_Trace).                                                         *)
(*                                                                           *)
(* Text is a sequence of Unicode code points (TLC cannot look inside a        *)
(* string); catalog keys and language codes are strings.  A catalog is a      *)
(* function  full key -> (language -> entry), the shape of the map `messages` *)
(* that tools/lang generates into internal/i18n/messages.go; an entry is      *)
(* [c |-> the text as code points] (the logged catalog also carries s, the    *)
(* same text as a string, so that whole texts can be compared cheaply).  The  *)
(* operators below take the catalog as C = [keys |-> DOMAIN cat, at |-> cat]  *)
(* (see Catalog) so that TLC does not rebuild the domain of a 2 000-key       *)
(* record on every membership test.                                           *)
EXTENDS Integers, Sequences, FiniteSets, TLC

LB == 123   RB == 125   BAR == 124   DOT == 46   SP == 32   USC == 95

LabelDot == <<108, 97, 98, 101, 108, 46>>      \* "label."
MsgDot   == <<109, 115, 103, 46>>              \* "msg."
ErrorDot == <<101, 114, 114, 111, 114, 46>>    \* "error."
LogDot   == <<108, 111, 103, 46>>              \* "log."

Min(S) == CHOOSE x \in S : \A y \in S : x <= y
HasPrefix(s, p)  == Len(s) >= Len(p) /\ \A k \in 1..Len(p) : s[k] = p[k]
TrimPrefix(s, p) == IF HasPrefix(s, p) THEN SubSeq(s, Len(p) + 1, Len(s)) ELSE s
Contains(s, c)   == \E k \in 1..Len(s) : s[k] = c

-----------------------------------------------------------------------------
(* Substitution placeholders of a text, as github.com/tucats/subs finds them  *)
(* (splitOutFormats + handleFormat): the text is split at the leftmost,       *)
(* non-overlapping "{{"; a piece that follows a "{{" and contains "}}" is an  *)
(* expression up to its first "}}"; the placeholder's name is the expression  *)
(* up to its first "|" (what follows are format operators, which a            *)
(* translation may legitimately word differently: card "row","rows").         *)
Opens(s)  == {k \in 1..(Len(s) - 1) : s[k] = LB /\ s[k + 1] = LB}
Closes(s) == {k \in 1..(Len(s) - 1) : s[k] = RB /\ s[k + 1] = RB}

RECURSIVE Starts(_, _)
Starts(O, p) == LET c == {k \in O : k >= p}
                IN  IF c = {} THEN {} ELSE LET m == Min(c) IN {m} \cup Starts(O, m + 2)

Placeholders(s) ==
  LET O == Opens(s) IN
  IF O = {} THEN {} ELSE
  LET S == Starts(O, 1)
      C == Closes(s)
      SegEnd(m) == LET later == {x \in S : x > m} IN IF later = {} THEN Len(s) ELSE Min(later) - 1
      Close(m)  == {c \in C : c >= m + 2 /\ c + 1 <= SegEnd(m)}
      Name(m)   == LET e    == Min(Close(m))
                       expr == SubSeq(s, m + 2, e - 1)
                       bars == {k \in 1..Len(expr) : expr[k] = BAR}
                   IN  IF bars = {} THEN expr ELSE SubSeq(expr, 1, Min(bars) - 1)
  IN  {Name(m) : m \in {x \in S : Close(x) # {}}}

-----------------------------------------------------------------------------
(* Which catalog entry a key reaches, per kind of sink (the documented        *)
(* prefixes of internal/i18n/strings.go, errors/format.go, ui/format.go).     *)
(*   T   i18n.T / i18n.Text / ui.Say          the key as written              *)
(*   L M E   i18n.L/M/E (+Lang)               "label." "msg." "error." + key  *)
(*   Err errors.Message(key) shown by Error()/Localize()  "error." + key      *)
(*   Log ui.Log / ui.WriteLog   "log." + key when the string is key-shaped    *)
(*   Opt cli.Option.Description  the key, else "opt." + key  (cli/help.go)    *)
LogKeyShaped(kc) == Contains(kc, DOT) /\ ~Contains(kc, SP)
SayKeyShaped(kc) == (\E k \in 2..Len(kc) : kc[k] = DOT) /\ ~Contains(kc, SP)

FullKey(kind, key, kc) ==
  CASE kind = "L"   -> "label." \o key
    [] kind = "M"   -> "msg." \o key
    [] kind = "E"   -> "error." \o key
    [] kind = "Err" -> IF HasPrefix(kc, ErrorDot) THEN key ELSE "error." \o key
    [] kind = "Log" -> IF LogKeyShaped(kc) /\ ~HasPrefix(kc, LogDot) THEN "log." \o key ELSE key
    [] OTHER        -> key

(* What the sink shows of the catalog text it found. *)
Shown(kind, txt) ==
  CASE kind = "L"            -> TrimPrefix(txt, LabelDot)
    [] kind = "M"            -> TrimPrefix(txt, MsgDot)
    [] kind \in {"E", "Err"} -> TrimPrefix(txt, ErrorDot)
    [] OTHER                 -> txt

(* The lookup with the documented English fallback (i18n.translate). *)
Catalog(cat)       == [keys |-> DOMAIN cat, at |-> cat]
Has(C, fk, lang)   == fk \in C.keys /\ lang \in DOMAIN C.at[fk]
Found(C, fk, lang) == Has(C, fk, lang) \/ Has(C, fk, "en")
EntryOf(C, fk, lang) == IF Has(C, fk, lang) THEN C.at[fk][lang] ELSE C.at[fk]["en"]     \* when Found
Text(C, fk, lang)  == EntryOf(C, fk, lang).c

-----------------------------------------------------------------------------
(* The contract on one catalog entry: every text non-empty; every translation *)
(* names the same placeholders as the English text.                           *)
EntryFailures(C, fk) ==
  LET e == C.at[fk] IN
     {"empty-text/" \o fk \o "/" \o l : l \in {x \in DOMAIN e : e[x].c = <<>>}}
  \cup (IF "en" \notin DOMAIN e THEN {} ELSE
        LET pe == Placeholders(e["en"].c)
        IN  {"placeholders/" \o fk \o "/" \o l :
               l \in {x \in DOMAIN e \ {"en"} : e[x].c # e["en"].c /\ Placeholders(e[x].c) # pe}})

(* The domain: a constant string is a message key of this sink when ...       *)
(*   it can be emitted at all (live: see the extractor), has no blank in it   *)
(*   (free text is passed through these functions on purpose), and            *)
(*   Err: is not one of the "_" flow signals (documented: never localized)    *)
(*   Log/Say: satisfies the test the sink itself applies before looking up.   *)
WF(r) == /\ r.live
         /\ Len(r.kc) > 0
         /\ ~Contains(r.kc, SP)
         /\ (r.kind = "Err" => r.kc[1] # USC)
         /\ (r.kind = "Log" => LogKeyShaped(r.kc))
         /\ (r.kind = "Say" => SayKeyShaped(r.kc))

(* The entry a site reaches in language l. *)
SiteKey(C, r, l) ==
  LET fk == FullKey(r.kind, r.key, r.kc)
  IN  IF r.kind = "Opt" /\ ~Found(C, fk, l) THEN "opt." \o r.key ELSE fk

(* The contract on one emitted key (clauses on the table) ...                 *)
TableFailures(C, shipped, r) ==
  IF ~WF(r) THEN {} ELSE
  LET fk0 == FullKey(r.kind, r.key, r.kc)
      ks  == {SiteKey(C, r, l) : l \in shipped}
      in  == ks \cap C.keys
  IN  IF in = {} THEN {"no-text/" \o r.kind \o "/" \o fk0}
      ELSE UNION {(IF Has(C, k, "en") THEN {} ELSE {"no-english-text/" \o k}) \cup EntryFailures(C, k) : k \in in}

(* ... and on what the real sink returned for it (r.out: language -> string):  *)
(* the direct text of that language, else the English one, as the sink shows  *)
(* it.  ShowsEntry(kind, e, out) says  out = Shown(kind, e.c)  using the      *)
(* string form of the text: out is the text itself, or the text without the   *)
(* prefix the sink strips (Err strips twice: ELang, then errorText).          *)
PrefixOf(kind) == CASE kind = "L" -> [c |-> LabelDot, s |-> "label."]
                    [] kind = "M" -> [c |-> MsgDot, s |-> "msg."]
                    [] kind \in {"E", "Err"} -> [c |-> ErrorDot, s |-> "error."]
                    [] OTHER -> [c |-> <<>>, s |-> ""]
ShowsEntry(kind, e, out) ==
  LET p == PrefixOf(kind) IN
  IF p.c = <<>> \/ ~HasPrefix(e.c, p.c) THEN out = e.s
  ELSE IF kind = "Err" /\ HasPrefix(e.c, p.c \o p.c) THEN p.s \o p.s \o out = e.s
  ELSE p.s \o out = e.s

LookupFailures(C, shipped, r) ==
  IF ~WF(r) \/ r.kind = "Opt" THEN {} ELSE
  LET fk == FullKey(r.kind, r.key, r.kc)
  IN  IF r.kind = "Err" /\ fk = "error.user.defined" THEN {}      \* shown through its context only (errors/format.go)
      ELSE {"lookup/" \o r.kind \o "/" \o fk \o "/" \o l :
              l \in {x \in shipped : Found(C, fk, x) /\ ~ShowsEntry(r.kind, EntryOf(C, fk, x), r.out[x])}}

-----------------------------------------------------------------------------
(* Accept-Language negotiation (internal/i18n/negotiate.go), as a function.   *)
(* A header is a sequence of items [tag, q]: tag a sequence of one-character  *)
(* strings, q the text after ";q=" ("" = no parameter).                       *)
Up2Low == [A |-> "a", B |-> "b", C |-> "c", D |-> "d", E |-> "e", F |-> "f", G |-> "g", H |-> "h", I |-> "i",
           J |-> "j", K |-> "k", L |-> "l", M |-> "m", N |-> "n", O |-> "o", P |-> "p", Q |-> "q", R |-> "r",
           S |-> "s", T |-> "t", U |-> "u", V |-> "v", W |-> "w", X |-> "x", Y |-> "y", Z |-> "z"]
LowerCh(c) == IF c \in DOMAIN Up2Low THEN Up2Low[c] ELSE c

RECURSIVE Join(_)
Join(cs) == IF cs = <<>> THEN "" ELSE Head(cs) \o Join(Tail(cs))

(* quality values in thousandths, as strconv.ParseFloat reads the spellings   *)
(* used here; a value that does not parse keeps the default 1.0               *)
QVal(q) == CASE q = ""    -> 1000
             [] q = "1"   -> 1000
             [] q = "0.9" -> 900
             [] q = "0.5" -> 500
             [] q = "0"   -> 0
             [] OTHER     -> 1000

Primary(tag) == LET d == {k \in 1..Len(tag) : tag[k] = "-"}
                    p == IF d = {} THEN tag ELSE SubSeq(tag, 1, Min(d) - 1)
                IN  [k \in 1..Len(p) |-> LowerCh(p[k])]

IsCandidate(it) == it.tag # <<>> /\ it.tag # <<"*">> /\ Primary(it.tag) # <<>>
Candidate(it)   == [lang |-> Join(Primary(it.tag)), q |-> QVal(it.q)]

(* sort.SliceStable by decreasing quality: x goes after everything not worse *)
InsertStable(sorted, x) ==
  LET k == Cardinality({j \in 1..Len(sorted) : sorted[j].q >= x.q})
  IN  SubSeq(sorted, 1, k) \o <<x>> \o SubSeq(sorted, k + 1, Len(sorted))

RECURSIVE SortStable(_)
SortStable(c) == IF c = <<>> THEN <<>> ELSE InsertStable(SortStable(SubSeq(c, 1, Len(c) - 1)), c[Len(c)])

Cands(items) == LET ok == SelectSeq(items, IsCandidate) IN [k \in 1..Len(ok) |-> Candidate(ok[k])]

NegotiateF(items, supported) ==
  LET s   == SortStable(Cands(items))
      hit == {k \in 1..Len(s) : s[k].lang \in supported}
  IN  IF hit = {} THEN "" ELSE s[Min(hit)].lang
=============================================================================

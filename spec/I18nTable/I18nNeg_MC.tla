----------------------------- MODULE I18nNeg_MC -----------------------------
(* i18n.NegotiateLanguage (internal/i18n/negotiate.go) as a machine: one      *)
(* action per iteration of the parsing loop, the stable sort, one action per  *)
(* iteration of the selection loop.  Explored exhaustively over every header  *)
(* of at most two items over Items, and of exactly three items over           *)
(* SmallItems (thorough: three over Items).  The same run prints every        *)
(* header (Emit); the real function is then executed on all of them and       *)
(* judged by I18nTable_Trace.                                                 *)
(*                                                                           *)
(* OnlyShipped is the property (the reply is a shipped language or "").       *)
(* FunctionAgrees ties the machine to NegotiateF, which I18nTable_Trace uses  *)
(* to report how far the real function agrees with this model.                *)
(* Impl = "nocheck" (first candidate wins, supported or not) and "fulltag"    *)
(* (support tested on the primary subtag but the whole tag returned) are the  *)
(* negative controls.                                                         *)
EXTENDS I18nTable, Json

CONSTANTS Impl,         \* "asis" | "nocheck" | "fulltag"
          Full3         \* TRUE: three-item headers over all Items

VARIABLES hdr, pc, n, cands, result
vars == <<hdr, pc, n, cands, result>>

Shipped   == {"en", "es", "fr", "ja"}
Supported == Shipped

Tags == { <<"e", "n">>, <<"f", "r">>, <<"e", "s">>, <<"j", "a">>, <<"d", "e">>,
          <<"f", "r", "-", "C", "A">>, <<"E", "N", "-", "u", "s">>, <<"d", "e", "-", "D", "E">>,
          <<"*">>, <<"-", "x">>, <<"z", "z", "z">>, <<>> }
Qs   == {"", "1", "0.9", "0.5", "0", "x"}
Items == [tag : Tags, q : Qs]
SmallItems == [tag : {<<"e", "n">>, <<"f", "r", "-", "C", "A">>, <<"d", "e">>, <<"*">>}, q : {"", "0.5", "0"}]

Headers == {<<>>} \cup {<<a>> : a \in Items} \cup {<<a, b>> : a, b \in Items}
           \cup {<<a, b, c>> : a, b, c \in (IF Full3 THEN Items ELSE SmallItems)}

Init == hdr \in Headers /\ pc = "parse" /\ n = 1 /\ cands = <<>> /\ result = ""

ParseItem == /\ pc = "parse"                     \* for _, rawTag := range strings.Split(header, ",")
             /\ IF n > Len(hdr)
                THEN pc' = "sort" /\ UNCHANGED <<n, cands>>
                ELSE /\ n' = n + 1 /\ pc' = pc
                     /\ cands' = IF IsCandidate(hdr[n])
                                 THEN Append(cands, [lang |-> Join(Primary(hdr[n].tag)), q |-> QVal(hdr[n].q),
                                                     full |-> Join([k \in 1..Len(hdr[n].tag) |-> LowerCh(hdr[n].tag[k])])])
                                 ELSE cands
             /\ UNCHANGED <<hdr, result>>

Sort == /\ pc = "sort"                           \* sort.SliceStable(candidates, quality descending)
        /\ cands' = SortStable(cands) /\ pc' = "select" /\ n' = 1
        /\ UNCHANGED <<hdr, result>>

Select == /\ pc = "select"                       \* for _, c := range candidates { if isSupportedLanguage(c.lang) { return c.lang } }
          /\ IF n > Len(cands)
             THEN pc' = "done" /\ UNCHANGED <<n, result>>
             ELSE CASE Impl = "nocheck" -> result' = cands[n].lang /\ pc' = "done" /\ UNCHANGED n
                    [] Impl = "fulltag" /\ cands[n].lang \in Supported -> result' = cands[n].full /\ pc' = "done" /\ UNCHANGED n
                    [] Impl = "asis" /\ cands[n].lang \in Supported -> result' = cands[n].lang /\ pc' = "done" /\ UNCHANGED n
                    [] OTHER -> n' = n + 1 /\ UNCHANGED <<pc, result>>
          /\ UNCHANGED <<hdr, cands>>

Next == ParseItem \/ Sort \/ Select
Spec == Init /\ [][Next]_vars

OnlyShipped    == pc = "done" => result \in Shipped \cup {""}
FunctionAgrees == pc = "done" => result = NegotiateF(hdr, Supported)
(* model-level reading of "best match": no supported candidate is strictly preferred to the reply *)
BestQuality    == pc = "done" =>
                    LET c == Cands(hdr) IN
                    IF result = "" THEN \A k \in 1..Len(c) : c[k].lang \notin Supported
                    ELSE \E k \in 1..Len(c) : /\ c[k].lang = result
                                              /\ \A j \in 1..Len(c) : c[j].lang \in Supported => c[j].q <= c[k].q

Emit == (pc = "parse" /\ n = 1) => PrintT(ToJson([items |-> hdr]))
=============================================================================

----------------------------- MODULE I18nNeg_MC -----------------------------
(* i18n.NegotiateLanguage (internal/i18n/negotiate.go) as a machine: one      *)
(* action per iteration of the parsing loop, the stable sort, one action per  *)
(* iteration of the selection loop.  Explored exhaustively over every header  *)
(* of at most two items over Items, and of exactly three items over           *)
(* SmallItems (thorough: over MidItems).  The same run prints every           *)
(* header (Emit); the real function is then executed on all of them and       *)
(* judged by I18nTable_Trace.                                                 *)
(*                                                                           *)
(* OnlyShipped is the property (the reply is a shipped language or "").       *)
(* FunctionAgrees ties the machine to NegotiateF, which I18nTable_Trace uses  *)
(* to report how far the real function agrees with this model.                *)
(* impl = "nocheck" (first candidate wins, supported or not) and "fulltag"    *)
(* (support tested on the primary subtag but the whole tag returned) are the  *)
(* negative controls, explored in the same run: TLC must find a state of each *)
(* that violates the body of OnlyShipped (recorded with TLCSet, demanded by   *)
(* the POSTCONDITION ControlsBite).  Run with one worker.                     *)
EXTENDS I18nTable, Json

CONSTANTS Full3         \* TRUE: three-item headers over MidItems (32 items), FALSE: over SmallItems (12 items)

VARIABLES impl, hdr, pc, n, cands, result
vars == <<impl, hdr, pc, n, cands, result>>
Impls == {"asis", "nocheck", "fulltag"}

Shipped   == {"en", "es", "fr", "ja"}
Supported == Shipped

Tags == { <<"e", "n">>, <<"f", "r">>, <<"e", "s">>, <<"j", "a">>, <<"d", "e">>,
          <<"f", "r", "-", "C", "A">>, <<"E", "N", "-", "u", "s">>, <<"d", "e", "-", "D", "E">>,
          <<"*">>, <<"-", "x">>, <<"z", "z", "z">>, <<>> }
Qs   == {"", "1", "0.9", "0.5", "0", "x"}
Items == [tag : Tags, q : Qs]
SmallItems == [tag : {<<"e", "n">>, <<"f", "r", "-", "C", "A">>, <<"d", "e">>, <<"*">>}, q : {"", "0.5", "0"}]

MidItems   == [tag : {<<"e", "n">>, <<"f", "r">>, <<"j", "a">>, <<"d", "e">>, <<"f", "r", "-", "C", "A">>,
                      <<"E", "N", "-", "u", "s">>, <<"*">>, <<"z", "z", "z">>}, q : {"", "0.9", "0", "x"}]

Headers == {<<>>} \cup {<<a>> : a \in Items} \cup {<<a, b>> : a, b \in Items}
           \cup {<<a, b, c>> : a, b, c \in (IF Full3 THEN MidItems ELSE SmallItems)}

Init == /\ TLCSet(8, FALSE) /\ TLCSet(9, FALSE)
        /\ impl \in Impls /\ hdr \in Headers
        /\ (impl = "asis" \/ Len(hdr) <= 1)          \* the broken variants only need the shortest headers to be caught
        /\ pc = "parse" /\ n = 1 /\ cands = <<>> /\ result = ""

ParseItem == /\ pc = "parse"                     \* for _, rawTag := range strings.Split(header, ",")
             /\ IF n > Len(hdr)
                THEN pc' = "sort" /\ UNCHANGED <<n, cands>>
                ELSE /\ n' = n + 1 /\ pc' = pc
                     /\ cands' = IF IsCandidate(hdr[n])
                                 THEN Append(cands, [lang |-> Join(Primary(hdr[n].tag)), q |-> QVal(hdr[n].q),
                                                     full |-> Join([k \in 1..Len(hdr[n].tag) |-> LowerCh(hdr[n].tag[k])])])
                                 ELSE cands
             /\ UNCHANGED <<impl, hdr, result>>

Sort == /\ pc = "sort"                           \* sort.SliceStable(candidates, quality descending)
        /\ cands' = SortStable(cands) /\ pc' = "select" /\ n' = 1
        /\ UNCHANGED <<impl, hdr, result>>

Select == /\ pc = "select"                       \* for _, c := range candidates { if isSupportedLanguage(c.lang) { return c.lang } }
          /\ IF n > Len(cands)
             THEN pc' = "done" /\ UNCHANGED <<n, result>>
             ELSE CASE impl = "nocheck" -> result' = cands[n].lang /\ pc' = "done" /\ UNCHANGED n
                    [] impl = "fulltag" /\ cands[n].lang \in Supported -> result' = cands[n].full /\ pc' = "done" /\ UNCHANGED n
                    [] impl = "asis" /\ cands[n].lang \in Supported -> result' = cands[n].lang /\ pc' = "done" /\ UNCHANGED n
                    [] OTHER -> n' = n + 1 /\ UNCHANGED <<pc, result>>
          /\ UNCHANGED <<impl, hdr, cands>>

Next == ParseItem \/ Sort \/ Select
Spec == Init /\ [][Next]_vars

OnlyShippedBody == pc = "done" => result \in Shipped \cup {""}
OnlyShipped    == impl = "asis" => OnlyShippedBody
FunctionAgrees == (impl = "asis" /\ pc = "done") => result = NegotiateF(hdr, Supported)
(* model-level reading of "best match": no supported candidate is strictly preferred to the reply *)
BestQuality    == (impl = "asis" /\ pc = "done") =>
                    LET c == Cands(hdr) IN
                    IF result = "" THEN \A k \in 1..Len(c) : c[k].lang \notin Supported
                    ELSE \E k \in 1..Len(c) : /\ c[k].lang = result
                                              /\ \A j \in 1..Len(c) : c[j].lang \in Supported => c[j].q <= c[k].q

Bites        == /\ (impl = "nocheck" /\ ~OnlyShippedBody) => TLCSet(8, TRUE)     \* listed as an invariant; always TRUE
                /\ (impl = "fulltag" /\ ~OnlyShippedBody) => TLCSet(9, TRUE)
ControlsBite == TLCGet(8) = TRUE /\ TLCGet(9) = TRUE                            \* POSTCONDITION

Emit == (impl = "asis" /\ pc = "parse" /\ n = 1) => PrintT(ToJson([items |-> hdr]))
=============================================================================

SPECIFICATION Spec
CONSTANTS
  Impl = "fulltag"
  Full3 = FALSE
INVARIANT OnlyShipped
CHECK_DEADLOCK FALSE

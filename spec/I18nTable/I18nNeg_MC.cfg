SPECIFICATION Spec
CONSTANTS
  Impl = "asis"
  Full3 = TRUE
INVARIANT OnlyShipped
INVARIANT FunctionAgrees
INVARIANT BestQuality
INVARIANT Emit
CHECK_DEADLOCK FALSE

SPECIFICATION Spec
CONSTANTS
  Full3 = TRUE
INVARIANT OnlyShipped
INVARIANT FunctionAgrees
INVARIANT BestQuality
INVARIANT Bites
INVARIANT Emit
POSTCONDITION ControlsBite
CHECK_DEADLOCK FALSE

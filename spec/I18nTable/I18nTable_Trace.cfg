SPECIFICATION TSpec
INVARIANT Report
CHECK_DEADLOCK FALSE

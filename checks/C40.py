"""C40 - no request can crash a handler.
spec/HandlerTotality (HandlerRequests, HandlerTotality, _Gen, _Trace).  Stages:
  1. MC: the model of Router.ServeHTTP (one action per stage, deferred calls in LIFO order, two requests in a row over the shared
     mutex / counters) satisfies Contract, ObsSound, LocksFree when no stage panics ("total"), keeps ObsSound and LocksFree when
     every stage may panic ("partial": the two things the binding observes detect exactly the panics and no lock is stranded);
     negative controls: "partial" must violate Contract, and must violate StatusDetects (a recovered panic does not always show
     as a 500 - which is why the binding reads the log).
  2. Gen: TLC enumerates the request domain of the quantifier (HandlerRequests!Ball(2): every abstract request within two
     deviations of the route's well-formed request by the administrator, 22 417 cases).
  3. F binding: REAL `ego server` subprocesses on scratch profiles (users, SQLite DSNs, tables, OAuth2 AS enabled).  The route
     table is the server's own ROUTE dump joined with the attributes read from the same table built by setupServerRouter in an
     in-package harness (declared query parameters, validations, media types).  Every selected case is instantiated for the
     route (fixed concretisation tables below), sent over a raw socket, one request at a time per server, and observed:
     response read completely? status; new server.panic.recovered entries in the server log (+ the stack from the INTERNAL
     logger -> crash site); a panic report on the server's output; process still alive.  HandlerTotality_Trace judges every
     (case, observation) record with HandlerRequests!Holds; a failing record's key is  route :: crash site.
  4. self-tests: (canary) the real router with deliberately crashing handlers next to normal ones is served by the harness and
     driven through the same observation pipeline - the contract must reject exactly the crashing requests (also with recovery
     switched off); (perturbation) accepted records with one observation field flipped must all be rejected.
"""
import base64, copy, glob, hashlib, http.client, json, os, random, re, shutil, socket, subprocess, threading, time, urllib.parse, uuid
from concurrent.futures import ThreadPoolExecutor
import vf, egosrv

PROP = "C40"
SPEC = "HandlerTotality"
HARNESS = [("c40/routes_test.go", "internal/commands/zz_verif_c40_test.go")]
ADMIN_PW, POWER_PW, BOB_PW, VICTIM_PW = "adm1n-Pw", "p0wer-Pw", "pw-bob-1", "pw-victim"
POWER_PERMS = ["ego.logon", "ego.server.admin", "ego.code", "ego.sql", "ego.table.read", "ego.table.write", "ego.table.update",
               "ego.table.delete", "ego.table.admin", "ego.dsn.admin", "ego.dsn.read", "ego.dsn.write"]
HUGE = "A" * (1024 * 1024)
DIMS = ("method", "path", "query", "range", "accept", "auth", "ctype", "lang", "enc", "body")
BASE = {"method": "route", "path": "normal", "query": "absent", "range": "absent", "accept": "json", "auth": "admin",
        "ctype": "auto", "lang": "absent", "enc": "absent", "body": "base"}
ROUTE_DIMS = ("method", "path", "query", "body")          # dimensions whose meaning depends on the route
# routes whose well-formed request by the administrator stops the server: those cases run last, on a server of their own
STOPS = {"POST /services/admin/down/": "stops the server", "POST /services/cluster/shutdown": "stops the server (cluster token holders)"}
REQ_TIMEOUT = 120
SETUP_TIMEOUT = 900
SLOW = 25                    # a connection that ends without a response after this many seconds counts as a timeout
http.client._MAXLINE = 64 * 1024 * 1024          # a handler may echo a 1 MiB value into a response header (Location): still an answer
http.client._MAXHEADERS = 10000


def cached(name, key, build):
    """content-addressed cache of a build product (only an accelerator: a miss rebuilds)"""
    os.makedirs(vf.CACHE, exist_ok=True)
    p = os.path.join(vf.CACHE, "c40-%s-%s" % (name, key))
    if not os.path.exists(p):
        tmp = p + ".%d.tmp" % os.getpid()
        build(tmp)
        os.replace(tmp, p)
        ents = sorted((f for f in os.listdir(vf.CACHE) if f.startswith("c40-%s-" % name) and ".tmp" not in f),
                      key=lambda f: os.path.getmtime(os.path.join(vf.CACHE, f)))
        for f in ents[:-4]:
            try:
                os.remove(os.path.join(vf.CACHE, f))
            except OSError:
                pass
    return p


def tree_key(extra=()):
    paths = [os.path.join(vf.REPO, d) for d in ("internal", "lib", "tools", "main.go", "go.mod", "go.sum") if os.path.exists(os.path.join(vf.REPO, d))]
    paths += [os.path.join(vf.VERIF, "harness", "c40")] + list(extra)
    return vf._hash_tree(paths)


# ------------------------------------------------------------------ raw HTTP and the observation of one request
class Target:
    """something that serves HTTP on loopback and writes the ego server log: the real server subprocess, or the canary harness"""

    def __init__(self, port, logdir, outfile, alive):
        self.port, self.logdir, self.outfile, self.alive = port, logdir, outfile, alive
        self.off = {}
        self.carry = {}
        self.out_off = 0
        self.lock = threading.Lock()

    def tail(self):
        """new complete log entries since the last call (all server*.log files of the directory), and new output text"""
        ents = []
        try:
            names = sorted(f for f in os.listdir(self.logdir) if f.startswith("server") and f.endswith(".log"))
        except OSError:
            names = []
        for f in names:
            p = os.path.join(self.logdir, f)
            try:
                with open(p, "rb") as fh:
                    fh.seek(self.off.get(f, 0))
                    data = fh.read()
            except OSError:
                continue
            self.off[f] = self.off.get(f, 0) + len(data)
            data = self.carry.pop(f, b"") + data
            lines = data.split(b"\n")
            if lines and lines[-1] != b"":
                self.carry[f] = lines[-1]
            for l in lines[:-1]:
                if not l.strip():
                    continue
                try:
                    ents.append(json.loads(l.decode("utf8", "replace")))
                except ValueError:
                    ents.append({"msg": "unparsed", "raw": l.decode("utf8", "replace")})
        out = ""
        try:
            with open(self.outfile, "rb") as fh:
                fh.seek(self.out_off)
                b = fh.read()
                self.out_off += len(b)
                out = b.decode("utf8", "replace")
        except OSError:
            pass
        return ents, out

    def raw(self, method, target, headers, body, timeout=REQ_TIMEOUT):
        """one HTTP/1.1 request written byte for byte; returns (responded, status, headers, body, timed_out)"""
        head = ["%s %s HTTP/1.1" % (method, target), "Host: 127.0.0.1:%d" % self.port]
        bh = []
        for k, v in headers:
            bh.append(k.encode("latin1") + b": " + (v if isinstance(v, bytes) else v.encode("latin1", "replace")))
        if body is not None:
            bh.append(b"Content-Length: %d" % len(body))
        bh.append(b"Connection: close")
        msg = "\r\n".join(head).encode("latin1", "replace") + b"\r\n" + b"\r\n".join(bh) + b"\r\n\r\n" + (body or b"")
        s = None
        try:
            s = socket.create_connection(("127.0.0.1", self.port), timeout=timeout)
            s.settimeout(timeout)
            try:
                s.sendall(msg)
            except (BrokenPipeError, ConnectionResetError):
                pass                                    # the server may answer (413, 431) before it has read everything
            r = http.client.HTTPResponse(s, method=method.upper())
            r.begin()
            data = r.read()
            return True, r.status, dict(r.getheaders()), data, False
        except socket.timeout:
            return False, 0, {}, b"", True
        except (http.client.HTTPException, ConnectionError, OSError):
            return False, 0, {}, b"", False
        finally:
            if s is not None:
                try:
                    s.close()
                except OSError:
                    pass


_FRAME = re.compile(r"^(\S.*?)\(.*\)\s*$|^(\S.*)$")


def crash_site(stack):
    """the function that raised the panic: first frame after the runtime's panic frames (projection of the logged stack)"""
    lines = [l for l in stack.replace("\\n", "\n").replace("\\t", "\t").splitlines()]
    funcs = []
    for i, l in enumerate(lines):
        if l.startswith(("\t", " ")) or not l.strip() or l.startswith("goroutine "):
            continue
        name = l.strip()
        if name.endswith(")"):
            name = name[:name.rindex("(")] if "(" in name else name
        funcs.append(name)
    # frames: debug.Stack, reportRequestPanic, ServeHTTP.func1, panic, [runtime.*...], <site>, ...   (with recovery off the
    # re-panic of reportRequestPanic comes first: the site follows the LAST panic frame)
    last = max([i for i, f in enumerate(funcs) if f == "panic" or f.startswith("runtime.gopanic")], default=-1)
    for f in funcs[last + 1:] if last >= 0 else []:
        if "/" not in f or "." not in f.split("/")[0]:     # runtime and standard-library frames (reflect.*, encoding/json.*, ...): not the culprit
            continue
        return re.sub(r"^github\.com/tucats/ego/(internal/)?", "", f)
    for f in funcs[last + 1:] if last >= 0 else []:
        if not f.startswith(("runtime.", "runtime/")):
            return f
    return ""


class Observer:
    """sends one request at a time to a Target and projects what happened"""

    def __init__(self, tgt):
        self.t = tgt
        self.t.tail()
        self.loglines = 0

    def request(self, method, target, headers, body, timeout=REQ_TIMEOUT):
        t = self.t
        t0 = time.time()
        responded, status, rh, data, timed_out = t.raw(method, target, headers, body, timeout)
        if not responded and time.time() - t0 > SLOW:
            timed_out = True            # the server's own read/write timeouts (30 s / 120 s) closed the connection: a timeout, not an answer
        alive = t.alive()
        if not responded and alive and not timed_out:
            time.sleep(0.05)
            alive = t.alive()
        ents, out = t.tail()
        if (not responded or not alive) and not timed_out:       # give the process a moment to finish writing what it has to say
            time.sleep(0.3)
            e2, o2 = t.tail()
            ents += e2
            out += o2
            alive = t.alive()
        self.loglines += len(ents)
        rec = [e for e in ents if str(e.get("msg", "")).endswith("server.panic.recovered")
               or ("raw" in e and "server.panic.recovered" in e["raw"])]
        stacks = [e for e in ents if str(e.get("msg", "")).endswith("server.panic.stack")]
        escaped = bool(re.search(r"http: panic serving|^panic: |^fatal error: |\[signal SIG", out, re.M))
        site, value = "", ""
        if rec:
            value = str((rec[0].get("args") or {}).get("error", ""))[:300]
            if stacks:
                site = crash_site(str((stacks[0].get("args") or {}).get("stack", "")))
        elif escaped:
            m = re.search(r"(?:http: panic serving [^:]+:\d+: |^panic: )(.*)", out, re.M)
            value = (m.group(1) if m else "")[:300]
            site = crash_site(out[out.find("goroutine "):] if "goroutine " in out else out)
        elif not alive:
            value = out[-600:]
        obs = {"responded": bool(responded), "status": int(status), "recovered": bool(rec), "escaped": escaped,
               "alive": bool(alive), "site": site}
        return obs, {"timeout": timed_out, "value": value, "headers": rh, "body": data, "nlog": len(ents),
                     "sessions": sorted({e.get("session") for e in rec if e.get("session")}), "out": out[-1500:] if (escaped or not alive) else ""}


# ------------------------------------------------------------------ the real server with its fixture
class Fixture:
    def __init__(self, sd, ego, name, rng):
        self.sd, self.ego, self.rng = sd, ego, rng
        self.users = {"admin": (ADMIN_PW, ["ego.root", "ego.logon"]), "power": (POWER_PW, POWER_PERMS),
                      "bob": (BOB_PW, ["ego.logon"]), "victim": (VICTIM_PW, ["ego.logon"])}
        self.srv = egosrv.Server(sd, ego, users=self.users, name=name, env={"EGO_DEFAULT_LOGGING": "SERVER,ROUTE,INTERNAL"})
        self.dir = self.srv.dir
        self.oauth = os.path.join(self.dir, "oauthdir")
        os.makedirs(self.oauth, exist_ok=True)
        os.chmod(self.oauth, 0o700)
        self.issuer = "http://" + self.srv.base
        self.tok = {}
        self.restarts = 0
        self.setup_records = []
        self.setup_timeouts = []

    def plant(self):
        items = {"ego.server.oauth.as.enabled": "true", "ego.server.oauth.as.issuer": self.issuer,
                 "ego.server.oauth.as.key.file": os.path.join(self.oauth, "signing.pem"),
                 "ego.server.oauth.as.clients": os.path.join(self.oauth, "clients.json"),
                 "ego.server.allow.passkeys": "true", "ego.server.webauthn.rpid": "localhost", "ego.compiler.import": "true"}
        pd = os.path.join(self.srv.home, ".ego")
        os.makedirs(pd, exist_ok=True)
        os.chmod(pd, 0o700)
        prof = {"name": "default", "description": "Default configuration", "id": str(uuid.UUID(int=self.rng.getrandbits(128), version=4)),
                "version": 0, "salt": "%064x" % self.rng.getrandbits(256), "items": items}
        p = os.path.join(pd, "default.profile")
        json.dump(prof, open(p, "w"), indent=1)
        os.chmod(p, 0o600)
        cl = [{"client_id": "c40app", "client_secret": "c40-client-secret", "redirect_uris": [self.issuer + "/cb"],
               "grant_types": ["authorization_code", "client_credentials", "refresh_token"], "scopes": ["openid", "profile"],
               "description": "C40 fixture client"}]
        cf = os.path.join(self.oauth, "clients.json")
        json.dump(cl, open(cf, "w"), indent=1)
        os.chmod(cf, 0o600)

    def start(self):
        if not os.path.exists(os.path.join(self.srv.home, ".ego", "default.profile")):
            self.plant()
        self.srv.start(wait=600)
        self.target = Target(self.srv.port, self.dir, os.path.join(self.dir, "stdout.txt"), self.srv.alive)
        self.ob = Observer(self.target)
        self.logon()
        self.ensure(full=True)
        return self

    def restart(self):
        self.restarts += 1
        self.srv.stop()
        self.srv.port = egosrv.free_port()
        self.srv.base = "127.0.0.1:%d" % self.srv.port
        self.srv.start(wait=600)
        self.target.port = self.srv.port
        self.target.tail()
        self.logon()
        self.ensure(full=True)

    def stop(self):
        self.srv.stop()

    def call(self, method, path, body=None, user="admin", basic=None, headers=None, form=None):
        """a well-formed set-up request, sent and observed like every other request (its record is judged too)"""
        h = [("Accept", "application/json")]
        if basic:
            h.append(("Authorization", "Basic " + base64.b64encode(("%s:%s" % basic).encode()).decode()))
        elif user and self.tok.get(user):
            h.append(("Authorization", "Bearer " + self.tok[user]))
        b = None
        if body is not None:
            b = json.dumps(body).encode()
            h.append(("Content-Type", "application/json"))
        elif form is not None:
            b = urllib.parse.urlencode(form).encode()
            h.append(("Content-Type", "application/x-www-form-urlencoded"))
        for kv in headers or []:
            h.append(kv)
        # set-up requests get a very generous timeout: the first log-on of a user re-hashes the stored credential with bcrypt,
        # which takes minutes when several servers start on a saturated machine
        obs, info = self.ob.request(method, path, h, b, timeout=SETUP_TIMEOUT)
        if info["timeout"]:
            self.setup_timeouts.append("%s %s" % (method, path))
            if len(self.setup_timeouts) > 20:
                raise vf.NoVerdict("the ego server does not answer set-up requests in time (machine too loaded?): %s" % self.setup_timeouts[-5:])
            return None
        self.setup_records.append({"stage": "main", "route": "setup " + method + " " + path, "c": dict(BASE), "o": obs,
                                   "x": {"method": method, "target": path, "value": info["value"]}})
        return egosrv.Resp(obs["status"], info["headers"], info["body"].decode("utf8", "replace")) if obs["responded"] else None

    def root(self, method, path, body=None, headers=None):
        return self.call(method, path, body, headers=headers)

    def logon(self):
        for u, (pw, _p) in self.users.items():
            for _ in range(5):
                r = self.call("POST", "/services/admin/logon", basic=(u, pw))
                t = (r.json() or {}).get("token") if r is not None else None
                if t:
                    self.tok[u] = t
                    break
                time.sleep(0.5)
            else:
                if u != "victim":
                    raise vf.NoVerdict("cannot log on as %s\n%s" % (u, self.srv.log_text()[-1500:]))
        r = self.call("POST", "/services/admin/logon", {"username": "victim", "password": VICTIM_PW}, user=None)
        self.spare_token = (r.json() or {}).get("token", "") if r is not None else ""

    def sqlite(self, name):
        return os.path.join(self.dir, name + ".db")

    def ensure(self, full=False, route=None):
        """(re)create the objects the base requests name; idempotent, administrator requests only"""
        def ok(r, *codes):
            return r is not None and r.status in codes
        if full or route is None:
            for u in ("power", "bob", "victim"):
                r = self.root("GET", "/admin/users/" + u)
                if not ok(r, 200):
                    self.root("POST", "/admin/users/", {"name": u, "password": self.users[u][0], "permissions": self.users[u][1]})
            for d in ("d1", "d2", "dvictim"):
                r = self.root("GET", "/dsns/%s/" % d)
                if not ok(r, 200):
                    r = self.root("POST", "/dsns/", {"name": d, "provider": "sqlite", "database": self.sqlite(d), "restricted": False, "rowid": d == "d2"})
                    if not ok(r, 200, 201) and full:
                        raise vf.NoVerdict("setup: cannot create DSN %s: %r" % (d, r))
            for d, t in (("d1", "t1"), ("d1", "trows"), ("d1", "tvictim"), ("d2", "trows")):
                r = self.root("GET", "/dsns/%s/tables/%s" % (d, t))
                if not ok(r, 200):
                    r = self.root("PUT", "/dsns/%s/tables/%s" % (d, t), [{"name": "id", "type": "int"}, {"name": "name", "type": "string"}])
                    if not ok(r, 200, 201) and full and t == "t1":
                        raise vf.NoVerdict("setup: cannot create table %s: %r" % (t, r))
                    if t != "tvictim":
                        self.root("PUT", "/dsns/%s/tables/%s/rows" % (d, t), [{"id": 1, "name": "one"}, {"id": 2, "name": "two"}, {"id": 3, "name": "three"}])
                    self.root("GET", "/dsns/%s/tables/%s" % (d, t))      # the server caches a table's column metadata when it is first described
            self.root("POST", "/dsns/@permissions", {"dsn": "d1", "user": "bob", "actions": ["+ego.dsn.read"]})
            self.ensure_loggers()

    def ensure_loggers(self):
        """the observation needs the SERVER and INTERNAL loggers (a request to the logger / configuration routes may have switched them off)"""
        r = self.root("GET", "/admin/loggers/")
        j = (r.json() or {}) if r is not None else {}
        lg = j.get("loggers") or {}
        if not (lg.get("SERVER") and lg.get("INTERNAL") and lg.get("ROUTE")):
            self.root("POST", "/admin/loggers/", {"loggers": {"SERVER": True, "INTERNAL": True, "ROUTE": True}})


# ------------------------------------------------------------------ the route table of the real server
def read_route_dump(log_text):
    rts = []
    for l in log_text.splitlines():
        if '"log.route.dump"' in l or '"route.dump"' in l:
            try:
                a = json.loads(l)["args"]
                rts.append((a["method"], a["endpoint"]))
            except (ValueError, KeyError):
                pass
    return sorted(set(rts))


class Route:
    def __init__(self, method, endpoint, meta):
        self.method, self.endpoint = method, endpoint
        self.key = method + " " + endpoint
        self.meta = meta or {}
        self.params = sorted((self.meta.get("parameters") or {}).items())
        self.vars = re.findall(r"\{\{([^}]+)\}\}", endpoint)
        self.accept = self.meta.get("accept") or []
        self.content = self.meta.get("content") or []
        self.base_key = self.key
        self.stops = False

    def variant(self, name):
        v = Route(self.method, self.endpoint, self.meta)
        v.key = self.key + " #" + name
        v.base_key = self.key
        return v


# ---- the well-formed request of every route (fixture knowledge: which objects exist, what a valid body looks like).
# `vars`: values of the path variables; `body`: JSON value, or ("form", {...}); `pre`: administrator requests sent before
# every case of the route so that the case meets the state its well-formed request needs (they are observed and judged too).
CODE = 'import "fmt"\nfunc main() {\n fmt.Println("hello")\n}\n'
USERBODY = {"name": "unew", "password": "pw-unew-1", "permissions": ["ego.logon"]}
COLS = [{"name": "id", "type": "int"}, {"name": "name", "type": "string"}]
PKCE = "E9Melhoa2OwvFrEMTJguCHaoeK1t8URWbuGJSstw-cM"          # RFC 7636 appendix B
PKCE_VERIFIER = "dBjftJeZ4CVP-mB92K27uhbUJU1p1r_wW1gFWFOEjXk"


def base_requests(fx):
    iss = fx.issuer
    authq = {"response_type": "code", "client_id": "c40app", "redirect_uri": iss + "/cb", "scope": "openid", "state": "st1",
             "code_challenge": PKCE, "code_challenge_method": "S256"}
    B = {
        "POST /admin/ast": {"body": {"code": CODE}},
        "POST /admin/format": {"body": {"code": CODE}},
        "POST /admin/run": {"body": {"code": CODE}},
        "POST /admin/caches": {"body": {"serviceSize": 10}},
        "DELETE /admin/caches": {"query": {"class": "service"}},
        "PATCH /admin/config": {"body": {"ego.console.auto.help": True, "ego.server.start.log.age": 5, "ego.console.output": "text"}},
        "POST /admin/config": {"body": ["ego.server.max.item.limit", "ego.compiler.extensions"]},
        "POST /admin/loggers/": {"body": {"loggers": {"TABLES": True, "AUTH": False}, "keep": 3}},
        "PUT /admin/tokens/": {"body": [str(uuid.UUID(int=9)), str(uuid.UUID(int=10))]},
        "DELETE /admin/tokens/{{id}}": {"vars": {"id": str(uuid.UUID(int=7))}},
        "POST /admin/users/": {"body": USERBODY, "pre": [("DELETE", "/admin/users/unew", None)]},
        "DELETE /admin/users/{{name}}": {"vars": {"name": "udel"}, "pre": [("POST", "/admin/users/", {"name": "udel", "password": "pw-udel-1", "permissions": ["ego.logon"]})]},
        "PATCH /admin/users/{{name}}": {"body": {"name": "victim", "password": VICTIM_PW, "permissions": ["ego.logon", "ego.table.read"]}},
        "GET /assets/{{item...}}": {"vars": {"item...": "test.asset.css"}},
        "HEAD /assets/{{item...}}": {"vars": {"item...": "test.asset.css"}},
        "POST /dsns/": {"body": {"name": "dnew", "provider": "sqlite", "database": fx.sqlite("dnew"), "restricted": False,
                                 "user": "u", "password": "p"}, "pre": [("DELETE", "/dsns/dnew/", None)]},
        "POST /dsns/@permissions": {"body": {"dsn": "d1", "user": "bob", "actions": ["+ego.dsn.read", "-ego.dsn.write"]}},
        "DELETE /dsns/{{dsn}}/": {"vars": {"dsn": "ddel"},
                                  "pre": [("POST", "/dsns/", {"name": "ddel", "provider": "sqlite", "database": fx.sqlite("ddel"), "restricted": False})]},
        "PATCH /dsns/{{dsn}}/": {"vars": {"dsn": "dvictim"}, "body": {"restricted": False, "secured": False}},
        "POST /dsns/{{dsn}}/tables/@generate": {"body": "list all rows of t1"},
        "POST /dsns/{{dsn}}/tables/@generate #list": {"body": ["list all rows", "of t1"]},
        "POST /dsns/{{dsn}}/tables/@sql": {"body": ["update trows set name = 'sql' where id = 2", "select * from t1 where id = 1"]},
        "POST /dsns/{{dsn}}/tables/@sql #text": {"body": "select * from t1 where id = 1; "},
        "PUT /dsns/{{dsn}}/tables/@sql": {"body": ["select * from t1 where id = 1"]},
        "POST /dsns/{{dsn}}/tables/@transaction": {"body": [{"operation": "insert", "table": "trows", "data": {"id": 50, "name": "tx"}},
                                                            {"operation": "select", "table": "t1", "filters": ["EQ(id,1)"], "columns": ["name"]}]},
        "POST /dsns/{{dsn}}/tables/@transaction #update": {"body": [{"operation": "symbols", "data": {"who": "tx2"}},
                                                                    {"operation": "update", "table": "trows", "filters": ["EQ(id,2)"], "data": {"name": "{{who}}"},
                                                                     "errors": [{"condition": "EQ(_rows_,0)", "status": 404, "msg": "none"}]},
                                                                    {"operation": "delete", "table": "trows", "filters": ["EQ(id,50)"]}]},
        "POST /dsns/{{dsn}}/tables/@transaction #sql": {"body": [{"operation": "sql", "sql": "select name from t1 where id = 1"},
                                                                 {"operation": "readrows", "table": "t1", "columns": ["id"]}]},
        "PUT /dsns/{{dsn}}/tables/{{table}}": {"vars": {"table": "tnew"}, "pre": [("DELETE", "/dsns/d1/tables/tnew", None)],
                                               "body": [{"name": "id", "type": "int", "unique": {"specified": True, "value": True}},
                                                        {"name": "name", "type": "string", "size": 20, "nullable": {"specified": True, "value": True}}]},
        "DELETE /dsns/{{dsn}}/tables/{{table}}": {"vars": {"table": "tvictim"}, "pre": [("PUT", "/dsns/d1/tables/tvictim", COLS)]},
        "PUT /dsns/{{dsn}}/tables/{{table}}/permissions": {"body": ["ego.table.read", "+ego.table.update", "-ego.table.delete"]},
        "DELETE /dsns/{{dsn}}/tables/{{table}}/rows": {"vars": {"table": "trows"}, "query": {"filter": "EQ(id,50)"},
                                                       "pre": [("PUT", "/dsns/d1/tables/trows/rows", [{"id": 50, "name": "del"}])]},
        "GET /dsns/{{dsn}}/commit": {"prep": "tx", "query": {"transaction": "@txid"}},
        "GET /dsns/{{dsn}}/rollback": {"prep": "tx", "query": {"transaction": "@txid"}},
        "GET /dsns/{{dsn}}/tables/{{table}}/rows #abstract": {"query": {"abstract": "true", "filter": "EQ(id,1)"}},
        "PATCH /dsns/{{dsn}}/tables/{{table}}/rows": {"vars": {"table": "trows"}, "body": {"name": "renamed"}, "query": {"filter": "EQ(id,2)"}},
        "PATCH /dsns/{{dsn}}/tables/{{table}}/rows #rowset": {"vars": {"table": "trows"}, "body": {"rows": [{"name": "renamed2", "id": 3}], "count": 1},
                                                              "query": {"filter": "EQ(id,3)"}},
        "PATCH /dsns/{{dsn}}/tables/{{table}}/rows #abstract": {"vars": {"table": "trows"}, "query": {"abstract": "true", "filter": "EQ(id,3)"},
                                                                "body": {"columns": [{"name": "name", "type": "string"}], "rows": [["abs"]], "count": 1}},
        "PUT /dsns/{{dsn}}/tables/{{table}}/rows": {"vars": {"table": "trows"}, "body": [{"id": 7, "name": "seven"}, {"id": 8, "name": "eight"}]},
        "PUT /dsns/{{dsn}}/tables/{{table}}/rows #rowset": {"vars": {"table": "trows"}, "body": {"rows": [{"id": 9, "name": "nine"}], "count": 1}},
        "PUT /dsns/{{dsn}}/tables/{{table}}/rows #single": {"vars": {"table": "trows"}, "body": {"id": 10, "name": "ten"}, "query": {"upsert": "id"}},
        "PUT /dsns/{{dsn}}/tables/{{table}}/rows #rowid": {"vars": {"dsn": "d2", "table": "trows"}, "body": [{"id": 7, "name": "seven"}]},
        "PUT /dsns/{{dsn}}/tables/{{table}}/rows #rowid-abstract": {"vars": {"dsn": "d2", "table": "trows"}, "query": {"abstract": "true"},
                                                                    "body": {"columns": [{"name": "id", "type": "int"}, {"name": "name", "type": "string"}],
                                                                             "rows": [[11, "eleven"]], "count": 1}},
        "PATCH /dsns/{{dsn}}/tables/{{table}}/rows #rowid": {"vars": {"dsn": "d2", "table": "trows"}, "body": {"name": "renamed"}, "query": {"filter": "EQ(id,2)"}},
        "GET /dsns/{{dsn}}/tables/{{table}}/rows #rowid": {"vars": {"dsn": "d2", "table": "trows"}, "query": {"abstract": "true"}},
        "POST /dsns/{{dsn}}/tables/@transaction #rowid": {"vars": {"dsn": "d2"}, "body": [{"operation": "insert", "table": "trows", "data": {"id": 51, "name": "tx"}},
                                                                                          {"operation": "delete", "table": "trows", "filters": ["EQ(id,51)"]}]},
        "PUT /dsns/{{dsn}}/tables/{{table}}/rows #abstract": {"vars": {"table": "trows"}, "query": {"abstract": "true"},
                                                              "body": {"columns": [{"name": "id", "type": "int"}, {"name": "name", "type": "string"}],
                                                                       "rows": [[11, "eleven"], [12, "twelve"]], "count": 2}},
        "GET /oauth2/authorize": {"query": authq, "accept": "text/html"},
        "POST /oauth2/authorize": {"body": ("form", dict(authq, username="admin", password=ADMIN_PW, csrf_token="c40csrf")),
                                   "headers": [("Cookie", "ego_oauth_csrf=c40csrf")]},
        "POST /oauth2/token": {"body": ("form", {"grant_type": "client_credentials", "client_id": "c40app", "client_secret": "c40-client-secret", "scope": "openid"})},
        "POST /oauth2/token #code": {"prep": "code", "body": ("form", {"grant_type": "authorization_code", "client_id": "c40app", "client_secret": "c40-client-secret",
                                                                       "code": "@code", "redirect_uri": iss + "/cb", "code_verifier": PKCE_VERIFIER})},
        "POST /oauth2/token #refresh": {"prep": "refresh", "body": ("form", {"grant_type": "refresh_token", "client_id": "c40app", "client_secret": "c40-client-secret",
                                                                             "refresh_token": "@refresh"})},
        "POST /oauth2/revoke": {"body": ("form", {"token": "abc.def.ghi", "client_id": "c40app", "client_secret": "c40-client-secret"})},
        "GET /oauth2/userinfo": {"prep": "jwt"},
        "POST /services/admin/logon": {"body": {"username": "bob", "password": BOB_PW}},
        "DELETE /services/admin/webauthn/passkeys/{{name}}": {"vars": {"name": "victim"}},
        "POST /services/admin/webauthn/login/begin": {"body": None},
        "POST /services/admin/webauthn/login/finish": {"prep": "wa-login", "body": {"id": "AAAA", "rawId": "AAAA", "type": "public-key",
                                                                "response": {"authenticatorData": "AAAA", "clientDataJSON": "e30", "signature": "AAAA", "userHandle": "Ym9i"}}},
        "POST /services/admin/webauthn/register/begin": {"body": None},
        "POST /services/admin/webauthn/register/finish": {"prep": "wa-register", "body": {"id": "AAAA", "rawId": "AAAA", "type": "public-key",
                                                                   "response": {"attestationObject": "AAAA", "clientDataJSON": "e30"}}},
        "POST /services/cluster/flush": {"body": {"cache_id": 2, "sender_id": "x", "hops": 1}},
        "POST /services/cluster/remove": {"body": None},
        "POST /services/cluster/shutdown": {"body": None},
        "POST /services/admin/down/": {"query": {"grace": "0s"}},
        "GET /services/cluster/{{name}}": {"vars": {"name": "status"}},
        "GET /services/factor/{{value}}": {"vars": {"value": "12"}},
        "GET /services/sample/users/{{name}}/{{field}}": {"vars": {"name": "tom", "field": "age"}},
        "GET /services/unit-test/status/{{code}}": {"vars": {"code": "200"}},
        "POST /services/unit-test/echo": {"body": {"a": 1, "b": "two"}},
        "PUT /services/unit-test/echo": {"body": {"a": 1, "b": "two"}},
        "PATCH /services/unit-test/echo": {"body": {"a": 1, "b": "two"}},
    }
    return B


def _cookie(r, name):
    for k, v in (r.headers or {}).items():
        if k.lower() == "set-cookie" and name + "=" in v:
            return name + "=" + v.split(name + "=", 1)[1].split(";", 1)[0]
    return name + "=none"


def prep_tx(fx):
    r = fx.call("GET", "/dsns/d1/begin?expires=5s")
    return {"subst": {"@txid": ((r.json() or {}).get("id") or "none") if r is not None else "none"}}


def prep_code(fx):
    """an authorization code of the fixture's OAuth2 client for the administrator (the real authorization-code flow)"""
    f = {"response_type": "code", "client_id": "c40app", "redirect_uri": fx.issuer + "/cb", "scope": "openid profile", "state": "st1",
         "code_challenge": PKCE, "code_challenge_method": "S256", "username": "admin", "password": ADMIN_PW, "csrf_token": "c40csrf"}
    r = fx.call("POST", "/oauth2/authorize", form=f, user=None, headers=[("Cookie", "ego_oauth_csrf=c40csrf")])
    loc = ""
    for k, v in ((r.headers or {}).items() if r is not None else []):
        if k.lower() == "location":
            loc = v
    q = urllib.parse.parse_qs(urllib.parse.urlparse(loc).query)
    return {"subst": {"@code": (q.get("code") or ["none"])[0]}}


def _exchange(fx):
    code = prep_code(fx)["subst"]["@code"]
    r = fx.call("POST", "/oauth2/token", user=None, form={"grant_type": "authorization_code", "client_id": "c40app", "client_secret": "c40-client-secret",
                                                          "code": code, "redirect_uri": fx.issuer + "/cb", "code_verifier": PKCE_VERIFIER})
    return (r.json() or {}) if r is not None else {}


def prep_jwt(fx):
    if not getattr(fx, "jwt", None):
        fx.jwt = _exchange(fx).get("access_token") or "none"
    return {"bearer": fx.jwt}


def prep_refresh(fx):
    return {"subst": {"@refresh": _exchange(fx).get("refresh_token") or "none"}}


def prep_wa_login(fx):
    r = fx.call("POST", "/services/admin/webauthn/login/begin", user=None)
    return {"headers": [("Cookie", _cookie(r, "webauthn_challenge") if r is not None else "webauthn_challenge=none")]}


def prep_wa_register(fx):
    r = fx.call("POST", "/services/admin/webauthn/register/begin")
    return {"headers": [("Cookie", _cookie(r, "webauthn_challenge") if r is not None else "webauthn_challenge=none")]}


PREPS = {"tx": prep_tx, "jwt": prep_jwt, "code": prep_code, "refresh": prep_refresh, "wa-login": prep_wa_login, "wa-register": prep_wa_register}

DEFAULT_VARS = {"name": "victim", "dsn": "d1", "table": "t1", "id": str(uuid.UUID(int=7)), "item...": "test.asset.css",
                "value": "12", "field": "age", "code": "200"}

# ---- valid and unusual values of declared query parameters, by name then by kind
QVALID = {"filter": "EQ(id,1)", "sort": "id", "columns": "id", "user": "bob", "class": "server", "order-by": "name",
          "since": "2026-01-01 00:00:00", "until": "2036-01-01 00:00:00", "method": "POST", "path": "/admin/users/", "entry": "@user",
          "lang": "fr", "language": "fr", "expires": "30s", "grace": "1s", "tail": "5", "session": "1", "keep": "3", "upsert": "id",
          "transaction": "", "msg": "request", "serverid": "*", "archive": "false", "rowids": "true", "abstract": "true",
          "rowcounts": "true", "start": "1", "limit": "2", "count": "2", "name": "x"}
QKIND_VALID = {"int": "1", "bool": "true", "duration": "5s", "list": "a,b", "string": "x", "any": "x", "flag": "", "string|flag": "x"}
QKIND_WRONG = {"int": "abc", "bool": "maybe", "duration": "5 parsecs", "list": "%FF%FE", "string": "%FF%FE", "any": "%FF%FE",
               "flag": "x", "string|flag": "%FF%FE"}
QEDGE_NAME = {"filter": ["EQ(", "AND()", "EQ(id,1))", "NOT(EQ(nosuch,'x'))"], "sort": ["~id", "~", "nosuch", "id,~name,"],
              "columns": ["nosuch", "id,id", "*", ","], "user": ["nosuch", "admin", "%27", "BOB"],
              "transaction": ["00000000-0000-0000-0000-000000000000", "x", "%27", "-1"],
              "since": ["yesterday", "2026-13-45", "0", "9999-12-31 23:59:59"], "until": ["yesterday", "2026-13-45", "0", "0001-01-01 00:00:00"],
              "class": ["nosuch", "server,", "SERVER,auth", "*"], "order-by": ["nosuch", "count", "NAME", "%27"],
              "upsert": ["nosuch", "id,name", ",", "true"], "method": ["FROB", "get", "", "%2A"], "path": ["/nosuch", "admin", "/", "%7B%7Bx%7D%7D"],
              "entry": ["@nosuch", "@", "user", "admin.users:post"], "msg": ["%5B", "%2A", "%28", "%5C"], "serverid": ["%5B", "%2A%2A", "%3F", "x"],
              "abstract": ["false", "1", "0", "TRUE"]}
QEDGE_KIND = {"int": ["0", "-1", "2147483648", "9223372036854775807"], "bool": ["false", "1", "0", "TRUE"],
              "duration": ["0s", "-5s", "1000000h", "1d"], "list": [",", "a,,b", "*", "%27"], "string": ["%27", "%00", "%7B%7Bx%7D%7D", "a+b%3Bc%26"],
              "any": ["%27", "%00", "%7B%7Bx%7D%7D", "a+b%3Bc%26"], "flag": ["", "true", "0", "x"], "string|flag": ["", "%27", "true", ","]}
RANGE = {"valid": "bytes=0-9", "nodash": "bytes=5", "reversed": "bytes=9-2", "beyond": "bytes=99999999-", "suffix": "bytes=-5",
         "multi": "bytes=0-1,3-4", "junk": "xyz", "hugenum": "bytes=0-99999999999999999999999", "empty": "", "unit": "items=0-5"}
LANG = {"fr": "fr", "weighted": "fr-CA,fr;q=0.9,en;q=0.8", "malformed": ";q=,,-;q=abc", "wild": "*;q=0", "huge": "en-" + "x" * 20000}
ENC = {"gzip": "gzip", "zero": "gzip;q=0", "malformed": "gzip;q=,,;"}
PATHVAL = {"nosuch": "nosuch-c40", "empty": "", "long": "a" * 4000, "nul": "a%00b", "unicode": "%E2%98%83%FF", "dotdot": "..",
           "encslash": "a%2Fb", "quote": "%27%22%3B--", "space": "a%20b", "pct": "a%25zzb"}


def nodes(v, path=()):
    """every node of a JSON value below the root, in document order"""
    if isinstance(v, dict):
        for k in v:
            yield path + (k,)
            yield from nodes(v[k], path + (k,))
    elif isinstance(v, list):
        for i, x in enumerate(v):
            yield path + (i,)
            yield from nodes(x, path + (i,))


def get_at(v, path):
    for p in path:
        v = v[p]
    return v


def set_at(v, path, new):
    for p in path[:-1]:
        v = v[p]
    v[path[-1]] = new


def del_at(v, path):
    for p in path[:-1]:
        v = v[p]
    del v[path[-1]]


HUGE_MARK = "\u0001HUGE\u0001"


def mutate_json(base, kind, idx):
    """the base body with its idx-th node changed; None when it has no such node"""
    ns = list(nodes(base))
    if idx > len(ns):
        return None
    path = ns[idx - 1]
    b = copy.deepcopy(base)
    old = get_at(b, path)
    if kind == "null":
        set_at(b, path, None)
    elif kind == "missing":
        del_at(b, path)
    elif kind == "wrong":
        set_at(b, path, 123 if isinstance(old, str) else "yes" if isinstance(old, bool) else "abc" if isinstance(old, (int, float))
               else {"a": 1} if isinstance(old, list) else [1] if isinstance(old, dict) else 7)
    elif kind == "huge":
        set_at(b, path, HUGE_MARK)
    elif kind == "neg":
        set_at(b, path, (not old) if isinstance(old, bool) else -1 if isinstance(old, (int, float)) else "" if isinstance(old, str)
               else [] if isinstance(old, list) else {} if isinstance(old, dict) else 0)
    elif kind == "nest":
        set_at(b, path, [[old]] if isinstance(old, list) else {"a": {"a": {"a": old}}})
    elif kind == "weird":
        set_at(b, path, 1.5 if isinstance(old, (int, float)) and not isinstance(old, bool) else "'\u0000\"\\;--{{x}}\ud83d\ude00")
    txt = json.dumps(b)
    if kind == "huge":
        txt = txt.replace(json.dumps(HUGE_MARK), "1e400" if isinstance(old, (int, float)) and not isinstance(old, bool) else '"' + HUGE + '"')
    return txt.encode("utf8", "surrogatepass")


def mutate_form(base, kind, idx):
    ks = list(base)
    if idx > len(ks):
        return None
    k = ks[idx - 1]
    items = [(a, b) for a, b in base.items()]
    pos = idx - 1
    enc = lambda its: "&".join(urllib.parse.quote_plus(a) + "=" + urllib.parse.quote_plus(b) for a, b in its)
    if kind == "missing":
        del items[pos]
    elif kind == "null":
        return ("&".join([urllib.parse.quote_plus(a) + "=" + urllib.parse.quote_plus(b) for a, b in items[:pos]] + [k] +
                         [urllib.parse.quote_plus(a) + "=" + urllib.parse.quote_plus(b) for a, b in items[pos + 1:]])).encode()
    elif kind == "wrong":
        items[pos] = (k, "123" if not base[k].isdigit() else "abc")
    elif kind == "huge":
        items[pos] = (k, HUGE)
    elif kind == "neg":
        items[pos] = (k, "")
    elif kind == "nest":
        items[pos] = (k + "[a][b]", base[k])
        items.append((k, base[k] + "2"))
    elif kind == "weird":
        return (enc(items[:pos]) + "&" + k + "=%27%00%22%5C;--%zz&" + enc(items[pos + 1:])).strip("&").encode()
    return enc(items).encode()


def b64(s):
    return base64.b64encode(s.encode() if isinstance(s, str) else s).decode()


def query_value(name, kind, which):
    """the text of one declared parameter: which in valid / wrong / e1..e4"""
    kind = (kind or "string").lower()
    if which == "valid":
        return QVALID[name] if name in QVALID else QKIND_VALID.get(kind, "x")
    if which == "wrong":
        return QKIND_WRONG.get(kind, "%FF%FE")
    n = int(which[1]) - 1
    lst = QEDGE_NAME.get(name) or QEDGE_KIND.get(kind) or QEDGE_KIND["string"]
    return lst[n]


def instantiate(rt, c, fx, spec, table_methods, dyn=None):
    """the concrete request of abstract case c for route rt: (method, target, headers, body) or None when the route has no
    such item (no i-th variable / parameter / body node) or the value coincides with another one for this route.
    Pure table look-up: nothing here knows what the server should answer."""
    spec = spec or {}
    dyn = dyn or {}
    subst = dyn.get("subst") or {}
    # ---- method
    m = c["method"]
    route_m = rt.method if rt.method not in ("ANY", "*", "") else "GET"
    if m == "route":
        method = route_m
    elif m == "other":
        free = [x for x in ("GET", "POST", "PUT", "PATCH", "DELETE") if x not in table_methods.get(rt.endpoint, ())]
        if not free:
            return None
        method = free[0]
    elif m == "lower":
        method = route_m.lower()
    elif m == "bogus":
        method = "FROB"
    elif m == "options":
        method = "OPTIONS"
    else:
        if route_m == "HEAD" or "HEAD" in table_methods.get(rt.endpoint, ()):
            return None
        method = "HEAD"
    # ---- path
    vals = dict(DEFAULT_VARS)
    vals.update(spec.get("vars") or {})
    pv = c["path"]
    segs = rt.endpoint
    if "@" in pv:
        kind, i = pv.split("@")
        i = int(i)
        if i > len(rt.vars):
            return None
        vals[rt.vars[i - 1]] = PATHVAL[kind]
    for v in rt.vars:
        segs = segs.replace("{{%s}}" % v, vals.get(v, "x"), 1)
    path = segs
    if pv == "trailing":
        path = path + ("x" if path.endswith("/") else "/x")
    elif pv == "slashflip":
        path = path[:-1] if path.endswith("/") and len(path) > 1 else path + "/"
    elif pv == "dblslash":
        path = "/" + path
    elif pv == "case":
        up = "/".join(p if p in [vals.get(v) for v in rt.vars] else p.upper() for p in path.split("/"))
        if up == path:
            return None
        path = up
    elif pv == "semicolon":
        path = path + ";v=1"
    # ---- query
    qv = c["query"]
    baseq = spec.get("query") or {}
    q = [(k, urllib.parse.quote(subst.get(v, v), safe="")) for k, v in baseq.items()]          # a route whose well-formed request needs a query
    names = [n for n, _k in rt.params]
    kinds = dict(rt.params)
    if qv == "absent":
        pass
    elif qv == "all":
        if not names:
            return None
        have = {k for k, _ in q}
        q += [(n, query_value(n, kinds[n], "valid")) for n in names if n not in have]
    elif qv == "unknown":
        q.append(("zzverif", "1"))
    elif qv == "malformed":
        q.append(("%zz", "%&&==&a"))
    elif qv == "many":
        q += [("x%d" % i, "1") for i in range(300)] if not names else [(names[0], query_value(names[0], kinds[names[0]], "valid"))] * 300
    elif qv == "semicolon":
        q.append(("a", "1;b=2"))
    else:
        which, i = qv.split("@")
        i = int(i)
        if i > len(names):
            return None
        n = names[i - 1]
        q = [(k, v) for k, v in q if k != n]
        if which in ("valid", "wrong", "e1", "e2", "e3", "e4"):
            q.append((n, query_value(n, kinds[n], which)))
        elif which == "empty":
            q.append((n, ""))
        elif which == "dup":
            q += [(n, query_value(n, kinds[n], "valid")), (n, query_value(n, kinds[n], "e1"))]
        elif which == "huge":
            q.append((n, "9" * 400 if kinds[n].lower() == "int" else "A" * 65536))
        elif which == "flag":
            q.append((n, None))
    qs = "&".join(k if v is None else k + "=" + v for k, v in q)
    target = path + ("?" + qs if qs else "")
    # ---- body
    bv = c["body"]
    base = spec.get("body")
    if isinstance(base, dict) and base.get("token") == "@spare":
        base = dict(base, token=fx.spare_token or "x")
    isform = isinstance(base, tuple)
    basebytes = None
    if isform:
        base = ("form", {k: subst.get(v, v) for k, v in base[1].items()})
        basebytes = urllib.parse.urlencode(base[1]).encode()
    elif base is not None:
        basebytes = json.dumps(base).encode()
    if bv == "base":
        body = basebytes
    elif bv == "none":
        if basebytes is None:
            return None
        body = None
    elif "@" in bv:
        kind, i = bv.split("@")
        if base is None:
            return None
        body = mutate_form(base[1], kind, int(i)) if isform else mutate_json(base, kind, int(i))
        if body is None:
            return None
    else:
        body = {"emptyobj": b"{}", "emptyarr": b"[]", "null": b"null", "string": b'"x"', "number": b"42", "true": b"true",
                "truncated": (basebytes[:max(1, len(basebytes) // 2)] if basebytes else b'{"a":'),
                "garbage": b"\x00\x01<<<not json>>>\x7f", "nonutf8": b'{"name":"\xff\xfe","code":"\xc3\x28"}',
                "deep": b"[" * 20000 + b"]" * 20000, "bigstr": ('"' + HUGE + '"').encode(), "bignum": b"1e99999",
                "form": b"a=1&b=2&name=x"}.get(bv)
        if bv == "dupkeys":
            if isinstance(base, dict) and base:
                k0 = next(iter(base))
                body = ("{" + json.dumps(k0) + ": [1], " + json.dumps(base)[1:]).encode()
            else:
                body = b'{"a":1,"a":"x","a":null}'
        elif bv == "wraparr":
            body = b"[" + (basebytes if basebytes and not isform else b"1") + b"]"
        elif bv == "wrapobj":
            body = b'{"x":' + (basebytes if basebytes and not isform else b"1") + b"}"
    # ---- headers
    H = []
    av = c["accept"]
    acc = {"json": spec.get("accept", "application/json"), "any": "*/*", "vendor": (rt.accept[0] if rt.accept else "application/vnd.ego.error+json"),
           "text": "text/plain", "html": "text/html", "wrong": "image/png", "malformed": ";;q=,/", "huge": "a/" + "b" * 20000, "empty": ""}
    if av == "multi":
        H += [("Accept", "text/html"), ("Accept", "application/json;q=0.1")]
    elif av != "absent":
        H.append(("Accept", acc[av]))
    au = c["auth"]
    tok = fx.tok
    bearer = lambda t: ("Authorization", "Bearer " + t)
    basic = lambda u, p: ("Authorization", "Basic " + b64(u + ":" + p))
    if au == "admin":
        H.append(bearer(dyn.get("bearer") or tok["admin"]))
    elif au == "adminbasic":
        H.append(basic("admin", ADMIN_PW))
    elif au == "power":
        H.append(bearer(tok["power"]))
    elif au == "user":
        H.append(bearer(tok["bob"]))
    elif au == "userbasic":
        H.append(basic("bob", BOB_PW))
    elif au == "badpw":
        H.append(basic("nobody-c40", "wrong"))
    elif au == "notoken":
        H.append(("Authorization", "Bearer"))
    elif au == "garbage":
        H.append(bearer("xyz"))
    elif au == "tampered":
        t = tok["admin"]
        H.append(bearer(t[:-1] + ("0" if t[-1] != "0" else "1")))
    elif au == "badb64":
        H.append(("Authorization", "Basic !!!!"))
    elif au == "nocolon":
        H.append(("Authorization", "Basic " + b64("nocolon")))
    elif au == "emptybasic":
        H.append(("Authorization", "Basic "))
    elif au == "hugetoken":
        H.append(bearer("A" * 60000))
    elif au == "scheme":
        H.append(("Authorization", 'Digest username="admin", realm="x", nonce="1", uri="/", response="0"'))
    elif au == "nonascii":
        H.append(("Authorization", b"Bearer \xff\xfe\xc3\x28"))
    elif au == "dupheader":
        H += [bearer("xyz"), bearer(tok["admin"])]
    elif au == "jwtlike":
        H.append(bearer("eyJhbGciOiJub25lIn0.eyJzdWIiOiJhZG1pbiJ9."))
    cv = c["ctype"]
    ct = {"json": "application/json", "text": "text/plain", "form": "application/x-www-form-urlencoded", "multipart": "multipart/form-data",
          "vendor": (rt.content[0] if rt.content else rt.accept[0] if rt.accept else "application/vnd.ego.user+json"),
          "malformed": 'a/b/c;;="', "huge": "application/" + "j" * 20000, "charset": "application/json; charset=utf-16", "empty": ""}
    if cv == "auto":
        if body is not None:
            H.append(("Content-Type", "application/x-www-form-urlencoded" if isform or bv == "form" else "application/json"))
    elif cv != "absent":
        H.append(("Content-Type", ct[cv]))
    if c["range"] != "absent":
        H.append(("Range", RANGE[c["range"]]))
    if c["lang"] != "absent":
        H.append(("Accept-Language", LANG[c["lang"]]))
    if c["enc"] != "absent":
        H.append(("Accept-Encoding", ENC[c["enc"]]))
    H += list(spec.get("headers") or []) + list(dyn.get("headers") or [])
    return method, target, H, body


# ------------------------------------------------------------------ selection of cases and the run against one server
def deviations(c):
    return [d for d in DIMS if c[d] != BASE[d]]


IDENT = ("adminbasic", "power", "user", "userbasic", "anon")      # the identities of the quantifier ("as admin and non-admin")


def priority(c):
    """order in which the cases of a route are requested when time is limited (selection only; every case is judged alike):
    0 the well-formed request; 1 one deviation in a dimension whose meaning depends on the route (path, query, body) or another
    identity; 2 one deviation of the method or of a header; 3 two deviations"""
    dv = deviations(c)
    if not dv:
        return 0
    if len(dv) == 1:
        d = dv[0]
        if d in ("path", "query", "body") or (d == "auth" and c[d] in IDENT):
            return 1
        return 2
    return 3


class Runner:
    """drives one real server: the cases of its share of the route table, one request at a time"""

    def __init__(self, fx, routes, ball, table_methods, seed, budget, deadline, only=None):
        self.fx, self.routes, self.tm = fx, routes, table_methods
        self.seed, self.budget, self.deadline, self.only = seed, budget, deadline, only
        self.records = []          # judged by TLC
        self.timeouts = []
        self.retried = 0
        self.B = base_requests(fx)
        self.status_hist = {}
        self.plan = {}
        self.count = {}
        self.seen = {}
        by = {0: [], 1: [], 2: [], 3: []}
        for c in ball:
            by[priority(c)].append(c)
        for rt in routes:
            rng = random.Random("%s/%s" % (seed, rt.key))
            p1, p2, p3 = list(by[1]), list(by[2]), list(by[3])
            for l in (p1, p2, p3):
                rng.shuffle(l)
            if budget.get("p2") is not None:
                p2 = p2[:budget["p2"]]
            self.plan[rt.key] = [by[0], p1, p2, p3]
            self.count[rt.key] = [0, 0, 0, 0]
            self.seen[rt.key] = set()

    def spec_of(self, rt):
        return self.B.get(rt.key) or self.B.get(rt.base_key)

    def one(self, rt, c, stage="main"):
        fx = self.fx
        spec = self.spec_of(rt)
        st = instantiate(rt, c, fx, spec, self.tm)
        if st is None:
            return None
        sig = hashlib.sha1(repr((st[0], st[1], st[2], st[3] if st[3] is None or len(st[3]) < 4096 else hashlib.sha1(st[3]).hexdigest())).encode("utf8", "replace")).hexdigest()
        if sig in self.seen[rt.key]:
            return None
        self.seen[rt.key].add(sig)
        dyn = PREPS[spec["prep"]](fx) if spec and spec.get("prep") else None
        method, target, H, body = instantiate(rt, c, fx, spec, self.tm, dyn)
        for pm, pp, pb in (spec or {}).get("pre", []):
            fx.call(pm, pp, pb)
        obs, info = fx.ob.request(method, target, H, body)
        tries = 0
        while not obs["responded"] and not info["timeout"] and obs["alive"] and not obs["recovered"] and not obs["escaped"] and tries < 2 and stage == "main":
            tries += 1                      # a connection lost without any trace of a crash: ask again (a real defect is reproducible)
            self.retried += 1
            time.sleep(0.2)
            obs, info = fx.ob.request(method, target, H, body)
        x = {"method": method, "target": target if len(target) < 600 else target[:600] + "...(%d)" % len(target),
             "headers": [(k, (v if isinstance(v, str) else v.decode("latin1"))[:200]) for k, v in H],
             "body": None if body is None else (body[:600].decode("latin1") + ("...(%d bytes)" % len(body) if len(body) > 600 else "")),
             "value": info["value"], "out": info["out"], "answer": info["body"][:300].decode("latin1")}
        if info["timeout"]:
            self.timeouts.append({"route": rt.key, "c": c, "x": x})
            if not fx.srv.alive():
                fx.restart()
            return None
        rec = {"stage": stage, "route": rt.key, "c": c, "o": obs, "x": x}
        self.records.append(rec)
        self.status_hist[obs["status"]] = self.status_hist.get(obs["status"], 0) + 1
        if stage == "stop":
            self.after_stop()
        elif not obs["alive"]:
            fx.restart()
        elif rt.base_key in ("POST /admin/loggers/", "PATCH /admin/config"):
            fx.ensure_loggers()
        return rec

    def after_stop(self):
        """a request to a route that stops the server: if it did, wait for the process to go and start it again"""
        fx = self.fx
        ok, _st, _h, _b, _to = fx.target.raw("GET", "/admin/heartbeat", [("Accept", "application/json")], None, timeout=3)
        if ok and fx.srv.alive():
            fx.ob.t.tail()
            return
        t0 = time.time()
        while fx.srv.alive() and time.time() - t0 < 30:
            time.sleep(0.1)
        fx.restart()

    def run(self):
        """rounds over the routes of this server: first every route's well-formed request, then its route-specific single
        deviations, then method/header deviations, then pairs - so that a deadline cuts depth, never whole routes"""
        chunk = {0: 1, 1: 40, 2: 25, 3: 25}
        cap = {0: None, 1: None, 2: None, 3: self.budget.get("pairs")}
        for pr in (0, 1, 2, 3):
            pos = {rt.key: 0 for rt in self.routes}
            active = list(self.routes)
            while active and (pr == 0 or time.time() < self.deadline):      # the well-formed requests are never cut
                self.fx.ensure()
                nxt = []
                for rt in active:
                    lst = self.plan[rt.key][pr]
                    sent = 0
                    while pos[rt.key] < len(lst) and sent < chunk[pr] and (pr == 0 or time.time() < self.deadline):
                        c = lst[pos[rt.key]]
                        pos[rt.key] += 1
                        if self.only is not None and c != self.only:
                            continue
                        if cap[pr] is not None and self.count[rt.key][pr] >= cap[pr]:
                            pos[rt.key] = len(lst)
                            break
                        if self.one(rt, c, "stop" if rt.stops else "main") is not None:
                            sent += 1
                            self.count[rt.key][pr] += 1
                    if pos[rt.key] < len(lst):
                        nxt.append(rt)
                active = nxt


# ------------------------------------------------------------------ builds (cached by the content of the tree)
def builds(sd):
    key = tree_key()
    ov_plain = vf.make_overlay(sd, [])
    hd = os.path.join(sd, "hov")
    os.makedirs(hd, exist_ok=True)
    ov_h = vf.make_overlay(hd, HARNESS)

    def b_ego(out):
        vf.go_build(ov_plain, ".", out, tags="verif", timeout=3600)

    def b_test(out):
        vf.go_test_compile(ov_h, "./internal/commands/", out, tags="verif", timeout=3600)
    ego = cached("ego", key, b_ego)                     # one after the other: the second build finds the packages of the first in the go cache
    tst = cached("commands.test", key, b_test)
    # private copies: a concurrent run pruning the cache must not pull the binaries from under this run
    ego2, tst2 = os.path.join(sd, "ego"), os.path.join(sd, "commands.test")
    shutil.copy(ego, ego2)
    shutil.copy(tst, tst2)

    def b_routes(out):
        home = os.path.join(sd, "rt-home")
        os.makedirs(os.path.join(home, "oauth"), exist_ok=True)
        env = dict(os.environ, HOME=home, EGO_PATH=vf.REPO, VERIF_OUT=out, VERIF_C40="routes", VERIF_C40_OAUTH=os.path.join(home, "oauth"))
        env.pop("EGO_PROFILE", None)
        p = vf.run([tst2, "-test.run", "^TestVerifC40Routes$"], cwd=home, env=env, timeout=600)
        if p.returncode != 0 or not os.path.exists(out):
            raise vf.NoVerdict("route table harness failed\n" + p.stdout[-2000:] + p.stderr[-2000:])
    meta = json.load(open(cached("routes.json", key, b_routes)))
    return ego2, tst2, {(e["method"], e["endpoint"]): e for e in meta}


def generate_ball(chk, sd):
    """HandlerRequests!Ball(2) enumerated by TLC; the printed cases are cached by the content of the spec (an accelerator only)"""
    h = hashlib.sha256()
    for f in ("HandlerRequests.tla", "HandlerTotality_Gen.tla", "HandlerTotality_Gen.cfg"):
        h.update(open(os.path.join(vf.VERIF, "spec", SPEC, f), "rb").read())
    box = {}

    def gen(out):
        r = vf.tlc_ok(vf.tlc(SPEC, "HandlerTotality_Gen", "HandlerTotality_Gen.cfg", sd, workers=2, timeout=1500), "case generation")
        if len(r.records) != r.distinct or not r.records:
            raise vf.NoVerdict("generator printed %d cases for %d states" % (len(r.records), r.distinct))
        json.dump({"cases": r.records, "generated": r.generated, "distinct": r.distinct, "wall": r.wall, "cmd": r.cmd}, open(out, "w"))
        box["r"] = r
    d = json.load(open(cached("ball.json", h.hexdigest()[:24], gen)))
    chk.cov["tlc_runs"].append({"name": "Gen: HandlerRequests!Ball(2)" + ("" if "r" in box else " (cached TLC output)"), "cmd": d["cmd"],
                                "generated": d["generated"], "distinct": d["distinct"], "depth": 0, "wall_s": round(d["wall"], 2)})
    chk.cov["states"] += d["distinct"]
    chk.cov["transitions"] += d["generated"]
    return d["cases"]


def model_checks(chk, sd):
    jobs = [("HandlerTotality_MC.cfg", None, "MC total: Contract, ObsSound, StatusDetects, LocksFree"),
            ("HandlerTotality_MC_partial.cfg", None, "MC partial (every stage may panic): ObsSound, LocksFree"),
            ("HandlerTotality_MC_partial_Contract.cfg", "Contract", "negative control: a panicking handler violates Contract"),
            ("HandlerTotality_MC_partial_Status.cfg", "StatusDetects", "negative control: a recovered panic need not show as 500")]

    def one(j):
        cfg, want, name = j
        return j, vf.tlc(SPEC, "HandlerTotality", cfg, sd, workers=2, timeout=1200)
    with ThreadPoolExecutor(4) as ex:
        res = list(ex.map(one, jobs))
    for (cfg, want, name), r in res:
        if want is None:
            vf.tlc_ok(r, name)
            chk.add_tlc(r, name)
        else:
            if r.violated != want:
                raise vf.NoVerdict("%s: expected %s to be violated, got %s %s" % (name, want, r.violated, (r.error or "")[:300]))
            chk.add_tlc(r, name, count_states=False)


# ------------------------------------------------------------------ canary: the real router with crashing handlers
CANARY_ROUTES = {"ok": False, "err": False, "own500": False, "index": True, "nilmap": True, "assert": True, "late": True}


def canary(sd, tst):
    """records of requests to the harness-served real router, through the same Observer; returns (records, expected-bad keys)"""
    cdir = os.path.join(sd, "canary")
    os.makedirs(cdir, exist_ok=True)
    out = os.path.join(cdir, "canary.json")
    env = dict(os.environ, HOME=cdir, EGO_PATH=vf.REPO, VERIF_OUT=out, VERIF_C40="canary")
    env.pop("EGO_PROFILE", None)
    so = open(os.path.join(cdir, "stdout.txt"), "ab")
    proc = subprocess.Popen([tst, "-test.run", "^TestVerifC40Canary$", "-test.timeout", "20m"], cwd=cdir, env=env, stdout=so, stderr=subprocess.STDOUT)
    try:
        t0 = time.time()
        while not os.path.exists(out):
            if proc.poll() is not None or time.time() - t0 > 600:
                raise vf.NoVerdict("canary harness did not start\n" + open(os.path.join(cdir, "stdout.txt")).read()[-2000:])
            time.sleep(0.1)
        info = json.load(open(out))
        tgt = Target(info["port"], cdir, os.path.join(cdir, "stdout.txt"), lambda: proc.poll() is None)
        ob = Observer(tgt)
        recs, expect = [], set()
        H = [("Accept", "application/json")]

        def ask(name, rec_on):
            obs, inf = ob.request("GET", "/verif-canary/" + name, H, None)
            if inf["timeout"]:
                raise vf.NoVerdict("canary request timed out")
            route = "GET /verif-canary/%s%s" % (name, "" if rec_on else " (recovery off)")
            recs.append({"stage": "canary", "route": route, "c": dict(BASE), "o": obs, "x": {"value": inf["value"], "out": inf["out"]}})
            return route, obs
        for rec_on in (True, False):
            ob.request("GET", "/verif-canary/recovery/" + ("on" if rec_on else "off"), H, None)
            for name, crashes in CANARY_ROUTES.items():
                route, obs = ask(name, rec_on)
                if crashes:
                    expect.add(route)
                    if not obs["site"].endswith("verifC40" + {"index": "Index", "nilmap": "NilMap", "assert": "Assert", "late": "Late"}[name]):
                        raise vf.NoVerdict("canary: crash site of %s not located (got %r): the stack projection is broken\n%s" % (route, obs["site"], inf_text(recs[-1])))
        ob.request("GET", "/verif-canary/recovery/on", H, None)
        ob.request("GET", "/verif-canary/stop", H, None)
        return recs, expect
    finally:
        try:
            proc.wait(10)
        except subprocess.TimeoutExpired:
            proc.kill()
        so.close()


def inf_text(rec):
    return json.dumps({"o": rec["o"], "x": rec.get("x")})[:1500]


# ------------------------------------------------------------------ judging
def judge(chk, sd, records, name):
    p = os.path.join(sd, "io-%s.ndjson" % re.sub(r"\W+", "_", name or "selftest")[:60])
    with open(p, "w") as f:
        for r in records:
            f.write(json.dumps({"stage": r["stage"], "route": r["route"], "c": r["c"], "o": r["o"]}) + "\n")
    n, bad = vf.fio_validate(chk, SPEC, "HandlerTotality_Trace", "HandlerTotality_Trace.cfg", sd, p, name=name, timeout=1500)
    if n != len(records):
        raise vf.NoVerdict("contract run read %d of %d records" % (n, len(records)))
    return bad


def run():
    thorough = vf.TIER == "thorough"
    chk = vf.Check(PROP)
    rng = random.Random(vf.SEED)
    replay = os.environ.get("VERIF_REPLAY")
    only_route, only_case = None, None
    if replay:
        rp = json.load(open(replay))["replay"]
        only_route, only_case = rp["route"], rp["c"]
    chk.assumptions += [
        "one request at a time per server process (the attribution of a recovery log entry to a request relies on it); concurrent requests are C39/C20 territory",
        "server configuration of the fixture: file user store, SQLite DSNs, OAuth2 authorization server enabled, passkeys allowed, in-process Ego services, "
        "no cluster, no OAuth2 resource-server provider (its routes are not registered), default body limit; loggers SERVER, ROUTE, INTERNAL",
        "the request domain is HandlerRequests!Ball(2) instantiated by the fixed tables of checks/C40.py; requests further from a route's well-formed request "
        "than two deviations, and HTTP framing net/http rejects before the router (invalid request lines, oversized headers), are outside it",
        "ego.runtime.panics stays false (the server forces it at start); ego.server.panic.recovery keeps its default (both settings of it are model-checked and exercised by the canary)"]
    t_start = time.time()
    with vf.scratch() as sd:
        with ThreadPoolExecutor(3) as ex:
            fb = ex.submit(builds, sd)
            fm = ex.submit(model_checks, chk, sd)
            fg = ex.submit(generate_ball, chk, sd)
            ego, tst, meta = fb.result()
            fm.result()
            ball = fg.result()
        vf.log("C40: builds, model checks, %d cases generated in %.0fs" % (len(ball), time.time() - t_start))
        if only_case is not None and only_case not in ball:
            raise vf.NoVerdict("the replay case is not a case of the domain")
        # ---- canary (self-test of the observation and of the contract on real crashes)
        crecs, cexpect = canary(sd, tst)
        cbad = judge(chk, sd, crecs, "contract on the canary (real router, crashing handlers)")
        got = {b["key"].split(" :: ")[0] for b in cbad}
        if got != cexpect or any(b["key"] == "not-a-case" for b in cbad):
            raise vf.NoVerdict("canary self-test failed: contract rejected %s, expected %s" % (sorted(got), sorted(cexpect)))
        chk.cov["binding_selftest"] = ("canary: %d requests to the real router (recovery on and off); the contract rejected exactly the %d crashing ones "
                                       "(index, nil map, type assertion, crash after the response began) and located every crash site" % (len(crecs), len(cexpect)))
        # ---- the real servers
        nsrv = 1 if replay else (6 if thorough else 4)
        budget = {"p2": None, "pairs": 150} if thorough else {"p2": None, "pairs": 6}
        span = (12 * 60) if thorough else 45
        fxs = []

        def boot(i):
            fx = Fixture(sd, ego, "srv%d" % i, random.Random("%s/%d" % (vf.SEED, i)))
            fx.start()
            return fx
        with ThreadPoolExecutor(nsrv) as ex:
            fxs = list(ex.map(boot, range(nsrv)))
        try:
            dump = read_route_dump(fxs[0].srv.log_text())
            if len(dump) < 60:
                raise vf.NoVerdict("the server's route dump was not found in its log (%d routes)" % len(dump))
            nometa = [" ".join(d) for d in dump if d not in meta]
            native = [d for d in dump if not (meta.get(d) or {}).get("filename")]
            if len(nometa) > max(3, len(dump) // 10):
                raise vf.NoVerdict("the route table built by the harness does not match the server's (%d routes without attributes: %s)" % (len(nometa), nometa[:8]))
            tm = {}
            for me, ep in dump:
                tm.setdefault(ep, set()).add(me)
            B = base_requests(fxs[0])
            routes = []
            for me, ep in dump:
                rt = Route(me, ep, meta.get((me, ep)))
                rt.stops = rt.key in STOPS
                routes.append(rt)
                for k in B:
                    if k.startswith(rt.key + " #"):
                        v = rt.variant(k.split(" #", 1)[1])
                        v.stops = rt.stops
                        routes.append(v)
            unknown = [k for k in B if k.split(" #")[0] not in {r.base_key for r in routes}]
            flt = os.environ.get("VERIF_C40_ROUTES")          # development aid: only the routes whose key contains one of these |-separated texts
            if flt:
                routes = [r for r in routes if any(x in r.key for x in flt.split("|"))]
                chk.notes.append("restricted to routes matching VERIF_C40_ROUTES=%s" % flt)
            if only_route:
                routes = [r for r in routes if r.key == only_route]
                if not routes:
                    raise vf.NoVerdict("replay route %s is not in the route table" % only_route)
            # shares: routes that stop the server get the last server to themselves
            stops = [r for r in routes if r.stops]
            rest = [r for r in routes if not r.stops]
            rng.shuffle(rest)
            nmain = max(1, nsrv - 1) if stops and nsrv > 1 else nsrv
            shares = [rest[i::nmain] for i in range(nmain)]
            if stops and nsrv > 1:
                shares.append(stops)
            elif stops:
                shares[0] += stops
            deadline = time.time() + span
            runners = [Runner(fx, sh, ball, tm, vf.SEED, budget if not (sh and sh[0].stops) else {"p2": 4 if not thorough else 30, "pairs": 0 if not thorough else 10},
                              deadline, only=only_case) for fx, sh in zip(fxs, shares)]
            t0 = time.time()
            with ThreadPoolExecutor(len(runners)) as ex:
                list(ex.map(lambda r: r.run(), runners))
            t_req = time.time() - t0
        finally:
            for fx in fxs:
                fx.stop()
        records, timeouts, retried = [], [], 0
        hist, per_route = {}, {}
        for r, fx in zip(runners, fxs):
            records += r.records + fx.setup_records
            timeouts += r.timeouts + [{"route": "setup " + t} for t in fx.setup_timeouts]
            retried += r.retried
            for k, v in r.status_hist.items():
                hist[k] = hist.get(k, 0) + v
            for k, v in r.count.items():
                per_route[k] = v
        main = [r for r in records if not r["route"].startswith("setup ")]
        vf.log("C40: %d requests (%d set-up) to %d servers in %.0fs; status %s; %d timeouts, %d re-asked, %d restarts" %
               (len(records), len(records) - len(main), nsrv, t_req, sorted(hist.items()), len(timeouts), retried, sum(fx.restarts for fx in fxs)))
        # ---- vacuity guards
        if not replay:
            nobase = [k for k, v in per_route.items() if v[0] == 0]
            if nobase:
                raise vf.NoVerdict("%d routes did not even get their well-formed request within the time allowed (machine too loaded?): %s" % (len(nobase), nobase[:6]))
            ok2xx = {r["route"] for r in main if 200 <= r["o"]["status"] < 300 and not deviations(r["c"])}
            if len(ok2xx) < len(per_route) * 0.6:
                raise vf.NoVerdict("degenerate run: the well-formed request of only %d of %d routes was answered 2xx (fixture broken?)" % (len(ok2xx), len(per_route)))
            if len(timeouts) > max(5, len(records) // 50):
                raise vf.NoVerdict("%d requests got no answer within %ds" % (len(timeouts), REQ_TIMEOUT))
        if not main:
            raise vf.NoVerdict("no request was sent")
        # ---- the contract judges every record
        bad = judge(chk, sd, records, "contract on %d real (request, observation) records" % len(records))
        for b in bad:
            rec = records[b["idx"] - 1]
            if b["key"] == "not-a-case":
                raise vf.NoVerdict("record %d is outside the domain of the contract: %s" % (b["idx"], json.dumps(rec)[:800]))
        byk = {}
        for b in bad:
            byk.setdefault(b["key"], []).append(records[b["idx"] - 1])
        for key, rs in sorted(byk.items()):
            rs.sort(key=lambda r: len(deviations(r["c"])))
            r0 = rs[0]
            what = ("%s: %s  [%d requests of this run; nearest to the well-formed request: %s -> %s %s; observation %s; panic value: %s]" %
                    (r0["route"], "the last-resort recovery fired" if r0["o"]["recovered"] else "a panic escaped the router" if r0["o"]["escaped"]
                     else "the server process died" if not r0["o"]["alive"] else "no HTTP response",
                     len(rs), {d: r0["c"][d] for d in deviations(r0["c"])} or "the well-formed request itself", r0["x"].get("method"), r0["x"].get("target"),
                     r0["o"], r0["x"].get("value")))
            chk.violation(key, what, {"route": r0["route"], "c": r0["c"], "request": r0["x"], "observation": r0["o"],
                                      "others": [{"c": {d: r["c"][d] for d in deviations(r["c"])}, "o": r["o"]} for r in rs[1:6]]})
        # ---- perturbation self-test: accepted records with one observation field flipped must be rejected
        good = [r for i, r in enumerate(records) if (i + 1) not in {b["idx"] for b in bad} and r["stage"] == "main"]
        if good:
            pert, want = [], []
            for fld, val in (("recovered", True), ("escaped", True), ("alive", False), ("responded", False)):
                r = copy.deepcopy(rng.choice(good))
                r["o"][fld] = val
                if fld == "responded":
                    r["o"]["status"] = 0
                if fld in ("recovered", "escaped"):
                    r["o"]["site"] = "selftest.Site"
                pert.append(r)
                want.append(r["route"] + " :: " + {"recovered": "selftest.Site", "escaped": "selftest.Site", "alive": "server-died", "responded": "no-response"}[fld])
            pert.append(copy.deepcopy(rng.choice(good)))               # an untouched record stays accepted
            pb = judge(chk, sd, pert, None)
            gotk = sorted(b["key"] for b in pb)
            if gotk != sorted(want):
                raise vf.NoVerdict("perturbation self-test failed: rejected %s, expected %s" % (gotk, sorted(want)))
            chk.cov["binding_selftest"] += "; perturbation: 4 accepted real records with one observation field flipped all rejected, the untouched one accepted"
        elif not replay:
            raise vf.NoVerdict("no accepted record to perturb")
        # ---- evidence
        chk.cov["traces_validated_against_impl"] = len(records) + len(crecs)
        chk.cov["evaluations"] = len(records) + len(crecs)
        chk.cov["distinct_nontrivial"] = len({(r["route"], json.dumps(r["c"], sort_keys=True)) for r in main})
        chk.cov["routes_in_table"] = len(dump)
        chk.cov["routes_requested"] = len({r.base_key for rn in runners for r in rn.routes})
        chk.cov["route_variants"] = sorted(r.key for rn in runners for r in rn.routes if r.key != r.base_key)
        chk.cov["routes_without_attributes"] = nometa
        chk.cov["base_entries_without_route"] = unknown
        chk.cov["status_histogram"] = {str(k): v for k, v in sorted(hist.items())}
        chk.cov["requests_by_radius"] = {str(k): sum(1 for r in main if len(deviations(r["c"])) == k) for k in (0, 1, 2)}
        chk.cov["servers"] = nsrv
        chk.cov["request_phase_s"] = round(t_req, 1)
        chk.cov["timeouts"] = len(timeouts)
        chk.cov["reasked"] = retried
        chk.cov["restarts"] = sum(fx.restarts for fx in fxs)
        full1 = sum(1 for k, v in per_route.items() if v[1] and v[2]) if thorough else 0
        chk.cov["rule"] = ("records = requests actually sent to real ego servers (one per (route or route variant, abstract case) after dropping cases the route has no "
                           "item for and cases that instantiate to the same bytes), each judged by HandlerRequests!Holds in TLC; "
                           "non-trivial+distinct = distinct (route, abstract case) pairs; selection: well-formed request of every route, then "
                           + "every one-deviation case (path/query/body/identity first, then method and headers), then a seeded sample of %d two-deviation cases per route" % budget["pairs"]
                           + ", cut by a wall-clock deadline of %ds (depth, never routes)" % span)
        chk.cov["exhaustive"] = False
        for r in main[:2] + [r for r in main if len(deviations(r["c"])) == 2][:2]:
            chk.sample({"route": r["route"], "deviations": {d: r["c"][d] for d in deviations(r["c"])}, "request": "%s %s" % (r["x"]["method"], r["x"]["target"][:160]),
                        "body": (r["x"]["body"] or "")[:120], "observation": r["o"]})
        chk.notes.append("routes whose well-formed request stops the server (%s) are requested on a server of their own that is restarted after every stop" %
                         ", ".join(sorted(STOPS)))
    return chk.finish()

"""C01 - Go-compatible programs print what Go prints.
spec/Ego/EgoCore.tla (reference semantics of the documented Go-compatible core) + EgoCore_Prog.tla (program corpus).
Stages:
  1. TLC enumerates the corpus and computes, per --types mode, the lines each program must print and how it must end.
  2. Cross-check of the specification against the local Go toolchain: every program is compiled (all in one file) and run with
     go1.26; Go must accept exactly the programs the reference's strict mode does not reject for a typing reason, and must
     print / abort exactly as the reference predicts.  A disagreement is exit 2 (specification bug), never a verdict.
  3. R binding: every program Go accepts is run on the real `ego run --types M` for each mode M in which the reference gives it
     the same meaning as in strict mode (= no Ego-specific coercion takes part), and what it printed and how it ended must
     equal TLC's expectation LITERALLY.  Programs share a process through a wrapper; every program that must abort, and a
     sample of the others, also runs exactly as written (its own main, one process): abort <=> non-zero exit with an
     Error: / panic: report after the same output.
  4. binding self-test."""
import json, os, random, sys
from concurrent.futures import ThreadPoolExecutor
import vf

sys.path.insert(0, os.path.join(vf.VERIF, "lib"))
import egocore as ec

PROP = "C01"


def same_meaning(c, m):
    a, b = c["exp"][m], c["exp"]["strict"]
    return a["wf"] and b["wf"] and (a["out"], a["status"], a["ec"], a["pv"]) == (b["out"], b["status"], b["ec"], b["pv"])


def go_crosscheck(chk, sd, cases):
    """-> set of indices of the programs Go accepts.  Raises NoVerdict when Go and the reference disagree."""
    todo = [i for i, c in enumerate(cases) if c["exp"]["strict"]["wf"]]
    chunks = [todo[n:n + 700] for n in range(0, len(todo), 700)]

    def one(n_chunk):
        n, chunk = n_chunk
        return ec.run_go(os.path.join(sd, "go%d" % n), [cases[i] for i in chunk])
    obs = {}
    with ThreadPoolExecutor(max_workers=3) as ex:
        for chunk, res in zip(chunks, ex.map(one, enumerate(chunks))):
            obs.update(zip(chunk, res))
    legal, bad, reasons = set(), [], {}
    for i in todo:
        c, o, e = cases[i], obs[i], cases[i]["exp"]["strict"]
        rejected = e["status"] == "error" and e["ec"] == "type"
        if o["status"] == "rejected":
            reasons[o["msg"][:40]] = reasons.get(o["msg"][:40], 0) + 1
            if not rejected:
                bad.append((c["key"], "Go rejects the program (%s), the reference's strict mode accepts it" % o["msg"]))
            continue
        if rejected:
            bad.append((c["key"], "Go accepts the program, the reference's strict mode rejects it for a typing reason"))
            continue
        d = ec.judge(e, o)
        if d:
            bad.append((c["key"], "Go: %s" % d[1]))
            continue
        legal.add(i)
    if bad:
        raise vf.NoVerdict("the specification disagrees with the Go toolchain on %d programs (fix the specification), e.g. %s"
                           % (len(bad), json.dumps(bad[:6])[:1800]))
    chk.cov["go_rejection_reasons"] = reasons
    return legal, len(todo)


def replay(path):
    rp = json.load(open(path))["replay"]
    case, mode = rp["case"], rp["mode"]
    with vf.scratch() as sd:
        ego = ec.build_ego(sd)
        s = ec.Setting("default/" + mode, mode)
        if rp.get("solo"):
            (c, o, r), = ec.run_solo_ego(ego, vf.ego_env(sd), os.path.join(sd, "solo"), [case], ((), ("--types", mode)))
        else:
            o = ec.rerun_alone(ego, vf.ego_env(sd), sd, ec.CoreAdapter(alias=False), [(case, s)])[0]
    d = ec.judge(case["exp"][mode], o)
    print(ec.render(case))
    print("ego run --types %s ->" % mode, {k: v for k, v in o.items() if k != "_file"})
    print("expected:", case["exp"][mode], "\nverdict:", d or "conforms")
    if d:
        print("VIOLATION property=%s replay=%s" % (PROP, path))
        return 1
    return 0


def run():
    if os.environ.get("VERIF_REPLAY"):
        return replay(os.environ["VERIF_REPLAY"])
    thorough = vf.TIER == "thorough"
    chk = vf.Check(PROP)
    rng = random.Random(vf.SEED)
    chk.assumptions += [
        "programs are those of the EgoCore_Prog templates: typed scalars of every width in loops / calls / closures / containers, strings, "
        "slices, maps read with the two-value form, structs and methods, closures, three loop forms, switch, labelled break/continue, "
        "variadics, multiple returns, defer/panic/recover; output only through fmt.Printf with %v and %T on scalars",
        "floating values are dyadic with exact results; integer literals above MaxInt64 are not used",
        "a program is in the property's domain for a mode when Go accepts it and the reference semantics gives it the same meaning in that "
        "mode as in strict mode (documented Ego-specific behaviour such as dynamic re-typing of a variable by a constant is outside)",
        "runtime errors with deferred calls still pending are outside (Go runs them while it panics; Ego's documented mechanism is try/catch)",
        "the Go toolchain (go1.26) is the reference the specification itself is checked against in every run"]
    with vf.scratch() as sd:
        env = vf.ego_env(sd)
        with ThreadPoolExecutor(max_workers=3) as ex:
            f_bin = ex.submit(ec.build_ego, sd)
            cfg = "EgoCore_Prog_MC.cfg" if thorough else "EgoCore_Prog_MCq.cfg"
            if os.environ.get("VERIF_C01_ALL"):          # offline aid: the whole table (every kind, no thinning) to enumerate known findings
                cfg = "EgoCore_Prog_MCall.cfg"
            r = vf.tlc_ok(ec.gen_cases(sd, cfg, timeout=6000 if thorough else 1200),
                          "EgoCore_Prog MC")
            chk.add_tlc(r, "EgoCore_Prog: corpus enumerated, expected output per mode computed, theorems checked")
            cases = ec.cases_of(r)
            if os.environ.get("VERIF_C01_FAMS"):         # offline aid, with VERIF_C01_ALL: only these families
                cases = [c for c in cases if c["fam"] in os.environ["VERIF_C01_FAMS"].split(",")]
            if len(cases) < 200:
                raise vf.NoVerdict("generator too weak: %d programs" % len(cases))
            legal, ngo = go_crosscheck(chk, sd, cases)
            ego = f_bin.result()
        chk.cov["go_crosschecked_programs"] = ngo
        chk.cov["go_accepted_programs"] = len(legal)
        dom = [cases[i] for i in sorted(legal)]
        if len(dom) < 150:
            raise vf.NoVerdict("only %d programs are legal Go" % len(dom))
        vf.log("corpus: %d programs, %d accepted by Go (and printing what the reference predicts)" % (len(cases), len(dom)))
        # 3. every program x every mode in which it means what it means in Go
        adapter = ec.CoreAdapter(alias=False)

        class InDomain(ec.CoreAdapter):
            def wf(self, c, mode):
                return same_meaning(c, mode)
        runner = InDomain(alias=False)
        settings = [ec.Setting("default/" + m, m) for m in ec.MODES]
        stats = {}
        obs = ec.run_matrix(ego, env, sd, runner, dom, settings, nproc=8, stats=stats)
        suspects = []
        for s in settings:
            for i, o in obs[s.name].items():
                if ec.judge(dom[i]["exp"][s.mode], o, alias=True) is not None:      # (the type-name alias alone needs no second look)
                    suspects.append((i, s))
        redo = ec.rerun_alone(ego, env, sd, adapter, [(dom[i], s) for i, s in suspects[:1500]]) if suspects else []
        stats["processes"] = stats.get("processes", 0) + len(redo)
        for (i, s), o2 in zip(suspects, redo):
            if adapter.judge(dom[i], s.mode, o2) is None:
                chk.violation("interference/" + dom[i]["fam"], "%s agrees with Go when run alone but not after other programs in the same process (--types %s)"
                              % (dom[i]["key"], s.mode), {"case": dom[i], "mode": s.mode, "observed": obs[s.name][i]})
            obs[s.name][i] = o2
        nrun, classes, conform = 0, set(), []
        for s in settings:
            for i, o in sorted(obs[s.name].items()):
                c = dom[i]
                nrun += 1
                classes.add((c["key"], s.mode))
                d = adapter.judge(c, s.mode, o)
                if d is None:
                    conform.append((i, s))
                    continue
                if d[0] == "type-name-alias":
                    # one cause whatever the program: %T of a uint8 value prints "byte".  Reported under one identity; the
                    # rest of the program's output is still compared (through the alias table) so nothing else hides behind it
                    chk.violation("fmt/%T/uint8-prints-byte", "%s: %s" % (c["key"], d[1]),
                                  {"case": c, "mode": s.mode, "observed": {k: v for k, v in o.items() if k != "_file"}, "program": ec.render(c)})
                    d = ec.judge(c["exp"][s.mode], o, alias=True)
                    if d is None:
                        continue
                chk.violation("%s/%s/%s" % (c["key"], s.mode, d[0]),
                              "ego run --types %s: %s (Go and the reference semantics agree on the expectation)" % (s.mode, d[1]),
                              {"case": c, "mode": s.mode, "observed": {k: v for k, v in o.items() if k != "_file"}, "expected": c["exp"][s.mode],
                               "program": ec.render(c)})
        # ... and exactly as written, one process per program: the aborts, and a sample of the rest
        pool = [(i, s) for (i, s) in conform]
        aborts = [(i, s) for (i, s) in pool if dom[i]["exp"][s.mode]["status"] != "ok"]
        oks = [(i, s) for (i, s) in pool if dom[i]["exp"][s.mode]["status"] == "ok"]
        rng.shuffle(oks)
        rng.shuffle(aborts)
        solo = aborts[:600 if thorough else 90] + oks[:400 if thorough else 60]
        nsolo = 0
        for mode in ec.MODES:
            part = [(i, s) for (i, s) in solo if s.mode == mode]
            res = ec.run_solo_ego(ego, env, os.path.join(sd, "solo-" + mode), [dom[i] for i, s in part], ((), ("--types", mode)), timeout=900)
            stats["processes"] = stats.get("processes", 0) + len(part)
            for (i, s), (c, o, rr) in zip(part, res):
                if o["status"] == "timeout":
                    raise vf.NoVerdict("a generated program did not finish in time: " + c["key"])
                nsolo += 1
                d = adapter.judge(c, mode, o)
                if d is not None and d[0] == "type-name-alias":
                    d = ec.judge(c["exp"][mode], o, alias=True)
                if d is not None:
                    chk.violation("%s/%s/as-written/%s" % (c["key"], mode, d[0]),
                                  "run from its own main (ego run --types %s): %s" % (mode, d[1]),
                                  {"case": c, "mode": mode, "solo": True, "observed": o, "expected": c["exp"][mode], "program": ec.render(c)})
        # 4. binding self-test
        tested = rejected = 0
        for (i, s), (j, s2) in zip(conform, conform[1:]):
            if s.name != s2.name:
                continue
            ea, eb = dom[i]["exp"][s.mode], dom[j]["exp"][s.mode]
            if (ea["out"], ea["status"]) != (eb["out"], eb["status"]):
                tested += 1
                rejected += adapter.judge(dom[j], s.mode, obs[s.name][i]) is not None
            if tested >= 80:
                break
        for (i, s) in conform[:40]:
            if dom[i]["exp"][s.mode]["out"]:
                pert = json.loads(json.dumps(dom[i]))
                pert["exp"][s.mode]["out"][0] += "x"
                tested += 1
                rejected += adapter.judge(pert, s.mode, obs[s.name][i]) is not None
        if tested < 20 or rejected != tested:
            raise vf.NoVerdict("binding self-test failed: %d of %d wrong expectations rejected" % (rejected, tested))
        chk.cov["binding_selftest"] = "%d of %d wrong expectations (neighbouring program / perturbed line) rejected" % (rejected, tested)
        chk.cov["traces_validated_against_impl"] = nrun + nsolo
        chk.cov["evaluations"] = nrun + nsolo
        chk.cov["distinct_nontrivial"] = len(classes)
        chk.cov["programs"] = len(cases)
        chk.cov["runs_as_written"] = nsolo
        chk.cov["ego_processes"] = stats.get("processes", 0)
        chk.cov["by_family"] = {f: sum(1 for c in dom if c["fam"] == f) for f in sorted({c["fam"] for c in dom})}
        chk.cov["rule"] = ("case = one program of the template corpus with the output TLC computed (cross-checked against go1.26 in this run); "
                           "each program Go accepts runs under every --types mode in which the reference gives it its Go meaning and is "
                           "compared literally; distinct = (program identity = family + holes, mode)")
        chk.cov["exhaustive"] = True
        for c in dom[:2] + dom[-1:]:
            chk.sample({"key": c["key"], "program": ec.render(c).splitlines(), "expected": c["exp"]["strict"]})
    return chk.finish()

"""C42 - concurrent service requests do not see each other.
spec/ServiceIsolation (+_Gen, _Trace).  Stages: MC (repaired design) ; negative controls (each as-is defect must be
visible to the model) ; R gated replay of TLC interleavings through the real router + ServiceHandler ; T concurrent
batches (-race, GOMAXPROCS sweep, dispatch-loop yield) validated by TLC ; binding self-tests."""
import json, os, random, re
from concurrent.futures import ThreadPoolExecutor
import vf

PROP = "C42"
SPEC = "ServiceIsolation"
PKG = "internal/server/services"
HARNESS = [vf.kit(PKG, "services"),
           ("svciso/replay_test.go", PKG + "/zz_verif_c42_replay_test.go"),
           ("svciso/trace_test.go", PKG + "/zz_verif_c42_trace_test.go"),
           ("svciso/router_export.go", "internal/router/zz_verif_c42_export.go")]

# ---------------------------------------------------------------- generated services
# One Ego service per shape (set of observation keys of the specification).  The text only *drives* the real
# server; what each key must report is computed by TLC (Value in ServiceIsolation.tla).
DECL = {
    "loc": ['loc := p'],
    "arr": ['arr := []string{"", "x"}', 'arr[0] = p'],
    "mp":  ['mp := map[string]string{"k": ""}', 'mp["k"] = p'],
    "rec": ['rec := {f: ""}', 'rec.f = p'],
}
EXPR = {
    "parm": 'req.Parameters["p"][0]', "body": 'req.Body', "user": 'req.Username', "hdr": 'req.Headers["X-Verif"][0]',
    "partmap": 'req.URL.Parts["id"]', "partvar": 'id', "pkg": 'strings.ToLower(p)',
    "loc": 'loc', "arr": 'arr[0]', "mp": 'mp["k"]', "rec": 'rec.f', "fn": 'echo(p)',
}


def shape_key(keys):
    return "-".join(sorted(keys))


def service_text(n, keys, spin=6):
    keys = sorted(keys)
    out = ['@endpoint post path="/services/iso%d/{{id}}" parameter="p:string"' % n, '', 'import "http"', '',
           'func echo(v string) string {', '    t := v', '    return t', '}', '',
           'func handler(req http.Request, w *http.ResponseWriter) {',
           '    p := req.Parameters["p"][0]',
           '    if req.Headers["X-Boom"][0] == "1" {', '        z := 0', '        p = string(1 / z)', '    }']
    for k in keys:
        out += ['    ' + l for l in DECL.get(k, [])]
    out += ['    spin := 0', '    for i := 0; i < %d; i = i + 1 {' % spin, '        spin = spin + i', '    }']
    out += ['    result := {'] + ['        %s: %s,' % (k, EXPR[k]) for k in keys] + ['    }']
    out += ['    w.WriteHeader(200)', '    w.WriteJSON(result)', '}', '']
    return "\n".join(out)


def write_services(root, shapes):
    os.makedirs(os.path.join(root, "services"), exist_ok=True)
    man = {}
    for n, keys in enumerate(shapes):
        open(os.path.join(root, "services", "iso%d.ego" % n), "w").write(service_text(n, keys))
        man[shape_key(keys)] = {"path": "/services/iso%d" % n, "pattern": "/services/iso%d/{{id}}" % n, "part": "id"}
    json.dump(man, open(os.path.join(root, "manifest.json"), "w"), indent=1)
    return man


def gen_cfg(reqs, bad, shapes, evict, depth=24, defects=(), evicting_only=True):
    def tset(xs):
        return "{" + ", ".join('"%s"' % x for x in xs) + "}"
    return ("SPECIFICATION GenSpec\nCONSTANTS\n  Reqs = %s\n  Bad = %s\n  Shapes = {%s}\n  MaxEvict = %d\n"
            "  Defects = %s\n  Lock = TRUE\n  Depth = %d\n  EvictingOnly = %s\nINVARIANTS Emit\nCHECK_DEADLOCK FALSE\n"
            % (tset(reqs), tset(bad), ", ".join(tset(sorted(s)) for s in shapes), evict, tset(defects), depth,
               "TRUE" if evicting_only else "FALSE"))


ALLKEYS = ["parm", "body", "user", "hdr", "partmap", "partvar", "pkg", "loc", "arr", "mp", "rec", "fn"]
SHAPES = [ALLKEYS, ["partvar", "pkg", "parm"], ["body", "user", "loc", "fn"]]


def behaviours(chk, sd, cfgtext, name, simulate=None, seed=None, timeout=2400):
    """Behaviours of ServiceIsolation_Gen: exhaustive BFS (every path is a distinct state because of the history
    variable) or TLC simulation."""
    cfgname = "gen_%s.cfg" % re.sub(r"[^A-Za-z0-9]+", "_", name)
    r = vf.tlc(SPEC, SPEC + "_Gen", cfgname, sd, workers=1 if simulate else 4, simulate=simulate, depth=40 if simulate else None,
               seed=seed, timeout=timeout, files={cfgname: cfgtext})
    if r.violated or r.error or r.rc != 0:
        raise vf.NoVerdict("behaviour generation failed (%s): %s %s\n%s" % (name, r.violated, r.error, r.stdout[-2000:]))
    seen, out = set(), []
    for b in r.records:
        s = json.dumps(b, sort_keys=True)
        if s not in seen:
            seen.add(s)
            out.append(b)
    chk.add_tlc(r, name, count_states=False)
    if not out:
        raise vf.NoVerdict("generator %s produced no behaviours" % name)
    return out


def crash_info(p, progress):
    txt = (p.stdout or "") + (p.stderr or "")
    m = re.search(r"fatal error: [^\n]*", txt)
    pr = {}
    try:
        pr = json.load(open(progress))
    except Exception:
        pass
    return (m.group(0) if m else None), pr, txt


def replay(chk, sd, ov, behs, root, name, race=True):
    bf = vf.write_ndjson(os.path.join(sd, "beh-%s.ndjson" % name), behs)
    out = os.path.join(sd, "replay-%s.json" % name)
    for f in (out, out + ".progress"):
        if os.path.exists(f):
            os.remove(f)
    env = {"VERIF_IN": bf, "VERIF_OUT": out, "VERIF_SVCROOT": root, "VERIF_EGOPATH": vf.REPO, "VERIF_PROGRESS": out + ".progress"}
    p = vf.go_test(ov, "./" + PKG + "/", "^TestVerifC42Replay$", env=env, race=race, timeout=3000)
    if not os.path.exists(out):
        fatal, pr, txt = crash_info(p, out + ".progress")
        if fatal and pr:
            b = behs[pr["behaviour"]]
            chk.violation("crash/%s" % pr.get("act", "?"),
                          "the server process died (%s) while replaying a behaviour of the specification, at step %d (%s %s)"
                          % (fatal, pr["step"], pr.get("act"), pr.get("r")),
                          {"fatal": fatal, "progress": pr, "calls": [s["call"] for s in b["steps"][:pr["step"] + 1]],
                           "svc": b["svc"], "bad": b["bad"], "output": txt[-3000:]})
            return None
        raise vf.NoVerdict("replay harness produced no result (rc=%d)\n%s\n%s" % (p.returncode, p.stdout[-3000:], p.stderr[-3000:]))
    if race and "DATA RACE" in p.stdout + p.stderr:
        for k, txt in race_reports(p.stdout + p.stderr).items():
            chk.violation(k, "race detector report while replaying gated service requests", txt)
    res = json.load(open(out))
    if res["behaviours"] != len(behs) and not res.get("mismatches"):
        raise vf.NoVerdict("replay stopped early: %s of %s" % (res["behaviours"], len(behs)))
    return res


def mismatch_key(m):
    path = re.sub(r"\.r\d+", ".r*", m["path"])
    path = re.sub(r"\[\d+\]", "[*]", path)
    return "replay/%s/%s" % (m["act"], path)


def race_reports(out):
    """one (key, text) per distinct pair of racing functions in a race-detector output"""
    reps = {}
    for blk in out.split("WARNING: DATA RACE")[1:]:
        blk = blk.split("==================")[0]
        tops = re.findall(r"^(?:Write|Read|Previous write|Previous read|Atomic \w+|Previous atomic \w+) at [^\n]*\n\s+(\S+?)\(\)\n", blk, re.M)
        fn = sorted(set(re.sub(r"^.*/internal/", "", t) for t in tops)) or ["?"]
        reps.setdefault("race/" + "|".join(fn), blk[:4000])
    return reps


def trace_key(rt, info):
    key = "trace/" + (rt.violated or "unexplained-event")
    if info.get("context"):
        try:
            key += "/" + json.loads(info["context"][-1]).get("ev", "?")
        except Exception:
            pass
    return key


def concurrent(ov, sd, root, runs, n, race=True):
    tr = os.path.join(sd, "trace.ndjson")
    env = {"VERIF_OUT": tr, "VERIF_SVCROOT": root, "VERIF_EGOPATH": vf.REPO, "VERIF_RUNS": str(runs), "VERIF_N": str(n),
           "VERIF_SEED": str(vf.SEED)}
    p = vf.go_test(ov, "./" + PKG + "/", "^TestVerifC42Concurrent$", env=env, race=race, timeout=3000)
    return p, tr


def run():
    thorough = vf.TIER == "thorough"
    chk = vf.Check(PROP)
    chk.assumptions += [
        "one endpoint per behaviour; requests reach ServiceHandler through the real router.ServeHTTP in-process (httptest recorder), users are bearer tokens of the real token package",
        "ego.compiler.import = true (the default of a server profile): compiling a service auto-imports the packages into the compiling request's table",
        "a replayed step is the code between two verifGate points; interleavings inside a step (bytecode level) are only sampled (yield hook, GOMAXPROCS sweep, -race)",
        "a request the specification says is parked on the first-use lock of its route is watched for 100 ms only (a lock that does not block can be missed, never falsely reported)",
        "trace validation does not model the first-use lock of the route (its critical sections are not logged); the gated replay does"]
    with vf.scratch() as sd:
        root = os.path.join(sd, "svcroot")
        write_services(root, SHAPES)
        ov = vf.make_overlay(sd, HARNESS)
        W = 4
        sims = [(["r3"], SHAPES, 700 if thorough else 70, 2), ([], [SHAPES[1]], 300 if thorough else 30, 1)]
        with ThreadPoolExecutor(max_workers=12) as ex:
            f_mc = ex.submit(vf.tlc, SPEC, SPEC, SPEC + ("_MC.cfg" if thorough else "_MCq.cfg"), sd, workers=W, timeout=4000)
            f_mc2 = ex.submit(vf.tlc, SPEC, SPEC, SPEC + "_MC2.cfg", sd, workers=W, timeout=4000) if thorough else None
            f_neg = {d: ex.submit(vf.tlc, SPEC, SPEC, SPEC + "_MC_%s.cfg" % d, sd, workers=2, timeout=2000)
                     for d in ("parts", "unsaved", "unlock")}
            f_gen = [ex.submit(behaviours, chk, sd, gen_cfg(["r1", "r2", "r3"], bad, shapes, ev, evicting_only=(i == 0)), "gen simulate %d" % i,
                               "num=%d" % num, vf.SEED * 10 + i) for i, (bad, shapes, num, ev) in enumerate(sims)]
            f_ex = ex.submit(behaviours, chk, sd, gen_cfg(["r1", "r2"], ["r2"], [SHAPES[1]], 2, depth=30, evicting_only=False), "gen exhaustive 2 requests") if thorough else None
            # T driver starts right away (it needs nothing from TLC)
            f_conc = ex.submit(concurrent, ov, sd, root, 32 if thorough else 8, 32 if thorough else 16)
            # 1. the repaired design satisfies C42 (exhaustive at the stated bound)
            r = vf.tlc_ok(f_mc.result(), "ServiceIsolation MC")
            chk.add_tlc(r, "MC repaired design")
            if f_mc2:
                chk.add_tlc(vf.tlc_ok(f_mc2.result(), "ServiceIsolation MC no failing request"), "MC repaired design, no failing request")
            # 2. negative controls: every as-is defect must be visible to the model (vacuity guard)
            for d, want in (("parts", "Isolated"), ("unsaved", "Isolated"), ("unlock", "NoCrash")):
                rn = f_neg[d].result()
                if rn.violated != want:
                    raise vf.NoVerdict("negative control: defect %s did not violate %s (%s %s)" % (d, want, rn.violated, rn.error))
                chk.add_tlc(rn, "negative control (%s as is) violates %s" % (d, want), count_states=False)
            # 3. R: interleavings chosen by TLC forced on the real handler
            behs = []
            if f_ex:
                behs += f_ex.result()
                chk.cov["exhaustive_2req"] = len(behs)
            for f in f_gen:
                behs += f.result()
            # vacuity guard: the behaviours contain requests that finish after the route went back to first use
            # (counter reset by an eviction while they were in flight) and requests that waited on the first-use lock
            strag = waited = 0
            for b in behs:
                prev = {"counter": 0, "locked": False}
                for s in b["steps"]:
                    if s["call"]["act"] == "Leave" and prev["counter"] == 0 and not prev["locked"]:
                        strag += 1
                    if s["call"]["reply"] == "waiting":
                        waited += 1
                    prev = s["st"]["route"]
            chk.cov["replay_straggler_leaves"], chk.cov["replay_waiting_arrivals"] = strag, waited
            if strag == 0 or waited == 0:
                raise vf.NoVerdict("generated behaviours too weak: %d straggler leaves, %d waiting arrivals" % (strag, waited))
            # the last behaviour handed to the harness is the binding self-test (R): a copy of a generated behaviour
            # with one perturbed expected value, which must be reported as a mismatch
            rng = random.Random(vf.SEED)
            cand = [b for b in behs if any(s["st"]["resp"] for s in b["steps"])]
            if not cand:
                raise vf.NoVerdict("self-test: no generated behaviour delivers a response")
            pb = json.loads(json.dumps(rng.choice(cand[:50])))
            si = max(i for i, s in enumerate(pb["steps"]) if s["st"]["resp"])
            rr = sorted(pb["steps"][si]["st"]["resp"])[0]
            pb["steps"][si]["st"]["resp"][rr]["status"] = 299
            res = replay(chk, sd, ov, behs + [pb], root, "main")
            if res is not None:
                mism = [m for m in res.get("mismatches") or [] if m["behaviour"] < len(behs)]
                selfm = [m for m in res.get("mismatches") or [] if m["behaviour"] == len(behs)]
                for m in mism:
                    chk.violation(mismatch_key(m), "real code differs from the specification at %s after %s: spec=%s real=%s"
                                  % (m["path"], m["act"], m["want"], m["got"]), m)
                if not mism:
                    # (only judged when the replay itself was clean: a diverging tree stops the perturbed behaviour early)
                    if res["behaviours"] != len(behs) + 1 or not any(".resp" in m["path"] for m in selfm):
                        raise vf.NoVerdict("binding self-test (R) failed: a perturbed expected response was not reported")
                    chk.cov["binding_selftest_R"] = "perturbed expected response status reported as mismatch"
                chk.cov["traces_validated_against_impl"] += min(res["behaviours"], len(behs))
                chk.cov["evaluations"] += res["steps"]
                chk.cov["distinct_nontrivial"] += res["transitions"]
                chk.cov["replay_act_counts"] = res["act_counts"]
                chk.cov["replay_extra"] = res.get("extra")
                chk.sample({"kind": "replayed behaviour (calls only)", "svc": behs[0]["svc"], "calls": [s["call"] for s in behs[0]["steps"]]})
            # 4. T: concurrent batches of the real handler validated against the spec
            p, tr = f_conc.result()
        out = p.stdout + p.stderr
        fatal = re.search(r"fatal error: [^\n]*", out)
        if "DATA RACE" in out:
            for k, txt in race_reports(out).items():
                chk.violation(k, "race detector report in concurrent service requests", txt)
        elif fatal:
            chk.violation("crash/concurrent", "the server process died during a concurrent batch: " + fatal.group(0), out[-6000:])
        elif p.returncode != 0 or not os.path.exists(tr):
            raise vf.NoVerdict("concurrent driver failed\n" + p.stdout[-3000:] + p.stderr[-2000:])
        else:
            lines = open(tr).read().splitlines()
            nev = len(lines)
            nruns = sum(1 for l in lines if '"ev":"Reset"' in l)
            rt = vf.trace_validate(chk, SPEC, SPEC + "_Trace", SPEC + "_Trace.cfg", sd, tr, name="trace validation (concurrent batches)", timeout=2400)
            if not rt.accepted:
                info = vf.trace_reject_info(rt, tr)
                chk.violation(trace_key(rt, info), "a recorded concurrent batch is not a behaviour of the specification: %s" % json.dumps(info)[:1800],
                              {"info": info, "trace": lines[: (rt.highwater or (0, 0))[0] + 5][-300:]})
            else:
                chk.cov["traces_validated_against_impl"] += nruns
                chk.cov["evaluations"] += nev
                chk.cov["trace_events"] = nev
                evs = [json.loads(l) for l in lines]
                chk.cov["trace_event_counts"] = {k: sum(1 for e in evs if e["ev"] == k) for k in sorted(set(e["ev"] for e in evs))}
                # vacuity guards: the batches really overlapped, hit the cache, missed it, and were flushed
                need = {"ReadS": 1, "Add": 2, "Flush": 1, "RunErr": 1}
                for k, v in need.items():
                    if chk.cov["trace_event_counts"].get(k, 0) < v:
                        raise vf.NoVerdict("concurrent driver too weak: %d %s events" % (chk.cov["trace_event_counts"].get(k, 0), k))
                # 5. binding self-test (T): a corrupted response field and a dropped event must be rejected
                # (on the first recorded blocks only: validating the whole log again twice would double the cost)
                rng = random.Random(vf.SEED)
                resets = [i for i, e in enumerate(evs) if e["ev"] == "Reset"]
                cut = resets[3] if len(resets) > 3 else len(lines)
                resps = [i for i, e in enumerate(evs[:cut]) if e["ev"] == "Resp" and e["status"] == 200]
                saves = [i for i, e in enumerate(evs[:cut]) if e["ev"] == "Finish" and e["saved"]]
                if not resps or not saves:
                    raise vf.NoVerdict("self-test: the first recorded batches contain no successful response / no saved symbols")
                i = rng.choice(resps)
                e = json.loads(lines[i]); k = sorted(e["body"])[0]; e["body"][k] = "r999_" + k
                c1 = lines[:i] + [json.dumps(e)] + lines[i + 1:cut]
                j = rng.choice(saves)
                c2 = lines[:j] + lines[j + 1:cut]
                with ThreadPoolExecutor(max_workers=2) as ex:
                    def val(cl, nm):
                        pth = os.path.join(sd, "corrupt-%s.ndjson" % nm)
                        open(pth, "w").write("\n".join(cl) + "\n")
                        return vf.trace_validate(chk, SPEC, SPEC + "_Trace", SPEC + "_Trace.cfg", sd, pth, name=None, timeout=2400)
                    fs = [(nm, ex.submit(val, cl, nm)) for nm, cl in (("response", c1), ("dropped", c2))]
                    for nm, f in fs:
                        if f.result().accepted:
                            raise vf.NoVerdict("binding self-test (T) failed: trace with corrupted %s was accepted" % nm)
                chk.cov["binding_selftest_T"] = "foreign value in a response and dropped Finish(saved) event both rejected"
                chk.sample({"kind": "recorded concurrent events", "events": evs[:10]})
        chk.cov["rule"] = ("behaviours = paths of ServiceIsolation_Gen (gate-to-gate steps of 2-3 concurrent requests + flushes) replayed on the real handler; "
                           "non-trivial+distinct = distinct (spec state before, step) pairs executed; "
                           "trace events = critical sections, gates and responses of concurrent real batches accepted by ServiceIsolation_Trace")
        chk.cov["exhaustive"] = False
    return chk.finish()

"""C04 - strict-mode programs mean the same under relaxed typing.
spec/Ego/EgoCore.tla + EgoCore_Prog.tla: TLC enumerates programs that sit on the four coercion boundaries (assignment,
expression, argument, return; constant vs non-constant, lossless vs lossy, same vs different kind) plus the rest of the
corpus, computes what each must print under strict and under relaxed typing, and checks the theorem StrictIncluded on the
documented rules (a program strict mode accepts has the same outcome in relaxed mode).  Negative control: a semantics in
which relaxed mode promotes a constant like a typed value must violate StrictIncluded.
R binding: every program (and every arithmetic cell of EgoTypes_Arith) is run on the real `ego run --types strict` and
`--types relaxed`, at optimizer levels 0 and 2.  Whenever the real strict run ends without a typing rejection, the relaxed
run must show exactly the same output and end; both are also compared with TLC's expectation so that a divergence is
attributed (strict differs / relaxed differs / both differ alike = not a C04 matter)."""
import json, os, random, re, sys
from concurrent.futures import ThreadPoolExecutor
import vf

sys.path.insert(0, os.path.join(vf.VERIF, "lib"))
import egocore as ec

PROP = "C04"


def settings_for(opts):
    out = []
    for o in opts:
        for m in ("strict", "relaxed"):
            out.append(ec.Setting("o%d/%s" % (o, m), m, post=["-o", str(o)], feat={"opt": o, "mode": m}))
    return out


def rejected_for_typing(adapter, o):
    """did the real strict run refuse the program for a typing reason ?"""
    if adapter.name == "arith":
        return o.get("err") is not None and ec.err_class(o["err"]) == "type"
    return o.get("status") == "error" and o.get("ec") == "type"


def diff_text(adapter, a, b):
    if adapter.name == "arith":
        return "strict: result %s error %s; relaxed: result %s error %s" % (a.get("R"), a.get("err"), b.get("R"), b.get("err"))
    d = ec.judge({"out": a["out"], "status": a["status"], "ec": a["ec"], "pv": a["pv"]}, b, alias=True)
    return "relaxed run differs from the strict run: %s" % (d[1] if d else "?")


def diff_class(adapter, a, b):
    if adapter.name == "arith":
        if (a.get("err") is None) != (b.get("err") is None):
            return "relaxed-rejects" if b.get("err") is not None else "relaxed-accepts"
        return "relaxed-result"
    d = ec.judge({"out": a["out"], "status": a["status"], "ec": a["ec"], "pv": a["pv"]}, b, alias=True)
    return "relaxed:" + (d[0] if d else "?")


def assess(chk, adapter, cases, opts, obs, rerun, notes):
    """the property on the real code, case by case and optimizer level by optimizer level"""
    byname = {s.name: s for s in settings_for(opts)}

    def pair(i, o):
        return obs["o%d/strict" % o].get(i), obs["o%d/relaxed" % o].get(i)

    def violates(a, b):
        return a is not None and b is not None and not rejected_for_typing(adapter, a) and not adapter.same(a, b) \
            and not str(a.get("status", "")).startswith(("notrun", "timeout")) and not str(b.get("status", "")).startswith(("notrun", "timeout"))
    suspects = [(i, o) for i in range(len(cases)) for o in opts if violates(*pair(i, o))][:300]
    if suspects:     # before they are blamed, both runs are repeated, each in a process of its own
        prs = []
        for i, o in suspects:
            prs += [(cases[i], byname["o%d/strict" % o]), (cases[i], byname["o%d/relaxed" % o])]
        res = rerun(prs)
        for n, (i, o) in enumerate(suspects):
            a2, b2 = res[2 * n], res[2 * n + 1]
            if not violates(a2, b2):
                chk.violation("interference/%s/%s" % (adapter.name, cases[i].get("fam", "")),
                              "%s: strict and relaxed runs agree when run alone but not after other cases in the same process (-o %d)"
                              % (adapter.key(cases[i]), o), {"adapter": adapter.name, "case": cases[i], "opt": o})
            obs["o%d/strict" % o][i], obs["o%d/relaxed" % o][i] = a2, b2
    npairs, accepted, classes = 0, 0, set()
    for i, c in enumerate(cases):
        for o in opts:
            a, b = pair(i, o)
            if a is None or b is None:
                continue
            npairs += 1
            ds = adapter.judge(c, "strict", a) if adapter.wf(c, "strict") else None
            dr = adapter.judge(c, "relaxed", b) if adapter.wf(c, "relaxed") else None
            classes.add(adapter.key(c))
            if rejected_for_typing(adapter, a):
                if ds is not None and ds[0] != "setup":
                    notes["strict-rejects-more"][adapter.key(c)] = ds[1]      # strict only removes programs: not a C04 matter
                continue
            accepted += 1
            if violates(a, b):
                chk.violation("%s/o%d/%s" % (adapter.key(c), o, diff_class(adapter, a, b)),
                              "accepted by --types strict (-o %d) but means something else under --types relaxed: %s%s"
                              % (o, diff_text(adapter, a, b),
                                 "" if ds is None and dr is None else " [reference: strict %s, relaxed %s]" % (ds[0] if ds else "conforms", dr[0] if dr else "conforms")),
                              {"adapter": adapter.name, "case": c, "opt": o, "strict": {k: v for k, v in a.items() if k != "_file"},
                               "relaxed": {k: v for k, v in b.items() if k != "_file"}, "source": adapter.text([c])})
            elif ds is not None and ds[0] != "setup":
                notes["both-differ-alike"][adapter.key(c)] = ds[1]            # same meaning in both modes, other than the reference's
    return npairs, accepted, classes


def replay(path):
    rp = json.load(open(path))["replay"]
    case, o = rp["case"], rp.get("opt", 0)
    ad = {"core": ec.CoreAdapter, "arith": ec.ArithAdapter}[rp.get("adapter", "core")]()
    with vf.scratch() as sd:
        ego = ec.build_ego(sd)
        ss = settings_for([o])
        a, b = ec.rerun_alone(ego, vf.ego_env(sd), sd, ad, [(case, ss[0]), (case, ss[1])])
    print(ad.text([case]))
    print("strict :", {k: v for k, v in a.items() if k != "_file"})
    print("relaxed:", {k: v for k, v in b.items() if k != "_file"})
    if not rejected_for_typing(ad, a) and not ad.same(a, b):
        print("VIOLATION property=%s replay=%s" % (PROP, path))
        return 1
    print("conforms")
    return 0


def run():
    if os.environ.get("VERIF_REPLAY"):
        return replay(os.environ["VERIF_REPLAY"])
    thorough = vf.TIER == "thorough"
    chk = vf.Check(PROP)
    rng = random.Random(vf.SEED)
    opts = [0, 2]
    chk.assumptions += [
        "programs are those of the EgoCore_Prog templates (notably the families expr / asgb / call / cmp / acc, which sit on the "
        "expression, assignment, argument and return boundaries) and the arithmetic cells of EgoTypes_Arith",
        "'accepted by strict mode' is read off the real run: it ended without a typing rejection (type mismatch, invalid type, "
        "argument type, data loss ...); other ends (division by zero, index, panic) count as accepted and must be the same in relaxed mode",
        "a program the real strict mode rejects although the reference accepts it, and a program that differs from the reference in the "
        "same way in both modes, are not C04 matters (counted, not reported)",
        "optimizer levels 0 and 2; cases share a process through a try/catch + recover wrapper; suspects are re-run alone"]
    with vf.scratch() as sd:
        env = vf.ego_env(sd)
        with ThreadPoolExecutor(max_workers=5) as ex:
            f_bin = ex.submit(ec.build_ego, sd)
            f_core = ex.submit(ec.gen_cases, sd, "EgoCore_Prog_MC.cfg" if thorough else "EgoCore_Prog_MCq.cfg", None, None, 3000 if thorough else 1200)
            f_neg = ex.submit(ec.gen_cases, sd, "EgoCore_Prog_MC_relax.cfg", None, None, 900, 2)
            atext = re.sub(r"Seed = \d+", "Seed = %d" % vf.SEED,
                           open(os.path.join(vf.VERIF, "spec", "Ego", "EgoTypes_Arith_MC.cfg" if thorough else "EgoTypes_Arith_MCq.cfg")).read())
            f_ar = ex.submit(vf.tlc, "Ego", "EgoTypes_Arith", "run.cfg", sd, files={"run.cfg": atext}, timeout=3000, keep_stdout=False, workers=2)
            r = vf.tlc_ok(f_core.result(), "EgoCore_Prog MC")
            chk.add_tlc(r, "EgoCore_Prog: corpus enumerated, theorem StrictIncluded checked")
            core = ec.cases_of(r)
            rn = f_neg.result()
            if rn.violated != "StrictIncluded":
                raise vf.NoVerdict("negative control: promoting constants in relaxed mode did not violate StrictIncluded (%s %s)" % (rn.violated, rn.error))
            chk.add_tlc(rn, "negative control (relaxed mode promotes constants) violates StrictIncluded", count_states=False)
            ra = vf.tlc_ok(f_ar.result(), "EgoTypes_Arith")
            chk.add_tlc(ra, "EgoTypes_Arith: arithmetic cells, theorem StrictIncluded on the rule table (C03 generator)", count_states=False)
            arith = [c for c in ra.records if isinstance(c, dict) and "form" in c and c["exp"]["strict"]["wf"] and c["exp"]["relaxed"]["wf"]]
            ego = f_bin.result()
        core = [c for c in core if c["exp"]["strict"]["wf"] or c["exp"]["relaxed"]["wf"]]
        if len(core) < 200 or len(arith) < 500:
            raise vf.NoVerdict("generators too weak: %d programs, %d cells" % (len(core), len(arith)))
        rng.shuffle(arith)
        arith = arith[:12000 if thorough else 1600]
        onbound = sum(1 for c in core if c["fam"] in ("expr", "asgb", "call", "cmp", "acc"))
        vf.log("corpus: %d programs (%d on the coercion boundaries), %d arithmetic cells" % (len(core), onbound, len(arith)))
        stats = {}
        notes = {"strict-rejects-more": {}, "both-differ-alike": {}}
        tot = acc = 0
        classes = set()
        keep = None
        for adapter, cases in ((ec.CoreAdapter(alias=True), core), (ec.ArithAdapter(), arith)):
            # both runs are wanted even where the reference has no expectation: the adapter's domain test is widened
            class Both(type(adapter)):
                def wf(self, c, mode):
                    return True
            runner = Both() if adapter.name == "arith" else Both(alias=True)
            obs = ec.run_matrix(ego, env, sd, runner, cases, settings_for(opts), nproc=8, stats=stats)

            def rerun(pairs, runner=runner):
                stats["processes"] = stats.get("processes", 0) + len(pairs)
                return ec.rerun_alone(ego, env, sd, runner, pairs)
            n, a, cl = assess(chk, adapter, cases, opts, obs, rerun, notes)
            tot += n
            acc += a
            classes |= cl
            if adapter.name == "core":
                keep = (adapter, cases, obs)
        if acc * 3 < tot:
            raise vf.NoVerdict("only %d of %d strict runs were accepted: the corpus does not exercise the property" % (acc, tot))
        # binding self-test: the relaxed observation of a neighbouring program must be recognised as different
        adapter, cases, obs = keep
        tested = rejected = 0
        idx = sorted(obs["o0/strict"])
        for i, j in zip(idx, idx[1:]):
            a, b = obs["o0/strict"][i], obs["o0/relaxed"].get(j)
            if b is None or rejected_for_typing(adapter, a) or not adapter.same(a, obs["o0/relaxed"][i]):
                continue
            if (cases[i]["exp"]["relaxed"]["out"], cases[i]["exp"]["relaxed"]["status"]) != (cases[j]["exp"]["relaxed"]["out"], cases[j]["exp"]["relaxed"]["status"]) \
                    and cases[i]["exp"]["relaxed"]["wf"] and cases[j]["exp"]["relaxed"]["wf"] and adapter.judge(cases[j], "relaxed", b) is None:
                tested += 1
                rejected += not adapter.same(a, b)
            if tested >= 80:
                break
        if tested < 20 or rejected != tested:
            raise vf.NoVerdict("binding self-test failed: %d of %d foreign relaxed observations recognised" % (rejected, tested))
        chk.cov["binding_selftest"] = "%d of %d relaxed observations of a neighbouring program recognised as different from the strict run" % (rejected, tested)
        chk.cov["traces_validated_against_impl"] = tot
        chk.cov["evaluations"] = tot * 2
        chk.cov["strict_accepted_pairs"] = acc
        chk.cov["distinct_nontrivial"] = len(classes)
        chk.cov["programs"] = len(core)
        chk.cov["programs_on_boundaries"] = onbound
        chk.cov["arith_cells"] = len(arith)
        chk.cov["ego_processes"] = stats.get("processes", 0)
        chk.cov["strict_rejects_more_than_reference"] = len(notes["strict-rejects-more"])
        chk.cov["both_modes_differ_alike_from_reference"] = len(notes["both-differ-alike"])
        chk.cov["not_c04_examples"] = ["%s: %s" % (k, v[:120]) for d in notes.values() for k, v in sorted(d.items())[:6]]
        chk.cov["rule"] = ("pair = (program or cell, optimizer level) run under --types strict and --types relaxed; every pair whose strict run "
                           "ends without a typing rejection is compared for equality of output and end; both runs are also compared with "
                           "TLC's expectation; distinct = case identities (family + holes / cell key)")
        chk.cov["exhaustive"] = False
        for c in [c for c in core if c["fam"] in ("call", "asgb", "expr")][:3]:
            chk.sample({"key": c["key"], "program": ec.render(c).splitlines(), "expected": {m: c["exp"][m] for m in ("strict", "relaxed")}})
    return chk.finish()

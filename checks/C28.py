"""C28 - server caches behave like bounded expiring maps.
spec/Caches (+_Gen, _Trace).  Stages: MC (design) ; negative control ; R replay ; T concurrent trace ; binding self-test."""
import json, os, random
import vf

PROP = "C28"
HARNESS = [vf.kit("internal/caches", "caches"),
           ("caches/replay_test.go", "internal/caches/zz_verif_replay_test.go"),
           ("caches/trace_test.go", "internal/caches/zz_verif_trace_test.go")]


def run():
    thorough = vf.TIER == "thorough"
    chk = vf.Check(PROP)
    chk.assumptions += [
        "time is virtual: one tick = 1h; the harness ages stored deadlines instead of sleeping (background sweepers are parked, sweepExpired is driven explicitly)",
        "the limit is installed through MaxCacheSize before a cache is created (the settings override is not exercised)",
        "concurrent schedules of the real package are sampled (Go scheduler, -race build); every interleaving is explored on the model only"]
    with vf.scratch() as sd:
        # 1. the design satisfies C28 (exhaustive at the stated bound)
        r = vf.tlc_ok(vf.tlc("Caches", "Caches", "Caches_MC.cfg" if thorough else "Caches_MCq.cfg", sd,
                             timeout=1500, coverage=False), "Caches MC")
        chk.add_tlc(r, "MC fixed")
        if thorough:
            r2 = vf.tlc_ok(vf.tlc("Caches", "Caches", "Caches_MC2.cfg", sd, timeout=1500), "Caches MC 2 classes")
            chk.add_tlc(r2, "MC fixed, 2 classes")
            rl = vf.tlc_ok(vf.tlc("Caches", "Caches", "Caches_Live.cfg", sd, timeout=600), "Caches liveness")
            chk.add_tlc(rl, "liveness: every eviction is eventually reported")
        # 2. negative control: the model must be able to see the lifetime defect (vacuity guard)
        rn = vf.tlc("Caches", "Caches", "Caches_MC_asis.cfg", sd, timeout=600)
        if rn.violated != "LifeKept":
            raise vf.NoVerdict("negative control: as-is purge variant did not violate LifeKept (%s)" % rn.violated)
        chk.add_tlc(rn, "negative control (as-is purge) violates LifeKept", count_states=False)
        # 3. R: behaviours of the spec replayed on the real package
        behs = vf.gen_behaviours(chk, "Caches", "Caches_Gen", "Caches_Gen.cfg", sd,
                                 num=600 if thorough else 120, depth=14)
        bf = vf.write_ndjson(os.path.join(sd, "beh.ndjson"), behs)
        ov = vf.make_overlay(sd, HARNESS)
        out = os.path.join(sd, "replay.json")
        p = vf.run_harness(sd, ov, "./internal/caches/", "TestVerifCachesReplay",
                           {"VERIF_IN": bf, "VERIF_OUT": out}, expect_out=out)
        res = json.load(open(out))
        if res["behaviours"] != len(behs) and not res.get("mismatches"):
            raise vf.NoVerdict("replay stopped early: %s of %s" % (res["behaviours"], len(behs)))
        vf.replay_violations(chk, res)
        chk.cov["traces_validated_against_impl"] += res["behaviours"]
        chk.cov["evaluations"] += res["steps"]
        chk.cov["distinct_nontrivial"] += res["transitions"]
        chk.cov["replay_act_counts"] = res["act_counts"]
        chk.sample({"kind": "replayed behaviour (calls only)", "calls": [s["call"] for s in behs[0]]})
        # 4. T: concurrent executions of the real package validated against the spec
        tr = os.path.join(sd, "trace.ndjson")
        runs = 120 if thorough else 25
        p = vf.run_harness(sd, ov, "./internal/caches/", "TestVerifCachesConcurrent",
                           {"VERIF_OUT": tr, "VERIF_RUNS": str(runs), "VERIF_SEED": str(vf.SEED),
                            "VERIF_WORKERS": "8" if thorough else "6"}, race=True, expect_out=tr)
        if "DATA RACE" in p.stdout + p.stderr:
            chk.violation("race/caches", "race detector report in concurrent cache operations", (p.stdout + p.stderr)[-6000:])
        elif p.returncode != 0:
            raise vf.NoVerdict("concurrent driver failed\n" + p.stdout[-3000:] + p.stderr[-2000:])
        nev = sum(1 for _ in open(tr))
        rt = vf.trace_validate(chk, "Caches", "Caches_Trace", "Caches_Trace.cfg", sd, tr, name="trace validation (concurrent runs)")
        if not rt.accepted:
            info = vf.trace_reject_info(rt, tr)
            key = "trace/" + (rt.violated or "unexplained-event")
            if info.get("context"):
                key += "/" + json.loads(info["context"][-1]).get("ev", "?")
            chk.violation(key, "a recorded concurrent execution is not a behaviour of the specification: %s" % json.dumps(info)[:1500],
                          {"info": info, "trace": open(tr).read().splitlines()[: (rt.highwater or (0, 0))[0] + 5][-400:]})
        else:
            chk.cov["traces_validated_against_impl"] += runs
            chk.cov["evaluations"] += nev
            chk.cov["trace_events"] = nev
            # 5. binding self-test: a corrupted field and a dropped event must be rejected
            lines = open(tr).read().splitlines()
            rng = random.Random(vf.SEED)
            hits = [i for i, l in enumerate(lines) if '"ev":"Find"' in l and '"reply":"miss"' not in l]
            dels = [i for i, l in enumerate(lines) if '"ev":"Delete"' in l and '"reply":"true"' in l]
            if not hits or not dels:
                raise vf.NoVerdict("self-test: the recorded runs contain no Find hit / successful Delete (driver too weak)")
            i = rng.choice(hits)
            e = json.loads(lines[i]); e["reply"] = "bogus"
            c1 = lines[:i] + [json.dumps(e)] + lines[i + 1:]
            j = rng.choice(dels)
            c2 = lines[:j] + lines[j + 1:]
            for nm, cl in (("corrupted reply", c1), ("dropped event", c2)):
                pth = os.path.join(sd, "corrupt.ndjson")
                open(pth, "w").write("\n".join(cl) + "\n")
                rc = vf.trace_validate(chk, "Caches", "Caches_Trace", "Caches_Trace.cfg", sd, pth, name=None)
                if rc.accepted:
                    raise vf.NoVerdict("binding self-test failed: trace with %s was accepted" % nm)
            chk.cov["binding_selftest"] = "corrupted Find reply and dropped Delete event both rejected"
            chk.sample({"kind": "recorded concurrent events", "events": [json.loads(l) for l in lines[:8]]})
        chk.cov["rule"] = ("behaviours = TLC simulation of Caches_Gen (depth 14, all successors of the last state); "
                           "non-trivial+distinct = distinct (spec state before, call) pairs executed on the real package; "
                           "trace events = critical sections of concurrent real runs accepted by Caches_Trace")
        chk.cov["exhaustive"] = False
    return chk.finish()

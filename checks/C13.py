"""C13 - `ego test` isolates each test.
spec/TestRunner (+_Gen).  Stages:
  1. TLC, exhaustive: every test file of up to N blocks over (kind x variant); invariants Isolation / Counts / Prefix
     hold on the design; each finished run is emitted as a case (file, expected report, expected summary counts).
  2. negative control: the as-is splitter (brace counting) must violate Isolation.
  3. TLC -simulate: random longer files (seeded by VERIF_SEED).
  4. R: every case is written out as an Ego test file and run by the real `ego test`; the PASS / FAIL / error lines
     and the summary line are parsed back and compared for equality with TLC's report.  Several files are handed to
     one `ego test` process (a directory, run in name order; a file that contains an explicit @fail comes last);
     a file whose result differs there is run again alone before it is blamed.
  5. binding self-test: the observations of one file compared with the expectation of another must be rejected.
"""
import json, os, random
from concurrent.futures import ThreadPoolExecutor
import vf, egoctl

PROP = "C13"
PERDIR = 24
STRIDE = 400        # first line of the j-th file of a directory is j*STRIDE+1 (line numbers identify the block)


def _dedupe(recs):
    seen, out = set(), []
    for c in recs:
        if not (isinstance(c, dict) and "file" in c and "report" in c):
            continue
        k = " ".join("%s/%s" % (t["k"], t["v"]) for t in c["file"])
        if k not in seen:
            seen.add(k)
            c["key"] = k
            out.append(c)
    return out


def _expect(case, blocks):
    return [(blocks[r["t"] - 1]["name"], r["r"]) for r in case["report"]]


def _run_dirs(ego, env, sd, dirs, tag):
    """dirs: list of lists of cases.  -> [(cases, [blocks per case], (rc, out, err), dirpath)]"""
    jobs, meta = [], []
    for n, cs in enumerate(dirs):
        d = os.path.join(sd, "%s%d" % (tag, n))
        os.makedirs(d)
        bl = []
        for j, c in enumerate(cs):
            fid = "f%03d" % j
            text, blocks = egoctl.render_testfile(c, fid, first_line=j * STRIDE + 1)
            open(os.path.join(d, fid + ".ego"), "w").write(text)
            bl.append(blocks)
        jobs.append(([ego, "test", d], None, d, env))
        meta.append((cs, bl, d))
    res = vf.run_many(jobs, nproc=min(vf.NCPU, 16), timeout=600)
    for i, r in enumerate(res):         # a process that printed no summary line at all never got to the tests: once more
        if r[0] is not None and "TEST: Completed" not in r[1] and "TEST: " not in r[1]:
            res[i] = vf.run_many([jobs[i]], nproc=1, timeout=600)[0]
    slow = [i for i, r in enumerate(res) if r[0] is None]
    if slow:                            # an overloaded machine, not a verdict: once more, fewer at a time, longer
        for i, r in zip(slow, vf.run_many([jobs[i] for i in slow], nproc=4, timeout=2400)):
            res[i] = r
    if any(r[0] is None for r in res):
        raise vf.NoVerdict("%d `ego test` processes did not finish within 2400 s" % sum(r[0] is None for r in res))
    return [(cs, bl, r, d) for (cs, bl, d), r in zip(meta, res)]


def _judge(cs, bl, res):
    """-> (list of indices of files whose own report differs, summary ok?, observation)"""
    rc, so, se = res
    allb = [b for blocks in bl for b in blocks]
    obs = egoctl.observe_tests(so, se, allb)
    got = {}
    for name, r in obs["report"]:
        got.setdefault(name.split(".")[0], []).append((name, r))
    bad = [j for j, (c, blocks) in enumerate(zip(cs, bl)) if got.get("f%03d" % j, []) != _expect(c, blocks)]
    want_total = sum(c["passed"] + c["failed"] for c in cs)
    want_failed = sum(c["failed"] for c in cs)
    sum_ok = (obs["total"], obs["failed"]) == (want_total, want_failed) and not obs["unattributed"]
    return bad, sum_ok, obs, got


def _key(case, exp, got):
    """abstract identity of a divergence: the kind/variant of the first block whose report differs, what was expected
    and seen for it, and the kind/variant of the block before it (what may have been left behind)"""
    i = 0
    while i < len(exp) and i < len(got) and exp[i] == got[i]:
        i += 1
    f = case["file"]
    cur = "%s/%s" % (f[i]["k"], f[i]["v"]) if i < len(f) else "end"
    prev = "%s/%s" % (f[i - 1]["k"], f[i - 1]["v"]) if 0 < i <= len(f) else "start"
    e = exp[i][1] if i < len(exp) else "nothing"
    g = got[i][1] if i < len(got) else "nothing"
    if i < len(got) and i < len(exp) and got[i][0] != exp[i][0]:
        g = "other-block"
    return "after:%s/at:%s/%s->%s" % (prev, cur, e, g)


def run():
    thorough = vf.TIER == "thorough"
    chk = vf.Check(PROP)
    chk.assumptions += [
        "a block counts as reported FAIL when its (FAIL) line appears or an error line names it or points into its line "
        "range (for run-time failures the tool prints only the error line); the summary line's total and failed counts "
        "must equal the specification's",
        "blocks are the (kind, variant) source texts of lib/egoctl.py TEST_BODIES; explicit @fail is the only kind that ends the run",
        "several files are given to one `ego test` process (documented use: a directory); a differing file is re-run alone"]
    with vf.scratch() as sd:
        ov = vf.make_overlay(sd, [])
        env = vf.ego_env(sd)
        nsim = 1500 if thorough else 300
        with ThreadPoolExecutor(max_workers=4) as ex:
            f_bin = ex.submit(vf.build_ego, sd, ov)
            f_ex = ex.submit(vf.tlc, "TestRunner", "TestRunner_Gen", "TestRunner_Gen.cfg" if thorough else "TestRunner_Genq.cfg",
                             sd, workers=4, timeout=1500)
            f_neg = ex.submit(vf.tlc, "TestRunner", "TestRunner", "TestRunner_MC_asis.cfg", sd, workers=2, timeout=600)
            f_sim = ex.submit(vf.tlc, "TestRunner", "TestRunner_Gen", "TestRunner_GenS.cfg", sd, workers=1,
                              simulate="num=%d" % nsim, depth=40, seed=vf.SEED, timeout=900)
            r = vf.tlc_ok(f_ex.result(), "TestRunner exhaustive")
            chk.add_tlc(r, "MC + case generation, exhaustive (files of <= %d blocks)" % (3 if thorough else 2))
            cases = _dedupe(r.records)
            nex = len(cases)
            rn = f_neg.result()
            if rn.violated != "Isolation":
                raise vf.NoVerdict("negative control: brace-counting splitter did not violate Isolation (%s %s)" % (rn.violated, rn.error))
            chk.add_tlc(rn, "negative control (as-is brace-counting splitter) violates Isolation", count_states=False)
            rs = vf.tlc_ok(f_sim.result(), "TestRunner sample")
            chk.add_tlc(rs, "sample (-simulate), files of 3..6 blocks", count_states=False)
            known = {c["key"] for c in cases}
            cases += [c for c in _dedupe(rs.records) if c["key"] not in known]
            ego = f_bin.result()
        # first use of a fresh HOME creates ego's profile and databases; concurrent first uses race with each other
        wd = os.path.join(sd, "warm")
        os.makedirs(wd)
        open(os.path.join(wd, "w.ego"), "w").write('@test "warm up"\n{\n\tx := 1\n\t@assert x == 1\n}\n')
        pw = vf.run([ego, "test", wd], cwd=sd, env=env, timeout=600)
        if "(PASS)" not in pw.stdout:
            raise vf.NoVerdict("the built ego binary does not run a trivial test: %s %s" % (pw.stdout[-500:], pw.stderr[-500:]))
        if nex < 100 or len(cases) - nex < 50:
            raise vf.NoVerdict("generator too weak: %d exhaustive, %d sampled cases" % (nex, len(cases) - nex))
        rng = random.Random(vf.SEED)
        quiet = [c for c in cases if c["status"] == "done"]
        stops = [c for c in cases if c["status"] == "aborted"]      # contain an explicit @fail: last file of a directory
        rng.shuffle(quiet)
        rng.shuffle(stops)
        # a file with an explicit @fail ends its process, so each needs one of its own: every single-block one, and a
        # seeded sample of the others (all kinds/variants still meet an @fail neighbour across seeds)
        nstop_all = len(stops)
        stops = [c for c in stops if len(c["file"]) == 1] + [c for c in stops if len(c["file"]) > 1][:200 if thorough else 36]
        perdir = PERDIR * 3 if thorough else PERDIR
        per = perdir if len(quiet) >= perdir * len(stops) else max(1, len(quiet) // max(1, len(stops)))
        dirs = []
        while quiet or stops:
            d, quiet = quiet[:per], quiet[per:]
            if stops:
                d.append(stops.pop())
            dirs.append(d)
        runs = _run_dirs(ego, env, sd, dirs, "d")
        nfiles = nblocks = 0
        suspects, first = [], None
        for cs, bl, res, d in runs:
            bad, sum_ok, obs, got = _judge(cs, bl, res)
            nfiles += len(cs)
            nblocks += sum(len(c["file"]) for c in cs)
            if first is None and not bad and len(cs) > 2:
                first = (cs, bl, got)
            if bad or not sum_ok:
                # a wrong summary with every report right cannot be pinned on a file here: look at each file alone
                suspects += [cs[j] for j in (bad if bad else range(len(cs)))]
        seen, alone = set(), []
        for c in suspects:
            if c["key"] not in seen and len(alone) < (120 if thorough else 60):
                seen.add(c["key"])
                alone.append(c)
        nalone = len(alone)
        if alone:
            for cs, bl, res, d in _run_dirs(ego, env, sd, [[c] for c in alone], "s"):
                c = cs[0]
                bad, sum_ok, obs, got = _judge(cs, bl, res)
                exp = _expect(c, bl[0])
                g = got.get("f000", [])
                if bad:
                    chk.violation(_key(c, exp, g), "test file [%s]: the specification expects the report %s, `ego test` reported %s"
                                  % (c["key"], [(n.split(" ", 1)[1], r) for n, r in exp], [(n.split(" ", 1)[1], r) for n, r in g]),
                                  {"case": c, "expected": exp, "observed": obs, "stdout": res[1][-3000:], "stderr": res[2][-1500:],
                                   "file": egoctl.render_testfile(c, "f000")[0]})
                elif not sum_ok:
                    chk.violation("summary/" + "+".join(sorted({t["k"] for t in c["file"]})),
                                  "test file [%s]: summary line says total=%s failed=%s (unattributed error lines: %s), "
                                  "the specification expects total=%d failed=%d"
                                  % (c["key"], obs["total"], obs["failed"], obs["unattributed"], c["passed"] + c["failed"], c["failed"]),
                                  {"case": c, "observed": obs, "stdout": res[1][-3000:], "stderr": res[2][-1500:]})
                else:
                    chk.violation("interference/" + "+".join(sorted({t["k"] for t in c["file"]})),
                                  "test file [%s] is reported correctly alone but not when it runs after other files in the same "
                                  "`ego test` process" % c["key"], {"case": c})
        # binding self-test
        if first is None:
            if not chk.cands:
                raise vf.NoVerdict("no directory ran cleanly; nothing to self-test with")
        else:
            cs, bl, got = first
            tot = rej = 0
            for j in range(len(cs) - 1):
                a = [(n.split(".", 1)[1], r) for n, r in _expect(cs[j], bl[j])]
                b = [(n.split(".", 1)[1], r) for n, r in got.get("f%03d" % (j + 1), [])]
                want_b = [(n.split(".", 1)[1], r) for n, r in _expect(cs[j + 1], bl[j + 1])]
                if a != want_b:
                    tot += 1
                    rej += a != b
            if tot == 0 or rej != tot:
                raise vf.NoVerdict("binding self-test failed: %d of %d shifted observations rejected" % (rej, tot))
            chk.cov["binding_selftest"] = "%d of %d reports compared with a neighbouring file's expectation were rejected" % (rej, tot)
        chk.cov["traces_validated_against_impl"] = nfiles
        chk.cov["evaluations"] = nblocks
        chk.cov["distinct_nontrivial"] = sum(1 for c in cases if len({t["k"] for t in c["file"]}) > 1)
        chk.cov["cases_exhaustive"] = nex
        chk.cov["cases_sampled"] = len(cases) - nex
        chk.cov["processes"] = len(runs) + nalone
        chk.cov["block_variants"] = len(egoctl.TEST_BODIES)
        chk.cov["files_with_explicit_fail_run"] = "%d of %d generated" % (sum(1 for d in dirs if d[-1]["status"] == "aborted"), nstop_all)
        chk.cov["rule"] = ("case = one finished run of TestRunner_Gen (a test file as a sequence of (kind, variant) blocks + the report and "
                           "summary counts the spec computes), written out and run by `ego test`; evaluations = @test blocks whose "
                           "reported result was compared; non-trivial = files mixing at least two kinds")
        chk.cov["exhaustive"] = False
        for c in cases[nex:nex + 2] + cases[30:32]:
            chk.sample({"file": c["key"], "expected_report": c["report"], "passed": c["passed"], "failed": c["failed"], "status": c["status"]})
    return chk.finish()

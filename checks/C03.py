"""C03 - arithmetic follows the documented typing rules.
spec/Ego/EgoTypes.tla (rule tables of LANGUAGE.md) + EgoTypes_Arith.tla (the table as a state space).
Stages: MC (TLC enumerates the table, checks its theorems, prints every cell with the permitted outcomes) ;
negative control (as-built x++ violates IncFormsAgree) ; Go cross-check of the strict-mode predictions (spec != Go => exit 2) ;
R binding: every cell is run on the real `ego` under each --types mode and compared with TLC's expected outcomes ;
binding self-test (perturbed expectations must be rejected, guarded runs must agree with isolated runs)."""
import json, os, random, re, sys, time
from concurrent.futures import ThreadPoolExecutor
import vf

sys.path.insert(0, os.path.join(vf.VERIF, "lib"))
import egoprog as ep

PROP = "C03"
BATCH = 400
ISO_OK, ISO_ERR = (400, 24) if vf.TIER == "thorough" else (80, 6)
MODES = ("dynamic", "relaxed", "strict")


def gen_cases(chk, sd, thorough, name, cfg, impl=None):
    text = open(os.path.join(vf.VERIF, "spec", "Ego", cfg)).read()
    text = re.sub(r"Seed = \d+", "Seed = %d" % vf.SEED, text)
    r = vf.tlc("Ego", "EgoTypes_Arith", "run.cfg", sd, files={"run.cfg": text}, timeout=2400 if thorough else 900,
               keep_stdout=False)
    return r


def stable_overlay(sd):
    """vf.make_overlay points into a cache shared with (and pruned by) concurrently running checks: copy the two
    generated files into this run's scratch directory so that the build cannot lose them."""
    import shutil
    for attempt in range(5):
        ov = vf.make_overlay(sd, [])
        rep = json.load(open(ov))["Replace"]
        try:
            for dst, src in list(rep.items()):
                mine = os.path.join(sd, "gen-" + os.path.basename(dst))
                shutil.copy(src, mine)
                rep[dst] = mine
        except OSError:
            continue
        json.dump({"Replace": rep}, open(ov, "w"), indent=1)
        return ov
    raise vf.NoVerdict("generated build files keep disappearing from the shared cache")


def want_pre(case):
    return [(o["k"], o["val"]) for o in (case["l"], case["r"]) if o["cls"] != "none" and not o["c"]]


def judge(case, mode, obs, exp=None):
    """compares one observation with the outcomes TLC computed.  Returns None (conforms), ("setup", text) when the
    harness could not establish the pre-state, or (divergence, text)."""
    exp = case["exp"][mode]["o"] if exp is None else exp
    pre = want_pre(case)
    if obs["P"] is None:
        return ("setup", "the operands could not be declared: %s" % obs["err"])
    got_pre = [ep.parse_vt(t) for t in obs["P"]]
    if got_pre != pre:
        return ("setup", "operands are %s, wanted %s" % (got_pre, pre))
    if obs["err"] is not None:
        if any(o["err"] for o in exp):
            return None
        return ("unexpected-error", "rejected with '%s'; the reference prescribes %s" % (obs["err"], fmt_exp(exp)))
    if obs["R"] is None:
        return ("setup", "no result line")
    got = ep.parse_vt(obs["R"][0])
    if any((not o["err"]) and (o["k"], o["s"]) == got for o in exp):
        return None
    if all(o["err"] for o in exp):
        return ("missing-error", "accepted and yields %s %s; the reference prescribes a rejection" % (got[1], got[0]))
    if got[0] not in [o["k"] for o in exp if not o["err"]]:
        return ("type=" + got[0], "yields type %s (value %s); the reference prescribes %s" % (got[0], got[1], fmt_exp(exp)))
    return ("value", "yields %s %s; the reference prescribes %s" % (got[1], got[0], fmt_exp(exp)))


def fmt_exp(exp):
    return " or ".join("a rejection" if o["err"] else "%s %s" % (o["s"], o["k"]) for o in exp)


def src_of(case, mode):
    return "ego run --types %s:  %s" % (mode, " ; ".join(ep.snippet_arith("ego", 0, case)[1]))


def go_crosscheck(chk, sd, cases):
    """the strict-mode predictions of the specification against the Go compiler, for every generated cell"""
    todo = [(i, c) for i, c in enumerate(cases) if c["exp"]["strict"]["wf"]]
    chunks = [todo[i:i + 3000] for i in range(0, len(todo), 3000)]

    def one(n_chunk):
        n, chunk = n_chunk
        sn = [ep.snippet_arith("go", i, c) for i, c in chunk]
        return ep.run_snippets_go(os.path.join(sd, "go%d" % n), sn)
    res = {}
    with ThreadPoolExecutor(max_workers=4) as ex:
        for r in ex.map(one, enumerate(chunks)):
            res.update(r)
    bad = []
    for i, c in todo:
        o = res[i]
        # Go has no 'setup' notion: a compile error anywhere in the snippet is a rejection of the program
        if o["err"] is not None:
            ok = any(x["err"] for x in c["exp"]["strict"]["o"])
        else:
            d = judge(c, "strict", o)
            ok = d is None
        if not ok:
            bad.append((c["key"], c["l"]["cls"], c["r"]["cls"], o, c["exp"]["strict"]["o"]))
    if bad:
        raise vf.NoVerdict("specification disagrees with the Go toolchain on %d strict-mode cells (fix the spec), e.g. %s"
                           % (len(bad), json.dumps(bad[:5])[:1500]))
    return len(todo)


def run():
    thorough = vf.TIER == "thorough"
    chk = vf.Check(PROP)
    chk.assumptions += [
        "floating and complex operands are dyadic values whose results are exact in the result type; inexact results, "
        "signed zeros, x/0.0, int->float conversions that round, float->int conversions that overflow are outside the specification's domain",
        "default ego settings (ego.runtime.precision.error=false, default optimizer level); programs are run with `ego run --types M`",
        "for two typed operands of different kinds the reference fixes the result kind only up to: integer < float < complex, "
        "the containing kind inside a family, either kind for signed/unsigned mixes that do not contain each other",
        "operators covered: + - * / % unary-minus ++ -- += -= *= /= and x = x op k; bit operators, shifts and ^ are not"]
    with vf.scratch() as sd:
        # 1. the table: enumerated and checked by TLC; every cell printed with its permitted outcomes
        t0 = time.time()
        r = vf.tlc_ok(gen_cases(chk, sd, thorough, "MC", "EgoTypes_Arith_MC.cfg" if thorough else "EgoTypes_Arith_MCq.cfg"), "EgoTypes_Arith MC")
        chk.add_tlc(r, "MC: table enumerated, theorems checked")
        cases = r.records
        if not cases or len(cases) * 2 > r.distinct + 1:
            raise vf.NoVerdict("TLC printed %d cells for %d states" % (len(cases), r.distinct))
        if len({json.dumps(c, sort_keys=True) for c in cases}) != len(cases):
            raise vf.NoVerdict("duplicate cells in TLC output")
        vf.log("TLC: %d cells in %.0fs" % (len(cases), time.time() - t0))
        # 2. negative control: the invariant sees the as-built x++ (vacuity guard)
        rn = gen_cases(chk, sd, False, "asis", "EgoTypes_Arith_MC_asis.cfg")
        if rn.violated != "IncFormsAgree":
            raise vf.NoVerdict("negative control: as-built x++ did not violate IncFormsAgree (%s %s)" % (rn.violated, rn.error))
        chk.add_tlc(rn, "negative control (as-built x++) violates IncFormsAgree", count_states=False)
        # 3. cross-check of the specification against the Go toolchain (never a violation)
        t0 = time.time()
        ncross = go_crosscheck(chk, sd, cases)
        chk.cov["go_crosschecked_cells"] = ncross
        vf.log("Go cross-check: %d cells in %.0fs" % (ncross, time.time() - t0))
        # 4. R: every cell on the real interpreter, under each mode
        ov = stable_overlay(sd)
        ego = vf.build_ego(sd, ov)
        env = vf.ego_env(sd)
        stats, nrun, classes, setup = {}, 0, set(), []
        ran, seen = {m: [] for m in MODES}, {}
        t0 = time.time()
        for mode in MODES:
            # every cell is isolated by try/catch (one failing cell cannot mask another, one round of processes);
            # stage 5a re-runs a sample without try/catch and requires identical observations
            sn = [ep.snippet_arith("ego", i, c, guard=True) for i, c in enumerate(cases) if c["exp"][mode]["wf"]]
            obs = ep.run_snippets_ego(ego, env, os.path.join(sd, "ego-" + mode), sn, ["--types", mode],
                                      batch=BATCH, stats=stats)
            for sid, lines, guard in sn:
                c, o = cases[sid], obs[sid]
                nrun += 1
                ran[mode].append(sid)
                seen[(mode, sid)] = o
                d = judge(c, mode, o)
                if d is None:
                    classes.add((c["key"], mode))
                    continue
                if d[0] == "setup":
                    setup.append((c["key"], mode, d[1]))
                    continue
                classes.add((c["key"], mode))
                chk.violation("%s/%s/%s" % (c["key"], mode, d[0]),
                              "%s %s" % (src_of(c, mode), d[1]),
                              {"case": c, "mode": mode, "observed": o, "program": ep.ego_program([ep.snippet_arith("ego", 0, c)])})
        vf.log("ego: %d case runs, %d processes in %.0fs" % (nrun, stats.get("processes", 0), time.time() - t0))
        if len(setup) * 50 > nrun:
            raise vf.NoVerdict("the harness could not establish the pre-state of %d of %d cases, e.g. %s" % (len(setup), nrun, setup[:3]))
        # 5. binding self-test
        rng = random.Random(vf.SEED)
        #    a) observations made inside try/catch agree with runs of the same cells without it (a sample; rejected cells alone)
        niso = 0
        for mode in MODES:
            pick = list(ran[mode])
            rng.shuffle(pick)
            errs = [sid for sid in pick if seen[(mode, sid)]["err"] is not None][:ISO_ERR]
            oks = [sid for sid in pick if seen[(mode, sid)]["err"] is None][:ISO_OK]
            sn = [ep.snippet_arith("ego", sid, cases[sid]) for sid in oks]
            ob = ep.run_snippets_ego(ego, env, os.path.join(sd, "iso-" + mode), sn, ["--types", mode], batch=len(sn) or 1, stats=stats)
            for sid in errs:
                ob.update(ep.run_snippets_ego(ego, env, os.path.join(sd, "iso-" + mode), [ep.snippet_arith("ego", sid, cases[sid])],
                                              ["--types", mode], batch=1, stats=stats))
            for sid in oks + errs:
                a, b = seen[(mode, sid)], ob[sid]
                if (a["P"], a["R"], a["err"] is None) != (b["P"], b["R"], b["err"] is None):
                    raise vf.NoVerdict("self-test: case %s (%s) behaves differently inside try/catch: %s / alone: %s"
                                       % (cases[sid]["key"], mode, a, b))
                niso += 1
        #    b) a perturbed expectation must be rejected by the comparison, on real observations
        good = [(i, m) for i, c in enumerate(cases) for m in MODES
                if c["exp"][m]["wf"] and not any(o["err"] for o in c["exp"][m]["o"])]
        rng.shuffle(good)
        tested = 0
        sn = [ep.snippet_arith("ego", "%d_%s" % (i, m), cases[i]) for i, m in good[:6]]
        for (i, m) in good[:6]:
            ob = ep.run_snippets_ego(ego, env, os.path.join(sd, "self"), [ep.snippet_arith("ego", i, cases[i])], ["--types", m], batch=1, stats=stats)[i]
            if judge(cases[i], m, ob) is not None:
                continue                                      # a diverging cell (already reported above)
            for pert in ("value", "type", "error"):
                exp = json.loads(json.dumps(cases[i]["exp"][m]["o"]))
                for o in exp:
                    if pert == "value":
                        o["s"] = o["s"] + "1"
                    elif pert == "type":
                        o["k"] = "int16" if o["k"] != "int16" else "int32"
                    else:
                        o["err"] = True
                if judge(cases[i], m, ob, exp) is None:
                    raise vf.NoVerdict("binding self-test failed: perturbed expectation (%s) accepted for %s" % (pert, cases[i]["key"]))
                tested += 1
        if tested < 3:
            raise vf.NoVerdict("binding self-test could not be carried out")
        chk.cov["binding_selftest"] = "%d perturbed expectations rejected; %d cells re-run without try/catch agree" % (tested, niso)
        chk.cov["traces_validated_against_impl"] = nrun
        chk.cov["evaluations"] = nrun
        chk.cov["distinct_nontrivial"] = len(classes)
        chk.cov["cells"] = len(cases)
        chk.cov["setup_failures"] = len(setup)
        chk.cov["setup_failure_examples"] = setup[:5]
        chk.cov["ego_processes"] = stats.get("processes", 0)
        chk.cov["rule"] = ("cells = initial states of EgoTypes_Arith (kind x value x const/var x operator x form), all enumerated by TLC; "
                           "each cell in the specification's domain is run under each --types mode; distinct = distinct abstract "
                           "identities (form/op/operand kinds or constant/mode) executed and compared")
        chk.cov["exhaustive"] = True
        for i in (0, len(cases) // 2, len(cases) - 1):
            c = cases[i]
            chk.sample({"key": c["key"], "program": ep.snippet_arith("ego", i, c)[1], "expected": c["exp"]})
    return chk.finish()

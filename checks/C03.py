"""C03 - arithmetic follows the documented typing rules.
spec/Ego/EgoTypes.tla (rule tables of LANGUAGE.md) + EgoTypes_Arith.tla (the table as a state space).
Stages: MC (TLC enumerates the table, checks its theorems, prints every cell with the permitted outcomes) ;
negative control (as-built x++ violates IncFormsAgree) ; Go cross-check of the strict-mode predictions (spec != Go => exit 2) ;
R binding: every cell is run on the real `ego` under each --types mode and compared with TLC's expected outcomes ;
binding self-test (perturbed expectations must be rejected, guarded runs must agree with isolated runs)."""
import json, os, random, re, sys, time
from concurrent.futures import ThreadPoolExecutor
import vf

sys.path.insert(0, os.path.join(vf.VERIF, "lib"))
import egoprog as ep

PROP = "C03"
BATCH = 300
ISO_OK, ISO_ERR = (400, 24) if vf.TIER == "thorough" else (80, 6)
MODES = ("dynamic", "relaxed", "strict")


def gen_cases(chk, sd, thorough, name, cfg, impl=None):
    text = open(os.path.join(vf.VERIF, "spec", "Ego", cfg)).read()
    text = re.sub(r"Seed = \d+", "Seed = %d" % vf.SEED, text)
    r = vf.tlc("Ego", "EgoTypes_Arith", "run.cfg", sd, files={"run.cfg": text}, timeout=2400 if thorough else 900,
               keep_stdout=False)
    return r


def stable_overlay(sd):
    return vf.make_overlay(sd, [])      # (the library keeps private copies of the generated build files)


def want_pre(case):
    return [(o["k"], o["val"]) for o in (case["l"], case["r"]) if o["cls"] != "none" and not o["c"]]


def judge(case, mode, obs, exp=None):
    """compares one observation with the outcomes TLC computed.  Returns None (conforms), ("setup", text) when the
    harness could not establish the pre-state, or (divergence, text)."""
    exp = case["exp"][mode]["o"] if exp is None else exp
    pre = want_pre(case)
    if obs["P"] is None:
        return ("setup", "the operands could not be declared: %s" % obs["err"])
    got_pre = [ep.parse_vt(t) for t in obs["P"]]
    if got_pre != pre:
        return ("setup", "operands are %s, wanted %s" % (got_pre, pre))
    if obs["err"] is not None:
        if any(o["err"] for o in exp):
            return None
        return ("unexpected-error", "rejected with '%s'; the reference prescribes %s" % (obs["err"], fmt_exp(exp)))
    if obs["R"] is None:
        return ("setup", "no result line")
    got = ep.parse_vt(obs["R"][0])
    if any((not o["err"]) and (o["k"], o["s"]) == got for o in exp):
        return None
    if all(o["err"] for o in exp):
        return ("missing-error", "accepted and yields %s %s; the reference prescribes a rejection" % (got[1], got[0]))
    if got[0] not in [o["k"] for o in exp if not o["err"]]:
        return ("type=" + got[0], "yields type %s (value %s); the reference prescribes %s" % (got[0], got[1], fmt_exp(exp)))
    return ("value", "yields %s %s; the reference prescribes %s" % (got[1], got[0], fmt_exp(exp)))


def fmt_exp(exp):
    return " or ".join("a rejection" if o["err"] else "%s %s" % (o["s"], o["k"]) for o in exp)


def args_for(case, mode):
    """cells whose variables are declared with := are run at optimizer level 3, where such locals live in register slots
    (a different compilation of x++ and of stores); all other cells run with the default settings"""
    return ("--types", mode) + (("-o", "3") if case.get("decl") == "def" else ())


def run_cells(ego, env, wd, cases, mode, sids, guard, batch, stats, nproc):
    obs = {}
    for args in sorted({args_for(cases[i], mode) for i in sids}):
        sn = [ep.snippet_arith("ego", i, cases[i], guard=guard) for i in sids if args_for(cases[i], mode) == args]
        obs.update(ep.run_snippets_ego(ego, env, os.path.join(wd, "o3" if "-o" in args else "o"), sn, list(args),
                                       batch=batch, stats=stats, nproc=nproc))
    return obs


def src_of(case, mode):
    return "ego run %s:  %s" % (" ".join(args_for(case, mode)), " ; ".join(ep.snippet_arith("ego", 0, case)[1]))


def go_crosscheck(chk, sd, cases):
    """the strict-mode predictions of the specification against the Go compiler, for every generated cell"""
    todo = [(i, c) for i, c in enumerate(cases) if c["exp"]["strict"]["wf"]]
    chunks = [todo[i:i + 1500] for i in range(0, len(todo), 1500)]

    def one(n_chunk):
        n, chunk = n_chunk
        sn = [ep.snippet_arith("go", i, c) for i, c in chunk]
        return ep.run_snippets_go(os.path.join(sd, "go%d" % n), sn)
    res = {}
    with ThreadPoolExecutor(max_workers=4) as ex:
        for r in ex.map(one, enumerate(chunks)):
            res.update(r)
    bad = []
    for i, c in todo:
        o = res[i]
        # Go has no 'setup' notion: a compile error anywhere in the snippet is a rejection of the program
        if o["err"] is not None:
            ok = any(x["err"] for x in c["exp"]["strict"]["o"])
        else:
            d = judge(c, "strict", o)
            ok = d is None
        if not ok:
            bad.append((c["key"], c["l"]["cls"], c["r"]["cls"], o, c["exp"]["strict"]["o"]))
    if bad:
        raise vf.NoVerdict("specification disagrees with the Go toolchain on %d strict-mode cells (fix the spec), e.g. %s"
                           % (len(bad), json.dumps(bad[:5])[:1500]))
    return len(todo)


def ego_stage(sd, cases, ego, env, stats):
    """runs every in-domain cell under each mode (the three modes concurrently); returns {(mode, sid): observation}"""
    seen = {}

    def one(mode):
        # every cell is isolated by try/catch (one failing cell cannot mask another, one round of processes);
        # the self-test re-runs a sample without try/catch and requires identical observations
        st = {}
        obs = run_cells(ego, env, os.path.join(sd, "ego-" + mode), cases, mode,
                        [i for i, c in enumerate(cases) if c["exp"][mode]["wf"]], True, BATCH, st, 6)
        return mode, obs, st
    with ThreadPoolExecutor(max_workers=3) as ex:
        for mode, obs, st in ex.map(one, MODES):
            stats["processes"] = stats.get("processes", 0) + st.get("processes", 0)
            for sid, o in obs.items():
                seen[(mode, sid)] = o
    return seen


def replay(path):
    """bin/verif check C03 --replay replays/C03-....json : re-runs the recorded cell on the real interpreter
    (prints the program, the observation and the verdict; does not touch the evidence file)"""
    rp = json.load(open(path))["replay"]
    case, mode = rp["case"], rp["mode"]
    with vf.scratch() as sd:
        ego = vf.build_ego(sd, stable_overlay(sd))
        o = run_cells(ego, vf.ego_env(sd), os.path.join(sd, "replay"), [case], mode, [0], False, 1, {}, 1)[0]
    d = judge(case, mode, o)
    print(ep.ego_program([ep.snippet_arith("ego", 0, case)]))
    print("observed:", o, "\nexpected:", fmt_exp(case["exp"][mode]["o"]), "\nverdict:", d or "conforms")
    if d and d[0] == "setup":
        raise vf.NoVerdict("replay: " + d[1])
    if d:
        print("VIOLATION property=%s replay=%s" % (PROP, path))
        print("  key=%s/%s/%s: %s %s" % (case["key"], mode, d[0], src_of(case, mode), d[1]))
        return 1
    return 0


def run():
    if os.environ.get("VERIF_REPLAY"):
        return replay(os.environ["VERIF_REPLAY"])
    thorough = vf.TIER == "thorough"
    chk = vf.Check(PROP)
    chk.assumptions += [
        "floating and complex operands are dyadic values whose results are exact in the result type; inexact results, "
        "signed zeros, x/0.0, int->float conversions that round, float->int conversions that overflow are outside the specification's domain",
        "default ego settings (ego.runtime.precision.error=false); programs are run with `ego run --types M` (cells declared with := also with -o 3)",
        "for two typed operands of different kinds the reference fixes the result kind only up to: integer < float < complex, "
        "the containing kind inside a family, either kind for signed/unsigned mixes that do not contain each other",
        "operators covered: + - * / % unary-minus ++ -- += -= *= /= and x = x op k; bit operators, shifts and ^ are not",
        "cells run inside try/catch for isolation; a seeded sample is re-run without it and must behave identically"]
    with vf.scratch() as sd:
        # 1. the table: enumerated and checked by TLC; every cell printed with its permitted outcomes
        t0 = time.time()
        r = vf.tlc_ok(gen_cases(chk, sd, thorough, "MC", "EgoTypes_Arith_MC.cfg" if thorough else "EgoTypes_Arith_MCq.cfg"), "EgoTypes_Arith MC")
        chk.add_tlc(r, "MC: table enumerated, theorems checked")
        cases = r.records
        if not cases or len(cases) * 2 > r.distinct + 1:
            raise vf.NoVerdict("TLC printed %d cells for %d states" % (len(cases), r.distinct))
        if len({json.dumps(c, sort_keys=True) for c in cases}) != len(cases):
            raise vf.NoVerdict("duplicate cells in TLC output")
        vf.log("TLC: %d cells in %.0fs" % (len(cases), time.time() - t0))
        stats = {}
        ego = vf.build_ego(sd, stable_overlay(sd))
        env = vf.ego_env(sd)
        t0 = time.time()
        with ThreadPoolExecutor(max_workers=3) as ex:
            # 2. negative control: the invariant sees the as-built x++ (vacuity guard)
            f_neg = ex.submit(gen_cases, chk, sd, False, "asis", "EgoTypes_Arith_MC_asis.cfg")
            # 3. cross-check of the specification's strict-mode predictions against the Go toolchain (never a violation)
            f_go = ex.submit(go_crosscheck, chk, sd, cases)
            # 4. R: every cell on the real interpreter, under each mode
            f_ego = ex.submit(ego_stage, sd, cases, ego, env, stats)
            rn = f_neg.result()
            if rn.violated != "IncFormsAgree":
                raise vf.NoVerdict("negative control: as-built x++ did not violate IncFormsAgree (%s %s)" % (rn.violated, rn.error))
            chk.add_tlc(rn, "negative control (as-built x++) violates IncFormsAgree", count_states=False)
            chk.cov["go_crosschecked_cells"] = f_go.result()
            seen = f_ego.result()
        vf.log("negative control, Go cross-check (%d cells), ego (%d case runs, %d processes) in %.0fs"
               % (chk.cov["go_crosschecked_cells"], len(seen), stats.get("processes", 0), time.time() - t0))
        nrun, classes, setup, conform = 0, set(), [], []
        for (mode, sid), o in sorted(seen.items(), key=lambda x: (MODES.index(x[0][0]), x[0][1])):
            c = cases[sid]
            nrun += 1
            d = judge(c, mode, o)
            if d is not None and d[0] == "setup":
                setup.append((c["key"], mode, d[1]))
                continue
            classes.add((c["key"], mode))
            if d is None:
                conform.append((mode, sid))
                continue
            chk.violation("%s/%s/%s" % (c["key"], mode, d[0]), "%s %s" % (src_of(c, mode), d[1]),
                          {"case": c, "mode": mode, "observed": o, "program": ep.ego_program([ep.snippet_arith("ego", 0, c)])})
        if len(setup) * 50 > nrun:
            raise vf.NoVerdict("the harness could not establish the pre-state of %d of %d cases, e.g. %s" % (len(setup), nrun, setup[:3]))
        # 5. binding self-test
        rng = random.Random(vf.SEED)
        t0 = time.time()
        #    a) observations made inside try/catch agree with runs of the same cells without it (a seeded sample)
        def iso(mode):
            pick = [sid for (m, sid) in seen if m == mode]
            rng2 = random.Random(vf.SEED * 7 + MODES.index(mode))
            rng2.shuffle(pick)
            errs = [sid for sid in pick if seen[(mode, sid)]["err"] is not None][:ISO_ERR]
            oks = [sid for sid in pick if seen[(mode, sid)]["err"] is None][:ISO_OK]
            st = {}
            ob = run_cells(ego, env, os.path.join(sd, "iso-" + mode), cases, mode, oks, False, 100, st, 5)
            ob.update(run_cells(ego, env, os.path.join(sd, "isoe-" + mode), cases, mode, errs, False, 1, st, 5))
            return mode, oks + errs, ob, st
        niso = 0
        with ThreadPoolExecutor(max_workers=3) as ex:
            for mode, sids, ob, st in ex.map(iso, MODES):
                stats["processes"] = stats.get("processes", 0) + st.get("processes", 0)
                for sid in sids:
                    a, b = seen[(mode, sid)], ob[sid]
                    if (a["P"], a["R"], a["err"] is None) != (b["P"], b["R"], b["err"] is None):
                        raise vf.NoVerdict("self-test: case %s (%s) behaves differently inside try/catch: %s / alone: %s"
                                           % (cases[sid]["key"], mode, a, b))
                    niso += 1
        #    b) a perturbed expectation must be rejected by the comparison, on real observations
        good = [(m, i) for (m, i) in conform if seen[(m, i)]["err"] is None]
        rng.shuffle(good)
        tested = 0
        for (m, i) in good[:20]:
            for pert in ("value", "type", "error"):
                exp = json.loads(json.dumps(cases[i]["exp"][m]["o"]))
                for o in exp:
                    if pert == "value":
                        o["s"] = o["s"] + "1"
                    elif pert == "type":
                        o["k"] = "int16" if o["k"] != "int16" else "int32"
                    else:
                        o["err"] = True
                if judge(cases[i], m, seen[(m, i)], exp) is None:
                    raise vf.NoVerdict("binding self-test failed: perturbed expectation (%s) accepted for %s" % (pert, cases[i]["key"]))
                tested += 1
        #    ... and an accepted run must be rejected where a rejection is expected, and vice versa
        bad_err = [(m, i) for (m, i) in conform if seen[(m, i)]["err"] is not None]
        for (m, i) in bad_err[:5]:
            if judge(cases[i], m, seen[(m, i)], [{"err": False, "k": "int", "s": "0"}]) is None:
                raise vf.NoVerdict("binding self-test failed: a rejection was accepted where a value is expected")
            tested += 1
        if tested < 9 or niso < 10:
            raise vf.NoVerdict("binding self-test could not be carried out (%d, %d)" % (tested, niso))
        vf.log("self-test in %.0fs" % (time.time() - t0))
        chk.cov["binding_selftest"] = "%d perturbed expectations rejected; %d cells re-run without try/catch agree" % (tested, niso)
        chk.cov["traces_validated_against_impl"] = nrun
        chk.cov["evaluations"] = nrun
        chk.cov["distinct_nontrivial"] = len(classes)
        chk.cov["cells"] = len(cases)
        chk.cov["setup_failures"] = len(setup)
        chk.cov["setup_failure_examples"] = setup[:5]
        chk.cov["ego_processes"] = stats.get("processes", 0)
        chk.cov["rule"] = ("cells = initial states of EgoTypes_Arith (kind x value x const/var x operator x form), all enumerated by TLC; "
                           "each cell in the specification's domain is run under each --types mode; distinct = distinct abstract "
                           "identities (form/op/operand kinds or constant/mode) executed and compared")
        chk.cov["exhaustive"] = True
        for i in (0, len(cases) // 2, len(cases) - 1):
            c = cases[i]
            chk.sample({"key": c["key"], "program": ep.snippet_arith("ego", i, c)[1], "expected": c["exp"]})
    return chk.finish()

"""C25 - a username/password pair authenticates exactly when it matches; upgrading a legacy credential
never changes which passwords are accepted.
spec/Passwords (+_Gen).  Stages: MC of the code-shaped ValidatePassword against the declarative property
(idealised hashes) ; negative controls (each bug put into the model must break a property) ; R: behaviours of
the spec replayed into the real ValidatePassword / setPermission / SetUser on BOTH user stores side by side:
  cells = every single-call cell of the table that needs no work-factor-12 bcrypt (exhaustive BFS),
  table = per legacy configuration: log in, every probe, flip the plaintext setting, log in (exhaustive BFS),
  walks = TLC simulation over two users with a bcrypt-operation budget per behaviour ;
binding self-test (perturbed expected values must be reported)."""
import json, os, random, re
from concurrent.futures import ThreadPoolExecutor
import vf

PROP = "C25"
HARNESS = [vf.kit("internal/server/auth", "auth"),
           ("passwords/replay_test.go", "internal/server/auth/zz_verif_passwords_test.go")]
PKG = "./internal/server/auth/"
TEST = "TestVerifPasswordsReplay"
NEG = [("Passwords_MC_rehash.cfg", "upgrade stores bcrypt(sha256(password))"),
       ("Passwords_MC_nopermbc.cfg", "bcrypt path skips the permission check"),
       ("Passwords_MC_plainalways.cfg", "{plaintext} accepted with the setting off"),
       ("Passwords_MC_dropperms.cfg", "upgrade rewrites the record without its permissions"),
       ("Passwords_MC_bcryptcyc.cfg", "bcrypt verifies P<NUL>P / P72+tail (the known finding, in the model)")]
PROPS = ("ReplyRight", "AcceptanceKept", "UpgradeShape", "FailedWritesNothing")


def cfg_variant(name, subs):
    txt = open(os.path.join(vf.VERIF, "spec", "Passwords", name)).read()
    for k, v in subs.items():
        txt, n = re.subn(r"(?m)^(\s*%s\s*(?:=|<-)\s*).*$" % re.escape(k), lambda m: m.group(1) + v, txt)
        if n != 1:
            raise vf.NoVerdict("cfg_variant: %s not found once in %s" % (k, name))
    return txt


def generate(chk, sd, base, subs, name, simulate=None, depth=None, seed=None):
    cfgname = "gen_%s.cfg" % re.sub(r"\W+", "_", name)
    r = vf.tlc("Passwords", "Passwords_Gen", cfgname, sd, workers=1 if simulate else 2, simulate=simulate, depth=depth,
               seed=seed, timeout=2400, files={cfgname: cfg_variant(base, subs)})
    if r.violated or r.error or r.rc != 0:
        raise vf.NoVerdict("behaviour generation (%s) failed: %s %s\n%s" % (name, r.violated, r.error, r.stdout[-2000:]))
    chk.add_tlc(r, "gen " + name, count_states=False)
    seen, out = set(), []
    for b in r.records:
        s = json.dumps(b, sort_keys=True)
        if s not in seen:
            seen.add(s)
            out.append(b)
    if not out:
        raise vf.NoVerdict("generator %s produced no behaviours" % name)
    return out


def replay(sd, binary, behs, tag, shards=1, env=None, timeout=3000):
    """runs the harness on `behs` in `shards` processes (behaviour i goes to process i mod shards); merged result"""
    bf = vf.write_ndjson(os.path.join(sd, "beh_%s.ndjson" % tag), behs)

    def one(i):
        out = os.path.join(sd, "replay_%s_%d.json" % (tag, i))
        e = {"VERIF_IN": bf, "VERIF_OUT": out, "VERIF_TMP": sd, "VERIF_SHARD": str(i), "VERIF_NSHARD": str(shards)}
        e.update(env or {})
        p = vf.run([binary, "-test.run", "^%s$" % TEST, "-test.timeout", "%ds" % timeout], cwd=sd, env=vf.goenv(e), timeout=timeout + 120)
        if p.returncode != 0 or not os.path.exists(out):
            raise vf.NoVerdict("replay harness failed (%s/%d, rc=%d)\n%s\n%s" % (tag, i, p.returncode, p.stdout[-3000:], p.stderr[-3000:]))
        return json.load(open(out))
    with ThreadPoolExecutor(max_workers=shards) as ex:
        parts = list(ex.map(one, range(shards)))
    res = {"behaviours": 0, "steps": 0, "mismatches": [], "key_counts": {}, "bad_behaviours": [], "act_counts": {},
           "accepted": 0, "upgrades": 0, "slow_ops": 0, "resets": 0, "alt_taken": 0, "transitions": set(), "elapsed_ms": 0}
    for r in parts:
        for k in ("behaviours", "steps", "accepted", "upgrades", "slow_ops", "resets", "alt_taken"):
            res[k] += r[k]
        res["elapsed_ms"] = max(res["elapsed_ms"], r["elapsed_ms"])
        res["mismatches"] += r.get("mismatches") or []
        res["bad_behaviours"] += r.get("bad_behaviours") or []
        res["transitions"] |= set(r.get("transitions") or [])
        for d in ("key_counts", "act_counts"):
            for k, v in (r.get(d) or {}).items():
                res[d][k] = res[d].get(k, 0) + v
    if res["behaviours"] != len(behs):
        raise vf.NoVerdict("replay %s stopped early: %s of %s" % (tag, res["behaviours"], len(behs)))
    return res


def report(chk, res, what):
    for m in res.get("mismatches") or []:
        n = (res.get("key_counts") or {}).get(m["key"], 1)
        if m["comp"] == "reply" and m["act"] == "Validate":
            txt = ("%s store, %s: the real code answered %s where the specification answers %s (credential %s, candidate %s); sent %s (%d occurrences)"
                   % (m["backend"], what, m["got"], m["want"], m["key"].split("/", 1)[1].rsplit("/", 1)[0], m["key"].rsplit("/", 1)[1], m.get("sent"), n))
        else:
            txt = ("%s store, %s: after %s the %s differs from the specification at %s: spec=%s real=%s; sent %s (%d occurrences)"
                   % (m["backend"], what, m["act"], m["comp"], m["path"], m["want"], m["got"], m.get("sent"), n))
        chk.violation(m["key"], txt, m)


def cases(behs):
    """abstract Validate cases the behaviours contain (all values computed by the specification)"""
    out = set()
    for b in behs:
        for i, s in enumerate(b):
            c = s["call"]
            if c["act"] == "Validate":
                out.add((c["ctx"], c["rel"], c["sp"], b[i - 1]["st"]["plain"], s["reply"]))
    return out


def run():
    thorough = vf.TIER == "thorough"
    chk = vf.Check(PROP)
    chk.assumptions += [
        "hashes are idealised in the model (SHA-256 and bcrypt as injective constructors); in the replay they are the real ones",
        "stored names are lower-case (every documented path lower-cases the name); 'exists case-insensitively' is about the presented spelling",
        "legacy credentials (SHA-256 hex, {plaintext}) exist only as raw initial records; bcrypt credentials come from raw records (work factor 4, cheap to verify) or from the package (SetUser / the upgrade, work factor 12)",
        "passwords longer than 72 bytes are never upgraded (bcrypt refuses to hash them): the statement does not require the upgrade, the model follows the code",
        "a Validate step is compared under the plaintext setting in force at that step; flipping the setting is a separate step",
        "P<NUL>P and P72+tail are not asked against credentials that were born bcrypt (bcrypt's own notion of 'matches'); they are asked against upgraded credentials",
        "sequential callers; SQLite only; permission lists stay non-empty under setPermission (nil/empty lists are C31's subject)"]
    rng = random.Random(vf.SEED)
    with vf.scratch() as sd:
        pool = ThreadPoolExecutor(max_workers=6)
        ov = vf.make_overlay(sd, HARNESS)
        binary = os.path.join(sd, "auth.test")
        fbuild = pool.submit(vf.go_test_compile, ov, PKG, binary, timeout=3600)
        if os.environ.get("VERIF_REPLAY"):
            fbuild.result()
            return replay_only(chk, sd, binary, os.environ["VERIF_REPLAY"])

        # behaviour generation (TLC) overlaps the Go build
        fcells = pool.submit(generate, chk, sd, "Passwords_GenCells.cfg" if thorough else "Passwords_GenCellsQ.cfg", {}, "cells")
        ftable = pool.submit(generate, chk, sd, "Passwords_GenTable.cfg" if thorough else "Passwords_GenTableQ.cfg", {}, "table")
        nwalk, depth, budget = (45, 24, 8) if thorough else (8, 20, 6)
        fwalk = pool.submit(generate, chk, sd, "Passwords_GenWalk.cfg", {"Depth": str(depth), "Budget": str(budget)}, "walks",
                            "num=%d" % nwalk, depth + 6, vf.SEED)
        # 1. the code-shaped ValidatePassword satisfies the property in every reachable state (idealised hashes)
        fmc = [(pool.submit(vf.tlc, "Passwords", "Passwords", "Passwords_MCq.cfg", sd, workers=2, timeout=2400),
                "MC one user, all formats/permissions/spellings/candidate kinds")]
        if thorough:
            fmc.append((pool.submit(vf.tlc, "Passwords", "Passwords", "Passwords_MC2.cfg", sd, workers=4, timeout=3000),
                        "MC two users (independence, the other user's password as candidate)"))
        # 2. negative controls
        fneg = [(cfg, what, pool.submit(vf.tlc, "Passwords", "Passwords", cfg, sd, workers=1, timeout=1500))
                for cfg, what in (NEG if thorough else NEG[:1] + NEG[3:])]
        for f, name in fmc:
            chk.add_tlc(vf.tlc_ok(f.result(), name), name)
        for cfg, what, f in fneg:
            rn = f.result()
            if rn.violated not in PROPS:
                raise vf.NoVerdict("negative control %s (%s) did not violate a property (%s %s)" % (cfg, what, rn.violated, (rn.error or "")[:300]))
            chk.add_tlc(rn, "negative control: %s -> %s violated" % (what, rn.violated), count_states=False)

        # 3. R
        cells, table, walks = fcells.result(), ftable.result(), fwalk.result()
        cells.sort(key=lambda b: json.dumps(b[0]["st"], sort_keys=True))   # same initial store consecutively (installed once)
        fbuild.result()
        slow = table + walks
        rng.shuffle(slow)
        fslow = pool.submit(replay, sd, binary, slow, "slow", 6 if thorough else 4)
        rc = replay(sd, binary, cells, "cells", 1)
        rs = fslow.result()
        report(chk, rc, "single-call cell")
        report(chk, rs, "table/walk behaviour")
        if not rs["upgrades"] or not rs["accepted"] or not rc["accepted"]:
            raise vf.NoVerdict("vacuous replay: upgrades=%s accepted=%s/%s" % (rs["upgrades"], rs["accepted"], rc["accepted"]))
        allc = cases(cells) | cases(slow)
        need = {("bcrypt/upgrade", "right"), ("sha/init", "right"), ("plain/init", "right"), ("bcrypt/init", "right"),
                ("bcrypt/upgrade", "cyc"), ("bcrypt/upgrade", "stored")}
        missing = need - {(c[0], c[1]) for c in allc}
        if missing:
            raise vf.NoVerdict("the generated behaviours miss the cases %s" % sorted(missing))
        for r in (rc, rs):
            chk.cov["traces_validated_against_impl"] += r["behaviours"]
            chk.cov["evaluations"] += (r["steps"] - r["behaviours"]) * 2
        chk.cov["distinct_nontrivial"] = len(rc["transitions"] | rs["transitions"])
        chk.cov["behaviours"] = {"cells": len(cells), "table": len(table), "walks": len(walks)}
        chk.cov["abstract_validate_cases"] = len(allc)
        chk.cov["replay"] = {"upgrades_observed": rs["upgrades"], "accepted": rs["accepted"] + rc["accepted"],
                             "bcrypt12_operations": rs["slow_ops"] + rc["slow_ops"], "store_installs": rs["resets"] + rc["resets"], "allowed_alternative_outcomes": rs["alt_taken"] + rc["alt_taken"],
                             "act_counts": {k: rc["act_counts"].get(k, 0) + rs["act_counts"].get(k, 0) for k in set(rc["act_counts"]) | set(rs["act_counts"])},
                             "ms": {"cells": rc["elapsed_ms"], "slow": rs["elapsed_ms"]}}
        chk.sample({"kind": "table behaviour (call, reply)", "steps": [[s["call"], s["reply"]] for s in table[0]][:20]})
        chk.sample({"kind": "walk (calls only)", "calls": [s["call"] for s in walks[0]][:14]})
        chk.sample({"kind": "expected store after the last step of that walk", "st": walks[0][-1]["st"]})
        chk.sample({"kind": "cell", "steps": cells[len(cells) // 2]})

        # 4. binding self-test
        selftest(chk, sd, binary, cells, table, rc, rs, rng)

        chk.cov["rule"] = ("cells = every history of length 1 of Passwords_Gen (BFS) whose call needs no work-factor-12 bcrypt; table = BFS of the "
                           "scripted mode (one behaviour per initial legacy configuration); walks = TLC simulation (one per trace, bcrypt budget); "
                           "each step runs on fileService and databaseService and reply + ListUsers(false) projection are compared with TLC's "
                           "values (evaluations = steps x 2 stores); non-trivial+distinct = distinct (expected contents before, call) pairs")
        chk.cov["exhaustive"] = False
    return chk.finish()


def replay_only(chk, sd, binary, replay_file):
    m = (json.load(open(replay_file)).get("replay") or {})
    beh = m.get("prefix") or []
    if not beh:
        raise vf.NoVerdict("replay file has no behaviour")
    res = replay(sd, binary, [beh], "one", 1, {"VERIF_MAX_PER_KEY": "1000"})
    report(chk, res, "replay file")
    chk.cov["traces_validated_against_impl"] = res["behaviours"]
    chk.cov["evaluations"] = res["steps"] * 2
    chk.cov["states"], chk.cov["transitions"] = 1, max(1, res["steps"])
    chk.sample({"kind": "replay file", "calls": [s["call"] for s in beh]})
    chk.cov["rule"] = "single behaviour from a replay file"
    return chk.finish()


def selftest(chk, sd, binary, cells, table, rc, rs, rng):
    """perturb one expected value in behaviours the real code conforms to; the harness must report exactly that step on both stores"""
    bad = set(rc.get("bad_behaviours") or [])
    badkeys_at = {(m["behaviour"], m["step"]) for m in rc.get("mismatches") or []}
    good = [b for i, b in enumerate(cells) if i not in bad and (i, 1) not in badkeys_at]

    def pick(pred):
        c = [b for b in good if pred(b)]
        return json.loads(json.dumps(rng.choice(c))) if c else None
    pert, expect = [], []
    # (a) an accepted login reported as rejected, (b) a rejected one reported as accepted
    for want in (True, False):
        b = pick(lambda b: b[1]["reply"] is want and b[1]["call"]["cand"] != "" and b[1]["call"]["sp"] == "exact" and b[0]["st"]["users"][b[1]["call"]["n"]]["on"])
        if b:
            b[1]["reply"] = not want
            pert.append(b); expect.append((1, "reply", "reply"))
    # (c) the permissions in the expected contents
    b = pick(lambda b: b[0]["st"]["users"][b[1]["call"]["n"]]["on"])
    if b:
        n = b[1]["call"]["n"]
        b[1]["st"]["users"][n]["perms"] = b[1]["st"]["users"][n]["perms"] + ["bogus"]
        pert.append(b); expect.append((1, "state", "perms"))
    # (d) a legacy credential expected to have been upgraded by a failed attempt
    b = pick(lambda b: b[0]["st"]["users"][b[1]["call"]["n"]]["fmt"] == "sha" and b[1]["reply"] is False)
    if b:
        n = b[1]["call"]["n"]
        b[1]["st"]["users"][n].update(fmt="bcrypt", ver=1, cost=12)
        pert.append(b); expect.append((1, "state", "users"))
    # (e) a successful legacy login whose upgrade is expected NOT to have happened (2 real bcrypt operations per store)
    tb = [b for b in table if b[1]["reply"] is True and b[0]["st"]["users"][b[1]["call"]["n"]]["fmt"] == "sha" and b[1]["st"]["users"][b[1]["call"]["n"]]["fmt"] == "bcrypt"]
    if tb:
        b = json.loads(json.dumps(rng.choice(tb)[:2]))
        b[1]["st"] = json.loads(json.dumps(b[0]["st"]))
        pert.append(b); expect.append((1, "state", "users"))
    if len(pert) < 4:
        raise vf.NoVerdict("self-test: no conforming behaviour to perturb (%d candidates)" % len(pert))
    r = replay(sd, binary, pert, "selftest", 1, {"VERIF_MAX_PER_KEY": "1000"})
    done = []
    for i, (si, comp, fld) in enumerate(expect):
        hits = [m for m in r["mismatches"] if m["behaviour"] == i and m["step"] == si and m["comp"] == comp and fld in m["path"]]
        backs = {m["backend"] for m in hits}
        if backs != {"file", "db"}:
            raise vf.NoVerdict("binding self-test failed: perturbation %d (%s %s at step %d) was reported for %s, not for both stores"
                               % (i, comp, fld, si, sorted(backs)))
        done.append("%s/%s" % (comp, fld))
    chk.cov["binding_selftest"] = "perturbed expected values reported for both stores: " + ", ".join(done)

"""C41 - child-process services answer like in-process services.
spec/ChildService (ChildWire, ChildService, ChildService_Gen, ChildService_Trace).  Stages:
  1. MC: the step-wise model of one request answered both ways (router session -> in-process ServiceHandler | ChildServiceRequest
     -> file/pipe -> runChildRequest -> ChildServiceResponse -> callChildServices) satisfies Agreement (same status, headers,
     body) for every generated case when every step carries its value unchanged (Lossy = {}); negative control: the model of
     child.go as read (Lossy = AsIs) must violate Agreement; every named lossy edge must be detectable alone (edge report).
  2. Generation: ChildService_Gen enumerates the cases (echo family: request dimensions; gen family: service dimensions) within
     radius 2 of the base case.  The driver renders gen cases as Ego service files and echo cases as HTTP requests.
  3. F binding: THREE real `ego server` processes with identical scratch configuration (same users, settings, instance id,
     service files): services in-process / --child-services over the socket / --child-services over files.  Every case, every
     service under lib/services and a few hand-written programs are sent to all three in lock step (session numbers aligned);
     the driver only sends, reads and splits the responses into fields; ChildService_Trace judges every triple by equality and
     names every failing field (ChildWire!Cause).
  4. self-tests: perturbed copies of accepted triples (status, header, body; one transport / both) are appended to the same log
     and must all be rejected with the expected identities; the child servers' logs must show one spawned child per request.
"""
import base64, http.client, json, os, random, re, shutil, subprocess, threading, time
import vf, egosrv

PROP = "C41"
SPEC = "ChildService"
UUID = "c41c41c4-0000-4000-8000-00000000c041"
USERS = {"admin": ("adm1n-Pw", ["ego.root", "ego.logon"]), "bob": ("pw-bob-1", ["ego.logon"])}
MODES = ("inproc", "pipe", "file")
IGNORED_HEADERS = {"Date", "Content-Length"}          # Date: wall clock; Content-Length: derived from the body (compared itself)
ABSENT = "<absent>"
REQ_TIMEOUT = 600


# ------------------------------------------------------------------ Ego service texts (projection of the abstract cases)
ECHO = '''@endpoint path="/services/vf/echo/{{item}}/{{sub}}" parameter="name:string","tags:list","flag:flag"
import "http"
import "base64"
func handler(req http.Request, w *http.ResponseWriter) {
    result := {
        method: req.Method, path: req.URL.Path, parts: req.URL.Parts, endpoint: req.Endpoint,
        parameters: req.Parameters, headers: req.Headers, body: req.Body, bodylen: len(req.Body),
        bodyb64: base64.Encode(req.Body),
        user: req.Username, admin: req.IsAdmin, isjson: req.IsJSON, istext: req.IsText,
        auth: req.Authenticated, authn: req.Authentication, perms: req.Permissions, session: req.SessionID,
    }
    w.Header().Add("X-Vf-Echo", "1")
    w.WriteHeader(200)
    w.WriteJSON(result)
}
'''

PROGS = {
    # URL part as a bare variable (ServiceHandler defines every URL part as a symbol of the request's table)
    "bare": ('@endpoint path="/services/vf/p/bare/{{item}}"\nimport "http"\n'
             'func handler(req http.Request, w *http.ResponseWriter) {\n'
             '    w.Write([]byte(fmt.Sprintf("item=%v", item)))\n}\n', "/services/vf/p/bare/xyz"),
    # the per-request symbols setupServerSymbols defines
    "syms": ('@endpoint path="/services/vf/p/syms"\nimport "http"\n'
             'func handler(req http.Request, w *http.ResponseWriter) {\n'
             '    w.Write([]byte(fmt.Sprintf("session=%v method=%v user=[%v] mode=%v", _session, _method, _user, _mode)))\n}\n',
             "/services/vf/p/syms"),
    # a small computation over several auto-imported packages, written through Write(value)
    "compute": ('@endpoint path="/services/vf/p/compute"\nimport "http"\n'
                'func handler(req http.Request, w *http.ResponseWriter) {\n'
                '    words := strings.Split("delta alpha charlie bravo", " ")\n    sort.Strings(words)\n'
                '    total := 0\n    for i := 1; i <= 10; i = i + 1 {\n        total = total + i * i\n    }\n'
                '    m := map[string]int{"a": 1, "b": 2}\n    m["c"] = len(words)\n'
                '    b, _ := json.Marshal({words: words, total: total, root: math.Sqrt(16.0), upper: strings.ToUpper(words[0])})\n'
                '    w.Header().Add("X-Vf-Len", strconv.Itoa(len(m)))\n    w.WriteHeader(200)\n    w.Write(b)\n}\n',
                "/services/vf/p/compute"),
    # two writes and console output
    "twowrites": ('@endpoint path="/services/vf/p/twowrites"\nimport "http"\n'
                  'func handler(req http.Request, w *http.ResponseWriter) {\n'
                  '    fmt.Println("console output of the service")\n'
                  '    w.Write([]byte("first;"))\n    w.Write([]byte("second"))\n}\n', "/services/vf/p/twowrites"),
    # registered at start-up, its file removed before the first request (the route outlives the program)
    "deleted": ('@endpoint path="/services/vf/p/deleted"\nimport "http"\n'
                'func handler(req http.Request, w *http.ResponseWriter) {\n    w.Write([]byte("still here"))\n}\n', "/services/vf/p/deleted"),
}


def gen_name(d):
    return "g_%s_%s_%s_%s" % (d["status"], d["hdr"], d["body"], d["fault"])


def gen_service(d):
    """the Ego handler of a gen case: [fault before] headers, status, body [fault after | exit]"""
    name = gen_name(d)
    L = ['@endpoint path="/services/vf/g/%s"' % name, 'import "http"',
         "func handler(req http.Request, w *http.ResponseWriter) {", "    zero := 0"]
    if d["fault"] == "before":
        L.append("    zero = 10 / zero")
    if d["hdr"] == "one":
        L.append('    w.Header().Add("X-Vf-A", "v1")')
    elif d["hdr"] == "multi":
        L += ['    w.Header().Add("X-Vf-A", "v1")', '    w.Header().Add("X-Vf-A", "v2")']
    elif d["hdr"] == "ctype":
        L.append('    w.Header().Add("Content-Type", "text/vnd.vf")')
    if d["status"] != "default":
        L.append("    w.WriteHeader(%s)" % d["status"])
    if d["body"] == "text":
        L.append('    w.Write([]byte("hello"))')
    elif d["body"] == "bin":
        L.append("    w.Write([]byte{255, 254, 65})")
    elif d["body"] == "value":
        L.append('    w.Write({a: 1, b: "two"})')
    if d["fault"] == "after":
        L.append("    zero = 10 / zero")
    elif d["fault"] == "exit":
        L.append("    os.Exit(3)")
    L.append("}")
    return name, "\n".join(L) + "\n"


# ------------------------------------------------------------------ concrete requests (tables: a projection, see notes/C41.md)
ACCEPT = {"none": None, "json": "application/json", "text": "text/plain", "any": "*/*"}
E_VARS = {"two": "/alpha/beta", "one": "/alpha", "none": "", "esc": "/a%20b/c%2Bd"}
E_QUERY = {"none": "", "one": "?name=a", "multi": "?tags=a&tags=b", "esc": "?name=a%20b%26c%3Dd", "flag": "?flag"}
E_HDR = {"none": [], "one": [("X-Vf-One", "v1")], "multi": [("X-Vf-Multi", "v1"), ("X-Vf-Multi", "v2")], "sens": [("Cookie", "k=v")]}
E_BODY = {"none": None, "ascii": b"hello world", "utf8": "héllo 漢".encode(), "bin": b"h\xff\xfeA"}
E_AUTH = {"anon": None, "basic": ("basic", "bob"), "bearer": ("bearer", "bob"), "admin": ("bearer", "admin")}


def echo_request(d):
    hdrs = list(E_HDR[d["hdr"]])
    if ACCEPT[d["accept"]]:
        hdrs.append(("Accept", ACCEPT[d["accept"]]))
    return dict(method=d["method"], path="/services/vf/echo" + E_VARS[d["vars"]] + E_QUERY[d["query"]], headers=hdrs,
                body=E_BODY[d["body"]], auth=E_AUTH[d["auth"]])


def gen_request(d):
    hdrs = [("Accept", ACCEPT[d["accept"]])] if ACCEPT[d["accept"]] else []
    return dict(method="GET", path="/services/vf/g/" + gen_name(d), headers=hdrs, body=None, auth=None)


def _r(method, path, accept="application/json", body=None, auth=None, mask=None, headers=None):
    h = list(headers or [])
    if accept:
        h.append(("Accept", accept))
    return dict(method=method, path=path, headers=h, body=body, auth=auth, mask=mask)


JBODY = b'{"a": 1, "b": "two"}'
LIB = [  # every service program under lib/services, with requests that reach its branches
    ("up#json", _r("GET", "/services/up", mask="up")), ("up#text", _r("GET", "/services/up", "text/plain", mask="up")),
    ("count#1", _r("GET", "/services/count")), ("count#2", _r("GET", "/services/count")),
    ("factor#12", _r("GET", "/services/factor/12")), ("factor#x", _r("GET", "/services/factor/x")),
    ("factor#missing", _r("GET", "/services/factor")), ("factor#12-text", _r("GET", "/services/factor/12", "text/plain")),
    ("hello", _r("GET", "/services/hello", "text/html")), ("hello#json", _r("GET", "/services/hello")),
    ("sample#users", _r("GET", "/services/sample/users")), ("sample#users-text", _r("GET", "/services/sample/users", "text/plain")),
    ("sample#tom", _r("GET", "/services/sample/users/tom")), ("sample#tom-age", _r("GET", "/services/sample/users/tom/age")),
    ("sample#tom-gender", _r("GET", "/services/sample/users/tom/gender", "text/plain")),
    ("sample#tom-bogus", _r("GET", "/services/sample/users/tom/bogus")), ("sample#nobody", _r("GET", "/services/sample/users/nobody")),
    ("sample#nocoll", _r("GET", "/services/sample/")),
    ("bogus-runtime", _r("GET", "/services/bogus-runtime")), ("bogus-runtime#text", _r("GET", "/services/bogus-runtime", "text/plain")),
    ("bogus-compile", _r("GET", "/services/bogus-compile")), ("bogus-compile#text", _r("GET", "/services/bogus-compile", "text/plain")),
    ("bogus-compile#noaccept", _r("GET", "/services/bogus-compile", None)),
    ("admin/redirect", _r("GET", "/services/admin/redirect")), ("admin/redirect#noaccept", _r("GET", "/services/admin/redirect", None)),
    ("admin/debug#bob", _r("GET", "/services/admin/debug", auth=("basic", "bob"))),
    ("admin/debug#bearer", _r("GET", "/services/admin/debug", "text/plain", auth=("bearer", "admin"))),
    ("admin/debug#anon", _r("GET", "/services/admin/debug")),
    ("admin/memory#admin", _r("GET", "/services/admin/memory", "text/html", auth=("bearer", "admin"), mask="volatile")),
    ("admin/memory#bob", _r("GET", "/services/admin/memory", auth=("bearer", "bob"))),
    ("unit-test/echo#get", _r("GET", "/services/unit-test/echo?name=foo&count=5")),
    ("unit-test/echo#get-bare", _r("GET", "/services/unit-test/echo")),
    ("unit-test/echo#get-badcount", _r("GET", "/services/unit-test/echo?count=notanumber")),
    ("unit-test/echo#post", _r("POST", "/services/unit-test/echo", body=JBODY, headers=[("Content-Type", "application/json")])),
    ("unit-test/echo#put", _r("PUT", "/services/unit-test/echo", body=JBODY)),
    ("unit-test/echo#patch", _r("PATCH", "/services/unit-test/echo", body=JBODY)),
    ("unit-test/echo#delete", _r("DELETE", "/services/unit-test/echo", body=b"bye")),
    ("unit-test/media#json", _r("GET", "/services/unit-test/media")), ("unit-test/media#text", _r("GET", "/services/unit-test/media", "text/plain")),
    ("unit-test/media#xml", _r("GET", "/services/unit-test/media", "application/xml")),
    ("unit-test/protected#bob", _r("GET", "/services/unit-test/protected", auth=("basic", "bob"))),
    ("unit-test/protected#anon", _r("GET", "/services/unit-test/protected")),
    ("unit-test/status#200", _r("GET", "/services/unit-test/status/200")), ("unit-test/status#404", _r("GET", "/services/unit-test/status/404")),
    ("unit-test/status#401", _r("GET", "/services/unit-test/status/401")), ("unit-test/status#503", _r("GET", "/services/unit-test/status/503")),
    ("unit-test/status#abc", _r("GET", "/services/unit-test/status/abc")),
]


# ------------------------------------------------------------------ the three servers
class _Srv(egosrv.Server):
    """egosrv.Server probes /services/up, which in child mode spawns a process per probe; probe the native heartbeat instead"""

    def config(self, key, val):             # egosrv allows 30 s; a saturated machine needs more
        try:
            p = subprocess.run([self.ego, "config", "set", "%s=%s" % (key, val)], env=self.env, capture_output=True, text=True, timeout=600)
        except subprocess.TimeoutExpired:
            raise vf.NoVerdict("ego config set %s timed out" % key)
        if p.returncode != 0:
            raise vf.NoVerdict("ego config set %s failed: %s %s" % (key, p.stdout, p.stderr))

    def start(self, wait=None):
        wait = wait or (120 + 20 * os.getloadavg()[0] / (os.cpu_count() or 1))
        if not os.path.exists(self.userfile):
            self.write_users()
        for k, v in self.settings.items():
            self.config(k, v)
        cmd = [self.ego, "server", "run", "-k", "-p", str(self.port), "--users", self.userfile, "--log-file", self.logfile] + self.args
        self.out = open(os.path.join(self.dir, "stdout.txt"), "a")
        self.proc = subprocess.Popen(cmd, env=self.env, cwd=self.dir, stdout=self.out, stderr=subprocess.STDOUT)
        t0 = time.time()
        while time.time() - t0 < wait:
            if self.proc.poll() is not None:
                break
            try:
                if self.req("GET", "/admin/heartbeat", timeout=30).status in (200, 204):
                    return self
            except Exception:
                time.sleep(0.2)
        self.stop()
        raise vf.NoVerdict("ego server (%s) did not start within %ds: %s" % (os.path.basename(self.dir), wait,
                           open(os.path.join(self.dir, "stdout.txt")).read()[-1500:]))

    def send(self, rq, tokens):
        """one HTTP exchange, nothing added by the client but Host / Accept-Encoding: identity; returns (status, [(name, value)], bytes)"""
        c = http.client.HTTPConnection("127.0.0.1", self.port, timeout=REQ_TIMEOUT)
        try:
            c.putrequest(rq["method"], rq["path"])
            for k, v in rq["headers"]:
                c.putheader(k, v)
            if rq.get("auth"):
                kind, user = rq["auth"]
                if kind == "basic":
                    c.putheader("Authorization", "Basic " + base64.b64encode(("%s:%s" % (user, USERS[user][0])).encode()).decode())
                else:
                    c.putheader("Authorization", "Bearer " + tokens[user])
            body = rq.get("body")
            if body is not None:
                c.putheader("Content-Length", str(len(body)))
            c.endheaders()
            if body:
                c.send(body)
            r = c.getresponse()
            data = r.read()
            return r.status, r.getheaders(), data
        finally:
            c.close()


class Fixture:
    def __init__(self, sd, ego, gens):
        self.sd = sd
        self.lib = os.path.join(sd, "lib")
        shutil.copytree(os.path.join(vf.REPO, "lib"), self.lib)
        base = os.path.join(self.lib, "services", "vf")
        os.makedirs(os.path.join(base, "g"))
        os.makedirs(os.path.join(base, "p"))
        open(os.path.join(base, "echo.ego"), "w").write(ECHO)
        for name, (text, _path) in PROGS.items():
            open(os.path.join(base, "p", name + ".ego"), "w").write(text)
        self.gen_files = {}
        for d in gens:
            name, text = gen_service(d)
            self.gen_files[name] = text
            open(os.path.join(base, "g", name + ".ego"), "w").write(text)
        self.filedir = os.path.join(sd, "childfiles")
        os.makedirs(self.filedir)
        # the http.Server write timeout (120 s by default) closes the connection of a request whose child is slow to start
        common = {"ego.runtime.path.lib": self.lib, "ego.compiler.import": "true", "ego.server.write.timeout": "30m"}
        conf = {"inproc": ([], {}), "pipe": (["--child-services"], {}),
                "file": (["--child-services"], {"ego.server.child.services.dir": self.filedir})}
        self.srv = {}
        for m in MODES:
            args, st = conf[m]
            self.srv[m] = _Srv(sd, ego, users=USERS, settings=dict(common, **st), args=args + ["--session-uuid", UUID], name=m,
                               env={"EGO_DEFAULT_LOGGING": "SERVER,CHILD"})
        self.tokens = {}

    def _each(self, fn):
        out, errs = {}, []

        def one(m):
            try:
                out[m] = fn(m, self.srv[m])
            except Exception as ex:          # noqa: a dead server / timeout is no verdict, never a violation
                errs.append("%s: %s" % (m, ex if isinstance(ex, vf.NoVerdict) else repr(ex)))
        ts = [threading.Thread(target=one, args=(m,)) for m in MODES]
        [t.start() for t in ts]
        [t.join() for t in ts]
        if errs:
            raise vf.NoVerdict("server driver failed: " + "; ".join(errs))
        return out

    def start(self):
        self._each(lambda m, s: s.start())

        def logon(m, s):
            t = {}
            for u, (pw, _p) in USERS.items():
                t[u] = s.logon(u, pw, timeout=REQ_TIMEOUT)
                if not t[u]:
                    raise vf.NoVerdict("cannot log on as %s on the %s server\n%s" % (u, m, s.log_text()[-1200:]))
            return t
        self.tokens = self._each(logon)
        os.remove(os.path.join(self.lib, "services", "vf", "p", "deleted.ego"))
        self.align()

    def session_of(self, s):
        st, _h, data = s.send(dict(method="GET", path="/vf-c41-no-such-route", headers=[("Accept", "application/json")]), {})
        try:
            return int(json.loads(data)["server"]["session"])
        except Exception:
            raise vf.NoVerdict("cannot read the session number from the server's 404 document: %r" % data[:300])

    def align(self):
        """the servers answered different numbers of start-up probes: bring their session counters to the same value"""
        cur = self._each(lambda m, s: self.session_of(s))
        top = max(cur.values())

        def pad(m, s):
            n = cur[m]
            while n < top:
                n = self.session_of(s)
            return n
        got = self._each(pad)
        if len(set(got.values())) != 1:
            raise vf.NoVerdict("cannot align session counters: %r" % got)
        self.base_session = top

    def run(self, cases):
        """every case to every server, in the same order (one request at a time per server)"""
        def drive(m, s):
            res = []
            for cs in cases:
                try:
                    res.append(s.send(cs["rq"], self.tokens[m]))
                except Exception as ex:           # a timeout / reset is never a verdict; say where it happened
                    raise vf.NoVerdict("no answer from the %s server for %s %s (%s %s): %r; server alive=%s; log tail: %s"
                                       % (m, cs["fam"], cs["label"], cs["rq"]["method"], cs["rq"]["path"], ex, s.alive(),
                                          s.log_text()[-600:]))
            return res
        out = self._each(drive)
        end = self._each(lambda m, s: self.session_of(s))
        if len(set(end.values())) != 1:
            raise vf.NoVerdict("session counters drifted apart during the run: %r" % end)
        self.sessions_used = end["inproc"] - self.base_session - 1
        return out

    def child_counts(self):
        out = {}
        for m in MODES:
            txt = self.srv[m].log_text()
            out[m] = {"invoke": txt.count('"log.child.invoke"'), "start": txt.count('"log.child.start"'),
                      "file_transport": len(re.findall(r'"log\.child\.running".*--service [^"]*childfiles', txt)),
                      "pipe_transport": len(re.findall(r'"log\.child\.running".*--service pipe', txt))}
        return out

    def stop(self):
        for s in self.srv.values():
            s.stop()


# ------------------------------------------------------------------ projection of a response into fields
def _mask(kind, text):
    if kind == "volatile":
        return "<volatile>"
    if kind == "up":          # the process id and start time of the answering process are not properties of the request
        try:
            j = json.loads(text)
            for k in ("pid", "since"):
                if k in j:
                    j[k] = "#"
            return json.dumps(j, sort_keys=True)
        except ValueError:
            return re.sub(r"since .*$", "since #", re.sub(r"pid \d+", "pid #", text))
    return text


def observe(fam, rq, resp):
    status, headers, data = resp
    o = {"status": str(status)}
    hv = {}
    for k, v in headers:
        if k not in IGNORED_HEADERS:
            hv.setdefault(k, []).append(v)
    for k, vs in hv.items():
        o["h:" + k] = json.dumps(vs)
    text = data.decode("latin-1")
    split = None
    if fam == "echo" and status == 200:
        try:
            j = json.loads(data.decode("utf8"))
            if isinstance(j, dict):
                split = j
        except ValueError:
            pass
    if split is not None:
        for k, v in split.items():
            o["b." + k] = json.dumps(v, sort_keys=True)
    else:
        o["body"] = _mask(rq.get("mask"), text)
    return o


def triple(obs3):
    keys = set()
    for o in obs3.values():
        keys |= set(o)
    return {m: {k: obs3[m].get(k, ABSENT) for k in sorted(keys)} for m in MODES}


# ------------------------------------------------------------------ the check
def select_cases(recs, thorough, rng):
    """thorough: the whole radius-2 ball; quick: radius <= 1, the coupled pairs, a seeded sample of the other pairs"""
    if thorough:
        return sorted(recs, key=lambda c: (c["fam"], c["radius"], c["dev"]))
    cases = [c for c in recs if c["radius"] <= 1 or c["coupled"]]
    far = sorted((c for c in recs if c["radius"] == 2 and not c["coupled"]), key=lambda c: (c["fam"], c["dev"]))
    for fam, n in (("echo", 5), ("gen", 5)):
        pool = [c for c in far if c["fam"] == fam]
        cases += rng.sample(pool, min(n, len(pool)))
    return cases


def run():
    thorough = vf.TIER == "thorough"
    rng = random.Random(vf.SEED)
    chk = vf.Check(PROP)
    chk.assumptions += [
        "configuration: file user store, no DSNs, auto-import on, default type checking; one request at a time per server "
        "(isolation between concurrent requests is C42); PostgreSQL and TLS are not exercised",
        "the three servers share the instance id and have aligned session counters; the process id and start time reported by "
        "lib/services/up.ego and the body of admin/memory.ego (memory statistics, clock) are masked: they describe the answering process",
        "compared per response: status, every header except Date and Content-Length (as lists of values), body bytes "
        "(the echo service's JSON body member by member)",
        "the concrete bytes of every dimension value (paths, queries, headers, bodies, users) are a fixed table of the driver"]
    with vf.scratch() as sd:
        # 2. cases (also carries the edge report of the model)
        rg = vf.tlc(SPEC, "ChildService_Gen", "ChildService_Gen.cfg", sd, workers=1, timeout=1500)
        vf.tlc_ok(rg, "case generation")
        chk.add_tlc(rg, "case generation (radius 2) + edge report", count_states=False)
        rep = [x for x in rg.records if isinstance(x, dict) and x.get("edgereport")]
        recs = [x for x in rg.records if isinstance(x, dict) and "fam" in x and "d" in x]
        if not rep or not rep[-1]["quiet"] or any(v <= 0 for v in rep[-1]["hits"].values()):
            raise vf.NoVerdict("edge report: an edge of the model is undetectable or the edge-free model disagrees: %r" % rep[-1:])
        chk.cov["edge_hits_in_model"] = rep[-1]["hits"]
        seen = {}
        for c in recs:
            seen.setdefault((c["fam"], c["dev"]), c)
        recs = list(seen.values())
        if len(recs) != rep[-1]["cases"]:
            raise vf.NoVerdict("generator printed %d cases, the model has %d" % (len(recs), rep[-1]["cases"]))
        replay = os.environ.get("VERIF_REPLAY")
        only = None
        if replay:          # re-run one reported case (plus the two base cases, which the self-test needs)
            rc = json.load(open(replay))["replay"]["case"]
            only = (rc["fam"], rc["label"])
            thorough = True
        sel = select_cases(recs, thorough, rng)
        cases = []
        for c in sel:
            rq = echo_request(c["d"]) if c["fam"] == "echo" else gen_request(c["d"])
            cases.append({"fam": c["fam"], "label": c["dev"], "c": c["d"], "rq": rq})
        for label, rq in LIB:
            cases.append({"fam": "lib", "label": label, "c": {"label": label}, "rq": rq})
        for name, (_text, path) in sorted(PROGS.items()):
            for acc in ("none", "json") if name in ("compute", "deleted") else ("none",):
                rq = dict(method="GET", path=path, headers=[("Accept", ACCEPT[acc])] if ACCEPT[acc] else [], body=None, auth=None)
                cases.append({"fam": "prog", "label": "%s#%s" % (name, acc), "c": {"label": name}, "rq": rq})
        if only:
            cases = [c for c in cases if (c["fam"], c["label"]) == only or (c["fam"] in ("echo", "gen") and c["label"] == "base")]
            if not any((c["fam"], c["label"]) == only for c in cases):
                raise vf.NoVerdict("replay: no case %s/%s" % only)
        order = list(range(len(cases)))
        rng.shuffle(order)                      # the order of requests is not part of a case
        cases = [cases[i] for i in order]
        gens = [c["c"] for c in cases if c["fam"] == "gen"]

        # 1. model checking runs beside the servers (they only need a JVM)
        mc = {}

        def model():
            try:
                mc["ok"] = vf.tlc(SPEC, "ChildService", "ChildService_MC.cfg", sd, workers=2, timeout=1500)
                mc["asis"] = vf.tlc(SPEC, "ChildService", "ChildService_MC_asis.cfg", sd, workers=2, timeout=1500)
                if thorough and not only:
                    mc["full"] = vf.tlc(SPEC, "ChildService", "ChildService_MC_full.cfg", sd, workers=4, timeout=3000)
            except Exception as ex:
                mc["err"] = ex
        tm = threading.Thread(target=model)
        tm.start()

        # 3. the real servers
        ov = vf.make_overlay(sd, [])
        ego = vf.go_build(ov, ".", os.path.join(sd, "ego"), timeout=3600)     # (vf.build_ego allows 900 s: too little for a cold cache on a saturated machine)
        fx = Fixture(sd, ego, gens)
        try:
            fx.start()
            t0 = time.time()
            out = fx.run(cases)
            chk.cov["request_wall_s"] = round(time.time() - t0, 1)
            counts = fx.child_counts()
        finally:
            fx.stop()
        tm.join()
        if "err" in mc:
            raise mc["err"] if isinstance(mc["err"], vf.NoVerdict) else vf.NoVerdict("model checking failed: %r" % mc["err"])
        vf.tlc_ok(mc["ok"], "ChildService MC (Lossy = {})")
        chk.add_tlc(mc["ok"], "MC: identity wire satisfies Agreement")
        if mc["asis"].violated != "Agreement":
            raise vf.NoVerdict("negative control: the model of child.go as read did not violate Agreement (%s %s)"
                               % (mc["asis"].violated, (mc["asis"].error or "")[:300]))
        chk.add_tlc(mc["asis"], "negative control: child.go as read violates Agreement", count_states=False)
        if "full" in mc:
            vf.tlc_ok(mc["full"], "ChildService MC (Lossy = {}, whole product)")
            chk.add_tlc(mc["full"], "MC: identity wire satisfies Agreement on the whole product of both families")

        # vacuity guards on the fixture: requests really ran in spawned children, over the intended transport
        n = len(cases)
        chk.cov["child_processes"] = counts
        if counts["inproc"]["invoke"] != 0:
            raise vf.NoVerdict("the in-process server spawned children: %r" % counts)
        for m, tr in (("pipe", "pipe_transport"), ("file", "file_transport")):
            if counts[m]["invoke"] < (n + 1) // 2 or counts[m][tr] != counts[m]["invoke"]:
                raise vf.NoVerdict("the %s server did not run its requests in children over its transport: %r" % (m, counts))

        log, detail = [], []
        for i, cs in enumerate(cases):
            obs3 = triple({m: observe(cs["fam"], cs["rq"], out[m][i]) for m in MODES})
            rec = {"id": i + 1, "fam": cs["fam"], "label": cs["label"], "c": cs["c"], "selftest": "",
                   "inproc": obs3["inproc"], "pipe": obs3["pipe"], "file": obs3["file"]}
            log.append(rec)
            detail.append({"request": {k: (v.decode("latin-1") if isinstance(v, bytes) else v) for k, v in cs["rq"].items()},
                           "service": fx.gen_files.get(gen_name(cs["c"])) if cs["fam"] == "gen" else None})

        # 4. self-test records: perturbed copies of accepted triples, judged in the same TLC run
        agree = [r for r in log if r["pipe"] == r["inproc"] and r["file"] == r["inproc"]]
        agree_mod = [r for r in agree if r["fam"] in ("echo", "gen")]
        expect = {}
        if agree:
            def perturbed(r, tag, field, modes):
                q = json.loads(json.dumps(r))
                q["selftest"] = tag
                for m in modes:
                    q[m][field] = q[m][field] + "~"
                return q
            pool = agree_mod or agree
            r1 = rng.choice(pool)
            r2 = rng.choice(agree)
            hdr = sorted(k for k in r2["inproc"] if k.startswith("h:"))[0]
            bodyf = sorted(k for k in r1["inproc"] if k == "body" or k.startswith("b."))[-1]
            for q, suffix, field in ((perturbed(r1, "status/both", "status", ("pipe", "file")), "", "status"),
                                     (perturbed(r2, "header/file", hdr, ("file",)), "@file", hdr),
                                     (perturbed(r1, "body/pipe", bodyf, ("pipe",)), "@pipe", bodyf)):
                q["id"] = len(log) + 1
                expect[q["id"]] = (q["selftest"], field, suffix)
                log.append(q)
        io = vf.write_ndjson(os.path.join(sd, "io.ndjson"), log)
        nrec, bad = vf.fio_validate(chk, SPEC, "ChildService_Trace", "ChildService_Trace.cfg", sd, io, name="contract over the logged triples",
                                    timeout=1500)
        if nrec != len(log):
            raise vf.NoVerdict("contract saw %d records, %d were logged" % (nrec, len(log)))
        if any(b["key"] == "not-a-case" for b in bad):
            raise vf.NoVerdict("contract: records outside the domain: %r" % [b for b in bad if b["key"] == "not-a-case"][:3])
        if not expect:
            raise vf.NoVerdict("self-test impossible: no request was answered identically by the three servers")
        for idx, (tag, field, suffix) in expect.items():
            ks = [b["key"] for b in bad if b["idx"] == idx]
            if len(ks) != 1 or field not in ks[0] or not ks[0].endswith(suffix) or (suffix == "" and "@" in ks[0]):
                raise vf.NoVerdict("binding self-test failed: perturbed record %s judged %r" % (tag, ks))
        chk.cov["binding_selftest"] = "3 perturbed accepted triples (status both transports, header file only, body pipe only) rejected with the expected identities"

        real_bad = [b for b in bad if b["idx"] not in expect]
        for b in real_bad:
            r = log[b["idx"] - 1]
            f = b["key"]
            diff = {k: {m: r[m][k] for m in MODES} for k in r["inproc"] if r["pipe"][k] != r["inproc"][k] or r["file"][k] != r["inproc"][k]}
            chk.violation(b["key"], "child-process answer differs from the in-process answer (%s %s): %s"
                          % (r["fam"], r["label"], json.dumps(diff)[:700]),
                          {"case": {"fam": r["fam"], "label": r["label"], "c": r["c"]}, "differs": diff, **detail[b["idx"] - 1]})
        fams = {}
        for r in log[:n]:
            fams[r["fam"]] = fams.get(r["fam"], 0) + 1
        chk.cov["cases_by_family"] = fams
        chk.cov["cases_agreeing"] = len(agree)
        chk.cov["cases_differing"] = len({b["idx"] for b in real_bad})
        chk.cov["traces_validated_against_impl"] = n
        chk.cov["evaluations"] = 2 * n                      # (in-process, child) pairs judged
        chk.cov["distinct_nontrivial"] = len({(r["fam"], r["label"]) for r in log[:n]})
        chk.cov["sessions_used"] = fx.sessions_used
        chk.cov["exhaustive"] = bool(thorough) and not only
        chk.cov["rule"] = ("cases = ChildService_Gen (radius-2 ball of both families: all of it in the thorough tier, radius 1 plus a seeded "
                           "sample of radius 2 in the quick tier) + every lib/services program + 4 hand-written programs; "
                           "evaluations = (in-process, child) response pairs of real servers judged field by field by ChildService_Trace")
        for r in (agree_mod[:2] + [log[b["idx"] - 1] for b in real_bad[:2]]):
            chk.sample({"kind": "logged triple", "fam": r["fam"], "label": r["label"], "inproc": r["inproc"],
                        "pipe_differs": {k: v for k, v in r["pipe"].items() if v != r["inproc"][k]},
                        "file_differs": {k: v for k, v in r["file"].items() if v != r["inproc"][k]}})
    return chk.finish()


if __name__ == "__main__":
    vf.main(run)

"""C27 - decryption never accepts a forged ciphertext.
spec/CryptoEnvelope (+_MC, _Gen, _Trace).  Stages:
  MC            the envelope logic around an ideal AEAD (dispatch, salt/nonce split, short inputs) offered EVERY
                byte string at a small layout: NoForgery + RoundTrip (exhaustive)
  negative ctl  Impl="asis" (early returns report success) must violate NoForgery
  Gen           TLC enumerates sealing requests (format x plaintext x passphrase) + the wire layout
  harness       real util.Encrypt/Decrypt, settings.Encrypt/Decrypt, tokens.New/Unwrap/Validate: every single-byte
                edit at every offset, truncation to every length, extensions, magic/prefix swaps, other keys, garbage
  F             CryptoEnvelope_Trace judges every logged call (contract of C27), checks that each input is the edit
                it is labelled with, that no offset/length was skipped, and that the model itself meets the
                contract on the real inputs
  self-test     corrupted replies / a mislabelled edit / a dropped length must be noticed."""
import json, os, random
import vf

PROP = "C27"
SPEC = "CryptoEnvelope"
PKG = "internal/verifharness/c27"
HARNESS = [vf.kit(PKG, "c27"), ("crypto/envelope_test.go", PKG + "/envelope_test.go")]
ORDER = ["u0", "s0", "s2", "u2", "u3", "s3", "tok"]
API_FN = {"util": "util.Decrypt", "settings": "settings.Decrypt", "unwrap": "tokens.Unwrap", "validate": "tokens.Validate"}


def _asis_cfg(tier):
    base = open(os.path.join(vf.VERIF, "spec", SPEC, "CryptoEnvelope_Trace.cfg")).read()
    return base.replace('Impl = "fixed"', 'Impl = "asis"').replace('Tier = "quick"', 'Tier = "%s"' % tier)


def _judge(chk, sd, io_path, seals_path, cfg, name, timeout):
    """One run of the contract spec; returns its report record."""
    files = {"io.ndjson": io_path, "seals.ndjson": seals_path}
    cfgname = cfg
    if cfg.startswith("SPECIFICATION"):
        files["CryptoEnvelope_Trace_x.cfg"] = cfg
        cfgname = "CryptoEnvelope_Trace_x.cfg"
    r = vf.tlc(SPEC, "CryptoEnvelope_Trace", cfgname, sd, workers=1, files=files, timeout=timeout, keep_stdout=False)
    if r.error or r.violated or r.rc != 0:
        raise vf.NoVerdict("%s: contract evaluation failed: %s %s\n%s" % (name, r.violated, r.error, r.stdout[-2500:]))
    rep = [x for x in r.records if isinstance(x, dict) and "bad" in x and "n" in x]
    if not rep:
        raise vf.NoVerdict("%s: contract spec printed no report\n%s" % (name, r.stdout[-1500:]))
    if name:
        chk.add_tlc(r, name, count_states=False)
    rep = rep[-1]
    for k in ("bad", "unsound", "incons"):
        if not isinstance(rep[k], list):
            rep[k] = []
    return rep


def _hexs(v):
    return bytes(v).hex()


def _replay(path):
    """bin/verif check C27 --replay replays/C27-<key>.json : re-execute the recorded call on the tree under test."""
    o = json.load(open(path))["replay"]
    seal, call = dict(o["sealed"]), dict(o["call"])
    seal["id"] = 1
    call["seal"] = 1
    with vf.scratch() as sd:
        cin, ss = os.path.join(sd, "calls.ndjson"), os.path.join(sd, "seals.ndjson")
        vf.write_ndjson(cin, [call])
        vf.write_ndjson(ss, [seal])
        ov = vf.make_overlay(sd, HARNESS)
        binp = vf.go_test_compile(ov, "./" + PKG + "/", os.path.join(sd, "c27.test"))
        env = dict(os.environ)
        env.update(VERIF_IN=cin, VERIF_OUT=sd)
        p = vf.run([binp, "-test.run", "^TestVerifC27Replay$"], cwd=sd, env=env, timeout=600)
        io_path = os.path.join(sd, "io.ndjson")
        if p.returncode != 0 or not os.path.exists(io_path):
            raise vf.NoVerdict("replay harness failed\n%s\n%s" % (p.stdout[-2000:], p.stderr[-2000:]))
        rep = _judge(vf.Check(PROP), sd, io_path, ss, "CryptoEnvelope_Trace.cfg", None, 600)
        rec = vf.read_ndjson(io_path)[0]
        print("replayed %s: ok=%s err=%s text=%r" % (API_FN[rec["api"]], rec["ok"], rec["err"], bytes(rec["got"])))
        if rep["bad"]:
            print("VIOLATION property=%s replay=%s" % (PROP, path))
            print("  key=%s" % rep["bad"][0]["key"])
            return 1
        print("replay: the contract holds for this call on %s" % vf.REPO)
        return 0


def run():
    if os.environ.get("VERIF_REPLAY"):
        return _replay(os.environ["VERIF_REPLAY"])
    thorough = vf.TIER == "thorough"
    tier = "thorough" if thorough else "quick"
    chk = vf.Check(PROP)
    chk.assumptions += [
        "the cipher is an ideal AEAD and the four key derivations (Argon2id, PBKDF2, SHA-256, MD5-hex) never collide: "
        "AES-GCM / KDF strength is trusted, what is checked is the envelope handling around them",
        "a re-spelling of the same ciphertext bytes (hex letter case; base64 with CR/LF or non-zero padding bits) may be "
        "accepted with the original text or refused - the statement is silent; it may never yield other text",
        "v2 / legacy ciphertexts are produced by the harness from the documented wire format (PBKDF2-SHA256 100000 "
        "iterations, SHA-256, MD5-hex keys; layout constants from the spec) because the code can only read them",
        "token expiry / blacklist are not exercised (30-day tokens, no blacklist database)"]
    with vf.scratch() as sd:
        # 1. the design: exhaustive over every byte string at a small layout
        r = vf.tlc_ok(vf.tlc(SPEC, "CryptoEnvelope_MC", "CryptoEnvelope_MC.cfg" if thorough else "CryptoEnvelope_MCq.cfg", sd,
                             workers=6 if thorough else 4, timeout=2400), "CryptoEnvelope MC")
        chk.add_tlc(r, "MC fixed, every input string, 1 seal")
        if thorough:
            r2 = vf.tlc_ok(vf.tlc(SPEC, "CryptoEnvelope_MC", "CryptoEnvelope_MC2.cfg", sd, workers=6, timeout=2400), "CryptoEnvelope MC 2 seals")
            chk.add_tlc(r2, "MC fixed, every input string, 2 seals")
            r3 = vf.tlc_ok(vf.tlc(SPEC, "CryptoEnvelope_MC", "CryptoEnvelope_MC_asis_token.cfg", sd, workers=4, timeout=1200),
                           "CryptoEnvelope MC as-is, token layer only")
            chk.add_tlc(r3, "MC as-is: the token layer alone still holds (it refuses empty text)", count_states=False)
        # 2. negative control: the model must be able to see the short-input defect (vacuity guard)
        rn = vf.tlc(SPEC, "CryptoEnvelope_MC", "CryptoEnvelope_MC_asis.cfg", sd, workers=2, timeout=900)
        if rn.violated != "NoForgery":
            raise vf.NoVerdict("negative control: as-is early returns did not violate NoForgery (%s %s)" % (rn.violated, rn.error))
        chk.add_tlc(rn, "negative control (as-is early returns) violates NoForgery", count_states=False)
        # 3. sealing requests + layout from the spec
        rg = vf.tlc_ok(vf.tlc(SPEC, "CryptoEnvelope_Gen", "CryptoEnvelope_Gen_thorough.cfg" if thorough else "CryptoEnvelope_Gen.cfg",
                              sd, workers=1, timeout=300), "CryptoEnvelope_Gen")
        plans = [x for x in rg.records if isinstance(x, dict) and "requests" in x]
        if not plans:
            raise vf.NoVerdict("generator printed no plan")
        plan = plans[0]
        plan["requests"].sort(key=lambda q: (ORDER.index(q["fmt"]), len(q["pt"]), q["pass"]))
        chk.add_tlc(rg, "Gen", count_states=False)
        pf = os.path.join(sd, "plan.json")
        json.dump(plan, open(pf, "w"))
        # 4. the real code
        ov = vf.make_overlay(sd, HARNESS)
        binp = vf.go_test_compile(ov, "./" + PKG + "/", os.path.join(sd, "c27.test"))
        env = dict(os.environ)
        env.update(VERIF_IN=pf, VERIF_OUT=sd, VERIF_TIER=tier, VERIF_SEED=str(vf.SEED),
                   VERIF_WORKERS=os.environ.get("VERIF_WORKERS", "8" if thorough else "6"))
        p = vf.run([binp, "-test.run", "^TestVerifC27Envelope$", "-test.timeout", "14000s"], cwd=sd, env=env, timeout=14100)
        io_path, seals_path = os.path.join(sd, "io.ndjson"), os.path.join(sd, "seals.ndjson")
        if p.returncode != 0 or not os.path.exists(io_path):
            raise vf.NoVerdict("harness failed (rc=%s)\n%s\n%s" % (p.returncode, p.stdout[-3000:], p.stderr[-2000:]))
        chk.cov["harness_wall_s"] = round(p.wall, 1)
        # 5. the contract
        rep = _judge(chk, sd, io_path, seals_path, "CryptoEnvelope_Trace_thorough.cfg" if thorough else "CryptoEnvelope_Trace.cfg",
                     "contract over recorded calls (F)", 7200)
        n = int(rep["n"])
        if not rep["wellformed"]:
            raise vf.NoVerdict("a sealed text does not decode under its own format (harness/spec mismatch)")
        if rep["incons"]:
            raise vf.NoVerdict("logged inputs that are not the edit they are labelled with: %s" % rep["incons"][:10])
        if not rep["complete"]:
            raise vf.NoVerdict("the harness skipped an offset / length / edit kind of the quantifier (Complete is false)")
        if rep["unsound"]:
            raise vf.NoVerdict("the 'fixed' model itself breaks the contract on real inputs %s (spec error)" % rep["unsound"][:10])
        if n < 500:
            raise vf.NoVerdict("only %d calls recorded" % n)
        seals = vf.read_ndjson(seals_path)
        lines = open(io_path).read().splitlines()
        for b in rep["bad"]:
            rec = json.loads(lines[b["idx"] - 1])
            s = seals[rec["seal"] - 1]
            what = ("%s(%s input %d bytes [%s], key %s) returned ok=%s err=%s text=%r; sealed text %d bytes, plaintext %r: "
                    "the contract demands %s") % (
                API_FN[rec["api"]], rec["kind"], len(rec["inp"]), _hexs(rec["inp"])[:96], "same" if rec["pass"] == s["pass"] else "other",
                rec["ok"], rec["err"], bytes(rec["got"]), len(s["text"]), bytes(s["pt"]),
                "the sealed plaintext without error" if rec["kind"] == "none" else "an error and no text")
            chk.violation(b["key"], what, {"call": rec, "sealed": s, "input_hex": _hexs(rec["inp"]),
                                           "how": "call %s(string(input), call.pass) - for tokens set EGO_SERVER_TOKEN_KEY=call.pass" % API_FN[rec["api"]]})
        chk.cov["traces_validated_against_impl"] = len(seals)
        chk.cov["evaluations"] = n
        chk.cov["model_agrees_with_real_code"] = rep["agree"]
        kinds, nontriv = {}, set()
        for l in lines:
            c = json.loads(l)
            kinds[c["api"] + "/" + c["kind"]] = kinds.get(c["api"] + "/" + c["kind"], 0) + 1
            nontriv.add((c["seal"], c["api"], c["kind"], c["off"], c["n"], c["arg"], c["pass"]))
        chk.cov["distinct_nontrivial"] = len(nontriv)
        chk.cov["calls_by_entry_and_edit"] = kinds
        chk.cov["seals"] = [{"fmt": s["fmt"], "text_len": len(s["text"]), "pt_len": len(s["pt"])} for s in seals]
        for want in ("none", "flip"):
            for l in lines:
                c = json.loads(l)
                if c["kind"] == want and c["api"] == "util":
                    chk.sample({"kind": "recorded call", "api": c["api"], "edit": c["kind"], "off": c["off"], "input_hex": _hexs(c["inp"]),
                                "ok": c["ok"], "err": c["err"], "text": bytes(c["got"]).decode("latin1")})
                    break
        # 6. does the real code behave exactly like the as-is model where it breaks the contract? (diagnostic only)
        if rep["bad"] and not thorough:
            ra = _judge(chk, sd, io_path, seals_path, _asis_cfg(tier), "real code vs as-is model (diagnostic)", 3000)
            chk.cov["asis_model_agrees_with_real_code"] = ra["agree"]
            chk.notes.append("contract violations: %d of %d calls; the as-is model (early returns report success) predicts the real reply on %d of %d calls"
                             % (len(rep["bad"]), n, ra["agree"], n))
        # 7. binding self-test on the records of the first two seals: corrupted replies must be judged bad,
        #    a mislabelled edit must be noticed, a dropped length must break Complete
        rng = random.Random(vf.SEED)
        sub = [json.loads(l) for l in lines if json.loads(l)["seal"] <= 2]
        sseals = seals[:2]
        badidx_before = {b["idx"] for b in rep["bad"]}
        okrec = [k for k, c in enumerate(sub) if c["kind"] == "none" and c["ok"]]
        rej = [k for k, c in enumerate(sub) if c["kind"] == "flip" and not c["ok"] and c["err"]]
        trs = [k for k, c in enumerate(sub) if c["kind"] == "trunc" and c["n"] == 5]
        if not okrec or not rej or not trs:
            raise vf.NoVerdict("self-test: no accepted genuine call / rejected edit in the first two seals (driver too weak)")
        extra = []
        c = dict(sub[rng.choice(okrec)]); c.update(ok=False, err=True, got=[]); extra.append(c)                 # genuine refused
        c = dict(sub[rng.choice(rej)]); c.update(ok=True, err=False, got=sseals[c["seal"] - 1]["pt"]); extra.append(c)   # forgery accepted
        c = dict(sub[rng.choice(rej)]); c.update(ok=True, err=False, got=[120]); extra.append(c)                # forgery yields other text
        c = dict(sub[rng.choice(okrec)]); c.update(got=c["got"] + [33]); extra.append(c)                         # wrong text on round trip
        c = dict(sub[rng.choice(rej)]); c["off"] = c["off"] % len(c["inp"]) + 1; extra.append(c)                 # mislabelled edit
        drop = rng.choice(trs)
        st = [c for k, c in enumerate(sub) if k != drop] + extra
        base = len(st) - len(extra)
        sp, ss = os.path.join(sd, "self.ndjson"), os.path.join(sd, "selfseals.ndjson")
        vf.write_ndjson(sp, st)
        vf.write_ndjson(ss, sseals)
        rs = _judge(chk, sd, sp, ss, "CryptoEnvelope_Trace_thorough.cfg" if thorough else "CryptoEnvelope_Trace.cfg", None, 900)
        got_bad = {b["idx"] for b in rs["bad"]}
        need_bad = {base + 1, base + 2, base + 3, base + 4}
        if not need_bad <= got_bad:
            raise vf.NoVerdict("binding self-test failed: corrupted replies %s were not all judged bad (%s)" % (sorted(need_bad), sorted(got_bad)[-8:]))
        if rs["incons"] != [base + 5]:
            raise vf.NoVerdict("binding self-test failed: the mislabelled edit was not noticed (incons=%s)" % rs["incons"][:8])
        if rs["complete"]:
            raise vf.NoVerdict("binding self-test failed: a dropped truncation length did not break Complete")
        chk.cov["binding_selftest"] = ("refused genuine call, accepted forgery (original / other text), wrong round-trip text: all judged bad; "
                                       "mislabelled edit noticed; dropped truncation length breaks Complete")
        chk.cov["rule"] = ("evaluations = calls of the real entry points judged by CryptoEnvelope_Trace; non-trivial+distinct = distinct "
                           "(sealed text, entry point, edit kind, offset, length, argument, key) tuples; per sealed text EVERY offset "
                           "gets a single-byte edit and EVERY shorter length a truncation (TLC-checked, Complete)"
                           + ("" if thorough else "; quick tier: token layer sparse between header and tag (util layer complete)"))
        chk.cov["exhaustive"] = False
    return chk.finish()

"""C16 - SQL reformatting preserves statements.

spec/SqlFormat (SqlFormatExpr / SqlFormatIdent / SqlFormatStmt / SqlFormatDefs, SqlFormat, _Gen, _Trace).  Stages:
  MC   the design on the model: for every expression of the bound, Read(Lex(Fmt(Read(src)))) = Read(src) and formatting
       twice = formatting once; every planted name keeps its role, its lexing and (PostgreSQL) its denotation
  neg  negative controls: the printer as it is on the unchanged tree (unary operators glued: "--"; names quoted by
       shape only) must violate RoundTrip / KeepsRole / KeepsDenotation, else the invariants are vacuous
  Gen  every case of the bound (operator pairs x nesting x parentheses, identifier classes x grammar positions,
       clause/option matrices of every statement kind) with its SQL text, fixture and probe statements
  F    in-package harness: real sqlparse.New / Format / New / Format, the real lexer's tokens, and a scratch SQLite
       database (the modernc engine the server uses) executing the original and the reformatted text; everything logged
  contract  SqlFormat_Trace (TLC) judges every record: reparse / idem / exec / denote; model fidelity (the spec's reader
       and printer against the real ones) is measured on the expression family
  self-test  corrupted records must be rejected by the contract
"""
import collections, json, os, random, threading, time
import vf

PROP = "C16"
HARNESS = [("sqlformat/roundtrip_test.go", "internal/sqlparse/zz_verif_c16_test.go")]
SPEC = "SqlFormat"
PRE, SUF = "SELECT ", " AS r\nFROM t\nORDER BY id"
SMALL_FAMS = {"ident", "misc", "txn", "drop", "alter", "create_index", "create_view", "delete"}
TLC_FIELDS = ("id", "fam", "d", "what", "cls", "pos", "name", "srcq", "etoks", "parsed", "ast1", "ast2", "e1", "e2txt", "text2",
              "text3", "parsed2", "toks2", "x1", "x2")


def case_key(c):
    return json.dumps([c["fam"], c["d"], sorted(c["what"]), c["sql"]])


def select_cases(cases, thorough, rng):
    """thorough: everything generated.  quick: every identifier case, every small family, every case with at most one
    non-default option, and a seeded sample of the two-option cases and of the expression cases."""
    if thorough:
        return list(cases)
    out, pools = [], collections.defaultdict(list)
    for c in cases:
        if c["fam"] in SMALL_FAMS or (c["fam"] != "expr" and len(c["what"]) <= 1):
            out.append(c)
        elif c["fam"] == "expr":
            pools[("expr", c["what"][0] if c["what"] else "")].append(c)
        else:
            pools[(c["fam"], c["d"])].append(c)
    for key in sorted(pools, key=str):
        pool = sorted(pools[key], key=case_key)
        n = 14 if key[0] == "expr" else (150 if key[1] == "sqlite" else 40)
        out += rng.sample(pool, min(n, len(pool)))
    return out


def run_harness(sd, testbin, fixture, cases, shards):
    """Runs the compiled in-package harness on the cases, in `shards` parallel processes."""
    cases = sorted(cases, key=lambda c: (json.dumps(c["fx"]), c["id"]))      # same fixture next to each other (database reuse)
    per = (len(cases) + shards - 1) // shards
    jobs, outs = [], []
    for k in range(shards):
        part = cases[k * per:(k + 1) * per]
        if not part:
            continue
        fin, fout = os.path.join(sd, "h-in-%d.ndjson" % k), os.path.join(sd, "h-out-%d.ndjson" % k)
        recs = [{"id": 0, "fixture": fixture}]
        for c in part:
            recs.append({"id": c["id"], "d": c["d"], "sql": c["sql"], "fixture": c["fx"], "pre": c["pre"], "probe": c["probe"],
                         "fresh": c["fresh"]})
        vf.write_ndjson(fin, recs)
        if os.path.exists(fout):
            os.remove(fout)
        env = vf.goenv({"VERIF_IN": fin, "VERIF_OUT": fout})
        jobs.append(([testbin, "-test.run", "^TestVerifC16RoundTrip$", "-test.timeout", "3000s"], None, sd, env))
        outs.append((fout, len(part)))
    res = vf.run_many(jobs, nproc=shards, timeout=3300)
    got = {}
    for (fout, n), (rc, so, se) in zip(outs, res):
        if not os.path.exists(fout):
            raise vf.NoVerdict("harness produced no result (rc=%s)\n%s\n%s" % (rc, so[-2000:], se[-2000:]))
        recs = vf.read_ndjson(fout)
        if len(recs) != n:
            raise vf.NoVerdict("harness returned %d of %d records" % (len(recs), n))
        for r in recs:
            got[r["id"]] = r
    return got


def merge(c, h):
    """One io record: the case's identity from the generator + what the real code did."""
    r = {"id": c["id"], "fam": c["fam"], "d": c["d"], "what": c["what"], "cls": c["cls"], "pos": c["pos"], "name": c["name"],
         "srcq": c["srcq"], "etoks": c["etoks"], "sql": c["sql"], "fx": c["fx"], "pre": c["pre"], "probe": c["probe"], "fresh": c["fresh"]}
    for k in ("parsed", "err", "ast1", "e1", "text2", "parsed2", "err2", "ast2", "text3", "toks2"):
        r[k] = h[k]
    t2 = h["text2"]
    r["e2txt"] = t2[len(PRE):-len(SUF)] if c["fam"] == "expr" and t2.startswith(PRE) and t2.endswith(SUF) else "?"
    for x in ("x1", "x2"):
        r[x] = {k: h[x][k] for k in ("ran", "ok", "syn", "rows", "state")}
        r[x + "detail"] = h[x]["detail"]
    return r


def contract(chk, sd, recs, name, timeout=3000):
    path = os.path.join(sd, "io-%d.ndjson" % int(time.time() * 1e6))
    vf.write_ndjson(path, [{k: r[k] for k in TLC_FIELDS} for r in recs])
    r = vf.tlc(SPEC, "SqlFormat_Trace", "SqlFormat_Trace.cfg", sd, workers=1, files={"io.ndjson": path}, timeout=timeout)
    if r.error or r.violated or r.rc != 0:
        raise vf.NoVerdict("contract evaluation failed: %s %s\n%s" % (r.violated, r.error, r.stdout[-2500:]))
    rep = [x for x in r.records if isinstance(x, dict) and "bad" in x and "n" in x]
    if not rep or int(rep[-1]["n"]) != len(recs):
        raise vf.NoVerdict("contract spec printed no (complete) report\n" + r.stdout[-1500:])
    if name:
        chk.add_tlc(r, name, count_states=False)
    rep = rep[-1]
    for k in ("bad", "xbad"):
        if not isinstance(rep[k], list):
            rep[k] = []
    return rep


def render_key(b):
    return "%s/%s/%s/%s" % (b["fam"], b["d"], "+".join(sorted(b["what"])) or "base", "+".join(sorted(b["clauses"])))


def describe(r, clauses):
    parts = []
    if "reparse" in clauses:
        parts.append("the reformatted text does not parse to the same tree (%s)" % (r["err2"] or "trees differ"))
    if "idem" in clauses:
        parts.append("reformatting the reformatted text changes it again")
    if "exec" in clauses:
        parts.append("SQLite: original ok=%s, reformatted ok=%s, rows %s, effect %s" % (
            r["x1"]["ok"], r["x2"]["ok"], "equal" if r["x1"]["rows"] == r["x2"]["rows"] else "DIFFER",
            "equal" if r["x1"]["state"] == r["x2"]["state"] else "DIFFERS"))
    if "denote" in clauses:
        parts.append("under PostgreSQL's folding rule the name %r (source %s) no longer denotes the same object" % (
            r["name"], "quoted" if r["srcq"] else "unquoted"))
    return "[%s] %s  ==Format==>  %s : %s" % (r["d"], r["sql"], r["text2"].replace("\n", " "), "; ".join(parts))


def run():
    thorough = vf.TIER == "thorough"
    rng = random.Random(vf.SEED)
    chk = vf.Check(PROP)
    chk.assumptions += [
        "PostgreSQL cannot be executed offline: statements parsed in the PostgreSQL dialect are executed on SQLite when SQLite "
        "accepts the original; what a name denotes under PostgreSQL is judged by the documented folding rule (unquoted = lower case)",
        "'same effect and result' = same success/failure, same result row values in the same order, same outcome of the probe "
        "statements and same database state (schema objects, columns, declared types folded to upper case, indexes, foreign keys, "
        "all rows); result column NAMES of unaliased expressions are SQLite's rendering of the expression text and are not compared; "
        "error message texts are not compared",
        "statements with bind parameters cannot be executed and are judged on the tree clauses only",
        "trees are compared through the harness' projection: node type + every exported field except source positions; "
        "zero-valued fields are dropped (nil and empty list are the same tree)",
        "one statement per text (the parser accepts exactly one)"]
    with vf.scratch(prefix="c16-") as sd:
        res = {}

        walls = {}

        def stage(name, fn):
            t0 = time.time()
            try:
                res[name] = fn()
            except BaseException as ex:     # re-raised in the main thread
                res[name] = ex
            walls[name] = round(time.time() - t0)

        def build():
            ov = vf.make_overlay(sd, HARNESS)
            return vf.go_test_compile(ov, "./internal/sqlparse/", os.path.join(sd, "sqlparse.test"), timeout=2400)

        replay = os.environ.get("VERIF_REPLAY")
        jobs = {"build": build}
        if not replay:
            jobs["gen"] = lambda: vf.tlc(SPEC, "SqlFormat_Gen", "SqlFormat_Gen.cfg" if thorough else "SqlFormat_Genq.cfg", sd, workers=2, timeout=2400)
            jobs["mc"] = lambda: vf.tlc(SPEC, "SqlFormat", "SqlFormat_MC.cfg" if thorough else "SqlFormat_MCq.cfg", sd, workers=2, timeout=2400)
            # quick: one negative control with the whole printer as on the unchanged tree; thorough: one per defect class
            for n in (["unary", "role", "denote"] if thorough else ["all"]):
                cfg = "SqlFormat_MC_asis.cfg" if n == "all" else "SqlFormat_MC_asis_%s.cfg" % n
                jobs["neg_" + n] = (lambda cfg=cfg: vf.tlc(SPEC, "SqlFormat", cfg, sd, workers=2, timeout=2400))
        ths = [threading.Thread(target=stage, args=(n, f)) for n, f in jobs.items()]
        for t in ths:
            t.start()
        for t in ths:
            t.join()
        for n in jobs:
            if isinstance(res[n], BaseException):
                raise res[n]
        testbin = res["build"]
        vf.log("C16 build+MC+neg+gen done %.0fs %s" % (time.time() - chk.t0, walls))

        if replay:
            rr = json.load(open(replay))["replay"]["record"]
            fixture = json.load(open(replay))["replay"]["fixture"]
            case = {k: rr[k] for k in ("fam", "d", "what", "cls", "pos", "name", "srcq", "etoks", "sql", "fx", "pre", "probe", "fresh")}
            case["id"] = 1
            h = run_harness(sd, testbin, fixture, [case], 1)
            flat = [merge(case, h[1])]
            rep = contract(chk, sd, flat, "replayed record judged by the contract")
            for b in rep["bad"]:
                r = flat[b["idx"] - 1]
                chk.violation(render_key(b), describe(r, b["own"]), {"record": r, "fixture": fixture})
            chk.cov["states"] = max(1, chk.cov["states"])
            chk.cov["transitions"] = max(1, chk.cov["transitions"])
            chk.cov["evaluations"] = 1
            chk.cov["traces_validated_against_impl"] = 1
            chk.sample({"sql": case["sql"], "formatted": flat[0]["text2"], "parsed": flat[0]["parsed"]})
            chk.cov["rule"] = "replay of one statement"
            return chk.finish()

        # 1. the design satisfies the property on the model
        chk.add_tlc(vf.tlc_ok(res["mc"], "SqlFormat MC"), "MC design printer (%s expression bound)" % ("full" if thorough else "small"))
        # 2. negative controls (vacuity guards)
        want = {"unary": {"RoundTrip"}, "role": {"KeepsRole"}, "denote": {"KeepsDenotation"},
                "all": {"RoundTrip", "KeepsRole", "KeepsExec", "KeepsDenotation"}}
        for n in jobs:
            if n.startswith("neg_"):
                if res[n].violated not in want[n[4:]]:
                    raise vf.NoVerdict("negative control %s: the as-is printer model did not violate %s (%s %s)"
                                       % (n, sorted(want[n[4:]]), res[n].violated, (res[n].error or "")[:300]))
                chk.add_tlc(res[n], "negative control (%s as on the unchanged tree) violates %s" % (n[4:], res[n].violated), count_states=False)
        # 3. the cases
        rg = vf.tlc_ok(res["gen"], "SqlFormat_Gen")
        chk.add_tlc(rg, "Gen (all cases of the bound)", count_states=False)
        fx = [x for x in rg.records if "fixture" in x]
        cases = [x for x in rg.records if "sql" in x]
        if len(fx) != 1 or len(cases) != rg.distinct or not cases:
            raise vf.NoVerdict("generator output incomplete: %d cases for %d states" % (len(cases), rg.distinct))
        if any("?" in c["sql"] and c["what"] != ["placeholders"] for c in cases):
            bad = [c["sql"] for c in cases if "?" in c["sql"] and c["what"] != ["placeholders"]][:3]
            raise vf.NoVerdict("generator produced an unfinished SQL template: %s" % bad)
        fixture = fx[0]["fixture"]
        cases.sort(key=case_key)
        chosen = select_cases(cases, thorough, rng)
        chosen.sort(key=case_key)
        for n, c in enumerate(chosen):
            c["id"] = n + 1
        byfam = collections.Counter(c["fam"] for c in chosen)
        chk.cov["cases"] = {"generated": len(cases), "run": len(chosen), "by_family": dict(sorted(byfam.items()))}
        vf.log("C16 %d cases generated, %d chosen %.0fs" % (len(cases), len(chosen), time.time() - chk.t0))
        # 4. F: the real parser, printer, lexer and SQLite engine
        t0 = time.time()
        hres = run_harness(sd, testbin, fixture, chosen, 4)
        flat = [merge(c, hres[c["id"]]) for c in chosen]
        chk.cov["harness_wall_s"] = round(time.time() - t0, 1)
        vf.log("C16 harness done %.0fs" % (time.time() - chk.t0))
        # 5. the contract judges every record
        rep = contract(chk, sd, flat, "records judged by the contract")
        vf.log("C16 contract done %.0fs: %d bad, %d fidelity mismatches" % (time.time() - chk.t0, len(rep["bad"]), len(rep["xbad"])))
        cnt = rep["cnt"]
        parsed = [r for r in flat if r["parsed"]]
        # vacuity guards
        if len(parsed) < 0.8 * len(flat):
            raise vf.NoVerdict("only %d of %d generated statements are accepted by the parser (generator and grammar have drifted apart)" % (len(parsed), len(flat)))
        if int(cnt["decided_exec"]) < 0.6 * len(parsed):
            raise vf.NoVerdict("only %s of %d accepted statements could be executed (fixture broken?)" % (cnt["decided_exec"], len(parsed)))
        if int(cnt["decided_denote"]) < 100:
            raise vf.NoVerdict("the PostgreSQL denotation clause decided only %s cases" % cnt["decided_denote"])
        for fam in byfam:
            if not any(r["fam"] == fam and r["x1"]["ok"] for r in parsed):
                raise vf.NoVerdict("no executable case in family %s" % fam)
        chk.cov["model_fidelity"] = {"expression_cases": int(cnt["fid"]), "disagreements": len(rep["xbad"])}
        if rep["xbad"]:
            ex = [flat[i - 1]["sql"] for i in sorted(rep["xbad"])[:5]]
            chk.notes.append("the spec's model of the reader/printer disagrees with the real code on %d expression cases, e.g. %s "
                             "(the model-checking result does not transfer to them; their verdicts come from the real observations)"
                             % (len(rep["xbad"]), ex))
        chk.cov["rejected_by_parser"] = int(cnt["rejected"])
        for b in rep["bad"]:
            r = flat[b["idx"] - 1]
            chk.violation(render_key(b), describe(r, b["own"]), {"record": r, "fixture": fixture})
        chk.cov["traces_validated_against_impl"] += len(parsed)
        chk.cov["evaluations"] += 2 * len(parsed) + int(cnt["decided_exec"]) + int(cnt["decided_denote"])
        chk.cov["distinct_nontrivial"] += len({(r["fam"], r["d"], tuple(sorted(r["what"]))) for r in parsed})
        chk.cov["decided"] = {"tree_clauses": len(parsed), "exec": int(cnt["decided_exec"]), "denote": int(cnt["decided_denote"])}
        seen = set()
        for r in parsed:
            if r["fam"] not in seen and r["x1"]["ok"] and len(chk.cov["samples"]) < 5 and r["fam"] in ("expr", "ident", "select", "create_table", "insert"):
                seen.add(r["fam"])
                chk.sample({"family": r["fam"], "dialect": r["d"], "sql": r["sql"], "formatted": r["text2"], "reparsed_same_tree": r["ast1"] == r["ast2"],
                            "exec_original": r["x1"], "exec_formatted": r["x2"]})
        # 6. binding self-test: corrupted observations must be rejected, their originals accepted
        badidx = {b["idx"] for b in rep["bad"]}
        good = [r for n, r in enumerate(flat) if (n + 1) not in badidx and r["parsed"] and r["x1"]["ok"] and r["x2"]["ok"] and r["d"] == "sqlite"]
        goodpg = [r for n, r in enumerate(flat) if (n + 1) not in badidx and r["parsed"] and r["fam"] == "ident" and r["d"] == "pg"
                  and r["cls"] == "mixed-q" and any(t["t"] == r["name"] and t["q"] for t in r["toks2"])]
        if len(good) < 4 or not goodpg:
            raise vf.NoVerdict("self-test: no accepted records to corrupt")
        a, b, c, d = rng.sample(good, 4)
        e = rng.choice(goodpg)
        st = [a, dict(a, ast2=a["ast2"] + " "),
              b, dict(b, text3=b["text3"] + " "),
              c, dict(c, x2=dict(c["x2"], rows="0000")),
              d, dict(d, x2=dict(d["x2"], ok=False)),
              e, dict(e, toks2=[dict(t, q=(not t["q"]) if t["t"] == e["name"] else t["q"]) for t in e["toks2"]])]
        rs = contract(chk, sd, st, None)
        got = {x["idx"]: sorted(x["own"]) for x in rs["bad"]}
        exp = {2: ["reparse"], 4: ["idem"], 6: ["exec"], 8: ["exec"], 10: ["denote"]}
        if got != exp:
            raise vf.NoVerdict("binding self-test failed: expected rejections %s, contract reported %s" % (exp, got))
        chk.cov["binding_selftest"] = "5 corrupted records (tree, second format, result rows, success flag, quoting of a planted name) rejected with the right clause; their originals accepted"
        chk.cov["rule"] = ("case = one generated statement; tree clauses decided for every statement the parser accepts, exec where SQLite ran "
                           "both texts, denote for planted names under the PostgreSQL dialect; non-trivial+distinct = distinct (family, dialect, abstract identity)")
        chk.cov["exhaustive"] = bool(thorough)
    return chk.finish()

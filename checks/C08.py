"""C08 - concurrent Ego programs cannot corrupt the interpreter.
spec/SharedTables:  SharedTables (the table-sharing protocol: I1 I2 NoTornUnlock), SharedTables_Trace (binding T),
                    ConcProg (+_Gen) (a small concurrent language: I3 = the printed result is schedule independent).
Stages:
  1. TLC, exhaustive: the sharing protocol as C08 demands it ("fixed") satisfies I1/I2/NoTornUnlock; negative controls:
     the BUG-94 variant ("late"), Shared() without the parent crawl ("noanc") and goroutine.go as it is ("code": function
     values among the arguments are not marked) must violate them.
  2. TLC, exhaustive over every schedule of every small program of ConcProg (+ -simulate samples of schedules of bigger
     programs): Deterministic / NoFault / MutexSound hold, no schedule wedges; negative control: without the mutex the
     result is schedule dependent.  Every finished behaviour is emitted as a case = program AST + what it must print,
     once per launch form and site it can be written in.
  3. the specification is cross-checked against Go: the same ASTs printed as Go, `go run`; spec != Go => exit 2.
  4. R: the cases, printed as Ego, run on the real `ego` built with -race -tags verif under GOMAXPROCS in {1,2,4,16}
     and seeded yield injection in the dispatch loop (hook verifYield); what is printed must equal what TLC computed,
     the process must not die with a Go fatal error, and the race detector must stay silent about interpreter frames.
  5. T: the cases run on the plain verif build with VERIF_TABLE_LOG: every table access (goroutine, table, write, mutex
     really held), every fork (tables handed over with their shared flags) and every goroutine start is recorded;
     SharedTables_Trace replays the events as spec actions and reports the events that break I1 / the lock discipline /
     ForkSound.
  6. binding self-tests (perturbed expectation, corrupted trace).
All python below only pretty-prints ASTs, runs processes, parses what was printed / logged, and compares for equality
with values TLC computed.
"""
import json, os, random, re, sys
from concurrent.futures import ThreadPoolExecutor
import vf

PROP = "C08"
SPEC = "SharedTables"
PROCS = (1, 2, 4, 16)


# --------------------------------------------------------------------------- pretty printer (projection only)

class R:
    """Prints one case as a function case<i>() plus the top-level declarations it needs."""

    def __init__(self, case, i, lang):
        self.c, self.i, self.lang = case, i, lang
        self.form, self.site = case["form"], case["site"]
        self.top = []          # top-level declarations
        self.glob = self.form == "namedg"
        self.nch = len(case["caps"])

    # names ---------------------------------------------------------------
    def chan_t(self, elem="int"):
        return "chan" if self.lang == "ego" else "chan " + elem

    def g(self, name):                       # a shared variable seen from main / a closure
        return "%s_%d" % (name, self.i) if self.glob else name

    def var(self, name, ctx):                # ctx: "direct" (main, closures) | "ptr" (named worker with pointers)
        if name in ("x", "s") and ctx == "ptr":
            return "*" + name
        return self.g(name)

    def chan(self, ch, ctx, k):
        if ch["e"] == "c":
            return self.g("c%d" % ch["n"])
        if ch["e"] == "ck":
            return self.g("c%d" % (k + ch["n"]))        # only used where k is a literal (launch sites)
        return "p%d" % ch["n"] if not isinstance(k, dict) else k["p"][ch["n"] - 1]

    def expr(self, x, ctx, k):
        e, n = x["e"], x["n"]
        kk = k["k"] if isinstance(k, dict) else "k"
        return {"lit": str(n), "k": str(kk), "kn": "%s*%d" % (kk, n), "v": "v", "acc": "acc", "v10": "v*10 + %d" % n,
                "vk": "v*10 + %s" % kk, "X": self.var("x", ctx), "S": self.var("s", ctx)}[e]

    # statements ----------------------------------------------------------
    def stmts(self, ss, ctx, k, ind, depth=0):
        """k: None in main, "k" (a parameter named k) or {"k": literal, "p": [channel names]} for form clo"""
        o = []
        t = "    " * ind
        for s in ss:
            kind = s["k"]
            if kind == "inc":
                X = self.var("x", ctx)
                o += [t + "%s.Lock()" % self.g("mu") if ctx == "direct" else t + "mu.Lock()",
                      t + "%s = %s + %s" % (X, X, self.expr(s["x"], ctx, k)),
                      t + "%s.Unlock()" % self.g("mu") if ctx == "direct" else t + "mu.Unlock()"]
            elif kind == "rep":
                j = "j%d" % depth
                o += [t + "for %s := 0; %s < %d; %s = %s + 1 {" % (j, j, s["a"], j, j)]
                o += self.stmts(s["body"], ctx, k, ind + 1, depth + 1)
                o += [t + "}"]
            elif kind == "send":
                o += [t + "%s <- %s" % (self.chan(s["ch"], ctx, k), self.expr(s["x"], ctx, k))]
            elif kind == "recv":
                o += [t + "v = <-%s" % self.chan(s["ch"], ctx, k)]
            elif kind == "addv":
                o += [t + "acc = acc + v"]
            elif kind == "range":
                o += [t + "for rv := range %s {" % self.chan(s["ch"], ctx, k), t + "    v = rv"]
                o += self.stmts(s["body"], ctx, k, ind + 1, depth + 1)
                o += [t + "}"]
            elif kind == "close":
                o += [t + "close(%s)" % self.chan(s["ch"], ctx, k)]
            elif kind == "wgadd":
                o += [t + "%s.Add(%d)" % (self.g("wg") if ctx == "direct" else "wg", s["a"])]
            elif kind == "wgdone":
                o += [t + "%s.Done()" % (self.g("wg") if ctx == "direct" else "wg")]
            elif kind == "wgwait":
                o += [t + "%s.Wait()" % (self.g("wg") if ctx == "direct" else "wg")]
            elif kind == "decl":
                o += [t + "d%d := %d" % (s["a"], s["a"]), t + "_ = d%d" % s["a"]]
            elif kind == "print":
                o += [t + 'fmt.Printf("C%d %%d\\n", %s)' % (self.i, self.expr(s["x"], ctx, k))]
            elif kind == "app":
                S = self.var("s", ctx)
                o += [t + "%s = %s*10 + %d" % (S, S, s["a"])]
            elif kind == "spawn":
                o += self.spawn(s, ctx, ind)
            else:
                raise vf.NoVerdict("unknown statement kind %r" % kind)
        return o

    def locals_(self, ind, k=False):
        t = "    " * ind
        return [t + "v := 0", t + "acc := 0", t + "_ = v", t + "_ = acc"] + ([t + "_ = k"] if k else [])

    # launching -----------------------------------------------------------
    def spawn(self, s, ctx, ind):
        tm = self.c["tm"][s["a"] - 1]
        lo, hi = s["b"], s["c"]
        t = "    " * ind
        if tm["role"] != "worker":           # mid / feeder: always go func() {...}() right here
            o = []
            for k in range(lo, hi + 1):
                o += [t + "go func() {"] + self.locals_(ind + 1)
                o += self.stmts(tm["body"], "direct", {"k": k, "p": []}, ind + 1)
                o += [t + "}()"]
            return o
        form, site = self.form, self.site
        npar = len(tm["chp"])
        o, inner, it = [], ind, t
        if site == "block":
            o += [t + "{", t + "    b := 1", t + "    _ = b"]
            inner, it = ind + 1, t + "    "
        ks = list(range(lo, hi + 1))
        if site == "loop":
            o += [it + "for i := %d; i <= %d; i = i + 1 {" % (lo, hi)]
            inner, it = inner + 1, it + "    "
            ks = ["i"]

        def chargs(k):      # the channels passed as parameters, for launch value k (always a literal: see OkForm)
            return [self.chan(ch, "direct", k) for ch in tm["chp"]]

        cparams = "".join(", p%d %s" % (j + 1, self.chan_t()) for j in range(npar))
        ftype = "func(int%s)" % "".join(", " + self.chan_t() for _ in range(npar))
        if form in ("cloarg", "chanclo"):
            o += [it + "body := func(k int%s) {" % cparams] + self.locals_(inner + 1, True)
            o += self.stmts(tm["body"], "direct", "k", inner + 1)
            o += [it + "}"]
        if form == "chanclo":
            o += [it + "fc := make(%s, %d)" % (self.chan_t(ftype), max(1, hi - lo + 1))]
        for k in ks:
            args = chargs(k)
            if form == "clo":
                o += [it + "go func() {"] + self.locals_(inner + 1)
                o += self.stmts(tm["body"], "direct", {"k": k, "p": args}, inner + 1)
                o += [it + "}()"]
            elif form == "clop":
                o += [it + "go func(k int%s) {" % cparams] + self.locals_(inner + 1, True)
                o += self.stmts(tm["body"], "direct", "k", inner + 1)
                o += [it + "}(%s)" % ", ".join([str(k)] + args)]
            elif form == "named":
                allc = [self.g("c%d" % (j + 1)) for j in range(self.nch)]
                o += [it + "go %s(%s)" % (self.fname("w"), ", ".join([str(k), "&x", "&s", "&mu", "&wg"] + allc + args))]
            elif form == "namedg":
                o += [it + "go %s(%s)" % (self.fname("w"), ", ".join([str(k)] + args))]
            elif form == "cloarg":
                o += [it + "go %s(%s)" % (self.fname("run"), ", ".join(["body", str(k)] + args))]
            elif form == "chanclo":
                o += [it + "go %s(%s)" % (self.fname("cw"), ", ".join(["fc", str(k)] + args))]
                o += [it + "fc <- body"]
        if site == "loop":
            it = it[:-4]
            o += [it + "}"]
        if site == "block":
            o += [t + "}"]
        # top-level functions the form needs
        if form == "named":
            allp = "".join(", c%d %s" % (j + 1, self.chan_t()) for j in range(self.nch))
            self.top += ["func %s(k int, x *int, s *int, mu *sync.Mutex, wg *sync.WaitGroup%s%s) {"
                         % (self.fname("w"), allp, cparams)] + self.locals_(1, True)
            self.top += self.stmts(tm["body"], "ptr", "k", 1) + ["}", ""]
        elif form == "namedg":
            self.top += ["func %s(k int%s) {" % (self.fname("w"), cparams)] + self.locals_(1, True)
            self.top += self.stmts(tm["body"], "direct", "k", 1) + ["}", ""]
        elif form == "cloarg":
            self.top += ["func %s(f %s, k int%s) {" % (self.fname("run"), ftype, cparams),
                         "    f(%s)" % ", ".join(["k"] + ["p%d" % (j + 1) for j in range(npar)]), "}", ""]
        elif form == "chanclo":
            self.top += ["func %s(fc %s, k int%s) {" % (self.fname("cw"), self.chan_t(ftype), cparams),
                         "    f := <-fc", "    f(%s)" % ", ".join(["k"] + ["p%d" % (j + 1) for j in range(npar)]), "}", ""]
        return o

    def fname(self, base):
        return "%s_%d" % (base, self.i)

    def render(self):
        c, i = self.c, self.i
        body = self.stmts(c["main"], "direct", None, 1)
        decl = []
        mk = lambda n: "make(%s, %d)" % (self.chan_t(), n)
        if self.glob:
            self.top = ["var x_%d int" % i, "var s_%d int" % i, "var mu_%d sync.Mutex" % i, "var wg_%d sync.WaitGroup" % i] \
                + ["var c%d_%d %s" % (j + 1, i, self.chan_t()) for j in range(self.nch)] + [""] + self.top
            decl += ["    c%d_%d = %s" % (j + 1, i, mk(n)) for j, n in enumerate(c["caps"])]
        else:
            decl += ["    var mu sync.Mutex", "    var wg sync.WaitGroup", "    x := 0", "    s := 0",
                     "    _ = x", "    _ = s", "    mu.Lock()", "    mu.Unlock()", "    wg.Add(0)"]
            decl += ["    c%d := %s" % (j + 1, mk(n)) for j, n in enumerate(c["caps"])]
            decl += ["    _ = c%d" % (j + 1) for j in range(self.nch)]
        fn = ["// %s" % c["id"], "func case_%d() {" % i] + decl + ["    v := 0", "    acc := 0", "    _ = v", "    _ = acc"] \
            + body + ['    fmt.Printf("E%d\\n")' % i, "}", ""]
        return self.top, fn


def render(cases, lang="ego", first=1):
    """One source file running the cases one after the other."""
    tops, fns, calls = [], [], []
    for n, c in enumerate(cases):
        r = R(c, first + n, lang)
        t, f = r.render()
        tops += t
        fns += f
        calls.append("    case_%d()" % (first + n))
    head = ["package main", "", 'import "fmt"', 'import "sync"', ""]
    return "\n".join(head + tops + fns + ["func main() {"] + calls + ["}", ""])


_LINE = re.compile(r"^([CE])(\d+)(?: (-?\d+))?$")


def observe(stdout, first, n):
    """What each case printed: [{"out": [ints], "ended": bool}], plus the lines that belong to no case."""
    obs = [{"out": [], "ended": False} for _ in range(n)]
    other = []
    for ln in stdout.splitlines():
        m = _LINE.match(ln.strip())
        if m and first <= int(m.group(2)) < first + n:
            o = obs[int(m.group(2)) - first]
            if m.group(1) == "C" and m.group(3) is not None:
                o["out"].append(int(m.group(3)))
            else:
                o["ended"] = True
        elif ln.strip():
            other.append(ln.strip())
    return obs, other


def agree(case, o):
    return o["ended"] and o["out"] == case["out"]


# --------------------------------------------------------------------------- binding T: table event logs

def norm_events(path, run):
    """One recorded process -> uniform event records for SharedTables_Trace (projection: ids + 1, absent fields
    filled in) with exact repetitions of an access tuple (goroutine, table, write, locked, flag) dropped: the
    judgement of an access depends on that tuple and on reach/shared, which a repetition cannot change."""
    out = [{"run": run, "e": "reset", "g": 0, "n": 0, "t": 0, "w": False, "l": False, "x": False, "s": False, "f": "", "h": []}]
    seen = set()
    raw = 0
    ch = lambda c: [[int(t) + 1, int(f)] for t, f in c]
    with open(path) as f:
        for line in f:
            line = line.strip()
            if not line:
                continue
            try:
                ev = json.loads(line)
            except ValueError:
                raise vf.NoVerdict("unreadable event in %s: %r" % (path, line[:120]))
            raw += 1
            if ev["e"] == "acc":
                key = (ev["g"], ev["t"], ev["w"], ev["l"], ev.get("x", ev["l"]), ev["s"], ev.get("f", ""))
                if key in seen and "c" not in ev:
                    continue
                seen.add(key)
                out.append({"run": run, "e": "acc", "g": ev["g"], "n": 0, "t": ev["t"] + 1, "w": ev["w"], "l": ev["l"], "x": ev.get("x", ev["l"]),
                            "s": ev["s"], "f": ev.get("f", ""), "h": [ch(ev["c"])] if "c" in ev else []})
            else:
                out.append({"run": run, "e": ev["e"], "g": ev["g"], "n": ev.get("n", 0), "t": 0, "w": False, "l": False, "x": False,
                            "s": False, "f": "", "h": [ch(c) for c in ev["h"]]})
    return out, raw


# --------------------------------------------------------------------------- race-detector reports (observation)

_EGO = "github.com/tucats/ego/internal/"


def _frame_class(frames):
    """Innermost interpreter frame of one side of a report: the symbols package as a whole, else package.function."""
    if any(f.endswith("(*Context).fetchArgValue") for f in frames):
        return "bytecode.Context.fetchArgValue"        # the parameter prologue of a call (type check of an argument)
    for f in frames:
        if f.startswith(_EGO):
            f = f[len(_EGO):]
            pkg, _, fn = f.rpartition("/")[2].partition(".")
            if pkg == "symbols":
                return "symbols"
            fn = re.sub(r"\(\*?(\w+)\)\.", r"\1.", fn)
            return "%s.%s" % (pkg, re.sub(r"\.func\d+.*$|\.gowrap\d+$", "", fn))
    return ""


def race_reports(stderr):
    """[(class-of-side-A ~ class-of-side-B, text)] for every report that involves interpreter frames."""
    out = []
    for blk in stderr.split("==================")[1:]:
        if "WARNING: DATA RACE" not in blk:
            continue
        sides = []
        for part in re.split(r"\n\s*\n", blk.strip()):
            head = part.strip().splitlines()[0] if part.strip() else ""
            if head.startswith("WARNING"):
                part = "\n".join(part.strip().splitlines()[1:])
                head = part.splitlines()[0] if part else ""
            if re.match(r"(Previous )?(read|write|atomic)", head, re.I) or re.match(r"(Read|Write) at", head):
                frames = re.findall(r"^\s+(\S+)\(\)\s*$", part, re.M)
                sides.append(_frame_class(frames))
        sides = sorted(s for s in sides[:2])
        if "bytecode.Context.fetchArgValue" in sides:     # whatever wrote the pointee: the same unsynchronized read
            sides = ["bytecode.Context.fetchArgValue", "pointee-write"]
        if any(sides):
            out.append(("~".join(s or "other" for s in sides), blk.strip()[:6000]))
    return out


_STARTUP = re.compile(r"SQL logic error|database is locked|already exists")     # ego's own start-up (profile database)
_FATAL = re.compile(r"^(fatal error: .*|panic: .*|unexpected fault address.*)$", re.M)


# --------------------------------------------------------------------------- stages

def _build(sd, ov):
    """the real ego binary, -race -tags verif (vf.build_ego with a time limit that survives a saturated machine)"""
    out = os.path.join(sd, "ego-race")
    if not os.path.exists(out):
        vf.go_build(ov, ".", out, tags="verif", race=True, timeout=5400)
    return out


def _cases(recs):
    seen, out = set(), []
    for c in recs:
        if isinstance(c, dict) and "id" in c and "main" in c and c["id"] not in seen:
            seen.add(c["id"])
            out.append(c)
    return out


def _cls(c):
    return "%s/%s/%s" % (c["fam"], c["form"], c["site"])


def _write(path, text):
    with open(path, "w") as f:
        f.write(text)
    return path


def _run_R(ego, env, sd, files, tag, timeout):
    """files: [(cases, procs, yield-spec)] -> [(cases, procs, yield, (rc, out, err), path)]"""
    jobs, meta = [], []
    for n, (b, procs, yld) in enumerate(files):
        p = _write(os.path.join(sd, "%s%d.ego" % (tag, n)), render(b))
        e = dict(env, GOMAXPROCS=str(procs), GORACE="halt_on_error=0")
        if yld:
            e["VERIF_YIELD"] = yld
        jobs.append(([ego, "run", p], None, sd, e))
        meta.append((b, procs, yld, p))
    res = vf.run_many(jobs, nproc=min(vf.NCPU, 12), timeout=timeout)
    return [(b, procs, yld, r, p) for (b, procs, yld, p), r in zip(meta, res)]


def _judge_R(chk, runs, stats):
    """Compares what every process printed with what TLC computed; classifies race reports and fatal errors."""
    for b, procs, yld, (rc, so, se), p in runs:
        form = b[0]["form"]
        ctx = {"gomaxprocs": procs, "yield": yld, "rc": rc}
        if rc is None:
            stats["late"].append((b, procs, yld))
            continue
        obs, other = observe(so, 1, len(b))
        if rc not in (0, 66) and not any(o["out"] or o["ended"] for o in obs) and _STARTUP.search(so + se):
            stats["late"].append((b, procs, yld))       # the process never reached the program: run it again
            continue
        stats["procs"] += 1
        fatal = _FATAL.search(se) if rc not in (0, 66) else None
        races = race_reports(se)
        for sig, text in races:
            chk.violation("race/%s/%s" % (form, sig),
                          "the Go race detector reports an unsynchronized access inside the interpreter (%s) while a fully "
                          "synchronized %s program runs (GOMAXPROCS=%s, yield %s)" % (sig, form, procs, yld),
                          {"mode": "R", "cases": b, "report": text, **ctx})
        if fatal:
            chk.violation("fatal/%s/%s" % (form, re.sub(r"[^A-Za-z ]+", "", fatal.group(1))[:40].strip().replace(" ", "-")),
                          "the interpreter died with a Go runtime error while a fully synchronized %s program runs: %s"
                          % (form, fatal.group(1)), {"mode": "R", "cases": b, "stderr": se[-3000:], **ctx})
        first = True
        for c, o in zip(b, obs):
            stats["run"] += 1
            stats["vals"] += len(c["out"]) + 1
            if agree(c, o):
                continue
            if fatal:
                continue        # already reported; the cases after the crash did not run
            stats["suspects"].append((c, procs, yld, o, rc, se[-600:], other[:4], first))
            first = False


def _trace_stage(chk, ego, env, sd, sel, tag, timeout):
    """Runs each case alone with VERIF_TABLE_LOG, lets SharedTables_Trace judge the recorded events.
    Returns (events, bad records with their case attached, loose sites, raw event count)."""
    jobs, meta = [], []
    for n, c in enumerate(sel):
        p = _write(os.path.join(sd, "%s%d.ego" % (tag, n)), render([c]))
        lg = os.path.join(sd, "%s%d.tlog" % (tag, n))
        jobs.append(([ego, "run", p], None, sd, dict(env, GOMAXPROCS="4", VERIF_TABLE_LOG=lg)))
        meta.append((c, lg))
    res = vf.run_many(jobs, nproc=min(vf.NCPU, 12), timeout=timeout)
    evs, used, raw = [], [], 0
    for (c, lg), (rc, so, se) in zip(meta, res):
        if rc is None:
            raise vf.NoVerdict("a traced program did not finish within %d s: %s" % (timeout, c["id"]))
        if not os.path.exists(lg):
            raise vf.NoVerdict("no table event log was written: the tree has no verif hooks in internal/language/symbols "
                               "(VERIF_TABLE_LOG ignored) - C08 is meant for a tree with the 'verif hooks' commits")
        e, r = norm_events(lg, len(used) + 1)
        raw += r
        if not any(x["e"] == "fork" for x in e):
            raise vf.NoVerdict("a traced program recorded no fork event: %s" % c["id"])
        evs += e
        used.append(c)
    tp = vf.write_ndjson(os.path.join(sd, tag + "trace.ndjson"), evs)
    r = vf.tlc(SPEC, "SharedTables_Trace", "SharedTables_Trace.cfg", sd, workers=1, files={"trace.ndjson": tp},
               timeout=3000)
    if r.error or r.violated or r.rc != 0:
        raise vf.NoVerdict("trace evaluation failed: %s %s\n%s" % (r.violated, r.error, r.stdout[-2500:]))
    rep = [x for x in r.records if isinstance(x, dict) and "bad" in x and "n" in x]
    if not rep or int(rep[-1]["n"]) != len(evs):
        raise vf.NoVerdict("SharedTables_Trace did not consume the log\n" + r.stdout[-1500:])
    chk.add_tlc(r, "trace validation (%s)" % tag, count_states=False)
    bad = rep[-1]["bad"] if isinstance(rep[-1]["bad"], list) else []
    loose = rep[-1]["loose"] if isinstance(rep[-1].get("loose"), list) else []
    for b in bad:
        b["case"] = used[b["run"] - 1]
        b["event"] = evs[b["idx"] - 1]
    return evs, bad, loose, raw, used


def _trace_violations(chk, bad):
    for b in bad:
        c = b["case"]
        where = b["f"] if b["e"] == "acc" else b["e"]
        text = {"I1": "a symbol table that two goroutines can name is not marked shared",
                "I2": "a table marked shared is accessed without its mutex while another goroutine accesses it, one of them writing",
                "ForkSound": "the go statement hands a table to the new goroutine that is not marked shared",
                "StartSound": "the new goroutine's own table hangs under a table that is not marked shared",
                "FlagsGrow": "a shared flag was cleared", "Lock": "the mutex of an unshared table was held"}.get(b["rule"], b["rule"])
        chk.violation("trace/%s/%s" % (b["rule"], c["form"]),
                      "%s (event %s by goroutine %s on table %s in %s) while the fully synchronized program %s runs"
                      % (text, b["e"], b["g"], b["t"] - 1, where, c["id"]),
                      {"mode": "T", "case": c, "rule": b["rule"], "event": b["event"], "program": render([c])})


def _replay(chk, ego, env, sd):
    rep = json.load(open(os.environ["VERIF_REPLAY"]))["replay"]
    cases = rep.get("cases") or [rep["case"]]
    print(render(cases))
    if rep.get("mode") == "T":
        evs, bad, loose, raw, used = _trace_stage(chk, ego, env, sd, cases, "rp", 600)
        print("events recorded: %d (%d after dropping repetitions), offending: %d" % (raw, len(evs), len(bad)))
        for b in bad[:20]:
            print("  ", b["rule"], b["event"])
        _trace_violations(chk, bad)
        return chk.finish()
    stats = {"late": [], "procs": 0, "run": 0, "vals": 0, "suspects": []}
    rate = (rep.get("yield") or "1:40").split(":")[1]
    files = [(cases, rep.get("gomaxprocs", 4), rep.get("yield") if k < 2 and rep.get("yield") else "%d:%s" % (k + 1, rate))
             for k in range(8)]
    runs = _run_R(ego, env, sd, files, "rp", 900)
    _judge_R(chk, runs, stats)
    for c, procs, yld, o, rc, se, other, _first in stats["suspects"]:
        print("expected:", c["out"], " observed:", o, "rc", rc, other, se[-300:])
        chk.violation("out/" + _cls(c), "replayed case still differs from the specification", rep)
    for b, procs, yld, (rc, so, se), p in runs:
        print("GOMAXPROCS=%s yield=%s rc=%s races=%d" % (procs, yld, rc, se.count("WARNING: DATA RACE")))
    return chk.finish()


def run():
    thorough = vf.TIER == "thorough"
    chk = vf.Check(PROP)
    chk.assumptions += [
        "programs are those of ConcProg: goroutines launched as closures (with and without parameters), named functions "
        "(pointer parameters / package variables), closures handed to a named function as an argument or through a "
        "channel; one sync.Mutex, one sync.WaitGroup, buffered channels (capacity >= 1) with close and range; launched "
        "from the function body, a nested block, a loop, or from another goroutine",
        "the Go race detector is the observer of unsynchronized accesses in the real process; it only sees the "
        "schedules that happen (GOMAXPROCS x seeded yield injection sample them), and the interpreter's own global "
        "instruction counter (an atomic incremented by every dispatched instruction) orders most instructions of "
        "different goroutines for the detector - the recorded table-event traces judged by TLC do not depend on timing",
        "a table event trace is reduced before TLC reads it: an access tuple (goroutine, table, write, mutex held, "
        "flag, function) is kept once per process - the judgement is a function of these tuples",
        "channels with capacity 0 are not generated: Ego gives every channel at least one slot (documented), Go does not"]
    rng = random.Random(vf.SEED)
    for pkg in ("symbols", "bytecode"):
        if not os.path.exists(os.path.join(vf.REPO, "internal/language", pkg, "zz_verifhook_on.go")):
            raise vf.NoVerdict("%s has no verif hooks in internal/language/%s: C08 is meant for a tree with the two 'verif hooks' "
                               "commits of branch verif-C08 (yield injection, fork and table-access events)" % (vf.REPO, pkg))
    with vf.scratch() as sd:
        ov = vf.make_overlay(sd, [])
        env = vf.ego_env(sd)
        env["EGO_PATH"] = vf.REPO
        if os.environ.get("VERIF_REPLAY"):
            return _replay(chk, _build(sd, ov), env, sd)
        nsim = 160 if thorough else 40
        with ThreadPoolExecutor(max_workers=5) as ex:
            f_bin = ex.submit(_build, sd, ov)
            f_mc = ex.submit(vf.tlc, SPEC, "SharedTables", "SharedTables_MC.cfg" if thorough else "SharedTables_MCq.cfg", sd,
                             workers=6 if thorough else 3, timeout=5400 if thorough else 3600)
            f_mc2 = ex.submit(vf.tlc, SPEC, "SharedTables", "SharedTables_MC2.cfg", sd, workers=4, timeout=5400) if thorough else None
            negs = [(nm, inv, ex.submit(vf.tlc, SPEC, "SharedTables", cfg, sd, workers=2, timeout=3600))
                    for nm, cfg, inv in [x for x in (("BUG-94: the child marks after the fork", "SharedTables_MC_late.cfg", ("I2",)),
                                         ("BUG-94, torn unlock", "SharedTables_MC_late2.cfg" if thorough else None, ("NoTornUnlock",)),
                                         ("Shared() without the parent crawl", "SharedTables_MC_noanc.cfg", ("I2",)),
                                         ("goroutine.go as it is: function-valued arguments", "SharedTables_MC_codeargs.cfg", ("I1",))) if x[1]]]
            f_gen = ex.submit(vf.tlc, SPEC, "ConcProg_Gen", "ConcProg_Gen.cfg" if thorough else "ConcProg_Genq.cfg", sd,
                              workers=6 if thorough else 3, timeout=5400 if thorough else 3600)
            f_nl = ex.submit(vf.tlc, SPEC, "ConcProg", "ConcProg_MC_nolock.cfg", sd, workers=1, timeout=3600)
            f_sim = ex.submit(vf.tlc, SPEC, "ConcProg_Gen", "ConcProg_GenS.cfg", sd, workers=1, simulate="num=%d" % nsim,
                              depth=20000, seed=vf.SEED, timeout=3000)
            r = vf.tlc_ok(f_mc.result(), "SharedTables (fixed)")
            chk.add_tlc(r, "sharing protocol as demanded: I1 I2 NoTornUnlock ReachClosed FlagsGrow, exhaustive (%s)"
                        % ("3 goroutines, 2 new tables" if thorough else "2 goroutines, 2 new tables"))
            if f_mc2:
                r2 = vf.tlc_ok(f_mc2.result(), "SharedTables (fixed, deeper tree)")
                chk.add_tlc(r2, "sharing protocol as demanded, exhaustive (2 goroutines, 3 new tables)")
            for nm, inv, f in negs:
                rn = f.result()
                if rn.violated not in inv:
                    raise vf.NoVerdict("negative control '%s' did not violate %s (%s %s)" % (nm, inv, rn.violated, (rn.error or "")[:300]))
                chk.add_tlc(rn, "negative control (%s) violates %s" % (nm, rn.violated), count_states=False)
            rg = vf.tlc_ok(f_gen.result(), "ConcProg exhaustive")
            chk.add_tlc(rg, "every schedule of every small program: Deterministic NoFault PrefixOK MutexSound, no wedge")
            cases = _cases(rg.records)
            nex = len(cases)
            rn = f_nl.result()
            if rn.violated != "Deterministic":
                raise vf.NoVerdict("negative control 'no mutex' did not violate Deterministic (%s %s)" % (rn.violated, rn.error))
            chk.add_tlc(rn, "negative control (Lock/Unlock do nothing) violates Deterministic", count_states=False)
            rs = vf.tlc_ok(f_sim.result(), "ConcProg sampled schedules of bigger programs")
            chk.add_tlc(rs, "sampled schedules of bigger programs (-simulate)", count_states=False)
            known = {c["id"] for c in cases}
            big = [c for c in _cases(rs.records) if c["id"] not in known]
            ego = f_bin.result()
        if nex < 100 or not big:
            raise vf.NoVerdict("generator too weak: %d exhaustive cases, %d bigger ones" % (nex, len(big)))
        if any(c["out"] != c["exp"] for c in cases + big):
            raise vf.NoVerdict("a finished behaviour printed something else than its builder declared")
        vf.log("C08: TLC stages done, %d + %d cases; race build ready" % (nex, len(big)))
        # 3. spec vs Go
        gd = os.path.join(sd, "gox")
        os.makedirs(gd)
        allc = cases + big
        _write(os.path.join(gd, "main.go"), render(allc, lang="go"))
        pg = vf.run([vf.GO, "run", "main.go"], cwd=gd, env=vf.goenv(), timeout=1800)
        gobs, gother = observe(pg.stdout, 1, len(allc))
        if pg.returncode != 0:
            raise vf.NoVerdict("Go cross-check did not run (rc=%s)\n%s" % (pg.returncode, pg.stderr[-2500:]))
        for c, o in zip(allc, gobs):
            if not agree(c, o):
                raise vf.NoVerdict("specification bug: for the program %s ConcProg predicts %s, Go prints %s" % (c["id"], c["out"], o))
        chk.cov["spec_vs_go"] = "%d programs printed as Go: Go prints exactly what ConcProg predicts" % len(allc)
        vf.log("C08: Go cross-check done")
        # 4. R on the race build
        per = 16
        byform = {}
        pool = list(cases)
        rng.shuffle(pool)
        if not thorough:        # one case of every class first, then a seeded sample
            first, rest, seen = [], [], set()
            for c in pool:
                (rest if _cls(c) in seen else first).append(c)
                seen.add(_cls(c))
            pool = first + rest[:max(0, 240 - len(first))]
        for c in pool:
            byform.setdefault(c["form"], []).append(c)
        files, k = [], 0
        for form in sorted(byform):
            cs = byform[form]
            for j in range(0, len(cs), per):
                combos = [(p_, (25, 120)[(j // per + n_) % 2]) for n_, p_ in enumerate(PROCS)] if thorough else [None]
                for combo in combos:
                    k += 1
                    procs, rate = combo if combo else (PROCS[k % 4], (15, 40, 120)[k % 3])
                    files.append((cs[j:j + per], procs, "%d:%d" % (vf.SEED * 1000 + k, rate)))
        bigsel = rng.sample(big, min(len(big), 120 if thorough else 12))
        for j, c in enumerate(bigsel):
            files.append(([c], PROCS[j % 4], "%d:%d" % (vf.SEED * 1000 + 500 + j, (10, 60)[j % 2])))
        stats = {"late": [], "procs": 0, "run": 0, "vals": 0, "suspects": []}
        # one process alone first: ego creates its profile database at the first start
        wb, _wp, _wy, (wrc, wso, wse), _wpath = _run_R(ego, env, sd, [([cases[0]], 2, "")], "w", 1200)[0]
        if wrc != 0 or not agree(cases[0], observe(wso, 1, 1)[0][0]):
            raise vf.NoVerdict("the warm-up program did not run (rc=%s): %s %s" % (wrc, wso[-300:], wse[-600:]))
        runs = _run_R(ego, env, sd, files, "r", 600)
        _judge_R(chk, runs, stats)
        if stats["late"]:       # an overloaded machine, not a verdict: once more with fewer processes side by side
            again = _run_R(ego, env, sd, stats["late"], "rl", 2400)
            stats["late"] = []
            _judge_R(chk, again, stats)
            if stats["late"]:
                raise vf.NoVerdict("%d generated programs did not finish within 2400 s" % len(stats["late"]))
            runs += again
        # a case that did not print what TLC computed: run it alone, twice, under the same settings.  In a process that
        # stopped early only the first such case ran at all; the ones after it are run again but not blamed.
        alone = [(c, procs, yld, o, rc, se, other, first or bool(o["out"] or o["ended"]))
                 for c, procs, yld, o, rc, se, other, first in stats["suspects"]][:60]
        stats["suspects"] = []
        if alone:
            sruns = _run_R(ego, env, sd, [([c], a[1], a[2]) for a in alone for c in (a[0], a[0])], "s", 1200)
            for n, (c, procs, yld, o, rc, se, other, started) in enumerate(alone):
                again = []
                for b, _p, _y, (rc2, so2, se2), path in sruns[2 * n:2 * n + 2]:
                    if rc2 is None:
                        raise vf.NoVerdict("a generated program did not finish within 1200 s: " + c["id"])
                    again.append((observe(so2, 1, 1)[0][0], rc2, se2))
                    for sig, text in race_reports(se2):
                        chk.violation("race/%s/%s" % (c["form"], sig),
                                      "the Go race detector reports an unsynchronized access inside the interpreter (%s) while the "
                                      "fully synchronized program %s runs" % (sig, c["id"]),
                                      {"mode": "R", "cases": [c], "report": text, "gomaxprocs": procs, "yield": yld})
                worst = next(((o2, rc2, se2) for o2, rc2, se2 in again if not agree(c, o2)), None)
                if worst:
                    o2, rc2, se2 = worst
                    fatal = _FATAL.search(se2) if rc2 not in (0, 66) else None
                    if fatal:
                        chk.violation("fatal/%s/%s" % (c["form"], re.sub(r"[^A-Za-z ]+", "", fatal.group(1))[:40].strip().replace(" ", "-")),
                                      "the interpreter died with a Go runtime error while the fully synchronized program %s runs: %s"
                                      % (c["id"], fatal.group(1)), {"mode": "R", "cases": [c], "gomaxprocs": procs, "yield": yld, "stderr": se2[-3000:]})
                    else:
                        chk.violation("out/" + _cls(c),
                                      "program %s (GOMAXPROCS=%s, yield %s): the specification (and Go) print %s, the real interpreter "
                                      "printed %s%s %s" % (c["id"], procs, yld, c["out"], o2["out"], "" if o2["ended"] else " and did not finish",
                                                           se2.strip()[-200:]),
                                      {"mode": "R", "cases": [c], "gomaxprocs": procs, "yield": yld, "observed": o2, "program": render([c])})
                elif started:
                    chk.violation("out-once/" + _cls(c),
                                  "program %s (GOMAXPROCS=%s, yield %s) printed %s%s in a process it shared with other programs (the "
                                  "specification and Go print %s; alone it printed that twice) %s %s"
                                  % (c["id"], procs, yld, o["out"], "" if o["ended"] else " and did not finish", c["out"],
                                     " ".join(other)[:200], se.strip()[-200:]),
                                  {"mode": "R", "cases": [c], "gomaxprocs": procs, "yield": yld, "first_run": o, "stderr": se})
        vf.log("C08: R stage done: %d processes, %d candidate violations" % (stats["procs"], len(chk.cands)))
        # 5. T
        tsel, seen = [], set()
        tp = list(cases)
        rng.shuffle(tp)
        for c in tp:
            key = (c["form"], c["site"], c["shape"], c["fam"]) if thorough else (c["form"], c["site"] if c["fam"] == "counter" else c["fam"], c["shape"])
            if key not in seen:
                seen.add(key)
                tsel.append(c)
        if thorough:
            tsel += rng.sample(big, min(len(big), 20))
        evs, bad, loose, raw, used = _trace_stage(chk, ego, env, sd, tsel, "t", 2400)
        _trace_violations(chk, bad)
        vf.log("C08: T stage done: %d programs, %d events, %d offending" % (len(used), len(evs), len(bad)))
        # 6. binding self-tests
        okrun = next(((b, r_) for b, _p, _y, r_, _q in runs if r_[0] == 0 and len(b) > 1), None)
        if okrun:
            b, (rc, so, se) = okrun
            obs, _o = observe(so, 1, len(b))
            pert = [dict(c, out=[v + 1 for v in c["out"]]) for c in b]
            rej = sum(1 for c, o in zip(pert, obs) if not agree(c, o))
            if rej != len(b):
                raise vf.NoVerdict("binding self-test (R) failed: %d of %d perturbed expectations rejected" % (rej, len(b)))
            chk.cov["binding_selftest_R"] = "%d of %d perturbed expectations rejected" % (rej, len(b))
        elif not chk.cands:
            raise vf.NoVerdict("no shared process ended normally")
        badruns = {b["run"] for b in bad}
        cor, done = [], {}
        for rn in sorted({e["run"] for e in evs} - badruns):       # one recorded process the spec accepted
            cor = [dict(e) for e in evs if e["run"] == rn]
            done = {"fork": 0, "acc": 0}
            for i, e in enumerate(cor):
                if e["e"] == "fork" and e["h"] and not done["fork"] and all(f == 1 for ch_ in e["h"] for _t, f in ch_):
                    e["h"] = [[[t, 0] if j == 0 else [t, f] for j, (t, f) in enumerate(ch_)] for ch_ in e["h"]]
                    done["fork"] = i + 1
                elif e["e"] == "acc" and e["s"] and e["l"] and e["f"] == "Set" and not done["acc"] and done["fork"]:
                    if any(x["e"] == "acc" and x["t"] == e["t"] and x["g"] != e["g"] and x["f"] in ("Get", "Set") for x in cor):
                        e["l"] = e["x"] = False
                        done["acc"] = e["t"]
            if done["fork"] and done["acc"]:
                break
        if not (done.get("fork") and done.get("acc")):
            if not bad:
                raise vf.NoVerdict("binding self-test (T): nothing to corrupt in the recorded traces")
            # every recorded process was rejected: the self-test runs on a hand-written accepted run instead
            ev = lambda e, g, t=0, f="", l=False, x=False, s_=False, n=0, h=(): {
                "run": 1, "e": e, "g": g, "n": n, "t": t, "w": x, "l": l, "x": x, "s": s_, "f": f, "h": [list(c) for c in h]}
            cor = [ev("reset", 0), ev("acc", 1, 2, "Create", h=[[[2, 0], [1, 1]]]),
                   ev("fork", 1, n=1, h=[[[2, 0], [1, 1]]]), ev("start", 7, h=[[[3, 0], [1, 1]]]),
                   ev("acc", 7, 2, "Get", l=True, s_=True), ev("acc", 1, 2, "Set", s_=True)]
            done = {"fork": 3, "acc": 2}
        cp = vf.write_ndjson(os.path.join(sd, "corrupt.ndjson"), cor)
        rc_ = vf.tlc(SPEC, "SharedTables_Trace", "SharedTables_Trace.cfg", sd, workers=1, files={"trace.ndjson": cp}, timeout=3000)
        rep = [x for x in rc_.records if isinstance(x, dict) and "bad" in x]
        gotb = rep[-1]["bad"] if rep and isinstance(rep[-1]["bad"], list) else []
        if not any(b["idx"] == done["fork"] and b["rule"] == "ForkSound" for b in gotb) \
                or not any(b["t"] == done["acc"] and b["rule"] == "I2" for b in gotb):
            raise vf.NoVerdict("binding self-test (T) failed: corrupted events %s were not rejected (%s)"
                               % (done, [(b["idx"], b["rule"], b["t"]) for b in gotb][:6]))
        chk.cov["binding_selftest_T"] = "a cleared flag in a fork event and a dropped mutex on a shared write were both rejected"
        # evidence
        chk.cov["traces_validated_against_impl"] = stats["run"] + len(used)
        chk.cov["evaluations"] = stats["vals"] + len(evs)
        chk.cov["distinct_nontrivial"] = len({c["id"] for f_ in files for c in f_[0]} | {c["id"] for c in used})
        chk.cov["cases_exhaustive"] = nex
        chk.cov["cases_bigger"] = len(big)
        chk.cov["processes"] = stats["procs"] + len(used)
        chk.cov["race_build_runs"] = {"processes": stats["procs"], "gomaxprocs": sorted({f_[1] for f_ in files}),
                                      "yield_specs": len({f_[2] for f_ in files})}
        chk.cov["table_events"] = {"recorded": raw, "after_dropping_repetitions": len(evs), "programs": len(used),
                                   "offending": len(bad),
                                   "accesses_to_flagged_tables_without_mutex_by_site": sorted({"%s(%s)" % (x["f"], "w" if x["w"] else "r") for x in loose})}
        chk.cov["classes"] = sorted({_cls(c) for c in cases})
        chk.cov["rule"] = ("case = one finished behaviour of ConcProg (program + what it prints, the same under every schedule TLC "
                           "explored) in one launch form and site; R: run by `ego run` built with -race under GOMAXPROCS 1/2/4/16 and "
                           "seeded yields, printed values compared with TLC's, race reports / fatal errors are violations; "
                           "T: every table access / fork / start of the run replayed as SharedTables actions, judged by I1, I2, "
                           "ForkSound, StartSound; non-trivial = every case (each launches goroutines that share state)")
        chk.cov["exhaustive"] = False
        for c in (cases[:2] + big[:1]):
            chk.sample({"case": c["id"], "expected_output": c["out"], "program": render([c])[:1500]})
    return chk.finish()

"""C08 - concurrent Ego programs cannot corrupt the interpreter.
spec/SharedTables:  SharedTables (the table-sharing protocol: I1 I2 NoTornUnlock), SharedTables_Trace (binding T),
                    ConcProg (+_Gen) (a small concurrent language: I3 = the printed result is schedule independent).
Stages:
  1. TLC, exhaustive: the sharing protocol as C08 demands it ("fixed") satisfies I1/I2/NoTornUnlock; negative controls:
     the BUG-94 variant ("late"), Shared() without the parent crawl ("noanc") and goroutine.go as it is ("code": function
     values among the arguments are not marked) must violate them.
  2. TLC, exhaustive over every schedule of every small program of ConcProg (+ -simulate samples of schedules of bigger
     programs): Deterministic / NoFault / MutexSound hold, no schedule wedges; negative control: without the mutex the
     result is schedule dependent.  Every finished behaviour is emitted as a case = program AST + what it must print,
     once per launch form and site it can be written in.
  3. the specification is cross-checked against Go: the same ASTs printed as Go, `go run`; spec != Go => exit 2.
  4. R: the cases, printed as Ego, run on the real `ego` built with -race -tags verif under GOMAXPROCS in {1,2,4,16}
     and seeded yield injection in the dispatch loop (hook verifYield); what is printed must equal what TLC computed,
     the process must not die with a Go fatal error, and the race detector must stay silent about interpreter frames.
  5. T: the cases run on the plain verif build with VERIF_TABLE_LOG: every table access (goroutine, table, write, mutex
     really held), every fork (tables handed over with their shared flags) and every goroutine start is recorded;
     SharedTables_Trace replays the events as spec actions and reports the events that break I1 / the lock discipline /
     ForkSound.
  6. binding self-tests (perturbed expectation, corrupted trace).
All python below only pretty-prints ASTs, runs processes, parses what was printed / logged, and compares for equality
with values TLC computed.
"""
import json, os, random, re, sys
from concurrent.futures import ThreadPoolExecutor
import vf

PROP = "C08"
SPEC = "SharedTables"
PROCS = (1, 2, 4, 16)


# --------------------------------------------------------------------------- pretty printer (projection only)

class R:
    """Prints one case as a function case<i>() plus the top-level declarations it needs."""

    def __init__(self, case, i, lang):
        self.c, self.i, self.lang = case, i, lang
        self.form, self.site = case["form"], case["site"]
        self.top = []          # top-level declarations
        self.glob = self.form == "namedg"
        self.nch = len(case["caps"])

    # names ---------------------------------------------------------------
    def chan_t(self, elem="int"):
        return "chan" if self.lang == "ego" else "chan " + elem

    def g(self, name):                       # a shared variable seen from main / a closure
        return "%s_%d" % (name, self.i) if self.glob else name

    def var(self, name, ctx):                # ctx: "direct" (main, closures) | "ptr" (named worker with pointers)
        if name in ("x", "s") and ctx == "ptr":
            return "*" + name
        return self.g(name)

    def chan(self, ch, ctx, k):
        if ch["e"] == "c":
            return self.g("c%d" % ch["n"])
        if ch["e"] == "ck":
            return self.g("c%d" % (k + ch["n"]))        # only used where k is a literal (launch sites)
        return "p%d" % ch["n"] if not isinstance(k, dict) else k["p"][ch["n"] - 1]

    def expr(self, x, ctx, k):
        e, n = x["e"], x["n"]
        kk = k["k"] if isinstance(k, dict) else "k"
        return {"lit": str(n), "k": str(kk), "kn": "%s*%d" % (kk, n), "v": "v", "acc": "acc", "v10": "v*10 + %d" % n,
                "vk": "v*10 + %s" % kk, "X": self.var("x", ctx), "S": self.var("s", ctx)}[e]

    # statements ----------------------------------------------------------
    def stmts(self, ss, ctx, k, ind, depth=0):
        """k: None in main, "k" (a parameter named k) or {"k": literal, "p": [channel names]} for form clo"""
        o = []
        t = "    " * ind
        for s in ss:
            kind = s["k"]
            if kind == "inc":
                X = self.var("x", ctx)
                o += [t + "%s.Lock()" % self.g("mu") if ctx == "direct" else t + "mu.Lock()",
                      t + "%s = %s + %s" % (X, X, self.expr(s["x"], ctx, k)),
                      t + "%s.Unlock()" % self.g("mu") if ctx == "direct" else t + "mu.Unlock()"]
            elif kind == "rep":
                j = "j%d" % depth
                o += [t + "for %s := 0; %s < %d; %s = %s + 1 {" % (j, j, s["a"], j, j)]
                o += self.stmts(s["body"], ctx, k, ind + 1, depth + 1)
                o += [t + "}"]
            elif kind == "send":
                o += [t + "%s <- %s" % (self.chan(s["ch"], ctx, k), self.expr(s["x"], ctx, k))]
            elif kind == "recv":
                o += [t + "v = <-%s" % self.chan(s["ch"], ctx, k)]
            elif kind == "addv":
                o += [t + "acc = acc + v"]
            elif kind == "range":
                o += [t + "for rv := range %s {" % self.chan(s["ch"], ctx, k), t + "    v = rv"]
                o += self.stmts(s["body"], ctx, k, ind + 1, depth + 1)
                o += [t + "}"]
            elif kind == "close":
                o += [t + "close(%s)" % self.chan(s["ch"], ctx, k)]
            elif kind == "wgadd":
                o += [t + "%s.Add(%d)" % (self.g("wg") if ctx == "direct" else "wg", s["a"])]
            elif kind == "wgdone":
                o += [t + "%s.Done()" % (self.g("wg") if ctx == "direct" else "wg")]
            elif kind == "wgwait":
                o += [t + "%s.Wait()" % (self.g("wg") if ctx == "direct" else "wg")]
            elif kind == "decl":
                o += [t + "d%d := %d" % (s["a"], s["a"]), t + "_ = d%d" % s["a"]]
            elif kind == "print":
                o += [t + 'fmt.Printf("C%d %%d\\n", %s)' % (self.i, self.expr(s["x"], ctx, k))]
            elif kind == "app":
                S = self.var("s", ctx)
                o += [t + "%s = %s*10 + %d" % (S, S, s["a"])]
            elif kind == "spawn":
                o += self.spawn(s, ctx, ind)
            else:
                raise vf.NoVerdict("unknown statement kind %r" % kind)
        return o

    def locals_(self, ind, k=False):
        t = "    " * ind
        return [t + "v := 0", t + "acc := 0", t + "_ = v", t + "_ = acc"] + ([t + "_ = k"] if k else [])

    # launching -----------------------------------------------------------
    def spawn(self, s, ctx, ind):
        tm = self.c["tm"][s["a"] - 1]
        lo, hi = s["b"], s["c"]
        t = "    " * ind
        if tm["role"] != "worker":           # mid / feeder: always go func() {...}() right here
            o = []
            for k in range(lo, hi + 1):
                o += [t + "go func() {"] + self.locals_(ind + 1)
                o += self.stmts(tm["body"], "direct", {"k": k, "p": []}, ind + 1)
                o += [t + "}()"]
            return o
        form, site = self.form, self.site
        npar = len(tm["chp"])
        o, inner, it = [], ind, t
        if site == "block":
            o += [t + "{", t + "    b := 1", t + "    _ = b"]
            inner, it = ind + 1, t + "    "
        ks = list(range(lo, hi + 1))
        if site == "loop":
            o += [it + "for i := %d; i <= %d; i = i + 1 {" % (lo, hi)]
            inner, it = inner + 1, it + "    "
            ks = ["i"]

        def chargs(k):      # the channels passed as parameters, for launch value k (always a literal: see OkForm)
            return [self.chan(ch, "direct", k) for ch in tm["chp"]]

        cparams = "".join(", p%d %s" % (j + 1, self.chan_t()) for j in range(npar))
        ftype = "func(int%s)" % "".join(", " + self.chan_t() for _ in range(npar))
        if form in ("cloarg", "chanclo"):
            o += [it + "body := func(k int%s) {" % cparams] + self.locals_(inner + 1, True)
            o += self.stmts(tm["body"], "direct", "k", inner + 1)
            o += [it + "}"]
        if form == "chanclo":
            o += [it + "fc := make(%s, %d)" % (self.chan_t(ftype), max(1, hi - lo + 1))]
        for k in ks:
            args = chargs(k)
            if form == "clo":
                o += [it + "go func() {"] + self.locals_(inner + 1)
                o += self.stmts(tm["body"], "direct", {"k": k, "p": args}, inner + 1)
                o += [it + "}()"]
            elif form == "clop":
                o += [it + "go func(k int%s) {" % cparams] + self.locals_(inner + 1, True)
                o += self.stmts(tm["body"], "direct", "k", inner + 1)
                o += [it + "}(%s)" % ", ".join([str(k)] + args)]
            elif form == "named":
                allc = [self.g("c%d" % (j + 1)) for j in range(self.nch)]
                o += [it + "go %s(%s)" % (self.fname("w"), ", ".join([str(k), "&x", "&s", "&mu", "&wg"] + allc + args))]
            elif form == "namedg":
                o += [it + "go %s(%s)" % (self.fname("w"), ", ".join([str(k)] + args))]
            elif form == "cloarg":
                o += [it + "go %s(%s)" % (self.fname("run"), ", ".join(["body", str(k)] + args))]
            elif form == "chanclo":
                o += [it + "go %s(%s)" % (self.fname("cw"), ", ".join(["fc", str(k)] + args))]
                o += [it + "fc <- body"]
        if site == "loop":
            it = it[:-4]
            o += [it + "}"]
        if site == "block":
            o += [t + "}"]
        # top-level functions the form needs
        if form == "named":
            allp = "".join(", c%d %s" % (j + 1, self.chan_t()) for j in range(self.nch))
            self.top += ["func %s(k int, x *int, s *int, mu *sync.Mutex, wg *sync.WaitGroup%s%s) {"
                         % (self.fname("w"), allp, cparams)] + self.locals_(1, True)
            self.top += self.stmts(tm["body"], "ptr", "k", 1) + ["}", ""]
        elif form == "namedg":
            self.top += ["func %s(k int%s) {" % (self.fname("w"), cparams)] + self.locals_(1, True)
            self.top += self.stmts(tm["body"], "direct", "k", 1) + ["}", ""]
        elif form == "cloarg":
            self.top += ["func %s(f %s, k int%s) {" % (self.fname("run"), ftype, cparams),
                         "    f(%s)" % ", ".join(["k"] + ["p%d" % (j + 1) for j in range(npar)]), "}", ""]
        elif form == "chanclo":
            self.top += ["func %s(fc %s, k int%s) {" % (self.fname("cw"), self.chan_t(ftype), cparams),
                         "    f := <-fc", "    f(%s)" % ", ".join(["k"] + ["p%d" % (j + 1) for j in range(npar)]), "}", ""]
        return o

    def fname(self, base):
        return "%s_%d" % (base, self.i)

    def render(self):
        c, i = self.c, self.i
        body = self.stmts(c["main"], "direct", None, 1)
        decl = []
        mk = lambda n: "make(%s, %d)" % (self.chan_t(), n)
        if self.glob:
            self.top = ["var x_%d int" % i, "var s_%d int" % i, "var mu_%d sync.Mutex" % i, "var wg_%d sync.WaitGroup" % i] \
                + ["var c%d_%d %s" % (j + 1, i, self.chan_t()) for j in range(self.nch)] + [""] + self.top
            decl += ["    c%d_%d = %s" % (j + 1, i, mk(n)) for j, n in enumerate(c["caps"])]
        else:
            decl += ["    var mu sync.Mutex", "    var wg sync.WaitGroup", "    x := 0", "    s := 0",
                     "    _ = x", "    _ = s", "    mu.Lock()", "    mu.Unlock()", "    wg.Add(0)"]
            decl += ["    c%d := %s" % (j + 1, mk(n)) for j, n in enumerate(c["caps"])]
            decl += ["    _ = c%d" % (j + 1) for j in range(self.nch)]
        fn = ["// %s" % c["id"], "func case_%d() {" % i] + decl + ["    v := 0", "    acc := 0", "    _ = v", "    _ = acc"] \
            + body + ['    fmt.Printf("E%d\\n")' % i, "}", ""]
        return self.top, fn


def render(cases, lang="ego", first=1):
    """One source file running the cases one after the other."""
    tops, fns, calls = [], [], []
    for n, c in enumerate(cases):
        r = R(c, first + n, lang)
        t, f = r.render()
        tops += t
        fns += f
        calls.append("    case_%d()" % (first + n))
    head = ["package main", "", 'import "fmt"', 'import "sync"', ""]
    return "\n".join(head + tops + fns + ["func main() {"] + calls + ["}", ""])


_LINE = re.compile(r"^([CE])(\d+)(?: (-?\d+))?$")


def observe(stdout, first, n):
    """What each case printed: [{"out": [ints], "ended": bool}], plus the lines that belong to no case."""
    obs = [{"out": [], "ended": False} for _ in range(n)]
    other = []
    for ln in stdout.splitlines():
        m = _LINE.match(ln.strip())
        if m and first <= int(m.group(2)) < first + n:
            o = obs[int(m.group(2)) - first]
            if m.group(1) == "C" and m.group(3) is not None:
                o["out"].append(int(m.group(3)))
            else:
                o["ended"] = True
        elif ln.strip():
            other.append(ln.strip())
    return obs, other


def agree(case, o):
    return o["ended"] and o["out"] == case["out"]

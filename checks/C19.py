"""C19 - REST JSON responses carry exactly the handler's data.
spec/JsonMinify: JsonLex (reference JSON scanner = the decoder), JsonMinify (the stripper loop, code-shaped),
JsonWrite (minify -> maybe-compress -> headers -> body, and the client).
Stages: MC (bounded direct + unbounded simulation) ; negative controls ; F level A (JSONMinify on every text TLC
enumerated) ; F level B (WriteJSON over a real HTTP server for TLC-generated values x request modes) ; self-tests.
`--replay f` re-runs the input / case stored in a replay file through the real code and the contract."""
import json, os, random, time
from concurrent.futures import ThreadPoolExecutor
import vf

PROP = "C19"
SPEC = "JsonMinify"
HARNESS = [vf.kit("internal/util", "util"),
           ("c19/write_test.go", "internal/util/zz_verif_c19_test.go")]

A8 = "{34, 92, 32, 160, 44, 97, 110, 117}"          # " \ space NBSP , a n u
A5 = "{34, 92, 32, 160, 110}"                        # " \ space NBSP n
WIDE = ("{34, 92, 32, 9, 10, 13, 160, 133, 8232, 12288, 44, 58, 91, 93, 123, 125, 47, 97, 98, 102, 110, 114, 116, 117,"
        " 48, 49, 45, 46, 233, 128512}")

# several small JVMs run side by side on a shared machine: few GC threads and a bounded heap cut the CPU cost by ~60 %
# (measured: genA 82 -> 30 CPU-seconds); the contract runs hold the whole log in memory and get a larger heap
JVM_SMALL = {"JAVA_TOOL_OPTIONS": "-XX:ParallelGCThreads=2 -Xmx3g"}
JVM_BIG = {"JAVA_TOOL_OPTIONS": "-XX:ParallelGCThreads=3 -Xmx10g"}
NARROW = "{34, 92, 32, 10, 160, 8232, 44, 58, 91, 110, 117, 97, 49}"

# known-bad / known-good pairs for the binding self-test of contract A
SELF_A = [{"in": [34, 92, 92, 34, 44, 34, 32, 34], "out": [34, 92, 92, 34, 44, 34, 34], "utf8": True},   # "\\"," " -> "\\","" : bad
          {"in": [91, 49, 44, 32, 50, 93], "out": [91, 49, 50, 93], "utf8": True},                       # [1, 2] -> [12]     : bad
          {"in": [34, 97, 34, 32], "out": [34, 97, 34], "utf8": True}]                                   # "a"_ -> "a"        : good


def _cfg(alphabet, maxlen, invariants, impl="fixed", props=None):
    s = "SPECIFICATION Spec\nCONSTANTS\n  Alphabet = %s\n  MaxLen = %d\n  Impl = \"%s\"\nINVARIANTS %s\n" % (
        alphabet, maxlen, impl, invariants)
    if props:
        s += "PROPERTIES %s\n" % props
    return s + "CHECK_DEADLOCK FALSE\n"


def _contract(chk, module, sd, files, name, timeout=900):
    """Run an F contract spec; returns (n, skipped, bad list).  Anything but a clean report is NoVerdict."""
    r = vf.tlc(SPEC, module, module + ".cfg", sd, workers=1, files=files, timeout=timeout, env=JVM_BIG)
    if r.error or r.violated or r.rc != 0:
        raise vf.NoVerdict("contract %s failed to evaluate: %s %s\n%s" % (module, r.violated, r.error, r.stdout[-2500:]))
    rep = [x for x in r.records if isinstance(x, dict) and "bad" in x and "n" in x]
    if not rep:
        raise vf.NoVerdict("contract %s printed no report\n%s" % (module, r.stdout[-1500:]))
    rep = rep[-1]
    if name:
        chk.add_tlc(r, name, count_states=False)
    vf.log("tlc %-22s %6.1fs  %d records judged" % (module, r.wall, int(rep["n"])))
    return int(rep["n"]), int(rep.get("skipped", 0)), (rep["bad"] if isinstance(rep["bad"], list) else [])


def _texts(r):
    seen, out = set(), []
    for x in r.records:
        if isinstance(x, list) and x:
            k = tuple(x)
            if k not in seen:
                seen.add(k)
                out.append(x)
    return out


def _show(cps):
    return "".join(chr(c) if 32 <= c < 127 else "\\u%04x" % c if c < 65536 else "\\U%08x" % c for c in cps)


def _drive(sd, texts, cases):
    """Run the real code on texts (level A) and cases (level B); returns the two logs."""
    tin = vf.write_ndjson(os.path.join(sd, "texts.ndjson"), texts)
    cin = vf.write_ndjson(os.path.join(sd, "cases.ndjson"), cases)
    ioa, iob = os.path.join(sd, "ioA.ndjson"), os.path.join(sd, "ioB.ndjson")
    for attempt in (1, 2):
        ov = vf.make_overlay(sd, HARNESS)
        p = vf.go_test(ov, "./internal/util/", "^TestVerifC19(Minify|Write)$",
                       env={"VERIF_IN": tin, "VERIF_OUT": ioa, "VERIF_CASES": cin, "VERIF_OUT_B": iob,
                            "VERIF_SEED": str(vf.SEED), "VERIF_ROUNDS": "4" if vf.TIER == "thorough" else "2"}, timeout=1500)
        # the generated-file cache is shared with concurrently running checks, which may prune an entry between
        # make_overlay and the compiler opening it: regenerate once
        if not (p.returncode != 0 and "verif-cache" in p.stdout + p.stderr and "no such file" in p.stdout + p.stderr):
            break
    if p.returncode != 0 or not os.path.exists(ioa) or not os.path.exists(iob):
        raise vf.NoVerdict("driver failed (rc=%d)\n%s\n%s" % (p.returncode, p.stdout[-3000:], p.stderr[-3000:]))
    la, lb = vf.read_ndjson(ioa), vf.read_ndjson(iob)
    if [r["in"] for r in la] != texts:
        raise vf.NoVerdict("driver did not run the texts TLC generated")
    nseq = sum(1 for c in cases if c.get("g") != "conc")
    if ([r["id"] for r in lb[:nseq]] != [i + 1 for i, c in enumerate(cases) if c.get("g") != "conc"]
            or {r["id"] for r in lb} != set(range(1, len(cases) + 1))):
        raise vf.NoVerdict("driver did not run every generated case")
    return la, lb, cin


def _judge(chk, sd, la, lb, cases, cin, label=True):
    """Both contracts (in parallel), with the self-test records appended to each log.
    Returns violations found among the real records; raises NoVerdict if a self-test record is misjudged."""
    good = (next((r for r in lb if r["kind"] == "gzip" and r["hdr"] == "gzip" and r["text"]), None)
            or next((r for r in lb if r["text"]), None))
    self_b = []
    if good is not None:
        m1 = dict(good)                                   # header flipped: client no longer decodes the way the bytes need
        m1["hdr"] = "" if good["hdr"] == "gzip" else "gzip"
        m2 = dict(good)                                   # last token of the body lost
        k = max(i for i, c in enumerate(good["text"]) if c not in (9, 10, 13, 32))
        m2["text"] = good["text"][:k] + good["text"][k + 1:]
        m3 = dict(good)                                   # unchanged copy: must get the same verdict as the original
        self_b = [m1, m2, m3]
    fa = vf.write_ndjson(os.path.join(sd, "jA.ndjson"), la + SELF_A)
    fb = vf.write_ndjson(os.path.join(sd, "jB.ndjson"), lb + self_b)
    with ThreadPoolExecutor(max_workers=2) as ex:
        ja = ex.submit(_contract, chk, "JsonMinify_Trace", sd, {"io.ndjson": fa},
                       "contract A: Decode(out) = Decode(in)" if label else None)
        jb = ex.submit(_contract, chk, "JsonWrite_Trace", sd, {"io.ndjson": fb, "cases.ndjson": cin},
                       "contract B: the client decodes the generated value" if label else None)
        (na, ska, bada), (nb, _skb, badb) = ja.result(), jb.result()
    if na != len(la) + len(SELF_A) or nb != len(lb) + len(self_b):
        raise vf.NoVerdict("contracts judged %d/%d and %d/%d records" % (na, len(la) + 3, nb, len(lb) + len(self_b)))
    if ska:
        raise vf.NoVerdict("%d texts fell outside the contract's domain (generator and contract disagree)" % ska)
    sa = sorted(b["idx"] - len(la) for b in bada if b["idx"] > len(la))
    if sa != [1, 2]:
        raise vf.NoVerdict("binding self-test A failed: known-bad pairs 1,2 / good pair 3, contract rejected %s" % sa)
    bada = [b for b in bada if b["idx"] <= len(la)]
    if self_b:
        sb = sorted(b["idx"] - len(lb) for b in badb if b["idx"] > len(lb))
        gi = lb.index(good) + 1
        want = [1, 2] + ([3] if any(b["idx"] == gi for b in badb) else [])
        if sb != want:
            raise vf.NoVerdict("binding self-test B failed: expected rejections %s, contract rejected %s" % (want, sb))
    badb = [b for b in badb if b["idx"] <= len(lb)]
    for b in bada:
        r = la[b["idx"] - 1]
        chk.violation(b["key"], "JSONMinify(%s) = %s does not decode to the same JSON" % (_show(r["in"]), _show(r["out"])),
                      {"level": "A", "in": r["in"], "out": r["out"], "in_text": _show(r["in"]), "out_text": _show(r["out"])})
    for b in badb:
        r = lb[b["idx"] - 1]
        c = cases[r["id"] - 1]
        chk.violation(b["key"], "WriteJSON response (Accept-Encoding %r, threshold %s) hdr=%r wire=%s body %s is not the handler's value"
                      % (c["ae"], c["thr"], r["hdr"], r["kind"], _show(r["text"][:160])),
                      {"level": "B", "case": c, "response": {k: (v if k != "text" else v[:400]) for k, v in r.items()},
                       "body_text": _show(r["text"][:400])})
    chk.cov["binding_selftest"] = ("appended to every contract run: known-bad pairs (string content lost, tokens merged, "
                                   "Content-Encoding flipped, body token dropped) rejected, good pairs accepted")
    return good


def _replay(chk, sd, path):
    rp = json.load(open(path)).get("replay") or {}
    texts = [rp["in"]] if rp.get("level") == "A" else [[34, 97, 34]]
    cases = [rp["case"]] if rp.get("level") == "B" else [{"v": {"t": "s", "s": [97], "n": 0, "a": []}, "ae": "", "thr": -1}]
    la, lb, cin = _drive(sd, texts, cases)
    _judge(chk, sd, la, lb, cases, cin)
    chk.cov.update(states=1, transitions=1, traces_validated_against_impl=2, evaluations=2, rule="replay of " + path)
    chk.sample({"kind": "replayed", "level": rp.get("level"), "minify": la[0], "response": {k: v for k, v in lb[0].items() if k != "text"}})
    return chk.finish()


def run():
    thorough = vf.TIER == "thorough"
    chk = vf.Check(PROP)
    chk.assumptions += [
        "domain = lexically well-formed JSON text (strings closed, escapes valid, no stray characters between tokens, no two literals separated only by white space); every grammatical JSON text is in it",
        "decoding is at token level (punctuation, literal runs, strings with escapes resolved to UTF-16 units): the JSON value is a function of that sequence; number spellings are compared as text",
        "the HTTP client gunzips iff Content-Encoding says gzip, and can only do so if it offered gzip; gzip/UTF-8/net/http of the Go library are trusted as the projection",
        "concurrent schedules of the real writer are sampled (Go scheduler, yields at every WriteHeader/Write, GOMAXPROCS 1/2/8); every interleaving is explored on the model only",
        "handlers that call JSONMinify themselves and then w.Write (logon reply, validation dictionary, user list) are covered through JSONMinify only",
    ]
    with vf.scratch() as sd:
        if os.environ.get("VERIF_REPLAY"):
            return _replay(chk, sd, os.environ["VERIF_REPLAY"])
        la_len, lb_len = (6, 9) if thorough else (5, 7)
        inv = "DecodesSame Minimal Shrinks Sync FoldsAgree Emit"
        jobs = {
            # bounded + direct, and at the same time the generators of level A (every text is a state; WF ones are printed)
            "genB": ("JsonMinify_Gen", _cfg(A5, lb_len, inv), {}),
            "genA": ("JsonMinify_Gen", _cfg(A8, la_len, inv, props="WriteRule"), {}),
            # long random texts over a wide alphabet (simulation; every well-formed prefix and sibling is printed)
            "sim": ("JsonMinify_Gen", _cfg(WIDE, 40, "Emit"),
                    dict(simulate="num=%d" % (600 if thorough else 60), depth=41, seed=vf.SEED)),
            "simN": ("JsonMinify_Gen", _cfg(NARROW, 32, "Emit"),
                     dict(simulate="num=%d" % (1500 if thorough else 150), depth=33, seed=vf.SEED + 1000)),
            "wgen": ("JsonWrite_Gen", "JsonWrite_GenT.cfg" if thorough else "JsonWrite_Gen.cfg", {}),
            # unbounded: scanner-mode product under VIEW
            "mcu": ("JsonMinify", "JsonMinify_MCu.cfg", {}),
            "wmc": ("JsonWrite", "JsonWrite_MC.cfg", {}),
            # negative controls
            "asis": ("JsonMinify", "JsonMinify_MC_asis.cfg", {}),
            "wneg": ("JsonWrite", "JsonWrite_MC_neg.cfg", {}),
            # concurrent writers: every interleaving of the steps of 2 (thorough 3) responses
            "cmc": ("JsonWriteConc", "JsonWriteConc_MC3.cfg" if thorough else "JsonWriteConc_MC.cfg", {}),
            "cneg": ("JsonWriteConc", "JsonWriteConc_MC_neg.cfg", {}),
        }
        if thorough:
            jobs["mc7"] = ("JsonMinify", "JsonMinify_MC.cfg", {})
            jobs["asisu"] = ("JsonMinify", "JsonMinify_MCu_asis.cfg", {})

        def one(item):
            name, (mod, cfg, kw) = item
            files = {}
            if "\n" in cfg:
                files[name + ".cfg"] = cfg
                cfg = name + ".cfg"
            kw = dict(kw)
            kw.setdefault("workers", 4 if name in ("genA", "genB", "mc7") else 1)
            r = vf.tlc(SPEC, mod, cfg, sd, timeout=1150, files=files, env=JVM_SMALL, **kw)
            vf.log("tlc %-6s %6.1fs  %d states, %d records" % (name, r.wall, r.distinct, len(r.records)))
            return name, r

        with ThreadPoolExecutor(max_workers=6) as ex:
            res = dict(ex.map(one, jobs.items()))

        # 1. the design satisfies C19
        for nm, what in (("genA", "MC bounded: all texts over 8 symbols up to length %d" % la_len),
                         ("genB", "MC bounded: all texts over 5 symbols up to length %d" % lb_len),
                         ("mcu", "MC unbounded (VIEW = scanner modes): Sync + WriteRule"),
                         ("wmc", "MC response writer: every response is decodable by its client"),
                         ("cmc", "MC concurrent response writers: every finished response carries its own value"),
                         ("mc7", "MC bounded: all texts over 8 symbols up to length 7")):
            if nm in res:
                vf.tlc_ok(res[nm], what)
                chk.add_tlc(res[nm], what)
        vf.tlc_ok(res["wgen"], "case generation")
        vf.tlc_ok(res["sim"], "simulation")
        vf.tlc_ok(res["simN"], "simulation (narrow alphabet)")
        chk.add_tlc(res["wgen"], "level B case generation", count_states=False)
        chk.add_tlc(res["sim"], "level A long random texts (simulation, 30 symbols)", count_states=False)
        chk.add_tlc(res["simN"], "level A long random texts (simulation, 13 symbols)", count_states=False)
        # 2. negative controls (vacuity guards)
        if res["asis"].violated != "DecodesSame":
            raise vf.NoVerdict("negative control: the as-is loop did not violate DecodesSame (%s)" % res["asis"].violated)
        chk.add_tlc(res["asis"], "negative control: as-is escape flag violates DecodesSame", count_states=False)
        if res["wneg"].violated != "Decodable":
            raise vf.NoVerdict("negative control: writer without fallback did not violate Decodable (%s)" % res["wneg"].violated)
        chk.add_tlc(res["wneg"], "negative control: no fallback when gzip does not shrink violates Decodable", count_states=False)
        if res["cneg"].violated != "OwnValue":
            raise vf.NoVerdict("negative control: pooled gzip buffer did not violate OwnValue (%s)" % res["cneg"].violated)
        chk.add_tlc(res["cneg"], "negative control: gzip buffer returned to a shared pool while still referenced violates OwnValue", count_states=False)
        if thorough:
            if res["asisu"].violated != "Sync":
                raise vf.NoVerdict("negative control: the as-is loop did not violate Sync")
            chk.add_tlc(res["asisu"], "negative control: as-is loop violates Sync", count_states=False)

        # 3. inputs for the real code: everything enumerated + seeded sample of the simulated long texts
        exh = _texts(res["genA"]) + _texts(res["genB"])
        seen = set(map(tuple, exh))
        sims = []
        for nm in ("sim", "simN"):
            part = [x for x in _texts(res[nm]) if tuple(x) not in seen and len(x) >= 8]
            random.Random(vf.SEED).shuffle(part)
            sims.append(part[: 30000 if thorough else 3000])
        sim = sims[0] + sims[1]
        uniq, texts = set(), []
        for x in exh + sim:
            if tuple(x) not in uniq:
                uniq.add(tuple(x))
                texts.append(x)
        if len(exh) < 1000 or not sim:
            raise vf.NoVerdict("generators produced too little (%d exhaustive, %d simulated)" % (len(exh), len(sim)))
        cases = [c for c in res["wgen"].records if isinstance(c, dict) and "v" in c]
        if len(cases) < 1000:
            raise vf.NoVerdict("case generator produced too little (%d)" % len(cases))

        # 4. F: real code, then the contracts
        la, lb, cin = _drive(sd, texts, cases)
        vf.log("driver done at %.0fs: %d texts, %d cases" % (time.time() - chk.t0, len(texts), len(cases)))
        ngz = sum(1 for r in lb if r["kind"] == "gzip")
        nplain_big = sum(1 for r in lb if r["kind"] == "plain" and r["wire"] >= 4096)
        noffer_plain = sum(1 for r in lb if r["kind"] == "plain" and cases[r["id"] - 1]["ae"] == "gzip"
                           and cases[r["id"] - 1]["thr"] == 16 and r["wire"] >= 16)
        conc = [r for r in lb if cases[r["id"] - 1].get("g") == "conc"]
        nconc_gz = sum(1 for r in conc if r["hdr"] == "gzip")
        nconc_plain = sum(1 for r in conc if r["hdr"] == "")
        good = _judge(chk, sd, la, lb, cases, cin)
        if not chk.cands and (not ngz or not nplain_big or not noffer_plain or nconc_gz < 100 or nconc_plain < 100):
            raise vf.NoVerdict("level B did not exercise both sides of the compression decision (gzip=%d big-plain=%d incompressible=%d; "
                               "concurrent: gzip=%d plain=%d)" % (ngz, nplain_big, noffer_plain, nconc_gz, nconc_plain))

        # evidence
        chk.cov["traces_validated_against_impl"] = len(la) + len(lb)
        chk.cov["evaluations"] = len(la) + len(lb)
        chk.cov["distinct_nontrivial"] = sum(1 for x in texts if 34 in x) + len(cases)
        chk.cov["levelA"] = {"exhaustive_texts": len(exh), "simulated_long_texts": len(sim),
                             "max_len": max(map(len, texts)), "with_backslash": sum(1 for x in texts if 92 in x)}
        chk.cov["levelB_concurrent"] = {"responses": len(conc), "compressed": nconc_gz, "plain": nconc_plain,
                                        "gomaxprocs": [1, 2, 8], "client_goroutines": 8,
                                        "thresholds": sorted({cases[r["id"] - 1]["thr"] for r in conc})}
        chk.cov["levelB"] = {"cases": len(cases), "compressed": ngz, "plain_over_default_threshold": nplain_big,
                             "offered_over_threshold_but_incompressible": noffer_plain}
        chk.cov["exhaustive"] = True
        chk.cov["rule"] = ("level A: every well-formed text over {\" \\ space NBSP , a n u} up to length %d and over {\" \\ space NBSP n} up to length %d "
                           "(exhaustive BFS of JsonMinify_Gen), plus a seeded sample of TLC-simulated texts up to 40 code points over 30 and 13 symbols, all run through the "
                           "real JSONMinify and judged by JsonMinify_Trace; level B: TLC-generated values x (Accept-Encoding, threshold) through the real "
                           "WriteJSON over HTTP, one at a time and then overlapping (distinct values, 8 client goroutines, GOMAXPROCS 1/2/8, handlers yielding at every "
                           "WriteHeader/Write, thresholds 0/16/4096 around body sizes 40/700/7000), every response judged by JsonWrite_Trace against its own value; distinct_nontrivial = texts containing a string + cases"
                           % (la_len, lb_len))
        ex1 = next((x for x in texts if x[:4] == [34, 92, 92, 34] and len(x) > 6), texts[-1])
        chk.sample({"kind": "level A text (code points)", "in": ex1, "text": _show(ex1)})
        chk.sample({"kind": "level A long text", "text": _show(sim[0])})
        chk.sample({"kind": "level B case", "case": cases[len(cases) // 2]})
        chk.sample({"kind": "level B response", "response": {k: (v if k != "text" else _show(v[:120])) for k, v in good.items()}})
    return chk.finish()

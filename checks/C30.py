"""C30 - the struct-backed resource store behaves like a keyed record set.
spec/Resources (+_Gen).  Stages: MC of the design with every transition emitted ; negative controls for the two
code-shaped defect classes ; R replay of (a) every transition of the exhaustive run and (b) random walks at a larger
bound through the real internal/resources package on a scratch SQLite file ; binding self-test (perturbed expectations)."""
import copy, json, os, random, re, shutil, subprocess, tempfile, time
from concurrent.futures import ThreadPoolExecutor
import vf

PROP = "C30"
SPEC = "Resources"
HARNESS = [vf.kit("internal/resources", "resources"),
           ("resources/replay_test.go", "internal/resources/zz_verif_replay_test.go")]


def tlc_stream(cfg, sd, out_ndjson, module="Resources_Gen", workers=1, simulate=None, depth=None, seed=None, timeout=900):
    """Like vf.tlc, but the JSON records TLC prints are streamed into an ndjson file instead of being held in memory
    (the thorough tier emits some 10^5 transitions)."""
    src = os.path.join(vf.VERIF, "spec", SPEC)
    work = tempfile.mkdtemp(prefix="tlc-", dir=sd)
    for f in os.listdir(src):
        if f.endswith((".tla", ".cfg")):
            shutil.copy(os.path.join(src, f), work)
    cmd = ["timeout", str(int(timeout)), "tlc", "-metadir", os.path.join(work, "meta"), "-config", cfg,
           "-noGenerateSpecTE", "-workers", str(workers)]
    if simulate:
        cmd += ["-simulate", simulate]
    if depth:
        cmd += ["-depth", str(depth)]
    if seed is not None:
        cmd += ["-seed", str(seed)]
    cmd += [module]
    raw = os.path.join(work, "stdout.txt")
    t0 = time.time()
    with open(raw, "w") as fh:
        p = subprocess.run(cmd, cwd=work, stdout=fh, stderr=subprocess.STDOUT)
    r = vf.TLCResult()
    r.wall, r.cmd, r.rc, r.work = time.time() - t0, " ".join(cmd[2:]), p.returncode, work
    if p.returncode == 124:
        raise vf.NoVerdict("TLC timeout (%ss): %s %s" % (timeout, module, cfg))
    other, n = [], 0
    with open(raw, errors="replace") as f, open(out_ndjson, "a") as o:
        for line in f:
            if line.startswith('"{') or line.startswith('"['):
                o.write(vf._unquote_tla(line.rstrip()) + "\n")
                n += 1
            elif len(other) < 4000:
                other.append(line)
    os.remove(raw)
    out = "".join(other)
    r.stdout, r.nrecords = out[-20000:], n
    m = None
    for m in vf._STATS.finditer(out):
        pass
    if m:
        r.generated, r.distinct = int(m.group(1)), int(m.group(2))
    m = re.search(r"The number of states generated: (\d+)", out)
    if m and not r.generated:
        r.generated = int(m.group(1))
    m = re.search(r"The depth of the complete state graph search is (\d+)", out)
    if m:
        r.depth = int(m.group(1))
    m = re.search(r"Invariant (\S+) is violated|Action property (\S+) is violated", out)
    if m:
        r.violated = m.group(1) or m.group(2)
    if re.search(r"^Error: ", out, re.M) and not r.violated:
        em = re.search(r"^Error: (.*(?:\n.*){0,12})", out, re.M)
        r.error = em.group(1) if em else "error"
    return r


def run_replay(binary, sd, infile, tag, seed=None, bi0=0, timeout=1500):
    out = os.path.join(sd, "replay-%s.json" % tag)
    env = vf.goenv({"VERIF_IN": infile, "VERIF_OUT": out, "VERIF_SEED": str(vf.SEED if seed is None else seed),
                    "VERIF_DBDIR": sd, "VERIF_BI0": str(bi0)})
    p = vf.run([binary, "-test.run", "^TestVerifResourcesReplay$", "-test.timeout", "%ds" % timeout],
               cwd=sd, env=env, timeout=timeout + 60)
    if p.returncode != 0 or not os.path.exists(out):
        raise vf.NoVerdict("replay harness failed (%s, rc=%d)\n%s\n%s" % (tag, p.returncode, p.stdout[-3000:], p.stderr[-3000:]))
    return json.load(open(out))


def key_comparison_coverage(*paths):
    """How many replayed Reads carry a comparison (<>, <, >) on the primary-key column for which TLC's answer holds two or
    more records - alone, and together with a second non-nil filter.  Counted from the behaviour files (coverage only)."""
    n = {"alone": 0, "with second filter": 0}
    for path in paths:
        with open(path) as f:
            for line in f:
                o = json.loads(line)
                calls = [o["call"]] if isinstance(o, dict) else [s["call"] for s in o]
                for c in calls:
                    if c["act"] != "Read" or len(c["out"]) < 2:
                        continue
                    real = [x for x in c["fs"] if x["col"] != "-"]
                    if any(x["col"] == "k" and x["op"] != "eq" for x in real):
                        n["alone" if len(real) == 1 else "with second filter"] += 1
    return n


def nlines(path):
    with open(path) as f:
        return sum(1 for _ in f)


def run():
    thorough = vf.TIER == "thorough"
    chk = vf.Check(PROP)
    chk.assumptions += [
        "SQLite backend only (modernc driver, scratch file, PRAGMA synchronous=OFF set by the harness); PostgreSQL is not available offline",
        "field values are ranks concretised per behaviour from increasing pools (strings incl. quotes/injection-looking text/unicode/empty, ints incl. "
        "MinInt64/MaxInt64, nil/empty/filled []string, raw JSON); order of ranks = bytewise/numeric order of the stored values",
        "filters are built on the string/int/bool/uuid columns with a value of the column's Go type; filters on the two JSON-text columns are outside the domain",
        "every operation is preceded by Begin() (documented way to start a chain on a handle); sequential histories only",
        "a nil *Filter passed by the caller means 'no filter' (the convention of internal/server/tables/security.go and of the skip in Read/Update/Delete)",
        "UpdateOne of a missing key may answer ok or not-found (comment and code disagree; the statement is about records)"]
    with vf.scratch() as sd:
        replay_file = os.environ.get("VERIF_REPLAY")
        ov = vf.make_overlay(sd, HARNESS)
        binary = os.path.join(sd, "resources.test")
        pool = ThreadPoolExecutor(max_workers=6)
        fbuild = pool.submit(vf.go_test_compile, ov, "./internal/resources/", binary)
        if replay_file:
            return replay_only(chk, sd, fbuild, binary, replay_file)

        trans = os.path.join(sd, "transitions.ndjson")
        walks = os.path.join(sd, "walks.ndjson")
        nwalks, wcfg, wdepth = (4000, "Resources_WalkT.cfg", 14) if thorough else (250, "Resources_Walk.cfg", 10)
        # 1. the design satisfies C30 at the stated bounds; every transition of these runs is emitted for replay
        emit_cfgs = ["Resources_MCt.cfg"] if thorough else ["Resources_MCq.cfg"]
        futs = {}
        for i, cfg in enumerate(emit_cfgs):
            futs[cfg] = pool.submit(tlc_stream, cfg, sd, trans + ".%d" % i, timeout=2400)
        if thorough:
            for cfg in ("Resources_MC3.cfg", "Resources_MCw.cfg"):
                futs[cfg] = pool.submit(vf.tlc, SPEC, "Resources_Gen", cfg, sd, workers=4, timeout=2400, keep_stdout=False)
        # 2. negative controls: each code-shaped defect variant must violate the property (else the property is vacuous)
        futs["neg-recv"] = pool.submit(vf.tlc, SPEC, "Resources_Gen", "Resources_MC_asis_recv.cfg", sd, workers=1, timeout=600)
        futs["neg-where"] = pool.submit(vf.tlc, SPEC, "Resources_Gen", "Resources_MC_asis_where.cfg", sd, workers=1, timeout=600)
        # 3. random walks at the larger bound
        futs["walk"] = pool.submit(tlc_stream, wcfg, sd, walks, simulate="num=%d" % nwalks, depth=wdepth + 1, seed=vf.SEED, timeout=1200)

        ntrans = 0
        with open(trans, "w") as o:
            for i, cfg in enumerate(emit_cfgs):
                r = vf.tlc_ok(futs[cfg].result(), "Resources MC " + cfg)
                if r.nrecords != r.generated - 1 or r.nrecords == 0:
                    raise vf.NoVerdict("%s: emitted %d transitions, TLC generated %d states" % (cfg, r.nrecords, r.generated))
                chk.add_tlc(r, "MC fixed, all transitions emitted (%s)" % cfg)
                ntrans += r.nrecords
                with open(trans + ".%d" % i) as f:
                    shutil.copyfileobj(f, o)
                os.remove(trans + ".%d" % i)
        if thorough:
            for cfg in ("Resources_MC3.cfg", "Resources_MCw.cfg"):
                chk.add_tlc(vf.tlc_ok(futs[cfg].result(), "Resources MC " + cfg), "MC fixed, model only (%s)" % cfg)
        for nm, want in (("neg-recv", "DeleteExact"), ("neg-where", "ReadExact")):
            rn = futs[nm].result()
            if rn.violated != want:
                raise vf.NoVerdict("negative control %s: the as-is variant did not violate %s (violated=%s error=%s)"
                                   % (nm, want, rn.violated, (rn.error or "")[:300]))
            chk.add_tlc(rn, "negative control %s violates %s" % (nm, want), count_states=False)
        rw = futs["walk"].result()
        if rw.violated or rw.error or rw.rc != 0 or rw.nrecords == 0:
            raise vf.NoVerdict("walk generation failed: %s %s\n%s" % (rw.violated, rw.error, rw.stdout[-2000:]))
        chk.add_tlc(rw, "random walks (%s, %d x depth %d)" % (wcfg, nwalks, wdepth), count_states=False)
        fbuild.result()

        # 4. R: replay on the real package
        res_t = run_replay(binary, sd, trans, "trans")
        res_w = run_replay(binary, sd, walks, "walks")
        for tag, res, n in (("transitions", res_t, ntrans), ("walks", res_w, rw.nrecords)):
            if res["behaviours"] != n and len(res["extra"]["mismatch_counts"]) <= 400:
                raise vf.NoVerdict("replay of %s stopped early: %s of %s" % (tag, res["behaviours"], n))
            vf.replay_violations(chk, res, prefix=tag)
            chk.cov["traces_validated_against_impl"] += res["behaviours"]
            chk.cov["evaluations"] += res["steps"]
            chk.cov["distinct_nontrivial"] += res["extra"]["nontrivial"]
            chk.cov["replay_%s" % tag] = {"behaviours": res["behaviours"], "steps": res["steps"],
                                          "distinct (state, call) pairs": res["transitions"],
                                          "mismatching behaviours": len(res["extra"]["bad_behaviours"]),
                                          "mismatch_counts": res["extra"]["mismatch_counts"]}
        acts = dict(res_t["act_counts"])
        for k, v in res_w["act_counts"].items():
            acts[k] = acts.get(k, 0) + v
        chk.cov["replay_act_counts"] = acts
        # vacuity guard: the cases the property is about must have been executed on the real code
        need = ["Read[bad]", "Delete[bad]", "Update[bad]", "Read[nil,ok]", "Delete[nil,ok]", "Update[nil,ok]", "Read[ok,ok]",
                "Delete[ok]", "Update[ok]", "Read[]", "Delete[]", "Insert[]", "ReadOne[]", "UpdateOne[]", "DeleteOne[]", "CreateIf[]"]
        missing = [k for k in need if not acts.get(k)]
        if missing:
            raise vf.NoVerdict("vacuity guard: never executed on the real code: %s" % missing)

        kc = key_comparison_coverage(trans, walks)
        chk.cov["key_comparison_reads_matching_2plus"] = kc
        if not kc["alone"] or not kc["with second filter"]:
            raise vf.NoVerdict("vacuity guard: no replayed Read compares the key column (<>,<,>) with two or more matching records: %s" % kc)

        # 5. binding self-test: perturb one expected value in behaviours the real code agreed with; each must be rejected
        selftest(chk, sd, binary, walks, set(res_w["extra"]["bad_behaviours"]))

        with open(trans) as f:
            for _ in range(3):
                l = f.readline()
            chk.sample({"kind": "replayed transition", "transition": json.loads(l)})
        with open(walks) as f:
            chk.sample({"kind": "replayed walk (calls only)", "calls": [s["call"] for s in json.loads(f.readline())]})
        chk.cov["rule"] = ("transitions = every (state, call) pair of the exhaustive TLC run(s) %s, each set up and executed on the real store; "
                           "walks = TLC random behaviours (one RandomElement-drawn call per step) at the larger bound; "
                           "non-trivial = distinct (state, call) pairs that returned records, deleted rows or changed the table" % emit_cfgs)
        chk.cov["exhaustive"] = True
        vf.log("C30 summary:", json.dumps({"tier": vf.TIER, "seed": vf.SEED,
                                           "tlc": [(r["name"], r["generated"], r["distinct"], r["wall_s"]) for r in chk.cov["tlc_runs"]],
                                           "transitions": {k: v for k, v in chk.cov["replay_transitions"].items() if k != "mismatch_counts"},
                                           "walks": {k: v for k, v in chk.cov["replay_walks"].items() if k != "mismatch_counts"},
                                           "nontrivial": chk.cov["distinct_nontrivial"], "candidates": len(chk.cands)}))
        chk.notes.append("exhaustive refers to the transition relation at the MC bound; walks are sampled")
    return chk.finish()


def selftest(chk, sd, binary, walks, bad):
    rng = random.Random(vf.SEED)
    behs = []
    with open(walks) as f:
        for i, line in enumerate(f):
            if i not in bad:
                behs.append((i, json.loads(line)))
            if len(behs) >= 400:
                break
    cands = {"out": [], "rows": [], "n": [], "reply": []}
    for bi, b in behs:
        for si, s in enumerate(b):
            c = s["call"]
            if c["act"] == "Read" and c["out"]:
                cands["out"].append((bi, si))
            if s["st"]["rows"] and c["act"] in ("Insert", "Update") and c["reply"] == ["ok"]:
                cands["rows"].append((bi, si))
            if c["act"] == "Delete" and c["n"] > 0:
                cands["n"].append((bi, si))
            if c["act"] in ("Insert", "DeleteOne", "ReadOne") and len(c["reply"]) == 1:
                cands["reply"].append((bi, si))
    empty = [k for k, v in cands.items() if not v]
    if empty:
        raise vf.NoVerdict("self-test: no behaviour agreed by the real code offers a %s to perturb (driver too weak)" % empty)
    byidx = dict(behs)
    lines, expect = [], []
    for kind in ("out", "rows", "n", "reply"):
        bi, si = rng.choice(cands[kind])
        b = copy.deepcopy(byidx[bi])
        s = b[si]
        if kind == "out":
            s["call"]["out"] = s["call"]["out"][1:]
            path = ".out"
        elif kind == "rows":
            row = s["st"]["rows"][0]
            row["s"] = 1 if row["s"] != 1 else 2
            path = ".st.rows"
        elif kind == "n":
            s["call"]["n"] += 1
            path = ".n"
        else:
            s["call"]["reply"] = ["error"] if s["call"]["reply"] != ["error"] else ["ok"]
            path = ".reply"
        lines.append({"bi": bi, "steps": b})   # re-run under its original index: same concretisation as in the agreed run
        expect.append((kind, bi, si, path))
    pth = vf.write_ndjson(os.path.join(sd, "selftest.ndjson"), lines)
    res = run_replay(binary, sd, pth, "selftest")
    got = {(m["behaviour"], m["step"], m["path"]) for m in res.get("mismatches") or []}
    for kind, bi, si, path in expect:
        if (bi, si, path) not in got:
            raise vf.NoVerdict("binding self-test failed: perturbed %s at step %d of behaviour %d was not rejected (%s)" % (kind, si, bi, sorted(got)))
    chk.cov["binding_selftest"] = "perturbed Read result, table row, Delete count and reply were each rejected at the perturbed step"


def replay_only(chk, sd, fbuild, binary, replay_file):
    rp = json.load(open(replay_file))
    m = rp.get("replay") or {}
    pre = m.get("prefix") or []
    if not pre:
        raise vf.NoVerdict("replay file has no behaviour")
    line = pre[0] if "pre" in pre[0] else pre
    pth = vf.write_ndjson(os.path.join(sd, "one.ndjson"), [line])
    fbuild.result()
    res = run_replay(binary, sd, pth, "one", bi0=int(m.get("behaviour", 0)))
    vf.replay_violations(chk, res, prefix="transitions" if "pre" in pre[0] else "walks")
    chk.cov["traces_validated_against_impl"] = res["behaviours"]
    chk.cov["evaluations"] = res["steps"]
    chk.cov["states"], chk.cov["transitions"] = 1, max(1, res["steps"])
    chk.sample({"kind": "replay file", "behaviour": line})
    chk.cov["rule"] = "single behaviour from a replay file"
    return chk.finish()

"""C09 - finished executions leave nothing running.
spec/RunLifecycle (+_Gen, _Trace).  Stages:
  MC        the design (the deferred cleanup releases the per-execution helper on every exit) satisfies NothingLeft for every
            case at the bound and every interleaving of helper exits; liveness (the process always settles) in the thorough tier
  controls  Impl = asis (GORTNS-1), noerr (cleanup on the normal path only), respawn (one-time worker restarted per run) must
            each violate NothingLeft - otherwise the invariant is vacuous
  Gen       TLC enumerates the cases (programs as trees of run units: callbacks of runtime functions, deferred calls, `go`
            statements; exits ok/error/panic; goroutines that never finish) and computes what each may leave behind
  T         one harness process executes the rendered programs (and the repository's own Ego test corpus, and Ego services through
            services.ServiceHandler) many times; after every execution the goroutine profile is projected and logged;
            RunLifecycle_Trace classifies every goroutine and judges the tables with the operators of the specification
  self-test recorded tables with one injected leftover helper / program goroutine / a dropped goroutine must be rejected
Python only pretty-prints cases as Ego source and moves files around."""
import json, os, random, re, time, zlib
from concurrent.futures import ThreadPoolExecutor
import vf

PROP = "C09"
PKG = "internal/verifharness/c09"
HARNESS = [("runlifecycle/driver_test.go", PKG + "/driver_test.go"),
           ("runlifecycle/commands_export.go", "internal/commands/zz_verif_c09_export.go")]
SPEC = "RunLifecycle"

# --------------------------------------------------------------------------------------------- projection: case -> Ego source

CB_SITES = ["slice", "expand", "stable", "find", "search", "string"]


def _site(units, i, seed):
    """concrete runtime function for an abstract `cb` unit (rotation; String() methods cannot see local variables, so they are
    used for leaves that do not block only)"""
    u = units[i]
    if u["s"] != "cb":
        return u["s"]
    leaf = i + 1 >= len(units) or units[i + 1]["d"] <= u["d"]
    k = zlib.crc32(("%s/%d/%d" % (" ".join("%s%s%d" % (x["s"], x["x"], x["d"]) for x in units), i, seed)).encode()) % len(CB_SITES)
    while CB_SITES[k] == "string" and (not leaf or u["b"]):
        k = (k + 1) % len(CB_SITES)
    return CB_SITES[k]


def render(case, seed=0):
    """Ego program for one case.  Markers: U<i> unit i started, B<i> unit i is about to block for ever, X<i> unit i reached its exit."""
    units = case["units"]
    n = len(units)
    kids = {i: [] for i in range(n)}
    stack = []
    for i, u in enumerate(units):
        while stack and units[stack[-1]]["d"] >= u["d"]:
            stack.pop()
        if stack:
            kids[stack[-1]].append(i)
        stack.append(i)
    parent = {k: p for p, ks in kids.items() for k in ks}

    def goroot(i):
        while i is not None and units[i]["s"] != "go":
            i = parent.get(i)
        return i
    types = []

    def body(i, ind):
        """statements of unit i's function body after its U marker"""
        t = "\t" * ind
        u = units[i]
        o = ['%sfmt.Printf("U%d\\n")' % (t, i + 1)]
        for k in kids[i]:
            o += invoke(k, ind)
        if u["b"]:
            r = goroot(i)
            o += ['%sfmt.Printf("B%d\\n")' % (t, i + 1), "%sready%d <- 1" % (t, r + 1),
                  "%sh%d := <-hold" % (t, i + 1), "%s_ = h%d" % (t, i + 1)]
            return o
        o.append('%sfmt.Printf("X%d\\n")' % (t, i + 1))
        if u["s"] == "go":
            o.append("%sready%d <- 1" % (t, i + 1))
        if u["s"] == "go" and (u["x"] != "ok" or any(units[k]["s"] == "defer" and units[k]["x"] != "ok" for k in kids[i])):
            # an error / unrecovered panic leaving a program goroutine (from its function or a deferred call of it) stops the
            # launching context at an arbitrary point
            # (GoRoutine sets parentCtx.goErr and running = false): the launchers of the enclosing program goroutines must
            # not wait for a signal that may never be sent
            r = goroot(parent.get(i))
            while r is not None:
                o.append("%sready%d <- 1" % (t, r + 1))
                r = goroot(parent.get(r))
        if u["x"] == "error":
            o += ["%sz%d := 0" % (t, i + 1), "%sz%d = 1 / z%d" % (t, i + 1, i + 1)]
        elif u["x"] == "panic":
            o.append('%spanic("p%d")' % (t, i + 1))
        return o

    def guarded(i, ind):
        t = "\t" * ind
        return ["%sif n%d == 0 {" % (t, i + 1), "%s\tn%d = 1" % (t, i + 1)] + body(i, ind + 1) + [t + "}"]

    def invoke(i, ind):
        """statements, in the parent's body, that make unit i run"""
        t = "\t" * ind
        s = _site(units, i, seed)
        j = i + 1
        if s == "go":
            return ["%sready%d := make(chan, 4)" % (t, j), t + "go func() {"] + body(i, ind + 1) + [t + "}()",
                    "%sr%d := <-ready%d" % (t, j, j), "%s_ = r%d" % (t, j)]
        if s == "defer":
            return [t + "defer func() {"] + body(i, ind + 1) + [t + "}()"]
        if s == "string":
            types.append("type T%d struct { n int }\nfunc (v T%d) String() string {\n%s\n\treturn \"s%d\"\n}\n"
                         % (j, j, "\n".join(body(i, 1)), j))
            return [t + "try {", "%s\tfmt.Println(T%d{n: 1})" % (t, j), t + "} catch {", t + "}"]
        o = ["%sn%d := 0" % (t, j)]
        if s in ("slice", "stable"):
            fn = "sort.Slice" if s == "slice" else "sort.SliceStable"
            o += ["%sa%d := []int{3, 1, 2}" % (t, j), t + "try {",
                  "%s\t%s(a%d, func(x int, y int) bool {" % (t, fn, j)] + guarded(i, ind + 2) + \
                 ["%s\t\treturn a%d[x] < a%d[y]" % (t, j, j), t + "\t})", t + "} catch {", t + "}"]
        elif s == "search":
            o += [t + "try {", "%s\tsort.Search(4, func(k int) bool {" % t] + guarded(i, ind + 2) + \
                 [t + "\t\treturn k >= 2", t + "\t})", t + "} catch {", t + "}"]
        elif s == "expand":
            o += [t + "try {", '%s\tos.Expand("$A $B", func(name string) string {' % t, t + "\t\t_ = name"] + guarded(i, ind + 2) + \
                 [t + '\t\treturn "v"', t + "\t})", t + "} catch {", t + "}"]
        elif s == "find":
            o += ['%st%d := tables.New("A")' % (t, j), '%st%d.AddRow("1")' % (t, j), '%st%d.AddRow("2")' % (t, j), t + "try {",
                  "%s\tt%d.Find(func(c string) bool {" % (t, j), t + "\t\t_ = c"] + guarded(i, ind + 2) + \
                 [t + "\t\treturn true", t + "\t})", t + "} catch {", t + "}"]
        else:
            raise ValueError(s)
        return o
    main = body(0, 1)
    src = ["package main", "@extensions true", 'import "fmt"', 'import "sort"', 'import "os"', 'import "tables"', ""]
    src += types
    src += ["func main() {", "\thold := make(chan, 1)", "\t_ = hold"] + main + ["}", ""]
    return "\n".join(src)


def sites_of(case, seed):
    return [_site(case["units"], i, seed) for i in range(len(case["units"]))]



# --------------------------------------------------------------------------------------------- hand-written programs / services

KEYPROGS = {
    "bigsort": """package main
import "fmt"
import "sort"
func main() {
	a := []int{}
	for i := 0; i < 300; i++ {
		a = append(a, (i * 7919) % 301)
	}
	sort.Slice(a, func(i int, j int) bool { return a[i] < a[j] })
	fmt.Printf("%d %d\\n", a[0], a[299])
}
""",
    "bigsort-error": """package main
@extensions true
import "fmt"
import "sort"
func main() {
	a := []int{}
	for i := 0; i < 120; i++ {
		a = append(a, (i * 7919) % 121)
	}
	n := 0
	try {
		sort.SliceStable(a, func(i int, j int) bool {
			n = n + 1
			if n % 5 == 0 {
				z := 0
				z = 1 / z
			}
			return a[i] < a[j]
		})
	} catch {
	}
	fmt.Printf("%d\\n", n)
}
""",
    "stringer-loop": """package main
import "fmt"
type P struct { n int }
func (p P) String() string {
	return "P!"
}
func main() {
	for i := 0; i < 150; i++ {
		fmt.Println(P{n: i})
	}
}
""",
    "late-goroutine": """package main
import "fmt"
import "time"
func main() {
	for i := 0; i < 3; i++ {
		go func() {
			d := time.ParseDuration("120ms")
			time.Sleep(d)
			fmt.Printf("late\\n")
		}()
	}
	fmt.Printf("main done\\n")
}
""",
    "uncaught-error": """package main
import "fmt"
func f(n int) int {
	defer func() { fmt.Printf("deferred\\n") }()
	return 10 / n
}
func main() {
	fmt.Printf("%d\\n", f(0))
}
""",
    "panic-recover": """package main
import "fmt"
func g() {
	defer func() {
		r := recover()
		fmt.Printf("recovered %v\\n", r)
	}()
	panic("inner")
}
func main() {
	for i := 0; i < 20; i++ {
		g()
	}
	panic("outer")
}
""",
    "os-exit": """package main
import "fmt"
import "os"
func main() {
	fmt.Printf("bye\\n")
	os.Exit(3)
}
""",
    "compile-error": """package main
import "fmt"
func main() {
	fmt.Printf("x\\n"
}
""",
    "nested-callbacks": """package main
import "fmt"
import "sort"
import "os"
func inner(k int) int {
	b := []int{4, 2, 9, 1, k}
	sort.Slice(b, func(i int, j int) bool { return b[i] < b[j] })
	return b[0]
}
func main() {
	a := []int{5, 3, 8, 1, 7, 2}
	sort.Slice(a, func(i int, j int) bool {
		s := os.Expand("$X", func(n string) string {
			_ = n
			return fmt.Sprintf("%d", inner(i))
		})
		_ = s
		return a[i] < a[j]
	})
	fmt.Printf("%v\\n", a)
}
""",
    "failing-workers": """package main
import "fmt"
import "time"
func main() {
	for i := 0; i < 6; i++ {
		go func(k int) {
			z := 0
			fmt.Printf("%d\\n", k / z)
		}(i)
	}
	d := time.ParseDuration("40ms")
	time.Sleep(d)
	fmt.Printf("main done\\n")
}
""",
    "workers": """package main
import "fmt"
import "sync"
func main() {
	var wg sync.WaitGroup
	total := 0
	var mu sync.Mutex
	for i := 0; i < 12; i++ {
		wg.Add(1)
		go func(k int) {
			mu.Lock()
			total = total + k
			mu.Unlock()
			wg.Done()
		}(i)
	}
	wg.Wait()
	fmt.Printf("%d\\n", total)
}
""",
}

SERVICES = {
    "ok-sort": """@endpoint get path="/services/c09/ok-sort"
import "http"
import "sort"
func handler(req http.Request, w *http.ResponseWriter) {
	a := []int{9, 4, 7, 1, 8, 2, 6}
	sort.Slice(a, func(i int, j int) bool { return a[i] < a[j] })
	w.WriteHeader(200)
	w.Write(fmt.Sprintf("%v", a))
}
""",
    "runtime-error": """@endpoint get path="/services/c09/runtime-error"
import "http"
func handler(req http.Request, w *http.ResponseWriter) {
	z := 0
	v := 10 / z
	w.WriteHeader(200)
	w.Write(v)
}
""",
    "panic": """@endpoint get path="/services/c09/panic"
import "http"
func handler(req http.Request, w *http.ResponseWriter) {
	defer func() { fmt.Println("deferred in service") }()
	panic("service gives up")
}
""",
    "goroutine": """@endpoint get path="/services/c09/goroutine"
import "http"
import "sync"
func handler(req http.Request, w *http.ResponseWriter) {
	var wg sync.WaitGroup
	n := 0
	wg.Add(1)
	go func() {
		n = n + 1
		wg.Done()
	}()
	wg.Wait()
	w.WriteHeader(200)
	w.Write(fmt.Sprintf("%d", n))
}
""",
    "compile-error": """@endpoint get path="/services/c09/compile-error"
import "http"
func handler(req http.Request, w *http.ResponseWriter) {
	w.WriteHeader(200
}
""",
}
REPO_SERVICES = ["hello", "bogus-runtime", "bogus-compile", "factor"]
EXAMPLES = ["goroutine", "panic", "interfaces", "tables", "custom-error-handling", "waitgroup"]
# directories of /repo/tests that are slow (seconds per pass): thorough tier only
SLOW_TESTS = {"cipher", "profile", "io", "sql"}


def _has_block(c):
    return any(u["b"] for u in c["units"])


def _chunks(jobs, n):
    """n processes; within a process the executions that leave program goroutines behind come last (small tables)"""
    out = [[] for _ in range(n)]
    for k, j in enumerate(jobs):
        out[k % n].append(j)
    for ch in out:
        ch.sort(key=lambda j: 1 if j.get("expect") else 0)
    return [c for c in out if c]


def _harness_run(sd, binp, chunks, tag, settle_ms=60):
    """runs one harness process per chunk (4 at a time); returns the list of trace files (process order)"""
    init = os.path.join(sd, "init.ego")
    if not os.path.exists(init):
        open(init, "w").write('package main\nimport "fmt"\nfunc main() {\n\tfmt.Printf("init\\n")\n}\n')
    procs = []
    for k, ch in enumerate(chunks):
        w = os.path.join(sd, "w-%s-%d" % (tag, k))
        os.makedirs(w, exist_ok=True)
        jf = vf.write_ndjson(os.path.join(w, "jobs.ndjson"), ch)
        tr = os.path.join(w, "trace.ndjson")
        env = dict(os.environ)
        # resource guard of the process: what the model says these jobs leave behind legitimately, plus a margin
        legit = sum(j["reps"] * sum(x["n"] * (1 + x["w"]) for x in j.get("expect") or []) for j in ch)
        env.update(VERIF_IN=jf, VERIF_OUT=tr, VERIF_WORK=w, VERIF_INITPROG=init, EGO_PATH=vf.REPO,
                   VERIF_SETTLE_MS=str(settle_ms), VERIF_FINAL_EVERY="120", VERIF_EXEC_LIMIT_S=os.environ.get("VERIF_C09_EXEC_LIMIT_S", "900" if vf.TIER == "thorough" else "420"), VERIF_MAX_GOROUTINES=str(legit + (150 if all(j["hasexp"] for j in ch) else 600)))
        # ego derives its runtime path (where the DSN database of the start-up lives) from the directory of argv[0]:
        # every process gets a private one
        lnk = os.path.join(w, "c09.test")
        if not os.path.lexists(lnk):
            os.symlink(binp, lnk)
        procs.append(([lnk, "-test.run", "^TestVerifC09$", "-test.timeout", "2400s"], None, w, env, tr))
    res = vf.run_many([p[:4] for p in procs], nproc=6, timeout=2500)
    traces = []
    for (rc, so, se), p in zip(res, procs):
        if rc is None:
            raise vf.NoVerdict("harness process timed out (%s): an execution did not return\n%s" % (tag, (so + se)[-3000:]))
        if rc == 3 and os.path.exists(p[4]):
            vf.log("harness process %s ended by its execution-time guard; its log is judged as truncated" % p[2])
        elif rc != 0 or not os.path.exists(p[4]):
            raise vf.NoVerdict("harness process failed (%s rc=%s)\n%s" % (tag, rc, (so + se)[-4000:]))
        traces.append(p[4])
    return traces


def _judge(chk, sd, trace_path, name):
    """RunLifecycle_Trace over a recorded log: (report, TLC result)."""
    r = vf.tlc(SPEC, "RunLifecycle_Trace", "RunLifecycle_Trace.cfg", sd, workers=1, files={"trace.ndjson": trace_path}, timeout=2400)
    if r.error or r.violated or r.rc != 0:
        raise vf.NoVerdict("trace evaluation failed: %s %s\n%s" % (r.violated, r.error, r.stdout[-2500:]))
    rep = [x for x in r.records if isinstance(x, dict) and "bad" in x and "n" in x]
    if not rep:
        raise vf.NoVerdict("trace spec printed no report (an event was not understood)\n" + r.stdout[-1500:])
    if name:
        chk.add_tlc(r, name, count_states=False)
    return rep[-1]


def _lst(x):
    return x if isinstance(x, list) else []


def _job_for_replay(js):
    if not js:
        return None
    j = dict(js[0])
    if os.path.isfile(j["file"]):
        j["source"] = open(j["file"]).read()
    return j


def _replay(chk, sd):
    """bin/verif check C09 --replay replays/C09-....json : the recorded job again, 30 executions in one process."""
    rep = json.load(open(os.environ["VERIF_REPLAY"]))["replay"]
    j = rep.get("job")
    if not j:
        raise vf.NoVerdict("replay file has no job")
    if j["path"] != "test" and j.get("source"):
        j["file"] = os.path.join(sd, "replay-" + os.path.basename(j["file"]))
        open(j["file"], "w").write(j.pop("source"))
    j.pop("source", None)
    j["reps"] = 30
    ov = vf.make_overlay(sd, HARNESS)
    binp = vf.go_test_compile(ov, "./" + PKG + "/", os.path.join(sd, "c09.test"), timeout=3000)
    tr, = _harness_run(sd, binp, [[j]], "replay")
    r = _judge(chk, sd, tr, "trace validation (replay)")
    ev = vf.read_ndjson(tr)
    print("replayed %s %s: %d executions, goroutines at rest: %s" % (j["path"], j["key"], r["stats"]["execs"], ev[-1]["n"]))
    for b in _lst(r["bad"]):
        e = ev[b["idx"] - 1]
        print("  still there: %s (execution %s, ended %s)" % (b["key"], e.get("rep"), e.get("kind")))
        chk.violation(b["key"], "replayed job still leaves a goroutine behind", rep)
    chk.cov["states"] = chk.cov["transitions"] = 1
    chk.sample({"kind": "replay", "job": j["key"]})
    return chk.finish()


def run():
    thorough = vf.TIER == "thorough"
    rng = random.Random(vf.SEED)
    chk = vf.Check(PROP)
    chk.assumptions += [
        "an execution = one call of (*Context).RunFromAddress; the per-execution helper is the SIGINT watcher goroutine; other helpers "
        "would be classified `interp` (any goroutine created by a function of module github.com/tucats/ego that is not a known "
        "one-time worker) and judged the same way",
        "programs run in-process through the per-program part of commands.RunAction (harness shim repeating RunAction's own calls "
        "after its one-time initialisation), commands.TestAction and services.ServiceHandler; child-process services, the debugger and "
        "the dashboard /admin/run path are not exercised",
        "goroutines created by Go libraries for objects a program opened and did not close (database/sql pool, net/http idle "
        "connections) are counted but not judged: they are the program's own unfinished resources",
        "schedules of the real runtime are sampled (a helper told to stop is given bounded time; only goroutines still present when "
        "the process has been still for 400 ms are reported); interleavings of helper exits are enumerated on the model only"]
    with vf.scratch() as sd:
        if os.environ.get("VERIF_REPLAY"):
            return _replay(chk, sd)
        # 1-3. model runs, concurrently (independent JVMs) with the build of the harness:
        #   the design satisfies C09 (exhaustive at the bound); negative controls (vacuity guards); case generation
        ov = vf.make_overlay(sd, HARNESS)
        t0 = time.time()
        with ThreadPoolExecutor(max_workers=8) as ex:
            fb = ex.submit(vf.go_test_compile, ov, "./" + PKG + "/", os.path.join(sd, "c09.test"), "verif", False, 3000)
            runs = [("MC fixed, one execution", "RunLifecycle", "RunLifecycle_MC.cfg" if thorough else "RunLifecycle_MCq.cfg", None),
                    ("MC fixed, two executions in one process", "RunLifecycle", "RunLifecycle_MC2.cfg", None)]
            if thorough:
                runs.append(("liveness: the process always settles", "RunLifecycle", "RunLifecycle_Live.cfg", None))
            runs += [("negative control Impl=%s violates NothingLeft" % v, "RunLifecycle", "RunLifecycle_MC_%s.cfg" % v, "NothingLeft")
                     for v in ("asis", "noerr", "respawn")]
            runs.append(("case generation (exhaustive at the bound)", "RunLifecycle_Gen",
                         "RunLifecycle_Gen.cfg" if thorough else "RunLifecycle_Genq.cfg", None))
            futs = [ex.submit(vf.tlc, SPEC, mod, cfg, sd, 8 if thorough else 2, None, None, None, 3000) for _, mod, cfg, _ in runs]
            rg = None
            for (name, mod, cfg, want), f in zip(runs, futs):
                r = f.result()
                if want:
                    if r.violated != want:
                        raise vf.NoVerdict("%s: expected a violation of %s, got %s %s" % (name, want, r.violated, r.error))
                    chk.add_tlc(r, name, count_states=False)
                else:
                    vf.tlc_ok(r, name)
                    chk.add_tlc(r, name)
                rg = r
            binp = fb.result()
        vf.log("model runs + build: %.0fs" % (time.time() - t0))
        cases = {c["key"]: c for c in rg.records if isinstance(c, dict) and "units" in c}
        cases = [cases[k] for k in sorted(cases)]
        if not cases:
            raise vf.NoVerdict("no cases generated")
        ncases_all = len(cases)
        if thorough and len(cases) > 3200:
            small = [c for c in cases if len(c["units"]) <= 3]
            big = [c for c in cases if len(c["units"]) > 3]
            cases = small + rng.sample(big, 3200 - len(small))
        reps = 3 if thorough else 2
        pd = os.path.join(sd, "progs")
        os.makedirs(pd)
        jobs, site_count = [], {}
        for n, c in enumerate(cases):
            p = os.path.join(pd, "c%05d.ego" % n)
            open(p, "w").write(render(c, seed=vf.SEED))
            for s, u in zip(sites_of(c, vf.SEED), c["units"]):
                k = "%s/%s" % (s, "block" if u["b"] else u["x"])
                site_count[k] = site_count.get(k, 0) + 1
            jobs.append({"path": "run", "file": p, "key": c["key"], "reps": reps, "hasexp": True, "expect": _lst(c["expect"])})
        kreps = 200 if thorough else 15
        kjobs = []
        for name, src in sorted(KEYPROGS.items()):
            p = os.path.join(pd, "key-%s.ego" % name)
            open(p, "w").write(src)
            kjobs.append({"path": "run", "file": p, "key": "key/" + name, "reps": min(kreps, 30) if name == "late-goroutine" else kreps,
                          "hasexp": False, "expect": []})
        for name in EXAMPLES:
            p = os.path.join(vf.REPO, "examples", name + ".ego")
            if os.path.exists(p):
                kjobs.append({"path": "run", "file": p, "key": "example/" + name, "reps": 6 if thorough else 2, "hasexp": False, "expect": []})
        tdir = os.path.join(vf.REPO, "tests")
        tjobs = []
        for d in sorted(os.listdir(tdir)):
            if os.path.isdir(os.path.join(tdir, d)) and (thorough or d not in SLOW_TESTS):
                tjobs.append({"path": "test", "file": os.path.join(tdir, d), "key": "tests/" + d, "reps": 3 if thorough else 2,
                              "hasexp": False, "expect": []})
        sjobs = []
        svd = os.path.join(sd, "services")
        os.makedirs(svd)
        for name, src in sorted(SERVICES.items()):
            p = os.path.join(svd, name + ".ego")
            open(p, "w").write(src)
            sjobs.append({"path": "service", "file": p, "key": "service/" + name, "reps": kreps, "hasexp": False, "expect": [],
                          "extra": {"endpoint": "c09/" + name}, "accept": "application/json" if len(sjobs) % 2 else "text/plain"})
        for name in REPO_SERVICES:
            p = os.path.join(vf.REPO, "lib", "services", name + ".ego")
            if os.path.exists(p):
                sjobs.append({"path": "service", "file": p, "key": "repo-service/" + name, "reps": kreps, "hasexp": False, "expect": [],
                              "extra": {"endpoint": name}, "accept": "application/json"})
        # 4. T: the real interpreter, many executions per process
        nproc = max(4, min(24, len(jobs) // 70))
        chunks = _chunks(jobs, nproc) + _chunks(kjobs, 2) + _chunks(tjobs, 2) + [sjobs]
        t0 = time.time()
        traces = _harness_run(sd, binp, chunks, "t")
        vf.log("harness: %d processes, %.0fs" % (len(traces), time.time() - t0))
        # the recorded processes are judged in G logs (independent JVMs); the last log also carries tampered copies of the
        # first recorded process (binding self-test, stage 5)
        segs = [vf.read_ndjson(t) for t in traces]
        G = 4 if thorough else 1
        logs = [[] for _ in range(G)]          # per log: list of (origin, event); origin = ("real", None) | ("test", t)
        for k, sg in enumerate(segs):
            logs[k % G] += [(None, e) for e in sg]
        tests = _tampered(segs[0], rng)
        for t in tests:
            t["offset"] = len(logs[-1])
            logs[-1] += [(t, e) for e in t["events"]]
        t0 = time.time()
        paths = [vf.write_ndjson(os.path.join(sd, "trace-%d.ndjson" % k), [e for _, e in lg]) for k, lg in enumerate(logs)]
        with ThreadPoolExecutor(max_workers=G) as ex:
            reps_ = list(ex.map(lambda kp: _judge(chk, sd, kp[1], "trace validation, log %d (%d events)" % (kp[0], len(logs[kp[0]]))),
                                enumerate(paths)))
        vf.log("trace validation: %d events in %d logs, %.0fs" % (sum(len(l) for l in logs), G, time.time() - t0))
        st = {}
        bad, guard, tbad, tguard = [], [], [], []
        for lg, rp in zip(logs, reps_):
            nx = sum(1 for _, e in lg if e["ev"] == "Exec")
            if rp["stats"]["execs"] != nx or rp["open"] != 0 or rp["n"] != len(lg):
                raise vf.NoVerdict("trace not consumed to the end: %s vs %d executions recorded" % (rp, nx))
            for k, v in rp["stats"].items():
                st[k] = st.get(k, 0) + v
            for src, dst_real, dst_test in ((_lst(rp["bad"]), bad, tbad), (_lst(rp["guard"]), guard, tguard)):
                for x in src:
                    org, e = lg[x["idx"] - 1]
                    (dst_real if org is None else dst_test).append({"key": x["key"], "idx": x["idx"], "event": e, "test": org})
        events = [e for sg in segs for e in sg]
        execs = [e for e in events if e["ev"] == "Exec"]
        alljobs = jobs + kjobs + tjobs + sjobs
        for b in bad:
            e = b["event"]
            chk.violation(b["key"], "a goroutine started by the interpreter for a finished execution is still there after the process "
                          "came to rest (execution: %s %s, ended %s)" % (e.get("path"), e.get("key"), e.get("kind")),
                          {"event": {k: e.get(k) for k in ("ev", "path", "key", "kind", "err", "marks", "n")},
                           "job": _job_for_replay([j for j in alljobs if j["key"] == e.get("key")][:1]),
                           "new_goroutines_after_this_execution": e.get("add", [])[:12]})
        kinds = {}
        for e in execs:
            kinds[e["path"] + "/" + e["kind"]] = kinds.get(e["path"] + "/" + e["kind"], 0) + 1
        if not bad:
            # vacuity guards on what was really executed (projection only: markers the programs printed)
            ran = sum(1 for e in execs if e["hasexp"] for m in e["marks"] if m.startswith("U"))
            planned = sum(len(c["units"]) for c in cases) * reps
            for need in ("run/ok", "run/error", "run/panic", "test/ok", "service/ok", "service/error"):
                if not kinds.get(need):
                    raise vf.NoVerdict("no execution of kind %s was recorded (driver too weak): %s" % (need, kinds))
            if ran < 0.9 * planned or st["helpers"] == 0 or st["parked"] == 0:
                raise vf.NoVerdict("generated programs did not run as planned: %d of %d units started, stats %s" % (ran, planned, st))
            if any(e.get("trunc") for e in events if e["ev"] == "Final"):
                raise vf.NoVerdict("a harness process stopped early (goroutine cap) although nothing was reported")
            if guard:
                raise vf.NoVerdict("the program goroutines left behind differ from what the model computed for %d executions, e.g. %s "
                                   "%s %s: model or renderer defect" % (len(guard), guard[0]["key"], guard[0]["event"].get("marks"),
                                                                         guard[0]["event"].get("expect")))
        # 5. binding self-test: what was injected into the tampered copies must have been reported, and nothing else
        for t in tests:
            tb = [x for x in tbad if x["test"] is t]
            tg = [x for x in tguard if x["test"] is t]
            at = t["offset"] + t["at"] + 1
            ok = (not tb) if t["want_bad"] is None else any(t["want_bad"] in x["key"] and x["idx"] == at for x in tb)
            if t.get("want_guard"):
                ok = ok and any(x["idx"] == at for x in tg)
            if not ok and not bad:
                raise vf.NoVerdict("binding self-test failed: %s (reported: %s %s)" %
                                   (t["name"], [(x["key"], x["idx"]) for x in tb], [(x["key"], x["idx"]) for x in tg]))
        chk.cov["binding_selftest"] = "; ".join(t["name"] for t in tests)
        chk.cov["traces_validated_against_impl"] = len(traces)
        chk.cov["evaluations"] = st["tables"]
        chk.cov["executions"] = st["execs"]
        chk.cov["goroutines_judged"] = st["goroutines"]
        chk.cov["helpers_accounted_for"] = st["helpers"]
        chk.cov["program_goroutines_left_legitimately"] = st["parked"]
        chk.cov["library_goroutines_not_judged"] = st["lib"]
        chk.cov["distinct_nontrivial"] = len(cases) + len(kjobs) + len(tjobs) + len(sjobs)
        chk.cov["cases_generated"] = ncases_all
        chk.cov["cases_executed"] = len(cases)
        chk.cov["executions_by_kind"] = kinds
        chk.cov["units_by_site_and_exit"] = site_count
        chk.cov["rule"] = ("cases = every tree of run units at the bound (TLC, exhaustive); executions = in-process runs of rendered cases, "
                           "key programs, /repo/examples, /repo/tests directories and services; evaluations = goroutine tables judged by "
                           "RunLifecycle_Trace with Orphans of the specification")
        chk.cov["exhaustive"] = not (thorough and ncases_all > len(cases))
        chk.sample({"kind": "case (TLC) and its rendering", "case": cases[len(cases) // 2],
                    "program": render(cases[len(cases) // 2], seed=vf.SEED)})
        ex = [e for e in execs if e["expect"]][:1] or execs[:1]
        chk.sample({"kind": "recorded execution", "event": {k: ex[0][k] for k in ("path", "key", "kind", "marks", "expect", "n")},
                    "goroutines_new_or_changed": ex[0]["add"][:10], "goroutines_gone": ex[0]["del"][:10]})
    return chk.finish()


def _tampered(ev, rng):
    """Tampered copies of one recorded process (each a complete log segment starting with its Base event)."""
    base = ev[0]
    execs = [i for i, e in enumerate(ev) if e["ev"] == "Exec"]
    finals = [i for i, e in enumerate(ev) if e["ev"] == "Final"]
    if not execs or not finals or base["ev"] != "Base":
        raise vf.NoVerdict("self-test: the recorded trace has no executions")
    BC = "github.com/tucats/ego/internal/language/bytecode"
    i = rng.choice([x for x in execs if x < finals[0]])
    fake = 9000001

    def rec(cpkg, cfn):
        return {"id": fake, "host": base["driver"], "cpkg": cpkg, "cfn": cfn, "ego": True, "frames": 0}

    def copy():
        return json.loads(json.dumps(ev))
    out = []
    for name, g, want in (("a helper of a finished execution that stays is reported", rec(BC, "(*Context).RunFromAddress"), "watcher/host=driver"),
                          ("a program goroutine that stays outside its function is reported", rec(BC, "goByteCode"), "prog/finished"),
                          ("any other goroutine started by interpreter code is reported",
                           rec("github.com/tucats/ego/internal/runtime/rest", "Exchange.func1"), "interp/"),
                          ("a second instance of a one-time worker is reported", dict(rec("os/signal", "Notify.func1.1"), ego=False),
                           "once-grows/os/signal.Notify.func1.1")):
        cp = copy()
        cp[i]["add"].append(g)          # appears with execution i and is never seen to go
        out.append({"name": name, "events": cp, "at": i, "want_bad": want})
    cp = copy()
    cp[i]["add"].append(rec(BC, "(*Context).RunFromAddress"))
    cp[i + 1]["del"].append(fake)       # gone by the next profile
    out.append({"name": "a helper that exits late is not reported", "events": cp, "at": i, "want_bad": None})
    withexp = [x for x in execs if ev[x]["expect"] and x < finals[-1]]
    if withexp:
        j = withexp[-1]
        cp = copy()
        new = [g["id"] for g in cp[j]["add"] if g["cfn"] == "goByteCode"][:1]
        cp[j]["add"] = [g for g in cp[j]["add"] if g["id"] not in new and g["host"] not in new]
        for e in cp[j + 1:]:
            e["del"] = [x for x in e["del"] if x not in new]
        out.append({"name": "a missing legitimate program goroutine is noticed by the residue guard", "events": cp, "at": j,
                    "want_bad": None, "want_guard": True})
    return out

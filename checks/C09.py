"""C09 - finished executions leave nothing running.
spec/RunLifecycle (+_Gen, _Trace).  Stages:
  MC        the design (the deferred cleanup releases the per-execution helper on every exit) satisfies NothingLeft for every
            case at the bound and every interleaving of helper exits; liveness (the process always settles) in the thorough tier
  controls  Impl = asis (GORTNS-1), noerr (cleanup on the normal path only), respawn (one-time worker restarted per run) must
            each violate NothingLeft - otherwise the invariant is vacuous
  Gen       TLC enumerates the cases (programs as trees of run units: callbacks of runtime functions, deferred calls, `go`
            statements; exits ok/error/panic; goroutines that never finish) and computes what each may leave behind
  T         one harness process executes the rendered programs (and the repository's own Ego test corpus, and Ego services through
            services.ServiceHandler) many times; after every execution the goroutine profile is projected and logged;
            RunLifecycle_Trace classifies every goroutine and judges the tables with the operators of the specification
  self-test recorded tables with one injected leftover helper / program goroutine / a dropped goroutine must be rejected
Python only pretty-prints cases as Ego source and moves files around."""
import json, os, random, re
import vf

PROP = "C09"
PKG = "internal/verifharness/c09"
HARNESS = [("runlifecycle/driver_test.go", PKG + "/driver_test.go"),
           ("runlifecycle/commands_export.go", "internal/commands/zz_verif_c09_export.go")]
SPEC = "RunLifecycle"

# --------------------------------------------------------------------------------------------- projection: case -> Ego source

CB_SITES = ["slice", "expand", "stable", "find", "search", "string"]


def _site(units, i, seed):
    """concrete runtime function for an abstract `cb` unit (rotation; String() methods cannot see local variables, so they are
    used for leaves that do not block only)"""
    u = units[i]
    if u["s"] != "cb":
        return u["s"]
    leaf = i + 1 >= len(units) or units[i + 1]["d"] <= u["d"]
    k = (i * 7 + seed) % len(CB_SITES)
    while CB_SITES[k] == "string" and (not leaf or u["b"]):
        k = (k + 1) % len(CB_SITES)
    return CB_SITES[k]


def render(case, seed=0):
    """Ego program for one case.  Markers: U<i> unit i started, B<i> unit i is about to block for ever, X<i> unit i reached its exit."""
    units = case["units"]
    n = len(units)
    kids = {i: [] for i in range(n)}
    stack = []
    for i, u in enumerate(units):
        while stack and units[stack[-1]]["d"] >= u["d"]:
            stack.pop()
        if stack:
            kids[stack[-1]].append(i)
        stack.append(i)
    parent = {k: p for p, ks in kids.items() for k in ks}

    def goroot(i):
        while i is not None and units[i]["s"] != "go":
            i = parent.get(i)
        return i
    types = []

    def body(i, ind):
        """statements of unit i's function body after its U marker"""
        t = "\t" * ind
        u = units[i]
        o = ['%sfmt.Printf("U%d\\n")' % (t, i + 1)]
        for k in kids[i]:
            o += invoke(k, ind)
        if u["b"]:
            r = goroot(i)
            o += ['%sfmt.Printf("B%d\\n")' % (t, i + 1), "%sready%d <- 1" % (t, r + 1),
                  "%sh%d := <-hold" % (t, i + 1), "%s_ = h%d" % (t, i + 1)]
            return o
        o.append('%sfmt.Printf("X%d\\n")' % (t, i + 1))
        if u["s"] == "go":
            o.append("%sready%d <- 1" % (t, i + 1))
        if u["s"] == "go" and u["x"] != "ok":
            # an error / unrecovered panic leaving a program goroutine stops the launching context at an arbitrary point
            # (GoRoutine sets parentCtx.goErr and running = false): the launchers of the enclosing program goroutines must
            # not wait for a signal that may never be sent
            r = goroot(parent.get(i))
            while r is not None:
                o.append("%sready%d <- 1" % (t, r + 1))
                r = goroot(parent.get(r))
        if u["x"] == "error":
            o += ["%sz%d := 0" % (t, i + 1), "%sz%d = 1 / z%d" % (t, i + 1, i + 1)]
        elif u["x"] == "panic":
            o.append('%spanic("p%d")' % (t, i + 1))
        return o

    def guarded(i, ind):
        t = "\t" * ind
        return ["%sif n%d == 0 {" % (t, i + 1), "%s\tn%d = 1" % (t, i + 1)] + body(i, ind + 1) + [t + "}"]

    def invoke(i, ind):
        """statements, in the parent's body, that make unit i run"""
        t = "\t" * ind
        s = _site(units, i, seed)
        j = i + 1
        if s == "go":
            return ["%sready%d := make(chan, 4)" % (t, j), t + "go func() {"] + body(i, ind + 1) + [t + "}()",
                    "%sr%d := <-ready%d" % (t, j, j), "%s_ = r%d" % (t, j)]
        if s == "defer":
            return [t + "defer func() {"] + body(i, ind + 1) + [t + "}()"]
        if s == "string":
            types.append("type T%d struct { n int }\nfunc (v T%d) String() string {\n%s\n\treturn \"s%d\"\n}\n"
                         % (j, j, "\n".join(body(i, 1)), j))
            return [t + "try {", "%s\tfmt.Println(T%d{n: 1})" % (t, j), t + "} catch {", t + "}"]
        o = ["%sn%d := 0" % (t, j)]
        if s in ("slice", "stable"):
            fn = "sort.Slice" if s == "slice" else "sort.SliceStable"
            o += ["%sa%d := []int{3, 1, 2}" % (t, j), t + "try {",
                  "%s\t%s(a%d, func(x int, y int) bool {" % (t, fn, j)] + guarded(i, ind + 2) + \
                 ["%s\t\treturn a%d[x] < a%d[y]" % (t, j, j), t + "\t})", t + "} catch {", t + "}"]
        elif s == "search":
            o += [t + "try {", "%s\tsort.Search(4, func(k int) bool {" % t] + guarded(i, ind + 2) + \
                 [t + "\t\treturn k >= 2", t + "\t})", t + "} catch {", t + "}"]
        elif s == "expand":
            o += [t + "try {", '%s\tos.Expand("$A $B", func(name string) string {' % t, t + "\t\t_ = name"] + guarded(i, ind + 2) + \
                 [t + '\t\treturn "v"', t + "\t})", t + "} catch {", t + "}"]
        elif s == "find":
            o += ['%st%d := tables.New("A")' % (t, j), '%st%d.AddRow("1")' % (t, j), '%st%d.AddRow("2")' % (t, j), t + "try {",
                  "%s\tt%d.Find(func(c string) bool {" % (t, j), t + "\t\t_ = c"] + guarded(i, ind + 2) + \
                 [t + "\t\treturn true", t + "\t})", t + "} catch {", t + "}"]
        else:
            raise ValueError(s)
        return o
    main = body(0, 1)
    src = ["package main", "@extensions true", 'import "fmt"', 'import "sort"', 'import "os"', 'import "tables"', ""]
    src += types
    src += ["func main() {", "\thold := make(chan, 1)", "\t_ = hold"] + main + ["}", ""]
    return "\n".join(src)


def sites_of(case, seed):
    return [_site(case["units"], i, seed) for i in range(len(case["units"]))]


def run():
    raise vf.NoVerdict("under construction")

"""C32 - route resolution is deterministic and most specific.
spec/RouteResolve (+_MC, _Gen, _GenReal, _Trace).  Stages:
  1. MC: the design variant (candidates put into a canonical order before the selection cascade) satisfies Det and
     MostSpecific for every table / request of the bounded domain; the set-level cascade `Outcomes` is exactly what the
     scan orders can produce.  Negative controls: the as-is variant (map-iteration order) must violate Det, the
     "most variables" variant must violate MostSpecific.
  2. F binding, generated tables: every case TLC generates (table, request) is registered in the real router.Router
     in every insertion order, the real FindRoute is called repeatedly on each (Go randomises map iteration per range
     statement), and the set of distinct results - plus the result on each one-route table - is judged by the TLA+
     contract RouteResolve_Trace (Det, Prefers).
  3. F binding, the server's real route table: built by the real setupServerRouter (static routes, lib/services,
     native admin handlers, redirects), rebuilt several times (fresh map, fresh hash seed) and re-registered in
     shuffled orders; the requests are derived from the table in TLA+ (RouteResolve_GenReal).
  4. binding self-test: perturbed copies of accepted records must all be rejected by the contract.
"""
import json, os, random, subprocess, time
from concurrent.futures import ThreadPoolExecutor
import vf

PROP = "C32"
SPEC = "RouteResolve"
HARNESS = [("routes/c32_test.go", "internal/commands/zz_verif_c32_test.go")]
GEN_TOKENS = ["", "a", "b", "c", "{{x}}", "{{g...}}"]
STEPS = ("exact", "novars", "fewest", "parts", "longest")


def _parallel(jobs):
    """jobs: name -> callable.  Run concurrently; NoVerdict from any job is re-raised."""
    def one(item):
        name, fn = item
        try:
            return name, fn(), None
        except Exception as ex:          # re-raised below in the caller's thread
            return name, None, ex
    with ThreadPoolExecutor(max_workers=max(1, len(jobs))) as ex:
        res = list(ex.map(one, list(jobs.items())))
    out = {}
    for name, r, err in res:
        if err:
            raise err
        out[name] = r
    return out


def _text(segs):
    return "/" + "/".join(segs)


def _route(r):
    return "%s %s" % (r["m"], _text(r["e"]))


def _describe(rec, side):
    tab = rec["t"] or side["table"]
    res = []
    for o in rec["obs"]:
        res.append("%s (%d)" % (_route(tab[o["r"] - 1]) if o["r"] else "no route", o["st"]))
    match = [_route(tab[k]) for k, s in enumerate(rec["solo"]) if s != 404]
    where = ("table {%s}" % ", ".join(_route(r) for r in tab)) if rec["t"] else "the server's real route table"
    return ("%s, request %s %s: FindRoute returned {%s} over %d calls; routes matching the request on their own: {%s}"
            % (where, rec["q"]["m"], _text(rec["q"]["p"]), " | ".join(res), rec.get("calls", 0), ", ".join(match)))


class Bin:
    """The compiled in-package test binary of internal/commands (one link per run)."""

    def __init__(self, sd, ov):
        self.sd = sd
        self.path = os.path.join(sd, "c32.test")
        vf.go_test_compile(ov, "./internal/commands/", self.path, timeout=2400)
        self.home = os.path.join(sd, "home")
        os.makedirs(self.home, exist_ok=True)

    def run(self, env, timeout=2400):
        e = dict(os.environ)
        e.update(env)
        e.update(EGO_PATH=vf.REPO, VERIF_HOME=self.home, EGO_DEFAULT_LOGGING="", VERIF_SEED=str(vf.SEED))
        try:
            p = subprocess.run([self.path, "-test.run", "^TestVerifC32$", "-test.count=1", "-test.timeout=%ds" % timeout],
                               cwd=self.sd, env=e, timeout=timeout + 60, stdout=subprocess.PIPE, stderr=subprocess.STDOUT,
                               text=True, errors="replace")
        except subprocess.TimeoutExpired:
            raise vf.NoVerdict("harness timeout (%s)" % env.get("VERIF_MODE"))
        if p.returncode != 0 or "PASS" not in p.stdout:
            raise vf.NoVerdict("harness failed (mode %s, rc=%d)\n%s" % (env.get("VERIF_MODE"), p.returncode, p.stdout[-3000:]))
        return p


def _judge(chk, sd, io_path, side_path, name, timeout=2400):
    """Every record of io_path judged by RouteResolve_Trace.  Returns the list of {"i","k","c","s"} (one per record)
    followed by the TLC result."""
    r = vf.tlc(SPEC, "RouteResolve_Trace", "RouteResolve_Trace.cfg", sd, workers=1, timeout=timeout,
               files={"io.ndjson": io_path, "side.json": side_path})
    if r.error or r.violated or r.rc != 0:
        raise vf.NoVerdict("contract evaluation failed (%s): %s %s\n%s" % (name, r.violated, r.error, r.stdout[-2500:]))
    lines = [x for x in r.records if isinstance(x, dict) and "k" in x and "i" in x]
    done = [x for x in r.records if isinstance(x, dict) and x.get("done")]
    if not done:
        raise vf.NoVerdict("contract spec did not finish (%s)\n%s" % (name, r.stdout[-1500:]))
    byidx = {}
    for x in lines:
        byidx[x["i"]] = x          # (TLC may evaluate the ASSUME once more when it reports; same values)
    n = int(done[-1]["n"])
    if sorted(byidx) != list(range(1, n + 1)):
        raise vf.NoVerdict("contract judged %d of %d records (%s)" % (len(byidx), n, name))
    return [byidx[i] for i in range(1, n + 1)] + [r]


def _gen(chk, sd, cfg, name, simulate=None, depth=None, timeout=2400):
    r = vf.tlc(SPEC, "RouteResolve_Gen", cfg, sd, workers=1, timeout=timeout, simulate=simulate, depth=depth,
               seed=vf.SEED if simulate else None)
    if r.violated or r.error or r.rc != 0:
        raise vf.NoVerdict("case generation failed (%s): %s %s\n%s" % (cfg, r.violated, r.error, r.stdout[-2000:]))
    cases = [x for x in r.records if isinstance(x, dict) and "t" in x and "q" in x]
    if not cases:
        raise vf.NoVerdict("generator %s produced no cases" % cfg)
    return r, cases


def _dedupe(cases):
    seen, out = set(), []
    for c in cases:
        c = {"t": sorted(c["t"], key=lambda r: (r["e"], r["m"])), "q": c["q"]}
        s = json.dumps(c, sort_keys=True)
        if s not in seen:
            seen.add(s)
            out.append(c)
    return out


def _nvars(route, side):
    vs = set(side["vars"]) | set(side["globs"])
    return sum(1 for s in route["e"] if s in vs)


def _perturb(recs, side, rng, per_kind=4):
    """Self-test material: copies of logged records changed so that the property is broken in a known way.
    Returns [(what, expected key prefix, index of the original record, perturbed record)]."""
    tabof = lambda r: r["t"] or side["table"]
    matching = lambda r: [k + 1 for k, s in enumerate(r["solo"]) if s != 404]

    def single(r):
        return len(r["obs"]) == 1 and len(matching(r)) >= 2 and r["obs"][0]["r"] in matching(r)

    def differ(r):
        if not single(r):
            return False
        ms = matching(r)
        cnt = [_nvars(tabof(r)[k - 1], side) for k in ms]
        return len(set(cnt)) >= 2 and _nvars(tabof(r)[r["obs"][0]["r"] - 1], side) == min(cnt)

    def some(pred, what):
        idx = [i for i, r in enumerate(recs) if pred(r)]
        if not idx:
            raise vf.NoVerdict("self-test: the log has no record of the needed kind: %s" % what)
        return rng.sample(idx, min(per_kind, len(idx)))

    cp = lambda r: json.loads(json.dumps(r))
    muts = []
    for i in some(single, "one result, two matching routes"):
        r = recs[i]
        other = [k for k in matching(r) if k != r["obs"][0]["r"]][0]
        m = cp(r); m["obs"].append({"st": 200, "r": other}); muts.append(("a second result added", "nondet/", i, m))
        m = cp(r); m["obs"].append({"st": 404, "r": 0}); muts.append(("sometimes no route", "nondet/", i, m))
    for i in some(differ, "matching routes with different numbers of variables"):
        r = recs[i]
        ms = matching(r)
        worst = max(ms, key=lambda k: _nvars(tabof(r)[k - 1], side))
        m = cp(r); m["obs"] = [{"st": 200, "r": worst}]; muts.append(("the route with the most variables chosen", "prefer/more-variables", i, m))
        m = cp(r); m["obs"] = [{"st": 404, "r": 0}]; muts.append(("no route chosen although routes match", "prefer/not-a-matching-route", i, m))
        non = [k + 1 for k, s in enumerate(r["solo"]) if s == 404]
        if non:
            m = cp(r); m["obs"] = [{"st": 200, "r": non[0]}]; muts.append(("a route that does not match chosen", "prefer/not-a-matching-route", i, m))
    m = cp(recs[0]); m["q"]["m"] = "BREW"; muts.append(("request method outside the domain", "not-a-case", 0, m))
    m = cp(recs[0]); m["solo"] = m["solo"][:-1]; muts.append(("one-route results missing", "not-a-case", 0, m))
    return muts


def run():
    thorough = vf.TIER == "thorough"
    chk = vf.Check(PROP)
    os.environ.setdefault("JAVA_TOOL_OPTIONS", "-XX:ParallelGCThreads=2 -XX:CICompilerCount=2")
    replay = os.environ.get("VERIF_REPLAY")
    rng = random.Random(vf.SEED)
    chk.assumptions += [
        "a route 'matches' a request when FindRoute on a router holding only that route does not answer 404 (observed on the real code); the selection among several matching routes is what the property constrains",
        "iteration orders are explored, not controlled: every insertion order of a table (<= 4 routes; 24 seeded shuffles above) x repeated calls, and for the real table rebuilt routers (fresh hash seed each) and shuffled re-registrations; the harness reports how many orders it saw",
        "texts are projected to the segments after each '/' (round trip checked on every real endpoint); literal segments contain no '{{' or '}}'; request paths contain no variable text; request methods are upper case",
        "the real table is the one setupServerRouter builds from /repo/lib with default settings (no OAuth AS/RS routes)",
        "conformance of the real code to the as-is / design model variants is reported, not required: the verdict is the contract (Det, Prefers) over the observed results",
    ]
    with vf.scratch(prefix="c32-") as sd:
        ov = vf.make_overlay(sd, HARNESS)
        side_gen = os.path.join(sd, "side-gen.json")
        sgen = {"table": [], "vars": ["{{x}}"], "globs": ["{{g...}}"], "rank": {t: i for i, t in enumerate(sorted(GEN_TOKENS))}}
        json.dump(sgen, open(side_gen, "w"))
        side_real = os.path.join(sd, "side.json")
        reps = 24 if thorough else 12
        w = 6 if thorough else 3
        tlcruns = []          # (TLCResult, name) collected by the worker threads, added to the evidence in a fixed order

        pool = ThreadPoolExecutor(max_workers=16)
        f_bin = pool.submit(lambda: Bin(sd, ov))
        f_mc, f_gen = {}, {}
        if not replay:
            f_mc["mc"] = pool.submit(lambda: vf.tlc(SPEC, "RouteResolve_MC", "RouteResolve_MC.cfg" if thorough else "RouteResolve_MCq.cfg",
                                                    sd, workers=w, timeout=3000))
            f_mc["neg_Det"] = pool.submit(lambda: vf.tlc(SPEC, "RouteResolve_MC", "RouteResolve_MC_asis.cfg", sd, workers=1, timeout=1500))
            f_mc["neg_MostSpecific"] = pool.submit(lambda: vf.tlc(SPEC, "RouteResolve_MC", "RouteResolve_MC_most.cfg", sd, workers=1, timeout=1500))
            f_gen["gen"] = pool.submit(lambda: _gen(chk, sd, "RouteResolve_Gen_wide.cfg" if thorough else "RouteResolve_Gen.cfg", "gen"))
            if thorough:
                f_mc["mc_deep"] = pool.submit(lambda: vf.tlc(SPEC, "RouteResolve_MC", "RouteResolve_MC_deep.cfg", sd, workers=w, timeout=3000))
                f_mc["mc_wide"] = pool.submit(lambda: vf.tlc(SPEC, "RouteResolve_MC", "RouteResolve_MC_wide.cfg", sd, workers=w, timeout=3000))
                f_gen["gen_deep"] = pool.submit(lambda: _gen(chk, sd, "RouteResolve_Gen_deep.cfg", "gen_deep"))
                f_gen["gen_sim"] = pool.submit(lambda: _gen(chk, sd, "RouteResolve_GenSim.cfg", "gen_sim", simulate="num=400", depth=7))

        def execute(nm, cs, side, side_path, extra):
            """run the cases on the real router, append the self-test perturbations, let the contract judge everything"""
            hbin = f_bin.result()
            inp = vf.write_ndjson(os.path.join(sd, "in-%s.ndjson" % nm), cs)
            out = os.path.join(sd, "io-%s.ndjson" % nm)
            pf = os.path.join(sd, "probe-%s.json" % nm)
            env = {"VERIF_MODE": "run", "VERIF_IN": inp, "VERIF_OUT": out, "VERIF_REPS": str(reps), "VERIF_PROBE": pf}
            env.update(extra)
            hbin.run(env)
            recs = vf.read_ndjson(out)
            if len(recs) != len(cs) or any(a["q"] != b["q"] or a["t"] != b["t"] for a, b in zip(recs, cs)):
                raise vf.NoVerdict("harness executed %d of %d cases (or echoed a different input)" % (len(recs), len(cs)))
            muts = [] if replay else _perturb(recs, side, random.Random(vf.SEED))
            both = vf.write_ndjson(os.path.join(sd, "judge-%s.ndjson" % nm), recs + [m for _, _, _, m in muts])
            vs = _judge(chk, sd, both, side_path, None)
            tlcruns.append((vs.pop(), "contract Det/Prefers over real FindRoute results (%s)" % nm))
            return {"recs": recs, "vs": vs[:len(recs)], "muts": muts, "mvs": vs[len(recs):], "probe": json.load(open(pf))}

        def pipe_gen():
            cases = []
            if replay:
                want = json.load(open(replay))["replay"]
                if not want["t"]:
                    return None
                cases = [{"t": want["t"], "q": want["q"]}]
            else:
                for nm in ("gen", "gen_deep", "gen_sim"):
                    if nm in f_gen:
                        rg, cs = f_gen[nm].result()
                        tlcruns.append((rg, "case generation %s" % nm))
                        chk.cov["cases_" + nm] = len(cs)
                        cases += cs
                cases = _dedupe(cases)
                random.Random(vf.SEED).shuffle(cases)
            return execute("gen", cases, sgen, side_gen, {})

        def pipe_real():
            hbin = f_bin.result()
            hbin.run({"VERIF_MODE": "table", "VERIF_OUT": side_real})
            sreal = json.load(open(side_real))
            if len(sreal["table"]) < 20:
                raise vf.NoVerdict("the real route table has only %d routes: the server setup did not run" % len(sreal["table"]))
            chk.cov["real_table_routes"] = len(sreal["table"])
            if replay:
                want = json.load(open(replay))["replay"]
                if want["t"]:
                    return None
                reqs = [{"t": [], "q": want["q"]}]
            else:
                others = ["POST", "DELETE", "PUT", "PATCH", "HEAD", "OPTIONS"]
                pick = "{}" if thorough else "{%s}" % ", ".join('"%s"' % m for m in
                                                              ["GET", others[(2 * vf.SEED) % 6], others[(2 * vf.SEED + 1) % 6]])
                base = open(os.path.join(vf.VERIF, "spec", SPEC, "RouteResolve_GenReal_wide.cfg" if thorough else "RouteResolve_GenReal.cfg")).read()
                rr = vf.tlc(SPEC, "RouteResolve_GenReal", "GenReal_run.cfg", sd, workers=1, timeout=2400,
                            files={"side.json": side_real, "GenReal_run.cfg": base.replace("MethodPick = {}", "MethodPick = " + pick)})
                if rr.violated or rr.error or rr.rc != 0:
                    raise vf.NoVerdict("request generation for the real table failed: %s %s\n%s" % (rr.violated, rr.error, rr.stdout[-2000:]))
                reqs = [x for x in rr.records if isinstance(x, dict) and "q" in x]
                if len(reqs) < 100:
                    raise vf.NoVerdict("only %d requests derived from the real table" % len(reqs))
                tlcruns.append((rr, "requests derived from the real table (methods %s)" % pick.replace('"', "")))
                random.Random(vf.SEED).shuffle(reqs)
            res = execute("real", reqs, sreal, side_real,
                          {"VERIF_SIDE": side_real, "VERIF_REPS": "4" if thorough else "3",
                           "VERIF_REBUILDS": "10" if thorough else "6", "VERIF_SHUFFLES": "10" if thorough else "6"})
            res["side"] = sreal
            return res

        f_pg, f_pr = pool.submit(pipe_gen), pool.submit(pipe_real)
        try:
            out = {"gen": f_pg.result(), "real": f_pr.result()}
            mc = {nm: f.result() for nm, f in f_mc.items()}
        finally:
            pool.shutdown(wait=True)
        out = {nm: o for nm, o in out.items() if o}
        if "gen" in out:
            out["gen"]["side"] = sgen

        # ---- 1. model level
        if not replay:
            for nm in ("mc", "mc_deep", "mc_wide"):
                if nm in mc:
                    vf.tlc_ok(mc[nm], "RouteResolve %s (design)" % nm)
                    chk.add_tlc(mc[nm], "%s: design variant, Det MostSpecific OutcomesExact" % nm)
            for inv in ("Det", "MostSpecific"):
                rn = mc["neg_" + inv]
                if rn.violated != inv:
                    raise vf.NoVerdict("negative control: the broken variant did not violate %s (violated=%s error=%s)"
                                       % (inv, rn.violated, (rn.error or "")[:300]))
                chk.add_tlc(rn, "negative control: %s variant violates %s" % ("as-is" if inv == "Det" else "most-variables", inv),
                            count_states=False)
        for r, name in sorted(tlcruns, key=lambda x: x[1]):
            chk.add_tlc(r, name, count_states=False)

        # ---- 2. the driver must really explore iteration orders (else Det would be observed vacuously)
        chk.cov["order_probe"] = {nm: o["probe"] for nm, o in out.items()}
        if not replay:
            if out["gen"]["probe"]["orders_of_3"] < 6:
                raise vf.NoVerdict("iteration-order probe: only %d of the 6 orders of a 3-route table were seen" % out["gen"]["probe"]["orders_of_3"])
            if out["real"]["probe"]["real_first_routes"] < 4:
                raise vf.NoVerdict("iteration-order probe: the routers of the real table always iterate from the same routes (%s)" % out["real"]["probe"])

        # ---- 3. verdicts of the contract
        nviol = 0
        for nm, o in sorted(out.items()):
            recs, vs, side = o["recs"], o["vs"], o["side"]
            chk.cov["cases_generated_tables" if nm == "gen" else "cases_real_table"] = len(recs)
            if any(v["k"] == "not-a-case" for v in vs):
                k = next(i for i, v in enumerate(vs) if v["k"] == "not-a-case")
                raise vf.NoVerdict("the %s log contains a record outside the contract's domain: %s" % (nm, json.dumps(recs[k])[:400]))
            bykey = {}
            for v, rec in zip(vs, recs):
                if v["k"]:
                    bykey.setdefault(v["k"], []).append(rec)
            for key, rs in sorted(bykey.items()):
                rs.sort(key=lambda r: (len(r["t"]), len(json.dumps(r))))
                nviol += 1
                chk.violation("%s/%s" % ("real-table" if nm == "real" else "generated", key),
                              "%s   [%d cases of this class]" % (_describe(rs[0], side), len(rs)), {"t": rs[0]["t"], "q": rs[0]["q"], "record": rs[0]})
            n = len(vs)
            flags = [sum(v["c"][j] for v in vs) for j in range(5)]
            steps = {}
            for v in vs:
                steps[v["s"]] = steps.get(v["s"], 0) + 1
            chk.cov["evaluations"] += n
            chk.cov["traces_validated_against_impl"] += n
            chk.cov["distinct_nontrivial"] += sum(1 for r in recs if sum(1 for s in r["solo"] if s != 404) >= 2)
            chk.cov["findroute_calls_" + nm] = sum(r["calls"] for r in recs)
            chk.cov["tie_step_histogram_" + nm] = steps
            chk.cov["model_conformance_" + nm] = {
                "records": n, "matching_as_model": flags[0], "results_allowed_by_asis_model": flags[1],
                "results_equal_design_choice": flags[2], "asis_model_predicts_order_dependence": flags[3],
                "every_asis_outcome_observed": flags[4]}
            if flags[0] < n:
                chk.notes.append("%s: on %d of %d cases the one-route results differ from the model's matching (model drift; the verdict does not depend on it)" % (nm, n - flags[0], n))
            if flags[2] == n:
                chk.notes.append("%s: the code makes the design's canonical choice in all %d cases" % (nm, n))
            elif flags[1] == n:
                chk.notes.append("%s: the code behaves as the as-is model (map-iteration order): order-dependent cases predicted %d, every predicted outcome observed in %d of %d cases"
                                 % (nm, flags[3], flags[4], n))
            else:
                chk.notes.append("%s: results allowed by the as-is model in %d, equal to the design's choice in %d of %d cases" % (nm, flags[1], flags[2], n))
            if not replay and nm == "gen":
                missing = [s for s in STEPS if not steps.get(s)]
                if missing:
                    raise vf.NoVerdict("degenerate domain: no generated case is decided at cascade step(s) %s" % missing)
                if flags[3] == 0:
                    raise vf.NoVerdict("degenerate domain: the as-is model predicts no order-dependent case")
            for v, rec in zip(vs, recs):
                if not v["k"] and sum(1 for s in rec["solo"] if s != 404) >= 2:
                    chk.sample({"kind": "accepted record (%s)" % nm, "case": _describe(rec, side)}, limit=6)
                    break
        if replay:
            chk.cov["rule"] = "replay of one recorded case"
            return chk.finish()

        # ---- 4. binding self-test: the perturbed copies judged in the same TLC runs must all be rejected with the expected class
        rep, based = [], 0
        for nm, o in sorted(out.items()):
            if len(o["mvs"]) != len(o["muts"]) or not o["muts"]:
                raise vf.NoVerdict("binding self-test (%s): %d perturbed records, %d judged" % (nm, len(o["muts"]), len(o["mvs"])))
            for (what, want, bidx, _m), v in zip(o["muts"], o["mvs"]):
                if not v["k"].startswith(want):
                    raise vf.NoVerdict("binding self-test failed (%s): '%s' judged %r, expected %s*" % (nm, what, v["k"], want))
                if not o["vs"][bidx]["k"]:
                    based += 1
                    if not any(x.startswith("%s: %s ->" % (nm, what)) for x in rep):
                        rep.append("%s: %s -> %s" % (nm, what, v["k"]))
        if based == 0 and nviol == 0:
            raise vf.NoVerdict("binding self-test: none of the perturbed records derives from an accepted record")
        chk.cov["binding_selftest"] = ("%d perturbed records (of %d accepted originals) all rejected with the expected class: %s"
                                       % (sum(len(o["muts"]) for o in out.values()), based, "; ".join(rep)))

        chk.cov["rule"] = ("cases = every (table, request) RouteResolve_Gen emits (all one-route tables, all tables of 2..GenMax routes that are "
                           "all candidates, candidates paired with distractors%s) plus every request RouteResolve_GenReal derives from the server's "
                           "real table; each executed on the real router in every insertion order x repeated FindRoute calls and judged by the "
                           "contract; states/transitions = the design model checked exhaustively at the stated bounds"
                           % (", seeded random tables of up to 5 candidates" if thorough else ""))
        chk.cov["exhaustive"] = True
    return chk.finish()

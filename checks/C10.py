"""C10 - try/catch and defer run exactly when documented.
spec/Ego/EgoControl (+_Gen).  Stages:
  1. TLC, exhaustive at a small bound: every program of the build grammar is executed by the reference machine; the
     property invariants (TryStackSound DefersOnce PanicSound EndSound) hold; every finished behaviour is emitted
     as a case (program, expected lines, expected end).
  2. negative controls: the as-is break/continue variant and the no-try-depth variant must violate the invariants.
  3. TLC -simulate at larger bounds: random sample of bigger programs (seeded by VERIF_SEED).
  4. R: every case is pretty-printed as an Ego program, run by the real `ego run` (optimizer 0 and 2), and what it
     printed is compared for equality with what TLC computed.  Many cases share a process (each called through a
     wrapper that reports END / ERR / PANIC); a sample also runs unwrapped, one per process, where an error or a
     panic that leaves the entry function must end the program.
  5. binding self-test: observations compared with the expectations of a different case must be rejected.
"""
import json, os, random
from concurrent.futures import ThreadPoolExecutor
import vf, egoctl

PROP = "C10"
INV_OK = ("TryStackSound", "EndSound", "NoWedge")
BATCH = 25


def _dedupe(recs):
    seen, out = set(), []
    for c in recs:
        if not (isinstance(c, dict) and "toks" in c):
            continue
        k = " ".join(c["toks"])
        if k not in seen:
            seen.add(k)
            c["key"] = k
            out.append(c)
    return out


def _key(case, obs):
    cls = "+".join(sorted(case["feat"])) or "plain"
    return "%s/%s->%s" % (cls, case["status"], obs["status"])


def _run_files(ego, env, sd, files, tag, wrapped=True, both_opt=False):
    """files: list of case lists.  Returns [(cases, opt, (rc, out, err), path)]"""
    jobs, meta = [], []
    for n, b in enumerate(files):
        p = os.path.join(sd, "%s%d.ego" % (tag, n))
        with open(p, "w") as f:
            f.write(egoctl.render(b, wrapped=wrapped, shift=vf.SEED))
        for opt in (("0", "2") if both_opt else (("0", "2")[n % 2],)):
            jobs.append(([ego, "run", "-o", opt, p], None, sd, env))
            meta.append((b, opt, p))
    res = vf.run_many(jobs, nproc=min(vf.NCPU, 16), timeout=180)
    return [(b, opt, r, p) for (b, opt, p), r in zip(meta, res)]


def _replay(chk, ego, env, sd):
    rep = json.load(open(os.environ["VERIF_REPLAY"]))["replay"]
    case = rep["case"]
    wrapped = rep.get("wrapped", True)
    src = egoctl.render([case], wrapped=wrapped, shift=rep.get("shift", vf.SEED))
    p = os.path.join(sd, "replay.ego")
    open(p, "w").write(src)
    rc, so, se = vf.run_many([([ego, "run", "-o", str(rep.get("opt", "0")), p], None, sd, env)], timeout=300)[0]
    obs = egoctl.observe(rc, so, se, 1)[0]
    print(src)
    print("expected:", egoctl.masked(case["out"], case["mask"]), case["status"], case["pv"])
    print("observed:", egoctl.masked(obs["out"], case["mask"]), obs["status"], obs["pv"], se.strip()[:300])
    if not egoctl.agree(case, obs):
        chk.violation(_key(case, obs), "replayed case still differs from the specification", rep)
    return chk.finish()


def run():
    thorough = vf.TIER == "thorough"
    chk = vf.Check(PROP)
    chk.assumptions += [
        "programs are those of the EgoControl build grammar (try/catch with and without a catch clause, three loop "
        "forms with break/continue plain and labelled, calls without recursion, defer of a named call / closure / "
        "closure calling recover(), division by zero as the runtime error, panic(string)); deferred bodies only print",
        "panic() is not a catchable runtime error (LANGUAGE.md: it bypasses try/catch by design)",
        "defers of frames discarded by a caught runtime error, and pending defers when an uncaught error stops the "
        "program, are unspecified by the statement: their markers are ignored on both sides",
        "an error / panic leaving the entry function is observed through a wrapper (its try / deferred recover) when "
        "cases share a process; a sample runs unwrapped where it must end the program"]
    with vf.scratch() as sd:
        ov = vf.make_overlay(sd, [])
        env = vf.ego_env(sd)
        if os.environ.get("VERIF_REPLAY"):
            return _replay(chk, vf.build_ego(sd, ov), env, sd)
        # 1-3: all TLC work and the build of the real binary proceed side by side
        nsim = 6000 if thorough else 1500
        with ThreadPoolExecutor(max_workers=6) as ex:
            f_bin = ex.submit(vf.build_ego, sd, ov)
            f_ex = ex.submit(vf.tlc, "Ego", "EgoControl_Gen", "EgoControl_Gen.cfg" if thorough else "EgoControl_Genq.cfg",
                             sd, workers=8 if thorough else 4, timeout=3000 if thorough else 600)
            f_na = ex.submit(vf.tlc, "Ego", "EgoControl", "EgoControl_MC_asis.cfg", sd, workers=2, timeout=900)
            f_nt = ex.submit(vf.tlc, "Ego", "EgoControl", "EgoControl_MC_notd.cfg", sd, workers=2, timeout=900)
            sims = [ex.submit(vf.tlc, "Ego", "EgoControl_Gen", "EgoControl_GenS.cfg", sd, workers=1,
                              simulate="num=%d" % nsim, depth=400, seed=vf.SEED, timeout=1500)]
            if thorough:
                sims.append(ex.submit(vf.tlc, "Ego", "EgoControl_Gen", "EgoControl_GenL.cfg", sd, workers=1,
                                      simulate="num=%d" % nsim, depth=600, seed=vf.SEED + 1000, timeout=1500))
            r = vf.tlc_ok(f_ex.result(), "EgoControl exhaustive")
            chk.add_tlc(r, "MC + case generation, exhaustive (%s)" % ("MaxStm=4" if thorough else "MaxStm=3"))
            cases = _dedupe(r.records)
            nex = len(cases)
            for nm, f, want in (("as-is break/continue", f_na, ("TryStackSound",)), ("no try depth in frames", f_nt, INV_OK)):
                rn = f.result()
                if rn.violated not in want:
                    raise vf.NoVerdict("negative control '%s' did not violate %s (%s %s)" % (nm, want, rn.violated, rn.error))
                chk.add_tlc(rn, "negative control (%s) violates %s" % (nm, rn.violated), count_states=False)
            for f in sims:
                rs = vf.tlc_ok(f.result(), "EgoControl sample")
                chk.add_tlc(rs, "sample (-simulate)", count_states=False)
                known = {c["key"] for c in cases}
                cases += [c for c in _dedupe(rs.records) if c["key"] not in known]
            ego = f_bin.result()
        # first use of a fresh HOME creates ego's profile and databases; concurrent first uses race with each other
        # ("table ... already exists"), so do it once, alone, before anything runs side by side
        wp = os.path.join(sd, "warm.ego")
        open(wp, "w").write('package main\nimport "fmt"\nfunc main() {\n\tfmt.Printf("warm\\n")\n}\n')
        pw = vf.run([ego, "run", wp], cwd=sd, env=env, timeout=600)
        if pw.returncode != 0 or "warm" not in pw.stdout:
            raise vf.NoVerdict("the built ego binary does not run a trivial program: %s %s" % (pw.stdout[-500:], pw.stderr[-500:]))
        if nex < 100 or len(cases) - nex < 100:
            raise vf.NoVerdict("generator too weak: %d exhaustive, %d sampled cases" % (nex, len(cases) - nex))
        # 3b. the specification itself is cross-checked against Go on the cases that are legal Go
        #     (defer / panic / recover / loops / labels / calls): spec != Go is a spec bug, never a verdict
        gl = [c for c in cases if egoctl.go_legal(c)]
        gd = os.path.join(sd, "gox")
        os.makedirs(gd)
        open(os.path.join(gd, "main.go"), "w").write(egoctl.render(gl, lang="go"))
        pg = vf.run([vf.GO, "run", "main.go"], cwd=gd, env=vf.goenv({"GOFLAGS": "-mod=mod"}), timeout=900)
        gobs = egoctl.observe(pg.returncode, pg.stdout, pg.stderr, len(gl))
        if pg.returncode != 0 or len(gobs) != len(gl):
            raise vf.NoVerdict("Go cross-check did not run (rc=%s)\n%s" % (pg.returncode, pg.stderr[-2000:]))
        for c, o in zip(gl, gobs):
            if not egoctl.agree(c, o):
                raise vf.NoVerdict("specification bug: for the Go-legal program [%s] EgoControl predicts %s/%s, Go prints %s/%s"
                                   % (c["key"], c["out"], c["status"], o["out"], o["status"]))
        chk.cov["spec_vs_go"] = "%d Go-legal cases: Go prints exactly what EgoControl predicts" % len(gl)
        # 4. R: run everything on the real interpreter
        rng = random.Random(vf.SEED)
        batch = BATCH * 3 if thorough else BATCH        # start-up dominates the cost of a process: bigger files when there are many
        clean = [c for c in cases if not c["feat"]]
        last = [c for c in cases if c["feat"]]          # cases that jump out of try blocks close a file
        rng.shuffle(clean)
        files = []
        while clean or last:
            b, clean = clean[:batch], clean[batch:]
            if last:
                b.append(last.pop())
            files.append(b)
        # optimizer level 0 or 2 by file; thorough runs the larger (sampled) programs at both levels
        runs = _run_files(ego, env, sd, files, "b")
        if thorough:
            big = [c for c in cases[nex:] if not c["feat"]]
            runs += _run_files(ego, env, sd, [big[i:i + batch] for i in range(0, len(big), batch)], "o", both_opt=True)
        suspects, nlines, nrun, firstobs = [], 0, 0, None
        # a process that timed out, or never reached the first case, says nothing about the cases in it
        late = [(b, opt, p) for b, opt, (rc, so, se), p in runs if rc is None or "== 0" not in so]
        if late:        # an overloaded machine, not a verdict: one more attempt, alone, then give up
            again = vf.run_many([([ego, "run", "-o", opt, p], None, sd, env) for b, opt, p in late], nproc=4, timeout=600)
            if any(r[0] is None for r in again):
                raise vf.NoVerdict("%d generated programs did not finish within 600 s" % sum(r[0] is None for r in again))
            runs = [x for x in runs if not (x[2][0] is None or "== 0" not in x[2][1])] + [(b, opt, r, p) for (b, opt, p), r in zip(late, again)]
        for b, opt, (rc, so, se), p in runs:
            obs = egoctl.observe(rc, so, se, len(b))
            if firstobs is None and rc == 0:
                firstobs = (b, obs)
            for pos, (c, o) in enumerate(zip(b, obs)):
                nrun += 1
                nlines += len(c["out"]) + 1
                if not egoctl.agree(c, o):
                    suspects.append((c, opt, {"shift": vf.SEED + pos, "observed_in_shared_process": o, "process_rc": rc, "stderr": se[-400:],
                                              "shared_with": [x["key"] for x in b], "file": egoctl.render(b)}))
        # a case that differs inside a shared process is re-run alone before it is blamed
        seen, alone = set(), []
        for c, opt, ctx in suspects:
            if (c["key"], opt) not in seen and len(alone) < (160 if thorough else 80):
                seen.add((c["key"], opt))
                alone.append((c, opt, ctx))
        if alone:
            jobs = []
            for n, (c, opt, ctx) in enumerate(alone):
                p = os.path.join(sd, "s%d.ego" % n)
                open(p, "w").write(egoctl.render([c], shift=ctx["shift"]))     # same loop forms as in the shared file
                jobs.append(([ego, "run", "-o", opt, p], None, sd, env))
            for (c, opt, ctx), (rc, so, se) in zip(alone, vf.run_many(jobs, timeout=300)):
                o = egoctl.observe(rc, so, se, 1)[0]
                if rc is None:
                    raise vf.NoVerdict("a generated program did not finish within 300 s: " + c["key"])
                if egoctl.agree(c, o):
                    chk.violation("interference/" + ("+".join(sorted(c["feat"])) or "plain"),
                                  "a case agrees with the specification when run alone but not after other cases in the "
                                  "same process (state left behind by an earlier case): %s" % c["key"],
                                  {"case": c, "opt": opt, "wrapped": True, "shift": ctx["shift"], "context": ctx})
                else:
                    i, e, a = egoctl.first_diff(c, o)
                    chk.violation(_key(c, o), "program [%s] (optimizer %s): specification expects line %d = %s and end '%s', "
                                  "real interpreter printed %s and ended '%s' %s"
                                  % (c["key"], opt, i + 1, e, c["status"], a, o["status"], se.strip()[:200]),
                                  {"case": c, "opt": opt, "wrapped": True, "observed": o, "shift": ctx["shift"],
                                   "program": egoctl.render([c], shift=ctx["shift"])})
        # unwrapped: an error / panic that leaves the entry function ends the program
        pool = [c for c in cases if not c["feat"]]
        solo = []
        for st, n in (("error", 60 if thorough else 14), ("panic", 40 if thorough else 8), ("ok", 20 if thorough else 4)):
            cand = [c for c in pool if c["status"] == st]
            solo += rng.sample(cand, min(n, len(cand)))
        for b, opt, (rc, so, se), p in _run_files(ego, env, sd, [[c] for c in solo], "u", wrapped=False):
            c = b[0]
            o = egoctl.observe(rc, so, se, 1)[0]
            if rc is None:
                raise vf.NoVerdict("a generated program did not finish in time: " + c["key"])
            nrun += 1
            nlines += len(c["out"]) + 1
            if not egoctl.agree(c, o):
                i, e, a = egoctl.first_diff(c, o)
                chk.violation("unwrapped/" + _key(c, o), "program [%s] run directly from main: specification expects line %d = %s "
                              "and end '%s', real interpreter printed %s and ended '%s' %s"
                              % (c["key"], i + 1, e, c["status"], a, o["status"], se.strip()[:200]),
                              {"case": c, "opt": opt, "wrapped": False, "observed": o,
                               "shift": vf.SEED, "program": egoctl.render([c], wrapped=False, shift=vf.SEED)})
        # 5. binding self-test: the comparison must reject observations that belong to another case
        if firstobs is None:
            if not chk.cands:
                raise vf.NoVerdict("no shared process ended normally")
        else:
            b, obs = firstobs
            rej = tot = 0
            for i in range(len(b) - 1):
                if egoctl.masked(b[i]["out"], b[i]["mask"]) != egoctl.masked(b[i + 1]["out"], b[i]["mask"]) \
                        or b[i]["status"] != b[i + 1]["status"]:
                    tot += 1
                    rej += not egoctl.agree(b[i], obs[i + 1])
            if tot == 0 or rej != tot:
                raise vf.NoVerdict("binding self-test failed: %d of %d shifted observations rejected" % (rej, tot))
            chk.cov["binding_selftest"] = "%d of %d observations compared with a neighbouring case's expectation were rejected" % (rej, tot)
        chk.cov["traces_validated_against_impl"] = nrun
        chk.cov["evaluations"] = nlines
        chk.cov["distinct_nontrivial"] = sum(1 for c in cases if c["status"] != "ok" or any(l[0] in "CDR" for l in c["out"]))
        chk.cov["cases_exhaustive"] = nex
        chk.cov["cases_sampled"] = len(cases) - nex
        chk.cov["processes"] = len(runs) + len(solo) + len(alone)
        chk.cov["by_status"] = {s: sum(1 for c in cases if c["status"] == s) for s in ("ok", "error", "panic")}
        chk.cov["cases_leaving_try_by_jump"] = sum(1 for c in cases if c["feat"])
        chk.cov["rule"] = ("case = one finished behaviour of EgoControl_Gen (program built by the spec's grammar + lines and end "
                           "computed by the spec's machine), executed by `ego run` and compared line by line; exhaustive = BFS of "
                           "the build grammar at the small bound, sampled = TLC -simulate at the larger bounds; "
                           "non-trivial = cases in which a catch clause, a deferred call or an abnormal end occurs")
        chk.cov["exhaustive"] = False
        for c in cases[nex:nex + 3] + cases[:2]:
            chk.sample({"program": c["key"], "expected_lines": c["out"], "end": c["status"], "mask": c["mask"]})
    return chk.finish()

"""C06 - literal values agree with Go.
spec/Literals: Literals.tla (Go literal grammar as recognisers + denotation + the contract Post/WF/Key, exact float64 rounding
with BigNat), Literals_Gen (derivation of the language, one state per literal), Literals_MC (derivation = recogniser,
exhaustive), Literals_Trace (F binding: the contract judges what ego / Go printed).
Stages: MC (design) ; negative control ; Gen ; Go cross-check of the spec (spec != Go => exit 2) ; ego runs judged by TLC ;
failing cases re-run alone and re-judged ; binding self-test with known-bad pairs.
Python here only renders atoms to source text, runs programs, splits printed lines into fields and groups them."""
import json, os, random, re, subprocess
from concurrent.futures import ThreadPoolExecutor
import vf

PROP = "C06"
SPEC = "Literals"
# BigNat recursion is deep; TLC worker threads take the -Xss from here.  The quick tier's TLC runs are short: C1 only, few GC threads.
TLC_ENV = {"JAVA_TOOL_OPTIONS": "-Xss512m" + (" -XX:TieredStopAtLevel=1 -XX:ParallelGCThreads=2" if vf.TIER != "thorough" else " -XX:ParallelGCThreads=4")}
NAMED = {"<TAB>": "\t", "<LF>": "\n", "<CR>": "\r"}
CTX_ORDER = ["arg", "var", "paren", "neg"]
BATCH = 150 if vf.TIER != "thorough" else 400      # cases per generated ego program


# ---------------------------------------------------------------- projection: atoms -> source text, printed line -> fields

def atom_text(a):
    if a in NAMED:
        return NAMED[a]
    m = re.match(r"^<U\+([0-9A-F]+)>$", a)
    if m:
        return chr(int(m.group(1), 16))
    return a


def lit_text(lit):
    return "".join(atom_text(a) for a in lit)


def shown(lit):
    return "".join(lit)


def fmt_for(kind):
    return {"int": "%d", "rune": "%d", "float": "%b", "imag": "%b|%b", "string": "%x", "raw": "%x"}[kind]


def stmt(case, lang):
    """source line(s) printing '@id|%T|payload' for one case (id, lit, kind, ctx)"""
    cid, text, kind, ctx = case["id"], lit_text(case["lit"]), case["kind"], case["ctx"]
    pre = ""
    if ctx == "arg":
        e = text
    elif ctx == "paren":
        e = "(" + text + ")"
    elif ctx == "neg":
        e = "-" + text
    else:
        pre = "\tv%d := %s\n" % (cid, text)
        e = "v%d" % cid
    args = "real(%s), imag(%s)" % (e, e) if kind == "imag" else e
    return '%s\tfmt.Printf("@%d|%%T|%s\\n", %s, %s)\n' % (pre, cid, fmt_for(kind), e, args)


def ego_program(cases):
    return 'package main\nimport "fmt"\nfunc main() {\n' + "".join(stmt(c, "ego") for c in cases) + "}\n"


def go_program(cases):
    out = ['package main\n\nimport "fmt"\n\n']
    chunks = [cases[i:i + 400] for i in range(0, len(cases), 400)]
    for n, ch in enumerate(chunks):
        out.append("func f%d() {\n%s}\n\n" % (n, "".join(stmt(c, "go") for c in ch)))
    out.append("func main() {\n" + "".join("\tf%d()\n" % n for n in range(len(chunks))) + "}\n")
    return "".join(out)


_LINE = re.compile(r"^@(\d+)\|([^|]*)\|(.*)$")
_INT = re.compile(r"^(-?)(\d+)$")
_FLT = re.compile(r"^(-?)(\d+)p([+-]\d+)$")
_HEX = re.compile(r"^([0-9a-f]{2})*$")


def blank_obs(ctx):
    return {"ctx": ctx, "st": "error", "ty": "", "neg": False, "digs": [], "exp": 0,
            "neg2": False, "digs2": [], "exp2": 0, "bytes": [], "text": ""}


def parse_payload(kind, ctx, ty, payload):
    """split the printed payload into the fields the contract reads; no interpretation beyond the split"""
    o = blank_obs(ctx)
    o.update(st="garbled", ty=ty, text=payload[:200])
    if kind in ("int", "rune"):
        m = _INT.match(payload)
        if m:
            o.update(st="ok", neg=m.group(1) == "-", digs=list(m.group(2)))
    elif kind == "float":
        m = _FLT.match(payload)
        if m and abs(int(m.group(3))) < 100000:
            o.update(st="ok", neg=m.group(1) == "-", digs=list(m.group(2)), exp=int(m.group(3)))
    elif kind == "imag":
        p = payload.split("|")
        m1 = _FLT.match(p[0]) if len(p) == 2 else None
        m2 = _FLT.match(p[1]) if len(p) == 2 else None
        if m1 and m2 and abs(int(m1.group(3))) < 100000 and abs(int(m2.group(3))) < 100000:
            o.update(st="ok", neg=m1.group(1) == "-", digs=list(m1.group(2)), exp=int(m1.group(3)),
                     neg2=m2.group(1) == "-", digs2=list(m2.group(2)), exp2=int(m2.group(3)))
    else:
        if _HEX.match(payload):
            o.update(st="ok", bytes=[int(payload[i:i + 2], 16) for i in range(0, len(payload), 2)])
    return o


def collect(stdout, byid):
    got = {}
    for line in stdout.splitlines():
        m = _LINE.match(line)
        if m and int(m.group(1)) in byid and int(m.group(1)) not in got:
            c = byid[int(m.group(1))]
            got[c["id"]] = parse_payload(c["kind"], c["ctx"], m.group(2), m.group(3))
    return got


# ---------------------------------------------------------------- running

def run_ego(ego, env, sd, cases, mode, tag, stats, batch=BATCH):
    """-> {id: obs}.  Batches; a case without a printed line is re-run in smaller batches and finally alone."""
    wd = os.path.join(sd, "ego-" + tag)
    os.makedirs(wd, exist_ok=True)
    res = {}
    byid = {c["id"]: c for c in cases}
    serial = [0]
    pending = [(cases[i:i + batch], 0) for i in range(0, len(cases), batch)]
    while pending:
        jobs, metas = [], []
        for b, tries in pending:
            serial[0] += 1
            fn = os.path.join(wd, "p%d.ego" % serial[0])
            open(fn, "w", encoding="utf8", newline="").write(ego_program(b))
            argv = [ego, "run"] + (["--types", mode] if mode != "default" else []) + [fn]
            jobs.append((argv, None, wd, env))
            metas.append((b, tries))
        outs = vf.run_many(jobs, timeout=120)
        stats["ego_runs"] += len(jobs)
        pending = []
        for (b, tries), (rc, so, se) in zip(metas, outs):
            got = collect(so, byid)
            res.update(got)
            missing = [c for c in b if c["id"] not in got]
            if not missing:
                continue
            if rc is None:                      # timeout: machine load, or a hang - decided on a single case only
                if len(b) == 1 and tries >= 2:
                    o = blank_obs(b[0]["ctx"])
                    o["text"] = "no result within 120 s (three attempts)"
                    res[b[0]["id"]] = o
                else:
                    pending.append((missing, tries + 1) if len(b) == 1 else (missing[:max(1, len(missing) // 2)], 0))
                    if len(b) > 1 and len(missing) > 1:
                        pending.append((missing[max(1, len(missing) // 2):], 0))
                continue
            if len(b) == 1:
                o = blank_obs(b[0]["ctx"])
                o["text"] = ("rc=%s " % rc) + (se.strip() or so.strip())[-300:]
                res[b[0]["id"]] = o
                continue
            n = max(1, (len(missing) + 3) // 4) if len(missing) > 4 else 1
            pending += [(missing[i:i + n], 0) for i in range(0, len(missing), n)]
    return res


def run_go(sd, cases):
    """all cases through the Go toolchain, as several programs of <= 6000 cases built side by side"""
    parts = [cases[i:i + 6000] for i in range(0, len(cases), 6000)]

    def one(n):
        wd = os.path.join(sd, "gox%d" % n)
        os.makedirs(wd, exist_ok=True)
        open(os.path.join(wd, "go.mod"), "w").write("module c06x\n\ngo 1.24\n")
        open(os.path.join(wd, "main.go"), "w", encoding="utf8", newline="").write(go_program(parts[n]))
        p = vf.run([vf.GO, "run", "."], cwd=wd, env=vf.goenv(), timeout=1800)
        if p.returncode != 0:
            raise vf.NoVerdict("Go cross-check: the generated cases are not a legal Go program (the spec's WF/grammar is wrong, "
                               "not a finding):\n" + p.stderr[-3000:])
        return p.stdout
    with ThreadPoolExecutor(max_workers=4) as ex:
        outs = list(ex.map(one, range(len(parts))))
    byid = {c["id"]: c for c in cases}
    got = {}
    for o in outs:
        got.update(collect(o, byid))
    if len(got) != len(cases):
        raise vf.NoVerdict("Go cross-check printed %d of %d lines" % (len(got), len(cases)))
    return got


# ---------------------------------------------------------------- judging (TLC)

FIELDS = ("st", "ty", "neg", "digs", "exp", "neg2", "digs2", "exp2", "bytes")


def group_records(entries_by_lit):
    """entries_by_lit: list of (lit, [(case id, who, ctx, obs)]).  One record per literal; observations that printed exactly
    the same are merged, with the list of contexts they were seen in.
    -> (records, back) with back[(record index, obs index, ctx)] = [(case id, who, text)] (indices 1-based as in TLA+)"""
    recs, back = [], {}
    for lit, entries in entries_by_lit:
        if not entries:
            continue
        seen, obs = {}, []
        for cid, who, ctx, o in entries:
            k = json.dumps([o[x] for x in FIELDS])
            if k not in seen:
                g = {x: o[x] for x in FIELDS}
                g["ctxs"] = []
                obs.append(g)
                seen[k] = len(obs)
            g = obs[seen[k] - 1]
            if ctx not in g["ctxs"]:
                g["ctxs"].append(ctx)
            back.setdefault((len(recs) + 1, seen[k], ctx), []).append((cid, who, o.get("text", "")))
        recs.append({"lit": lit, "obs": obs})
    return recs, back


def n_pairs(recs):
    return sum(len(o["ctxs"]) for r in recs for o in r["obs"])


def judge(chk, sd, recs, name, shards):
    """-> (judged, [ {idx, obs, ctx, key} ]) ; records are spread over `shards` TLC runs"""
    if not recs:
        return 0, []
    shards = max(1, min(shards, len(recs) // 40 or 1))
    parts = [list(range(s, len(recs), shards)) for s in range(shards)]

    def one(s):
        pth = os.path.join(sd, "io-%s-%d.ndjson" % (re.sub(r"\W+", "_", name), s))
        vf.write_ndjson(pth, [recs[i] for i in parts[s]])
        r = vf.tlc(SPEC, "Literals_Trace", "Literals_Trace.cfg", sd, workers=1, files={"io.ndjson": pth}, timeout=3000,
                   env=TLC_ENV)
        if r.error or r.violated or r.rc != 0:
            raise vf.NoVerdict("contract evaluation failed (%s): %s %s\n%s" % (name, r.violated, r.error, r.stdout[-2500:]))
        rep = [x for x in r.records if isinstance(x, dict) and "bad" in x and "n" in x]
        if not rep or rep[-1]["n"] != len(parts[s]):
            raise vf.NoVerdict("contract spec printed no/short report (%s)\n%s" % (name, r.stdout[-1500:]))
        return r, rep[-1]
    with ThreadPoolExecutor(max_workers=shards) as ex:
        outs = list(ex.map(one, range(shards)))
    judged, bad = 0, []
    for s, (r, rep) in enumerate(outs):
        if s == 0:
            chk.add_tlc(r, "contract: " + name + (" (shard 1 of %d)" % shards if shards > 1 else ""), count_states=False)
        judged += int(rep["judged"])
        for b in (rep["bad"] if isinstance(rep["bad"], list) else []):
            bad.append({"idx": parts[s][int(b["idx"]) - 1] + 1, "obs": int(b["obs"]), "ctx": b["ctx"], "key": b["key"]})
    return judged, bad


def key_text(k):
    cls = k.get("cls") or []
    return k["head"] + ("/" + "+".join(sorted(cls)) if cls else "")


# ---------------------------------------------------------------- self-test material

def selftest_records():
    """known-bad pairs (each is what the unrepaired interpreter printed, or a one-off perturbation) and good ones"""
    def o(ctx, **kw):
        b = blank_obs(ctx)
        b.pop("text")
        b.pop("ctx")
        b.update(st="ok", ctxs=[ctx])
        b.update(kw)
        return b
    good = [
        {"lit": list("0x_1f"), "obs": [o("arg", ty="int", digs=list("31"))]},
        {"lit": list("1_0"), "obs": [o("neg", ty="int", digs=list("10"), neg=True)]},
        {"lit": ["'", "\\", "n", "'"], "obs": [o("arg", ty="int32", digs=list("10"))]},
        {"lit": list("0.1"), "obs": [o("arg", ty="float64", digs=list("7205759403792794"), exp=-56)]},
        {"lit": list("9007199254740993.0"), "obs": [o("arg", ty="float64", digs=list("4503599627370496"), exp=1)]},
        {"lit": list("0x1p-1075"), "obs": [o("arg", ty="float64", digs=list("0"), exp=-1074)]},
        {"lit": list("017i"), "obs": [o("arg", ty="complex128", digs=list("0"), exp=-1074, digs2=list("4785074604081152"), exp2=-48)]},
        {"lit": ['"', "\\", "u", "0", "0", "e", "9", "<U+E9>", "\\", "x", "e", "9", '"'], "obs": [o("arg", ty="string", bytes=[195, 169, 195, 169, 233])]},
        {"lit": ["`", "a", "<CR>", "<LF>", "\\", "n", "`"], "obs": [o("var", ty="string", bytes=[97, 10, 92, 110])]},
    ]
    bad = [
        ("rune escape printed as array", {"lit": ["'", "\\", "n", "'"], "obs": [dict(o("arg", ty="[]int32"), st="garbled")]}),
        ("separator after prefix -> string", {"lit": list("0x_1"), "obs": [dict(o("arg", ty="string"), st="garbled")]}),
        ("decimal separator -> float64", {"lit": list("1_0"), "obs": [dict(o("arg", ty="float64"), st="garbled")]}),
        ("legacy octal read as decimal", {"lit": list("017"), "obs": [o("arg", ty="int", digs=list("17"))]}),
        ("-2^63 as float", {"lit": list("9223372036854775808"), "obs": [dict(o("neg", ty="float64"), st="garbled")]}),
        ("float off by one ulp", {"lit": list("0.1"), "obs": [o("arg", ty="float64", digs=list("7205759403792793"), exp=-56)]}),
        ("tie rounded to odd", {"lit": list("9007199254740993.0"), "obs": [o("arg", ty="float64", digs=list("4503599627370497"), exp=1)]}),
        ("lost sign", {"lit": list("2.5"), "obs": [o("neg", ty="float64", digs=list("5629499534213120"), exp=-51)]}),
        ("imaginary octal read as octal", {"lit": list("017i"), "obs": [o("arg", ty="complex128", digs=list("0"), exp=-1074, digs2=list("8444249301319680"), exp2=-49)]}),
        ("string byte changed", {"lit": ['"', "\\", "x", "f", "f", '"'], "obs": [o("arg", ty="string", bytes=[195, 191])]}),
        ("raw string trimmed", {"lit": ["`", "a", "<LF>", " ", "a", "`"], "obs": [o("arg", ty="string", bytes=[97, 10, 97])]}),
        ("no output", {"lit": list("0b11i"), "obs": [dict(o("arg"), st="error")]}),
    ]
    return good, bad


# ---------------------------------------------------------------- the check

def run():
    import time
    thorough = vf.TIER == "thorough"
    chk = vf.Check(PROP)
    rng = random.Random(vf.SEED)
    stats = {"ego_runs": 0}
    T0 = time.time()

    def lap(what):
        vf.log("C06 %-46s at %6.1fs" % (what, time.time() - T0))

    chk.assumptions += [
        "the observation functions are trusted: fmt.Printf %T %d %b %x, real(), imag() of the interpreter print the value the literal produced "
        "(%b gives mantissa and binary exponent exactly, %x the bytes)",
        "a literal is observed in four embeddings (argument, := variable, parenthesised, negated); integer width (int vs int64) is not "
        "part of 'value' (any integer type is accepted for an integer literal); -x for a float x that rounds to zero is outside the contract "
        "(the sign of zero is a matter of constant arithmetic, not of the literal)",
        "number spellings are exhaustive over a reduced alphabet up to a length bound plus boundary spellings; strings/runes over a "
        "catalogue of body elements (every escape form) in every position of short bodies",
        "TLC, the Go toolchain (only to cross-check the specification, never for the verdict) and python's text handling are trusted"]
    shards = 8 if thorough else 2
    with vf.scratch() as sd, ThreadPoolExecutor(max_workers=6) as pool:
        # 1-3 run side by side: design MC, its negative control, the case generator, and the build of the real binary
        f_mc = pool.submit(vf.tlc, SPEC, "Literals_MC", "Literals_MC.cfg" if thorough else "Literals_MCq.cfg", sd,
                           workers=6 if thorough else 3, timeout=2400, env=TLC_ENV)
        f_mc2 = pool.submit(vf.tlc, SPEC, "Literals_MC", "Literals_MCq.cfg", sd, workers=2, timeout=2400, env=TLC_ENV) if thorough else None
        f_nc = pool.submit(vf.tlc, SPEC, "Literals_MC", "Literals_MC_asis.cfg", sd, workers=1, timeout=600, env=TLC_ENV)
        f_gen = pool.submit(vf.tlc, SPEC, "Literals_Gen", "Literals_Gen.cfg" if thorough else "Literals_Genq.cfg", sd,
                            workers=6 if thorough else 3, timeout=2400, env=TLC_ENV)

        def build():
            ov = vf.make_overlay(sd, [])
            return vf.build_ego(sd, ov)
        f_ego = pool.submit(build)
        # 3. the cases
        rg = vf.tlc_ok(f_gen.result(), "Literals_Gen")
        chk.add_tlc(rg, "Gen: one state per literal spelling")
        lap("Gen")
        lits, seen = [], set()
        for rec in rg.records:
            k = json.dumps(rec["lit"])
            if k not in seen and rec.get("ctx"):
                seen.add(k)
                lits.append(rec)
        lits.sort(key=lambda x: json.dumps(x["lit"]))
        chk.cov["literals_generated"] = len(lits)
        if not thorough:    # quick tier: the core (boundary spellings, every rune, every single-element string) and a seeded third of the rest
            lits = [l for l in lits if l["grp"] == "core" or rng.random() < 0.34]
        kinds = {}
        for l in lits:
            kinds[l["kind"]] = kinds.get(l["kind"], 0) + 1
        chk.cov["literals_by_kind"] = kinds
        chk.cov["spellings_outside_contract_domain"] = sorted({shown(r["lit"]) for r in rg.records if not r.get("ctx")})[:40]
        if len(lits) < 500 or set(kinds) != {"int", "float", "imag", "rune", "string", "raw"}:
            raise vf.NoVerdict("generator produced too little: %s" % kinds)
        # every literal in every admissible context under the first mode; the other typing modes on a seeded part
        modes = ["default", "strict", "relaxed", "dynamic"] if thorough else ["default", ["strict", "relaxed", "dynamic"][vf.SEED % 3]]
        cases, cid = [], 0
        per_mode = {m: [] for m in modes}
        for li, l in enumerate(lits):
            for ctx in CTX_ORDER:
                if ctx in l["ctx"]:
                    cid += 1
                    c = {"id": cid, "li": li, "lit": l["lit"], "kind": l["kind"], "ctx": ctx}
                    cases.append(c)
                    for mi, m in enumerate(modes):
                        if mi == 0 or rng.random() < (0.25 if thorough else 0.2):
                            per_mode[m].append(c)
        byid = {c["id"]: c for c in cases}
        chk.cov["cases"] = len(cases)

        # 4. the spec against Go (all cases): disagreement is a spec bug, never a finding
        def go_side():
            gobs = run_go(sd, cases)
            lap("go run %d cases" % len(cases))
            ent = [(l["lit"], []) for l in lits]
            for c in cases:
                ent[c["li"]][1].append((c["id"], "go", c["ctx"], gobs[c["id"]]))
            grecs, _gback = group_records(ent)
            gj, gbad = judge(chk, sd, grecs, "Go toolchain output (cross-check of the spec)", shards)
            lap("judge go")
            return grecs, gj, gbad
        f_go = pool.submit(go_side)

        # 5. ego
        ego = f_ego.result()
        env = vf.ego_env(sd)
        env["GOMAXPROCS"] = "2"     # the programs are sequential; many processes run side by side
        lap("build ego")
        eobs = {m: run_ego(ego, env, sd, per_mode[m], m, m, stats) for m in modes}
        total = sum(len(per_mode[m]) for m in modes)
        lap("ego runs %d" % total)
        ent = [(l["lit"], []) for l in lits]
        for m in modes:
            for c in per_mode[m]:
                ent[c["li"]][1].append((c["id"], m, c["ctx"], eobs[m][c["id"]]))
        erecs, eback = group_records(ent)
        ej, ebad = judge(chk, sd, erecs, "ego output", shards)
        lap("judge ego")
        if ej != n_pairs(erecs):
            raise vf.NoVerdict("contract judged %d of %d ego observations" % (ej, n_pairs(erecs)))
        chk.cov["evaluations"] = total
        chk.cov["distinct_nontrivial"] = n_pairs(erecs)
        chk.cov["traces_validated_against_impl"] = total

        # design results and the cross-check must be in before anything is called a violation
        r = vf.tlc_ok(f_mc.result(), "Literals MC")
        chk.add_tlc(r, "MC: derivation = recogniser over all strings; radix round trip; separators ignored; float rounding of small integers")
        if f_mc2:
            chk.add_tlc(vf.tlc_ok(f_mc2.result(), "Literals MC (13-symbol alphabet, L=4)"), "MC: the same over the 13-symbol alphabet, L=4")
        rn = f_nc.result()
        if rn.violated != "AgreeBroken":
            raise vf.NoVerdict("negative control: grammar without prefix separator was not rejected (%s %s)" % (rn.violated, rn.error))
        chk.add_tlc(rn, "negative control (no separator after radix prefix) violates AgreeBroken", count_states=False)
        grecs, gj, gbad = f_go.result()
        if gj != len(cases):
            raise vf.NoVerdict("cross-check: contract judged %d of %d cases (WF of Gen and Trace disagree)" % (gj, len(cases)))
        if gbad:
            b = gbad[0]
            raise vf.NoVerdict("the specification disagrees with Go on %d cases, e.g. %s [%s] Go printed %s" % (
                len(gbad), shown(grecs[b["idx"] - 1]["lit"]), key_text(b["key"]), json.dumps(grecs[b["idx"] - 1]["obs"][b["obs"] - 1])[:400]))
        chk.cov["go_crosscheck_cases"] = len(cases)
        lap("MC, control, cross-check done")

        # 6. every failing case again, alone in its own program, judged again (a batch neighbour must not be blamed or blame);
        # 7. in the same TLC run the binding self-test / vacuity guard: known-bad pairs and perturbed real observations must
        #    fail the contract, known-good pairs must pass
        redo = {}
        for b in ebad:
            for (cid_, who, _t) in eback[(b["idx"], b["obs"], b["ctx"])]:
                redo.setdefault(who, set()).add(cid_)
        srecs, sback = [], {}
        if redo:
            sobs = {m: run_ego(ego, env, sd, [byid[i] for i in sorted(ids)], m, m + "-single", stats, batch=1) for m, ids in redo.items()}
            ent2, pos = [], {}
            for m, obsd in sobs.items():
                for i, ob in sorted(obsd.items()):
                    c = byid[i]
                    if c["li"] not in pos:
                        pos[c["li"]] = len(ent2)
                        ent2.append((c["lit"], []))
                    ent2[pos[c["li"]]][1].append((i, m, c["ctx"], ob))
            srecs, sback = group_records(ent2)
            lap("singles run %d" % sum(len(v) for v in redo.values()))
        good, badp = selftest_records()
        failing = {b["idx"] for b in ebad}
        okrecs = [i for i, r in enumerate(erecs) if (i + 1) not in failing and r["obs"][0]["st"] == "ok"
                  and (r["obs"][0]["digs"] or r["obs"][0]["bytes"])]
        if len(okrecs) < 12:
            raise vf.NoVerdict("self-test: too few passing ego observations to perturb (%d)" % len(okrecs))
        pert = []
        for i in rng.sample(okrecs, 12):
            r = json.loads(json.dumps(erecs[i]))
            ob = r["obs"][0]
            r["obs"] = [ob]
            if ob["bytes"]:
                ob["bytes"][-1] = (ob["bytes"][-1] + 1) % 256
            elif ob["digs2"]:
                ob["digs2"][-1] = str((int(ob["digs2"][-1]) + 1) % 10)
            else:
                ob["digs"][-1] = str((int(ob["digs"][-1]) + 1) % 10)
            pert.append(r)
        trecs = good + [b for _n, b in badp] + pert
        n0 = len(srecs)
        aj, abad = judge(chk, sd, srecs + trecs, "failing cases re-run alone + self-test pairs", 1 if n0 < 400 else shards)
        sbad = [b for b in abad if b["idx"] <= n0]
        flagged = {b["idx"] - n0 for b in abad if b["idx"] > n0}
        want = set(range(len(good) + 1, len(trecs) + 1))
        if aj != n_pairs(srecs) + n_pairs(trecs) or flagged != want:
            names = [n for n, _b in badp] + ["perturbed %s" % shown(p["lit"]) for p in pert]
            raise vf.NoVerdict("binding self-test failed: judged %d/%d; wrongly accepted: %s; wrongly rejected good pairs: %s" % (
                aj, n_pairs(srecs) + n_pairs(trecs), [names[i - len(good) - 1] for i in sorted(want - flagged)], sorted(flagged - want)))
        confirmed = []
        for b in sbad:
            rec = srecs[b["idx"] - 1]
            confirmed.append((key_text(b["key"]), rec["lit"], b["ctx"], rec["obs"][b["obs"] - 1], sback[(b["idx"], b["obs"], b["ctx"])]))
        chk.cov["failing_in_batch"] = len(ebad)
        chk.cov["failing_alone"] = len(confirmed)
        for key, lit, ctx, ob, who in confirmed:
            c = byid[who[0][0]]
            chk.violation(key, "literal %s (%s) in context %s: ego printed type %r %s (modes %s); the Go specification gives another value"
                          % (shown(lit), c["kind"], ctx, ob["ty"], (who[0][2] or "")[:160], sorted({w[1] for w in who})),
                          {"literal": shown(lit), "context": ctx, "observation": ob, "modes": sorted({w[1] for w in who}),
                           "program": ego_program([c]),
                           "run": "ego run" + ("" if who[0][1] == "default" else " --types " + who[0][1]) + " file.ego"})
        lap("selftest")
        chk.cov["binding_selftest"] = "%d known-bad pairs rejected, %d good pairs accepted, %d perturbed real observations rejected" % (
            len(badp), len(good), len(pert))
        chk.cov["ego_processes"] = stats["ego_runs"]
        chk.cov["modes"] = modes
        for l in rng.sample(lits, 4):
            chk.sample({"kind": l["kind"], "literal": shown(l["lit"]), "contexts": l["ctx"]})
        chk.sample({"kind": "ego observation", "record": erecs[okrecs[0]]})
        chk.cov["rule"] = ("literals = all spellings derived by Literals_Gen (numbers: exhaustive over Sigma up to length L, + boundary "
                           "spellings; runes/strings/raw strings: element catalogue x positions); evaluations = (literal, context, mode) "
                           "runs of the real ego binary judged by the TLA+ contract; distinct = distinct (literal, context, printed value)")
        chk.cov["exhaustive"] = thorough    # quick runs a seeded third of the derived spellings
    return chk.finish()

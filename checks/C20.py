"""C20 - routes run only for authorized requests.
spec/Gate (GateCore: builder calls, credential forms, the gate of ServeHTTP as it is / repaired, the statement;
Gate: state machine; Gate_Gen: generator; Gate_Trace: contract).
Stages: MC of the repaired design (exhaustive) ; negative control (the gate as written violates OnlyAuthorized) ;
non-vacuity witness ; TLC generates every builder-call sequence and every request ; the driver declares REAL routes with
them, builds the server's REAL route table, sends every request through the real Router.ServeHTTP and logs
(route record, request, handler ran?, status) ; TLC (Gate_Trace) judges every logged record ; binding self-test."""
import json, os, random, subprocess, time
from concurrent.futures import ThreadPoolExecutor
import vf

PROP = "C20"
HARNESS = [vf.kit("internal/commands", "commands"),
           ("gate/gate_test.go", "internal/commands/zz_verif_c20_test.go"),
           ("gate/router_export.go", "internal/router/zz_verif_c20_export.go")]
LOAD = max(1.0, os.getloadavg()[0] / (vf.NCPU or 1))       # the machine is shared: stretch timeouts, never verdicts
T = lambda s: int(s * min(LOAD, 12.0) + 60)


def _tlc(module, cfg, sd, workers=2, timeout=600, files=None):
    return vf.tlc("Gate", module, cfg, sd, workers=workers, timeout=T(timeout), files=files)


def _build(sd):
    ov = vf.make_overlay(sd, HARNESS)
    return vf.go_test_compile(ov, "./internal/commands/", os.path.join(sd, "c20.test"), timeout=T(900))


def _drive(sd, binary, inp, tag, mode, perseq, expensive, workers=4, timeout=1500):
    out, res = os.path.join(sd, "io-%s.ndjson" % tag), os.path.join(sd, "res-%s.json" % tag)
    tmp = os.path.join(sd, "tmp-" + tag)
    os.makedirs(tmp, exist_ok=True)
    env = vf.goenv({"VERIF_IN": inp, "VERIF_OUT": out, "VERIF_RES": res, "VERIF_MODE": mode, "VERIF_TMP": tmp,
                    "VERIF_LIBROOT": vf.REPO, "VERIF_PERSEQ": "1" if perseq else "0", "VERIF_EXPENSIVE": str(expensive),
                    "VERIF_SEED": str(vf.SEED), "VERIF_WORKERS": str(workers),
                    "HOME": os.path.join(sd, "home"), "EGO_PATH": vf.REPO, "EGO_DEFAULT_LOGGING": ""})
    env.pop("EGO_PROFILE", None)
    os.makedirs(env["HOME"], exist_ok=True)
    try:
        p = subprocess.run([binary, "-test.run", "^TestVerifC20Gate$", "-test.count=1", "-test.timeout", "%ds" % T(timeout)],
                           cwd=tmp, env=env, timeout=T(timeout) + 60, stdout=subprocess.PIPE, stderr=subprocess.STDOUT,
                           text=True, errors="replace")
    except subprocess.TimeoutExpired:
        raise vf.NoVerdict("driver timeout (%s)" % tag)
    if not os.path.exists(res):
        raise vf.NoVerdict("driver produced no result (%s rc=%d)\n%s" % (tag, p.returncode, p.stdout[-3000:]))
    r = json.load(open(res))
    if r.get("fatal") or p.returncode != 0:
        raise vf.NoVerdict("driver failed (%s): %s\n%s" % (tag, r.get("fatal"), p.stdout[-2500:]))
    return out, r


def _judge(chk, sd, log, name):
    r = _tlc("Gate_Trace", "Gate_Trace.cfg", sd, workers=1, timeout=900, files={"io.ndjson": log})
    if r.error or r.violated or r.rc != 0:
        raise vf.NoVerdict("contract evaluation failed (%s): %s %s\n%s" % (name, r.violated, r.error, r.stdout[-2500:]))
    rep = [x for x in r.records if isinstance(x, dict) and "bad" in x and "n" in x]
    if not rep:
        raise vf.NoVerdict("contract spec printed no report (%s)\n%s" % (name, r.stdout[-1500:]))
    if name:
        chk.add_tlc(r, name, count_states=False)
    rep = rep[-1]
    for k in ("bad", "notwf", "dakeys", "dfkeys"):
        if not isinstance(rep.get(k), list):
            rep[k] = []
    return rep


def run():
    thorough = vf.TIER == "thorough"
    chk = vf.Check(PROP)
    chk.assumptions += [
        "declared requirements = the route record after all builder calls (mustAuthenticate, requiredPermissions) plus the documented rule that a lightweight route takes no authentication (DESIGN Appendix C); a builder call that leaves the record declaring less than the call says is reported too",
        "ground truth about each credential is built by the driver: bcrypt records in the real user store, native tokens from tokens.New (expired = negative lifetime, tampered = one hex digit changed, revoked = tokens.Blacklist), ES256 JWTs for the key the real resource-server code fetched from an httptest identity provider (bad signature = another key, expired = exp in the past)",
        "a right password counts as authentication even for an account without logon/root (weakest reading: the server may refuse it, the statement does not require it to)",
        "real route table = setupServerRouter() of internal/commands run in-process with lib/ of the tree (static routes, lib/services, native admin handlers, OAuth authorization-server and resource-server routes, redirects); every handler replaced by a recorder and payload validation (which runs after the gate) switched off so the recorder is reachable; one concrete path per route",
        "login rate limiting (C24) is switched off (ego.server.auth.max.attempts=0); media types are satisfied (Accept */*)",
        "dead native tokens cost one Argon2id derivation per request: quick tier sends them to a seeded sample of 3 generated route records and of 3 distinct route records of the table; thorough to every distinct generated route record and every table route",
        "requests are sequentially independent (no state carried between requests except the server's own caches)"]
    replay = None
    if os.environ.get("VERIF_REPLAY"):
        replay = json.load(open(os.environ["VERIF_REPLAY"]))["replay"]
    with vf.scratch() as sd, ThreadPoolExecutor(max_workers=5) as pool:
        f_build = pool.submit(_build, sd)
        f_gen = pool.submit(_tlc, "Gate_Gen", "Gate_Gen.cfg", sd, 1)
        f_mc = pool.submit(_tlc, "Gate", "Gate_MC.cfg" if thorough else "Gate_MCq.cfg", sd, 2, 1200)
        f_asis = pool.submit(_tlc, "Gate", "Gate_MC_asis.cfg", sd, 2)
        f_reach = pool.submit(_tlc, "Gate", "Gate_MC_reach.cfg", sd, 1)
        # 1. behaviours and requests of the specification (exhaustive: the history variable makes every sequence a state)
        g = vf.tlc_ok(f_gen.result(), "Gate_Gen")
        chk.add_tlc(g, "generator: every builder-call sequence (<=3 calls) and every request", count_states=False)
        seqs = [x for x in g.records if x.get("kind") == "seq"]
        reqs = [x for x in g.records if x.get("kind") == "req"]
        if len(seqs) < 1000 or len(reqs) < 40:
            raise vf.NoVerdict("generator too small: %d sequences, %d requests" % (len(seqs), len(reqs)))
        mode = "both"
        if replay:
            if replay.get("src") == "gen":
                seqs = [{"kind": "seq", "calls": replay["calls"]}]
                reqs = [dict(replay["req"], kind="req")]
                mode = "gen"
            else:
                mode = "table"
        inp = vf.write_ndjson(os.path.join(sd, "gen.ndjson"), seqs + reqs)
        # 2. drive the real router
        binary = f_build.result()
        t0 = time.time()
        log, res = _drive(sd, binary, inp, "main", mode, perseq=thorough and not replay,
                          expensive=0 if (thorough or replay) else 3)
        chk.cov["driver"] = {k: res.get(k) for k in ("sequences", "distinct_flags", "gen_requests", "gen_invoked", "table_routes",
                                                    "table_routes_addressed", "table_requests", "table_invoked",
                                                    "table_routes_handler_reached", "form_counts", "records", "elapsed_s")}
        chk.cov["table_users"] = res.get("table_users")
        if res.get("table_routes_unaddressed"):
            chk.notes.append("table routes no concrete path resolved to: %s" % res["table_routes_unaddressed"])
        # 3. TLC judges every record.  Binding self-test in the same run: three extra records are appended - an authorized
        #    dispatch (must be accepted), the same kind of dispatch without credentials on a must-authenticate route and a
        #    weakened route record (both must be rejected); they are judged apart from the real ones.
        lines = open(log).read().splitlines()
        recs = [json.loads(l) for l in lines]
        nreal = len(lines)
        rng = random.Random(vf.SEED)
        extra = []
        if not replay:
            c1 = [i for i, r_ in enumerate(recs) if r_["kind"] == "req" and r_["req"]["form"] == "none" and r_["flags"]["ma"]
                  and not r_["flags"]["lw"] and not r_["invoked"]]
            c2 = [i for i, r_ in enumerate(recs) if r_["kind"] == "build" and r_["calls"] and r_["calls"][-1]["op"] == "Authentication"
                  and r_["calls"][-1]["b"] and r_["after"][-1]["ma"] and not r_["after"][-1]["lw"]]
            good = [i for i, r_ in enumerate(recs) if r_["kind"] == "req" and r_["invoked"] and r_["req"]["form"] in ("basic_right", "token_valid")
                    and "ego.root" in r_["req"]["subperms"]]
            if not c1 or not c2 or not good:
                raise vf.NoVerdict("self-test: no suitable records in the log (driver too weak)")
            a, b, c = dict(recs[rng.choice(c1)]), json.loads(json.dumps(recs[rng.choice(c2)])), recs[rng.choice(good)]
            a["invoked"], a["status"] = True, 200                 # handler ran without credentials on a must-authenticate route
            b["after"][-1]["ma"] = False                          # Authentication(true) left the record not requiring it
            extra = [dict(x, st=True) for x in (c, a, b)]
            log = vf.write_ndjson(os.path.join(sd, "io-judged.ndjson"), recs + extra)
        rep = _judge(chk, sd, log, "contract over the log of the real router")
        if rep["n"] != nreal + len(extra):
            raise vf.NoVerdict("contract saw %s records, log has %d" % (rep["n"], nreal + len(extra)))
        if rep["notwf"]:
            raise vf.NoVerdict("%d logged records are not cases of the specification (driver error), first at line %s"
                               % (len(rep["notwf"]), sorted(rep["notwf"])[0]))
        if extra:
            st = sorted(int(x["idx"]) - nreal for x in rep["bad"] if int(x["idx"]) > nreal)
            if st != [2, 3]:
                raise vf.NoVerdict("binding self-test failed: of the appended records (authorized, unauthorized, weakened) the contract rejected %s" % st)
            rep["bad"] = [x for x in rep["bad"] if int(x["idx"]) <= nreal]
            chk.cov["binding_selftest"] = ("a dispatch without credentials on a must-authenticate route and a weakened route record are both rejected, "
                                           "an authorized dispatch is accepted (appended to the judged log, judged apart)")
        by = {}
        for b in rep["bad"]:
            by.setdefault(b["key"], []).append(int(b["idx"]))
        for key, idxs in sorted(by.items()):
            rec = json.loads(lines[min(idxs) - 1])
            if rec["kind"] == "build":
                what = "a builder call left the real route record declaring less than the call says: calls=%s record after each=%s" % (
                    json.dumps(rec["calls"]), json.dumps(rec["after"]))
                rp = {"src": "gen", "calls": rec["calls"], "req": reqs[0] if reqs else {}, "record": rec}
            else:
                what = ("the handler ran (HTTP %s) for a request that does not satisfy the route's declared requirements: route %s record=%s "
                        "declared by %s ; request=%s ; %d such records" % (rec["status"], rec["route"], json.dumps(rec["flags"]),
                                                                            json.dumps(rec["calls"]), json.dumps(rec["req"]), len(idxs)))
                rp = {"src": rec["src"], "calls": rec["calls"], "req": rec["req"], "route": rec["route"], "flags": rec["flags"],
                      "observed": {"invoked": rec["invoked"], "status": rec["status"]}}
            chk.violation(key, what, rp)
        conf = "as written" if rep["nda"] == 0 else ("repaired" if rep["ndf"] == 0 else "neither")
        chk.cov["gate_model_conformance"] = {"matches": conf, "records_differing_from_gate_as_written": rep["nda"],
                                             "records_differing_from_repaired_gate": rep["ndf"]}
        if conf == "neither":
            chk.notes.append("outcomes (handler/status) differ from both code-shaped gate models (diagnostic only; the verdict is the contract on the real "
                             "records): vs as-written %s ; vs repaired %s" % (rep["dakeys"][:12], rep["dfkeys"][:12]))
        nreq = sum(1 for l in lines if '"kind":"req"' in l)
        chk.cov["traces_validated_against_impl"] += (res.get("sequences") or 0) + (res.get("table_routes_addressed") or 0)
        chk.cov["evaluations"] += (res.get("gen_requests") or 0) + (res.get("table_requests") or 0) + (res.get("sequences") or 0)
        chk.cov["distinct_nontrivial"] += nreq
        if not replay:
            # vacuity guards: authorized requests do reach handlers, every form was sent, the table was addressed
            fc = res.get("form_counts") or {}
            missing = [f for f in sorted(set(r["form"] for r in reqs)) if not fc.get(f)]
            if missing:
                raise vf.NoVerdict("forms never sent: %s" % missing)
            if not res.get("gen_invoked") or not res.get("table_invoked"):
                raise vf.NoVerdict("vacuous: no handler was ever reached (%s)" % json.dumps(chk.cov["driver"]))
            if res["table_routes_addressed"] < 0.9 * res["table_routes"] or res["table_routes_handler_reached"] < 0.7 * res["table_routes"]:
                raise vf.NoVerdict("real route table poorly exercised: %s" % json.dumps(chk.cov["driver"]))
            if res["sequences"] != len(seqs):
                raise vf.NoVerdict("driver declared %s of %d sequences" % (res["sequences"], len(seqs)))
            # 4. the design: repaired gate satisfies C20 (exhaustive) ; the gate as written must not (vacuity guard) ; witness
            r = vf.tlc_ok(f_mc.result(), "Gate MC")
            chk.add_tlc(r, "MC repaired gate, sequences <= %d calls x 56 requests" % (5 if thorough else 3))
            rn = f_asis.result()
            if rn.violated != "OnlyAuthorized":
                raise vf.NoVerdict("negative control: the gate as written did not violate OnlyAuthorized (%s %s)" % (rn.violated, rn.error))
            chk.add_tlc(rn, "negative control (gate as written) violates OnlyAuthorized", count_states=False)
            rr = f_reach.result()
            if rr.violated != "NeverInvokedWithPerms":
                raise vf.NoVerdict("witness: no authorized request reaches a handler in the model (%s %s)" % (rr.violated, rr.error))
            chk.add_tlc(rr, "witness: an authorized request reaches a handler guarded by permissions", count_states=False)
            for i in (rng.choice(good), rng.choice(c1)):
                chk.sample({"kind": "logged record judged by Gate_Trace", "record": recs[i]})
            chk.sample({"kind": "generated declaration", "calls": seqs[rng.randrange(len(seqs))]["calls"]})
        chk.cov["exhaustive"] = True
        chk.cov["rule"] = ("sequences = every builder-call sequence of <=3 calls out of 15 (TLC, exhaustive), each declared on a real Router and read back after "
                           "every call; requests = the 56 requests of the model (15 credential forms x users) sent to %s, plus every route of the real route "
                           "table x forms x users derived from the table's permission lists; evaluations = requests served by the real ServeHTTP + declarations; "
                           "distinct_nontrivial = distinct (route record, request, outcome) records judged by the TLA+ contract"
                           % ("every declaration (thorough)" if thorough else "every distinct resulting route record (quick)"))
    return chk.finish()

"""C07 - no source text crashes the host process.
spec/EgoCrash (EgoCrash = host model, EgoCrashDefs = edits + contract, _Gen, _Trace).  Stages:
  1. TLC, exhaustive: the host model (three entry points, every stage turns an anomaly into an error return, native calls
     guarded, router recover) never loses the process and ends every text in AllowedEnd; two negative controls (native
     guard missing / one unchecked stage) must violate NoHostCrash.
  2. TLC generator: token-level edits (delete, duplicate, swap, truncate, replace by a token of another class, insert an
     unmatched bracket / quote / marker / byte blob, boundary literal) of every base program of spec/EgoCrash/corpus at
     every position - the slice of the tier and seed - plus a sample of second edits.  TLC computes the mutated token
     sequences; python only joins the spellings (and expands the named byte blobs).
  3. the texts are run by the real code through four doors: "lib" (main.go's own app.Run(ego run file) repeated in one
     process under recover(), harness/c07), "server" (POST /admin/run of a real `ego server`; the texts that did not run into
     the time bound in-process, plus a few that did), "run" (`ego run file`),
     "repl" (`ego run` reading the program from standard input); every execution is logged as an observation record.
     What panicked in-process or was recovered by the router is also sent through `ego run` and the console.
  4. F binding: EgoCrash_Trace judges every record with the contract Post (Outcome in AllowedEnd(entry)); a failing
     record is a violation keyed by what the host died of and where.
  5. binding self-test: records of real executions perturbed into a crash must be rejected by the contract, and a real
     `ego run` ended by SIGQUIT (a genuine Go runtime trace) must be projected and judged as a host crash.
A time-out or a memory bound is never a violation."""
import json, os, random, re, signal, subprocess, threading, time, uuid
from concurrent.futures import ThreadPoolExecutor
import vf, egosrv

PROP = "C07"
SPEC = "EgoCrash"
CORPUS = os.path.join(vf.VERIF, "spec", SPEC, "corpus")
HARNESS = [("c07/run_test.go", "zz_verif_c07_test.go")]
MEMLIMIT_KB = 4 * 1024 * 1024          # address-space limit of every process that runs generated text
OUTCAP = 1 << 18

BLOBS = {"<NUL>": b"\x00", "<BADUTF8>": b"\xff\xfe\xc3\x28\xf0\x28\x8c\x28", "<BOM>": b"\xef\xbb\xbf", "<CR>": b"\r",
         "<HUGEID>": b"a" * 100000, "<HUGENUM>": b"9" * 5000, "<LONGSTR>": b'"' + b"s" * 200000 + b'"',
         "<DEEP(>": b"( " * 20000, "<DEEP[>": b"[ " * 20000, "<DEEP{>": b"{ " * 20000, "<DEEPNEG>": b"- " * 20000}


# ---------------------------------------------------------------- projection: corpus -> tokens, tokens -> bytes
def lex_class(t):
    c = t[0]
    if t == "NL":
        return "nl"
    if c.isdigit():
        return "num"
    if c in "\"`'":
        return "str"
    if c == "@":
        return "at"
    if c.isalpha() or c == "_":
        return "word"
    return "punct"


def corpus():
    out = []
    for f in sorted(os.listdir(CORPUS)):
        if f.endswith(".ego"):
            toks = []
            for line in open(os.path.join(CORPUS, f), encoding="utf8").read().split("\n"):
                ws = line.split()
                if ws:
                    toks += ws + ["NL"]
            out.append({"name": f[:-4], "toks": [{"t": t, "lx": lex_class(t)} for t in toks]})
    return out


def render(toks):
    parts, line = [], []
    for t in toks:
        if t == "NL":
            parts.append(b" ".join(line) + b"\n")
            line = []
        else:
            line.append(BLOBS[t] if t in BLOBS else t.encode("utf8"))
    if line:
        parts.append(b" ".join(line))
    return b"".join(parts)


# ---------------------------------------------------------------- projection: what a process printed -> observation
_DUMP = re.compile(r"^goroutine \d+ [^\n]*\[[^\]\n]+\]:\s*$", re.M)
_HEAD = re.compile(r"^(panic: [^\n]*|fatal error: [^\n]*|SIG[A-Z]+: [^\n]*|runtime: [^\n]*)", re.M)
_FRAME = re.compile(r"^(github\.com/tucats/ego/[^\s(]+(?:\([^)\n]*\))?[^\s(]*)\(", re.M)
_OOM = re.compile(r"out of memory|cannot allocate memory|failed to create new OS thread|pthread_create failed|errno=12")


def crash_excerpt(path):
    """The part of a (possibly huge) output file that starts shortly before the first goroutine dump."""
    try:
        size = os.path.getsize(path)
        with open(path, "rb") as f:
            data = f.read(30 << 20)
            if size > (31 << 20):
                f.seek(size - (1 << 20))
                data += b"\n" + f.read()
    except OSError:
        return ""
    text = data.decode("utf8", "replace")
    m = _DUMP.search(text)
    if not m:
        return text[-20000:]
    return text[max(0, m.start() - 4000): m.start() + 60000]


def kind_of(msg):
    for pat, k in (("index out of range", "index"), ("slice bounds out of range", "slicebounds"),
                   ("nil pointer dereference", "nilptr"), ("interface conversion", "ifaceconv"), ("nil map", "nilmap"),
                   ("stack overflow", "stackoverflow"), ("concurrent map", "concmap"), ("all goroutines are asleep", "deadlock"),
                   ("makeslice", "range"), ("makechan", "range"), ("out of range", "range"), ("divide by zero", "divzero"),
                   ("reflect", "reflect"), ("closed channel", "channel"), ("close of", "channel"), ("unlock of unlocked", "mutex"),
                   ("negative WaitGroup", "waitgroup"), ("SIGQUIT", "sigquit"), ("SIGSEGV", "sigsegv")):
        if pat in msg:
            return k
    return "other"


def trace_info(text):
    """(has Go runtime trace, oom, kind, site, head line) from stderr / a server's output."""
    text = text or ""
    m = _DUMP.search(text)
    if not m:
        return False, bool(_OOM.search(text) and "fatal error" in text), "", "", ""
    h = None
    for h in _HEAD.finditer(text[:m.start()]):
        pass
    head = h.group(1) if h else ""
    site = "?"
    for f in _FRAME.finditer(text[m.start():m.start() + 20000]):
        fn = f.group(1)[len("github.com/tucats/ego/"):]
        if not fn.startswith("main.c07") and "TestVerifC07" not in fn:
            site = fn
            break
    oom = bool(_OOM.search(text[:m.start() + 2000]))
    return True, oom, kind_of(head or text[:m.start()][-400:]), site, head[:200]


def trace_excerpt(text, n=1800):
    m = _DUMP.search(text or "")
    return (text[max(0, m.start() - 400): m.start() + n] if m else (text or "")[-n:])


def obs_proc(rc, out, err, timed_out):
    tr, oom, kind, site, head = trace_info(err)
    return {"timeout": bool(timed_out), "oom": oom, "trace": tr and not oom, "signal": (-rc if (rc is not None and rc < 0 and not timed_out) else 0),
            "alive": timed_out or (rc is not None and rc >= 0), "recovered": False,
            "err": (rc not in (0, None)) or "Error:" in (err or ""), "kind": kind or ("signal" if rc is not None and rc < 0 else ""),
            "site": site, "head": head, "rc": rc if rc is not None else -999}


def run_proc(argv, stdin, env, cwd, timeout):
    """One process under an address-space limit; output capped; whole process group killed on time-out."""
    cmd = ["bash", "-c", 'ulimit -v %d; exec "$@"' % MEMLIMIT_KB, "_"] + argv
    p = subprocess.Popen(cmd, stdin=subprocess.PIPE if stdin is not None else subprocess.DEVNULL, stdout=subprocess.PIPE,
                         stderr=subprocess.PIPE, env=env, cwd=cwd, start_new_session=True)
    bufs = {"o": bytearray(), "e": bytearray()}

    def pump(f, k):
        while True:
            b = f.read1(65536)
            if not b:
                return
            if len(bufs[k]) < OUTCAP:
                bufs[k] += b[:OUTCAP - len(bufs[k])]
            elif k == "e":                       # keep the tail of stderr too (a trace comes last)
                bufs[k] = bufs[k][:OUTCAP // 2] + (bufs[k][OUTCAP // 2:] + b)[-OUTCAP // 2:]
    ts = [threading.Thread(target=pump, args=(p.stdout, "o"), daemon=True), threading.Thread(target=pump, args=(p.stderr, "e"), daemon=True)]
    for t in ts:
        t.start()
    if stdin is not None:
        def feed():
            try:
                p.stdin.write(stdin)
                p.stdin.close()
            except OSError:
                pass
        threading.Thread(target=feed, daemon=True).start()
    timed_out = False
    try:
        p.wait(timeout)
    except subprocess.TimeoutExpired:
        timed_out = True
        try:
            os.killpg(p.pid, signal.SIGKILL)
        except OSError:
            pass
        p.wait(30)
    for t in ts:
        t.join(5)
    return p.returncode, bufs["o"].decode("utf8", "replace"), bufs["e"].decode("utf8", "replace"), timed_out


def load_factor():
    try:
        return max(1.0, os.getloadavg()[0] / (os.cpu_count() or 1))
    except OSError:
        return 1.0


# ---------------------------------------------------------------- entry: run / repl (one real process per text)
def run_real(ego, env, sd, items, entry, nproc=12):
    """items: [(id, bytes)] -> {id: obs}"""
    tmo = 20 + 6 * load_factor()
    d = os.path.join(sd, "x-" + entry)
    os.makedirs(d, exist_ok=True)

    def one(it):
        cid, src = it
        if entry == "run":
            fn = os.path.join(d, "c%d.ego" % cid)
            with open(fn, "wb") as f:
                f.write(src)
            rc, so, se, to = run_proc([ego, "run", fn], None, env, d, tmo)
            os.remove(fn)
        else:
            rc, so, se, to = run_proc([ego, "run"], src, env, d, tmo)
        o = obs_proc(rc, so, se, to)
        o["stderr_tail"] = trace_excerpt(se) if o["trace"] or o["signal"] or o["oom"] else ""
        return cid, o
    with ThreadPoolExecutor(max_workers=nproc) as ex:
        return dict(ex.map(one, items))


# ---------------------------------------------------------------- entry: lib (app.Run repeated in one process under recover)
def run_lib(testbin, env, sd, items, nproc, case_ms):
    """items: [(id, bytes)] -> {id: obs}.  The text goes through JSON as latin-1 so that every byte survives."""
    parts = [items[i::nproc] for i in range(nproc)]
    res, lock = {}, threading.Lock()
    tag = uuid.uuid4().hex[:8]              # several calls may be running at once

    def worker(k):
        todo = parts[k]
        gen = 0
        while todo:
            gen += 1
            fin = os.path.join(sd, "lib-%s-%d-%d.in" % (tag, k, gen))
            fout = os.path.join(sd, "lib-%s-%d-%d.out" % (tag, k, gen))
            ferr = os.path.join(sd, "lib-%s-%d-%d.err" % (tag, k, gen))
            wd = os.path.join(sd, "libwd-%s-%d" % (tag, k))
            os.makedirs(wd, exist_ok=True)
            with open(fin, "w") as f:
                for cid, src in todo:
                    f.write(json.dumps({"id": cid, "src": src.decode("latin-1")}) + "\n")
            e = dict(env)
            e.update(VERIF_IN=fin, VERIF_OUT=fout, VERIF_CASE_MS=str(case_ms), VERIF_MAX_ABANDONED="10", VERIF_LATIN1="1")
            budget = 120 + len(todo) * (0.25 * load_factor() + 0.05) + 40 * case_ms / 1000.0
            with open(ferr, "wb") as fe:
                cmd = ["bash", "-c", 'ulimit -v %d; exec "$@"' % MEMLIMIT_KB, "_", testbin, "-test.run", "^TestVerifC07$",
                       "-test.timeout", "0"]
                p = subprocess.Popen(cmd, env=e, cwd=wd, stdout=subprocess.DEVNULL, stderr=fe, start_new_session=True)
                hung = False
                try:
                    p.wait(budget)
                except subprocess.TimeoutExpired:
                    hung = True
                    try:
                        os.killpg(p.pid, signal.SIGKILL)
                    except OSError:
                        pass
                    p.wait(30)
            started, ended = None, {}
            order = []
            if os.path.exists(fout):
                for line in open(fout, errors="replace"):
                    try:
                        r = json.loads(line)
                    except ValueError:
                        continue
                    if r.get("ev") == "start":
                        started = r["id"]
                        order.append(r["id"])
                    elif r.get("ev") == "end":
                        ended[r["id"]] = r
            with lock:
                for cid, r in ended.items():
                    res[cid] = {"timeout": r["timeout"], "oom": False, "trace": r["panic"], "signal": 0, "alive": True, "recovered": False,
                                "err": r["err"], "kind": r["kind"], "site": r["site"], "head": r["msg"], "rc": 0, "ms": r["ms"]}
            done = set(ended)
            if started is not None and started not in done:
                # the process ended while this text was being handled
                tail = crash_excerpt(ferr)
                tr, oom, kind, site, head = trace_info(tail)
                o = {"timeout": hung, "oom": oom, "trace": tr and not oom, "signal": (-p.returncode if p.returncode < 0 and not hung else 0),
                     "alive": hung or tr or oom or False, "recovered": False, "err": True, "kind": kind, "site": site, "head": head,
                     "rc": p.returncode, "stderr_tail": trace_excerpt(tail)}
                if not (hung or tr or oom) and p.returncode >= 0:
                    o["alive"] = True            # the text ended the process itself (os.Exit from Ego code): an exit status, not a crash
                with lock:
                    res[started] = o
                done.add(started)
            elif p.returncode not in (0, 3) and not hung and started is None:
                raise vf.NoVerdict("in-process driver did not start (rc=%s): %s" % (p.returncode, open(ferr, errors="replace").read()[-1500:]))
            rest = [it for it in todo if it[0] not in done]
            if len(rest) == len(todo):
                raise vf.NoVerdict("in-process driver made no progress (rc=%s hung=%s): %s"
                                   % (p.returncode, hung, open(ferr, errors="replace").read()[-1500:]))
            todo = rest
            for f in (fin, ferr, fout):
                try:
                    os.remove(f)
                except OSError:
                    pass
    with ThreadPoolExecutor(max_workers=nproc) as ex:
        list(ex.map(worker, range(nproc)))
    return res


# ---------------------------------------------------------------- entry: server (/admin/run of a real ego server)
class SrvPool:
    def __init__(self, sd, ego, no=0):
        self.sd, self.ego, self.srv, self.tok, self.gen, self.no = sd, ego, None, None, 0, no
        self.lock = threading.RLock()

    def start(self):
        with self.lock:
            self.gen += 1
            wrap = os.path.join(self.sd, "ego-limited-%d.sh" % self.no)
            if not os.path.exists(wrap):
                with open(wrap, "w") as f:
                    f.write('#!/bin/bash\nulimit -v %d\nexec %s "$@"\n' % (MEMLIMIT_KB, self.ego))
                os.chmod(wrap, 0o755)
            for attempt in (1, 2, 3):          # a saturated machine starts processes slowly: generous wait, and again
                self.srv = egosrv.Server(self.sd, wrap, name="srv-c07-%d-%d-%d" % (self.no, self.gen, attempt))
                try:
                    self.srv.start(wait=60 + 25 * load_factor())
                    break
                except vf.NoVerdict:
                    if attempt == 3:
                        raise
            self.tok = self.srv.logon("admin", "secret")
            if not self.tok:
                raise vf.NoVerdict("cannot log on to the scratch server")
            return self.gen

    def stop(self):
        with self.lock:
            if self.srv:
                self.srv.stop()

    def output(self):
        return crash_excerpt(os.path.join(self.srv.dir, "stdout.txt"))

    def cpu(self):
        try:
            f = open("/proc/%d/stat" % self.srv.proc.pid).read().rsplit(")", 1)[1].split()
            return int(f[11]) + int(f[12])
        except Exception:
            return 0


def run_server(pool, items, nthreads, tmo):
    """items: [(id, bytes)] -> {id: obs}.  One session per client thread.  When the server dies every text that was in
    flight is tried again alone on a fresh server, which is what attributes the death.  Texts that time out may have left
    a goroutine spinning in the server: after every 10 time-outs the clients pause and a fresh server is started."""
    res, lock, gate = {}, threading.Lock(), threading.Condition()
    if pool.srv is None or not pool.srv.alive():
        pool.start()
    state = {"gen": pool.gen, "suspects": [], "restarts": 0, "planned": 0, "timeouts": 0, "n_in": 0, "pausing": False}
    TMO = {"timeout": True, "oom": False, "trace": False, "signal": 0, "alive": True, "recovered": False,
           "err": False, "kind": "", "site": "", "head": "", "rc": 0}
    force = [False]

    def post(cid, src, sess, timeout):
        body = {"code": src.decode("utf8", "replace") + "\nmain()\n", "session": sess}
        return pool.srv.req("POST", "/admin/run", body, token=pool.tok, timeout=timeout)

    def classify(r):
        j = r.json() or {}
        o = dict(TMO, timeout=False, rc=r.status)
        if r.status == 200:
            o["err"] = bool(j.get("error"))
        elif r.status >= 500:
            o.update(recovered=True, err=True, kind=kind_of(r.body), head=r.body[:200])
        else:
            o.update(err=True, head=r.body[:100])
        return o

    def up():
        try:
            return pool.srv.alive() and pool.srv.req("GET", "/services/up", timeout=5 + 5 * load_factor()).status in (200, 204)
        except Exception:
            return False

    def enter():
        with gate:
            while state["pausing"]:
                gate.wait(1.0)
            state["n_in"] += 1
            return state["gen"]

    def leave():
        with gate:
            state["n_in"] -= 1
            gate.notify_all()

    def restart(gen, planned):
        """called with no request of this thread in flight; only the first caller for a generation restarts.  A planned
        restart happens only if the server burns CPU with nothing in flight (a text that timed out left it spinning)."""
        with gate:
            if state["gen"] != gen or state["pausing"]:
                return
            state["pausing"] = True
            t0 = time.time()
            while planned and state["n_in"] > 0 and time.time() - t0 < tmo + 2:
                gate.wait(0.5)
        try:
            if planned and not force[0]:
                c0 = pool.cpu()
                time.sleep(0.4)
                if pool.cpu() - c0 < 12:         # clock ticks (10 ms): less than a third of one core
                    return
            force[0] = False
            pool.stop()
            state["planned" if planned else "restarts"] += 1
            if state["restarts"] > 60:
                raise vf.NoVerdict("the scratch server died more than 60 times")
            g = pool.start()
        finally:
            with gate:
                state["gen"] = pool.gen
                state["timeouts"] = 0
                state["pausing"] = False
                gate.notify_all()

    def wedged(sess):
        """a text that timed out may have left the server holding a lock every later request waits for: it still answers
        /services/up but no longer runs anything"""
        try:
            r = pool.srv.req("POST", "/admin/run", {"code": "fmt.Println(1)\n", "session": sess}, token=pool.tok, timeout=tmo)
            return r.status != 200
        except Exception:
            return True

    def worker(k):
        sess = str(uuid.UUID(int=(0xC07 << 100) + pool.no * 100 + k + 1))
        from collections import deque
        todo = deque(items[k::nthreads])
        streak, retried = [], set()            # consecutive time-outs
        while todo:
            cid, src = todo.popleft()
            if len(src) > 200000:
                continue                       # the endpoint refuses bodies over 256 KiB before compiling anything
            gen = enter()
            o, timed = None, False
            try:
                o = classify(post(cid, src, sess, tmo))
            except Exception as ex:
                timed = "timed out" in str(ex).lower()
            finally:
                leave()
            if o is None and timed and pool.srv.alive():
                o = dict(TMO)
                res[cid] = o
                streak.append((cid, src))
                with lock:
                    state["timeouts"] += 1
                    many = state["timeouts"] >= 10
                if len(streak) >= 2 and wedged(sess):
                    # everything after the first text of the streak timed out because of the server, not of the text:
                    # fresh server, and those texts once more (the first keeps its time-out)
                    for it in reversed(streak[1:]):
                        if it[0] not in retried:
                            retried.add(it[0])
                            res.pop(it[0], None)
                            todo.appendleft(it)
                    streak = []
                    with gate:
                        state["timeouts"] = 0
                    state["wedged"] = state.get("wedged", 0) + 1
                    if state["wedged"] > 80:
                        raise vf.NoVerdict("the scratch server wedged more than 80 times")
                    force[0] = True
                    restart(gen, True)
                elif many:
                    restart(gen, True)
                continue
            streak = []
            if o is not None:
                res[cid] = o
                continue
            # the connection broke: the server died (every text in flight becomes a suspect) or only this connection did
            if state["gen"] == gen and up():
                res[cid] = dict(TMO, head="connection error")
                continue
            with lock:
                state["suspects"].append((cid, src, pool.output() if state["gen"] == gen else ""))
            restart(gen, False)
    with ThreadPoolExecutor(max_workers=nthreads) as ex:
        list(ex.map(worker, range(nthreads)))
    # attribute deaths: every suspect alone on a live server
    sess = str(uuid.UUID(int=(0xC07 << 100) + 99))
    for cid, src, out in state["suspects"]:
        if not up():
            pool.stop()
            pool.start()
        try:
            o = classify(post(cid, src, sess, tmo * 3))
        except Exception as ex:
            time.sleep(0.5)
            if up():
                o = dict(TMO)
            else:
                tr, oom, kind, site, head = trace_info(pool.output())
                o = dict(TMO, timeout=False, oom=oom, trace=tr and not oom, alive=False, err=True, kind=kind or "died", site=site,
                         head=head, rc=-1, stderr_tail=trace_excerpt(pool.output()))
        res[cid] = o
    return res, state["restarts"] + state["planned"]


# ---------------------------------------------------------------- the check
def _record(case, entry, o):
    return {"id": case["id"], "entry": entry, "cls": "+".join(case["cls"]), "timeout": bool(o["timeout"]), "oom": bool(o["oom"]),
            "trace": bool(o["trace"]), "signal": int(o["signal"]), "alive": bool(o["alive"]), "recovered": bool(o["recovered"]),
            "err": bool(o["err"]), "kind": o.get("kind") or "", "site": o.get("site") or ""}


def _judge(chk, sd, recs, name):
    p = vf.write_ndjson(os.path.join(sd, "io-%s.ndjson" % re.sub(r"\W", "", name)), recs)
    n, bad = vf.fio_validate(chk, SPEC, "EgoCrash_Trace", "EgoCrash_Trace.cfg", sd, p, name=name, timeout=1800)
    return n, bad, chk.cov["tlc_runs"][-1]


def _selftest_sigquit(ego, env, sd):
    """A real Go runtime trace from the real binary: `ego run` of a program blocked on a channel, ended by SIGQUIT."""
    src = b'package main\nimport "fmt"\nfunc main() {\n var ch chan\n fmt.Println("ready")\n v := <- ch\n fmt.Println(v)\n}\n'
    fn = os.path.join(sd, "selftest.ego")
    open(fn, "wb").write(src)
    p = subprocess.Popen([ego, "run", fn], env=env, cwd=sd, stdout=subprocess.PIPE, stderr=subprocess.PIPE)
    t0 = time.time()
    line = p.stdout.readline()
    if b"ready" not in line:
        p.kill()
        raise vf.NoVerdict("self-test program did not start: %r %r" % (line, p.stderr.read()[-500:]))
    time.sleep(0.3)
    p.send_signal(signal.SIGQUIT)
    try:
        so, se = p.communicate(timeout=60 + 20 * load_factor())
    except subprocess.TimeoutExpired:
        p.kill()
        raise vf.NoVerdict("self-test program did not end after SIGQUIT")
    return obs_proc(p.returncode, so.decode("utf8", "replace"), se.decode("utf8", "replace"), False)


def _replay(chk, ego, testbin, env, sd):
    rep = json.load(open(os.environ["VERIF_REPLAY"]))["replay"]
    src = rep["src"].encode("latin-1")
    case = {"id": 0, "cls": rep.get("cls", ["replay"])}
    print(src[:3000].decode("utf8", "replace"))
    recs = []
    for entry in ("run", "repl"):
        o = run_real(ego, env, sd, [(0, src)], entry, nproc=1)[0]
        print("%s: rc=%s timeout=%s trace=%s %s @ %s\n%s" % (entry, o["rc"], o["timeout"], o["trace"], o["head"], o["site"], o.get("stderr_tail", "")[:1200]))
        recs.append(_record(case, entry, o))
    o = run_lib(testbin, env, sd, [(0, src)], 1, 8000)[0]
    print("lib: timeout=%s panic=%s %s @ %s" % (o["timeout"], o["trace"], o["head"], o["site"]))
    recs.append(_record(case, "lib", o))
    pool = SrvPool(sd, ego)
    try:
        res, _ = run_server(pool, [(0, src)], 1, 20 * load_factor())
    finally:
        pool.stop()
    if 0 in res:
        print("server: %s" % {k: res[0][k] for k in ("timeout", "trace", "alive", "recovered", "err", "head")})
        recs.append(_record(case, "server", res[0]))
    n, bad, _ = _judge(chk, sd, recs, "replay")
    for b in bad:
        chk.violation(b["key"], "replayed text still ends in a host crash through '%s'" % b["entry"], rep)
    return chk.finish()


def run():
    thorough = vf.TIER == "thorough"
    chk = vf.Check(PROP)
    chk.assumptions += [
        "'all byte strings' is explored, not exhausted: single token-level edits of the base programs in spec/EgoCrash/corpus "
        "(the slice of the tier and seed; every edit of the one-variant kinds in the thorough tier), a sample of second edits, and "
        "a fixed list of byte blobs (NUL, invalid UTF-8, BOM, CR, 100 000 character identifier, 5 000 digit number, 200 000 "
        "character string, 20 000 unclosed brackets / unary operators) inserted at the same positions",
        "every process that runs generated text has a time bound and a %d GiB address-space limit; ending in either (including the "
        "Go runtime's 'out of memory' under that limit) is the allowed outcome timeout / resource" % (MEMLIMIT_KB >> 20),
        "a handler panic that the server's router recovers (HTTP 500, server still answering) does not terminate the process and "
        "is allowed for the server door; the same text is then also sent through `ego run` and the console",
        "the console door is `ego run` with the program on standard input (piped; the line-by-line terminal prompt is not driven); "
        "the server door is POST /admin/run as an administrator (not sandboxed) with `main()` appended, the way `ego run` appends "
        "@entrypoint main",
        "'lib' repeats main.go's app.Run([ego run file]) inside one process; state left behind by earlier texts is part of what it "
        "sees, so whatever panics there is confirmed by one real process per text before it is reported through 'run'/'repl' keys"]
    rng = random.Random(vf.SEED)
    with vf.scratch() as sd:
        ov = vf.make_overlay(sd, HARNESS)
        env = vf.ego_env(sd)
        cp = vf.write_ndjson(os.path.join(sd, "corpus.ndjson"), corpus())
        gcfg = "EgoCrash_Gen.cfg" if thorough else "EgoCrash_Genq.cfg"
        seedcfg = open(os.path.join(vf.VERIF, "spec", SPEC, gcfg)).read().replace("Seed = 1", "Seed = %d" % (vf.SEED % 100000))
        with ThreadPoolExecutor(max_workers=6) as ex:
            f_bin = ex.submit(vf.build_ego, sd, ov)
            f_tst = ex.submit(vf.go_test_compile, ov, ".", os.path.join(sd, "c07.test"), "verif", False, 2400)
            f_mc = ex.submit(vf.tlc, SPEC, "EgoCrash", "EgoCrash_MC.cfg", sd, workers=2, timeout=900)
            f_n1 = ex.submit(vf.tlc, SPEC, "EgoCrash", "EgoCrash_MC_noguard.cfg", sd, workers=2, timeout=900)
            f_n2 = ex.submit(vf.tlc, SPEC, "EgoCrash", "EgoCrash_MC_unchecked.cfg", sd, workers=2, timeout=900)
            f_gen = None
            if not os.environ.get("VERIF_REPLAY"):
                f_gen = ex.submit(vf.tlc, SPEC, "EgoCrash_Gen", "gen.cfg", sd, workers=6 if thorough else 4, timeout=3000,
                                  files={"corpus.ndjson": cp, "gen.cfg": seedcfg})
            ego, testbin = f_bin.result(), f_tst.result()
            if os.environ.get("VERIF_REPLAY"):
                return _replay(chk, ego, testbin, env, sd)
            # the scratch server starts while TLC is still generating
            pools = [SrvPool(sd, ego, k) for k in range(4 if thorough else 2)]
            r = vf.tlc_ok(f_mc.result(), "EgoCrash host model")
            chk.add_tlc(r, "host model, exhaustive (4 doors, 8 fault classes, MaxTexts=3)")
            for nm, f in (("native guard missing", f_n1), ("one unchecked stage", f_n2)):
                rn = f.result()
                if rn.violated != "NoHostCrash":
                    raise vf.NoVerdict("negative control '%s' did not violate NoHostCrash (%s %s)" % (nm, rn.violated, rn.error))
                chk.add_tlc(rn, "negative control (%s) violates NoHostCrash" % nm, count_states=False)
            rg = vf.tlc_ok(f_gen.result(), "EgoCrash_Gen")
            chk.add_tlc(rg, "generator: edits of the corpus (%s, seed %d)" % (gcfg, vf.SEED))
        cases = [c for c in rg.records if isinstance(c, dict) and "toks" in c]
        seen, uniq = set(), []
        for c in cases:
            src = render(c["toks"])
            if src not in seen:
                seen.add(src)
                c["src"] = src
                uniq.append(c)
        cases = uniq
        rng.shuffle(cases)
        for n, c in enumerate(cases):
            c["id"] = n
        if len(cases) < (20000 if thorough else 1500):
            raise vf.NoVerdict("generator too weak: %d cases" % len(cases))
        vf.log("cases: %d (%d with two edits)" % (len(cases), sum(c["n"] == 2 for c in cases)))
        items = [(c["id"], c["src"]) for c in cases]
        # ---- doors
        t0 = time.time()
        try:
            with ThreadPoolExecutor(max_workers=4) as ex:
                f_lib = ex.submit(run_lib, testbin, env, sd, items, 8 if thorough else 6, 2000)
                f_boot = [ex.submit(pl.start) for pl in pools]      # the scratch servers boot meanwhile
                nreal = 1500 if thorough else 60
                pick = rng.sample(items, min(nreal * 2, len(items)))
                f_run = ex.submit(run_real, ego, env, sd, pick[:nreal], "run", 12 if thorough else 8)
                f_rep = ex.submit(run_real, ego, env, sd, pick[nreal:], "repl", 12 if thorough else 8)
                lib = f_lib.result()
                for f in f_boot:
                    f.result()
                # texts that ran into the time bound in-process would do the same inside the server and leave it spinning or
                # holding blocked goroutines: only a few of them go through the server door (selection, not a verdict)
                slow = [it for it in items if lib.get(it[0], {}).get("timeout")]
                keep = {it[0] for it in rng.sample(slow, min(len(slow), 40 if thorough else 8))}
                sitems = [it for it in items if not lib.get(it[0], {}).get("timeout") or it[0] in keep]
                # ... and some of them get the real binary's much longer bound: a text that recurses without end inside the
                # compiler takes half a minute to exhaust the stack (fatal error: stack overflow), far beyond the in-process bound
                cls_of = {c["id"]: c["cls"][-1] for c in cases}
                plain = [it for it in slow if "<DEEP" not in cls_of[it[0]] and it[0] not in dict(pick)]
                f_slow = ex.submit(run_real, ego, env, sd, rng.sample(plain, min(len(plain), 150 if thorough else 6)), "run",
                                   12 if thorough else 6)
                # one client per server: two texts compiled at the same moment in one server are outside this property
                # (and do kill it: settings.Get / SetDefault share an unguarded map), so throughput comes from several servers
                srv, restarts = {}, 0
                with ThreadPoolExecutor(max_workers=len(pools)) as ex2:
                    for r, n in ex2.map(lambda k: run_server(pools[k], sitems[k::len(pools)], 1, 3 + 0.5 * load_factor()),
                                        range(len(pools))):
                        srv.update(r)
                        restarts += n
                runs, repl = f_run.result(), f_rep.result()
                runs.update(f_slow.result())
        finally:
            for pl in pools:
                pl.stop()
        vf.log("doors done in %.0fs: lib %d, server %d (%d restarts), run %d, repl %d" % (time.time() - t0, len(lib), len(srv), restarts, len(runs), len(repl)))
        # ---- 'lib' shares one process between many texts: whatever ended badly there is run again alone, in a fresh process,
        #      and that observation is the one that counts (state left behind by earlier texts is the driver's, not the text's)
        byid = dict(items)
        again = [cid for cid, o in lib.items() if o["trace"] or not o["alive"] or o["signal"] or o["oom"]]
        interference = []
        if again:
            with ThreadPoolExecutor(max_workers=6) as ex:
                alone = list(ex.map(lambda cid: run_lib(testbin, env, sd, [(cid, byid[cid])], 1, 6000).get(cid), again[:120]))
            for cid, o in zip(again[:120], alone):
                if o is None:
                    raise vf.NoVerdict("in-process driver gave no result for a text run alone")
                if not (o["trace"] or not o["alive"] or o["signal"]):
                    interference.append({"id": cid, "shared": {k: lib[cid].get(k) for k in ("kind", "site", "head")}})
                lib[cid] = o
        chk.cov["lib_ended_badly_only_in_shared_process"] = len(interference)
        if interference:
            chk.notes.append("texts that ended badly only after other texts in the same in-process driver (not counted): %s"
                             % json.dumps(interference[:5]))
        # ---- whatever panicked in-process / was recovered by the router / killed the server goes through the real binary too
        sus = {}
        for cid, o in list(lib.items()) + list(srv.items()):
            if o["trace"] or o["recovered"] or not o["alive"] or o["signal"]:
                sus.setdefault((o.get("kind"), o.get("site")), []).append(cid)
        esc = []
        for k in sorted(sus, key=str):
            esc += sorted(set(sus[k]))[:3]
        esc = [cid for cid in dict.fromkeys(esc)][:90]
        if esc:
            e1 = run_real(ego, env, sd, [(cid, byid[cid]) for cid in esc if cid not in runs], "run", 8)
            e2 = run_real(ego, env, sd, [(cid, byid[cid]) for cid in esc if cid not in repl], "repl", 8)
            runs.update(e1)
            repl.update(e2)
        # ---- F binding: the contract judges every execution; the same TLC run judges the binding self-test records
        recs, obs_of = [], {}
        cb = {c["id"]: c for c in cases}
        for entry, res in (("lib", lib), ("server", srv), ("run", runs), ("repl", repl)):
            for cid, o in sorted(res.items()):
                recs.append(_record(cb[cid], entry, o))
                obs_of[(cid, entry)] = o
        oq = _selftest_sigquit(ego, env, sd)
        probe = [_record({"id": -1, "cls": ["selftest-sigquit"]}, "run", oq)]
        for r in [r for r in recs if not (r["trace"] or r["signal"] or not r["alive"])][:40]:
            for mut in ({"trace": True, "kind": "index", "site": "selftest.site"}, {"alive": False}, {"signal": 11}):
                x = dict(r, timeout=False, oom=False, id=-2 - len(probe))
                x.update(mut)
                probe.append(x)
        n, bad, trun = _judge(chk, sd, recs + probe, "contract over %d executions (+%d self-test records)" % (len(recs), len(probe)))
        if n != len(recs) + len(probe):
            raise vf.NoVerdict("contract judged %d of %d records" % (n, len(recs) + len(probe)))
        rejected = {b["idx"] for b in bad if b["idx"] > len(recs)}
        if rejected != set(range(len(recs) + 1, len(recs) + len(probe) + 1)) or len(probe) < 4:
            raise vf.NoVerdict("binding self-test failed: %d of %d crash records rejected (SIGQUIT observation: %s)" % (len(rejected), len(probe), oq))
        bad = [b for b in bad if b["idx"] <= len(recs)]
        if len(bad) == len(recs):
            raise vf.NoVerdict("the contract rejected every execution")
        chk.cov["binding_selftest"] = ("%d records of real executions perturbed into a crash (trace / dead process / signal) and one real "
                                       "`ego run` ended by SIGQUIT (Go trace: %s) were all rejected by the contract, %d of %d real records accepted"
                                       % (len(probe) - 1, oq["head"][:40], len(recs) - len(bad), len(recs)))
        for b in bad:
            c, o = cb[b["id"]], obs_of[(b["id"], b["entry"])]
            chk.violation(b["key"], "text [%s, %s] ends the host through '%s': %s at %s"
                          % (c["b"], "+".join(c["cls"]), b["entry"], o.get("head") or o.get("kind"), o.get("site")),
                          {"entry": b["entry"], "base": c["b"], "cls": c["cls"], "at": c["at"], "src": c["src"].decode("latin-1"),
                           "observed": {k: v for k, v in o.items() if k != "ms"}})
        # ---- evidence
        ends = {}
        for e in ("lib", "server", "run", "repl"):
            ends[e] = {}
        for r in recs:
            o = ("resource" if r["oom"] else "hostcrash" if r["trace"] else "timeout" if r["timeout"] else
                 "hostcrash" if (r["signal"] or not r["alive"]) else "recovered" if r["recovered"] else "error" if r["err"] else "output")
            ends[r["entry"]][o] = ends[r["entry"]].get(o, 0) + 1
        chk.cov["ends_by_door(display only)"] = ends
        chk.cov["traces_validated_against_impl"] = len(recs)
        chk.cov["evaluations"] = len(recs)
        chk.cov["distinct_nontrivial"] = len({(c["b"], tuple(c["cls"])) for c in cases})
        chk.cov["cases"] = len(cases)
        chk.cov["cases_two_edits"] = sum(c["n"] == 2 for c in cases)
        chk.cov["by_kind"] = {}
        for c in cases:
            k = c["cls"][-1].split("/")[0]
            chk.cov["by_kind"][k] = chk.cov["by_kind"].get(k, 0) + 1
        chk.cov["escalated_to_real_binary"] = len(esc)
        chk.cov["server_restarts"] = restarts
        chk.cov["rule"] = ("case = one text computed by EgoCrash_Gen (a base program of the corpus with one or two token-level edits); "
                           "execution = that text run through one door of the real code, logged as an observation record and judged by "
                           "EgoCrashDefs!Post; distinct_nontrivial = distinct (base program, edit class) pairs")
        chk.cov["exhaustive"] = False
        for c in cases[:3]:
            chk.sample({"base": c["b"], "edit": c["cls"], "at": c["at"], "text": c["src"][:400].decode("utf8", "replace"),
                        "lib": {k: lib.get(c["id"], {}).get(k) for k in ("timeout", "trace", "err")},
                        "server": {k: srv.get(c["id"], {}).get(k) for k in ("timeout", "recovered", "err", "alive")}})
    return chk.finish()

"""C31 - the file-backed and the database-backed user store agree and persist.
spec/UserStore (+_Gen).  Stages: MC of the design (abstract store x fileService x databaseService, consistent
switches) ; negative controls (each as-is switch must break an invariant) ; R: behaviours of the abstract store
replayed into BOTH real services side by side (simulation + exhaustive short histories + bootstrap stage) ;
binding self-test (perturbed expected values must be reported)."""
import json, os, random, re
from concurrent.futures import ThreadPoolExecutor
import vf

PROP = "C31"
HARNESS = [vf.kit("internal/server/auth", "auth"),
           ("userstore/replay_test.go", "internal/server/auth/zz_verif_userstore_test.go")]
PKG = "./internal/server/auth/"
TEST = "TestVerifUserStoreReplay"

# The statement fixes no particular rule for WHEN setPermission installs the default "logon" permission; it
# demands that both stores apply one rule consistently, also across a reopen.  Both consistent rules are
# accepted: the real services must conform to every behaviour of ONE of them.
POLICIES = ["empty", "nilonly"]


def cfg_variant(name, subs):
    txt = open(os.path.join(vf.VERIF, "spec", "UserStore", name)).read()
    for k, v in subs.items():
        txt, n = re.subn(r"(?m)^(\s*%s\s*(?:=|<-)\s*).*$" % re.escape(k), lambda m: m.group(1) + v, txt)
        if n != 1:
            raise vf.NoVerdict("cfg_variant: %s not found once in %s" % (k, name))
    return txt


def generate(chk, sd, base, subs, name, simulate=None, depth=None, seed=None):
    """behaviours of UserStore_Gen under a configuration derived from `base`"""
    cfgname = "gen_%s.cfg" % re.sub(r"\W+", "_", name)
    r = vf.tlc("UserStore", "UserStore_Gen", cfgname, sd, workers=1 if simulate else 2,
               simulate=simulate, depth=depth, seed=seed, timeout=1500,
               files={cfgname: cfg_variant(base, subs)})
    if r.violated or r.error or r.rc != 0:
        raise vf.NoVerdict("behaviour generation (%s) failed: %s %s\n%s" % (name, r.violated, r.error, r.stdout[-2000:]))
    chk.add_tlc(r, "gen " + name, count_states=False)
    seen, out = set(), []
    for b in r.records:
        s = json.dumps(b, sort_keys=True)
        if s not in seen:
            seen.add(s)
            out.append(b)
    if not out:
        raise vf.NoVerdict("generator %s produced no behaviours" % name)
    return out


def replay_one(sd, binary, behs, tag, env=None, timeout=7200):
    bf = vf.write_ndjson(os.path.join(sd, "beh_%s.ndjson" % tag), behs)
    out = os.path.join(sd, "replay_%s.json" % tag)
    e = {"VERIF_IN": bf, "VERIF_OUT": out, "VERIF_TMP": sd}
    e.update(env or {})
    p = vf.run([binary, "-test.run", "^%s$" % TEST, "-test.timeout", "%ds" % timeout], cwd=sd, env=vf.goenv(e), timeout=timeout + 120)
    if p.returncode != 0 or not os.path.exists(out):
        if "test timed out" in p.stdout + p.stderr:
            raise vf.NoVerdict("replay harness %s timed out after %ss (machine too loaded?)" % (tag, timeout))
        raise vf.NoVerdict("replay harness failed (%s, rc=%d)\n%s\n%s" % (tag, p.returncode, p.stdout[:1500] + p.stdout[-1500:], p.stderr[-3000:]))
    res = json.load(open(out))
    if res["behaviours"] != len(behs):
        raise vf.NoVerdict("replay %s stopped early: %s of %s\n%s" % (tag, res["behaviours"], len(behs), p.stdout[-2000:]))
    return res


def transitions(behs):
    """distinct (expected contents before, call) pairs in the behaviours (input statistics, not a verdict)"""
    seen = set()
    for b in behs:
        prev = "start"
        for s in b:
            seen.add(prev + "|" + json.dumps(s["call"], sort_keys=True))
            prev = json.dumps(s["st"], sort_keys=True)
    return len(seen)


def replay(sd, binary, behs, tag, env=None, pool=None, parts=4):
    """replays behaviours on the real services; large sets are split over several harness processes
    (the AuthCache is process-global, so each process owns its behaviours from start to end)"""
    if pool is None or len(behs) < 200:
        res = replay_one(sd, binary, behs, tag, env)
        res["transitions"] = transitions(behs)
        return res
    n = (len(behs) + parts - 1) // parts
    chunks = [(i, behs[i:i + n]) for i in range(0, len(behs), n)]
    futs = [(off, pool.submit(replay_one, sd, binary, ch, "%s_%d" % (tag, k), env)) for k, (off, ch) in enumerate(chunks)]
    tot = {"behaviours": 0, "steps": 0, "mismatches": [], "key_counts": {}, "bad_behaviours": [], "act_counts": {},
           "fresh_starts": 0, "elapsed_ms": 0}
    for off, f in futs:
        r = f.result()
        for k in ("behaviours", "steps", "fresh_starts"):
            tot[k] += r[k]
        tot["elapsed_ms"] = max(tot["elapsed_ms"], r["elapsed_ms"])
        for m in r.get("mismatches") or []:
            m["behaviour"] += off
            tot["mismatches"].append(m)
        for k, v in (r.get("key_counts") or {}).items():
            tot["key_counts"][k] = tot["key_counts"].get(k, 0) + v
        for k, v in (r.get("act_counts") or {}).items():
            tot["act_counts"][k] = tot["act_counts"].get(k, 0) + v
        tot["bad_behaviours"] += [i + off for i in (r.get("bad_behaviours") or [])]
    tot["transitions"] = transitions(behs)
    return tot


def keys_of(res):
    return set(res.get("key_counts") or {})


def run():
    thorough = vf.TIER == "thorough"
    chk = vf.Check(PROP)
    chk.assumptions += [
        "sequential callers (one call at a time on each service); concurrent use of a store is not modelled",
        "the database service is exercised on SQLite only (no PostgreSQL offline); 'restart' = Close, empty AuthCache, open again in the same test process",
        "a nil and an empty permission list are the same answer and a permission list is compared as a multiset (order carries no meaning: the admin endpoint rebuilds it from a map); Passkeys are compared as JSON values; a bootstrapped default credential is observed as its class (boot | given/generated), never its random value",
        "records are written through WriteUser with three fixed credentials (no bcrypt in the hot path); the password mask expected from ListUsers(true) is defs.ElidedPassword",
        "no faults are injected (I/O and SQL errors are outside the histories)"]
    rng = random.Random(vf.SEED)
    with vf.scratch() as sd:
        if os.environ.get("VERIF_REPLAY"):
            return replay_only(chk, sd, os.environ["VERIF_REPLAY"])
        pool = ThreadPoolExecutor(max_workers=4)     # TLC runs and the Go build overlap (each TLC run is mostly JVM start)
        ov = vf.make_overlay(sd, HARNESS)
        binary = os.path.join(sd, "auth.test")
        fbuild = pool.submit(vf.go_test_compile, ov, PKG, binary, timeout=3600)

        def gen_stage(policy):
            subs = {"Policy": '"%s"' % policy, "Depth": "24" if thorough else "20"}
            if thorough:
                subs["Names"] = '{"admin", "bob", "Bob", "o\'neil"}'
            fs = pool.submit(generate, chk, sd, "UserStore_Gen.cfg", subs,
                             "sim-" + policy, "num=%d" % (600 if thorough else 200), 26 if thorough else 22, vf.SEED)
            fx = pool.submit(generate, chk, sd, "UserStore_GenX.cfg", {"Policy": '"%s"' % policy, "Depth": "4" if thorough else "3"},
                             "exhaustive-" + policy)
            return fs, fx
        fgen = {POLICIES[0]: gen_stage(POLICIES[0])}
        fboot = {pw: pool.submit(generate, chk, sd, "UserStore_GenBoot.cfg", {"DefaultPw": '"%s"' % pw, "Depth": "3" if thorough else "1"},
                                 "boot-" + (pw or "nopw")) for pw in ("", "secret")}
        # 1. the design: with the consistent switches the three stores agree in every reachable state
        fmc = [(pool.submit(vf.tlc, "UserStore", "UserStore", "UserStore_MC.cfg" if thorough else "UserStore_MCq.cfg", sd,
                            workers=4, timeout=5400), "MC consistent design (policy empty)")]
        if thorough:
            fmc.append((pool.submit(vf.tlc, "UserStore", "UserStore", "UserStore_MCq_nilonly.cfg", sd, workers=4, timeout=3000),
                        "MC consistent design (policy nilonly, file store keeps nil and empty apart)"))
        # 2. negative controls: every difference found in the tree, put into the model alone, breaks an invariant
        fneg = [(cfg, allowed, pool.submit(vf.tlc, "UserStore", "UserStore", cfg, sd, workers=2, timeout=900))
                for cfg, allowed in (("UserStore_MC_asis_nil.cfg", ("SameFuture", "AgreeRead")),
                                     ("UserStore_MC_asis_boot.cfg", ("ReopenKeeps", "AgreeList", "AgreeRead")),
                                     ("UserStore_MC_asis_mask.cfg", ("AgreeList",)),
                                     ("UserStore_MC_asis_bootpw.cfg", ("AgreeRead",)))]
        for f, name in fmc:
            chk.add_tlc(vf.tlc_ok(f.result(), name), name)
        for cfg, allowed, f in fneg:
            rn = f.result()
            if rn.violated not in allowed:
                raise vf.NoVerdict("negative control %s did not violate one of %s (%s %s)" % (cfg, allowed, rn.violated, rn.error))
            chk.add_tlc(rn, "negative control %s violates %s" % (cfg, rn.violated), count_states=False)

        # 3. R: behaviours of the abstract store replayed into both real services
        fbuild.result()
        results = {}
        for policy in POLICIES:
            if policy not in fgen:
                fgen[policy] = gen_stage(policy)
            sims, exh = fgen[policy][0].result(), fgen[policy][1].result()
            res = replay(sd, binary, sims + exh, policy, {"VERIF_FRESH": "2"}, pool=pool)
            results[policy] = (res, sims, exh)
            if not keys_of(res):
                break      # the services conform to every behaviour under this rule
        conform = [p for p in results if not keys_of(results[p][0])]
        if conform:
            policy = conform[0]
        else:
            # neither rule: report against the rule the fewest kinds of difference remain under
            policy = min(results, key=lambda p: (len(keys_of(results[p][0])), POLICIES.index(p) != 1))
        res, sims, exh = results[policy]
        chk.cov["policy"] = {"accepted": conform, "reported_against": policy,
                             "difference_kinds": {p: sorted(keys_of(results[p][0])) for p in results}}
        report(chk, res, "policy=" + policy)
        for p in results:
            rr = results[p][0]
            chk.cov["traces_validated_against_impl"] += rr["behaviours"]
            chk.cov["evaluations"] += rr["steps"] * 2
            chk.cov["distinct_nontrivial"] += rr["transitions"]
        chk.cov["replay_act_counts"] = res["act_counts"]
        chk.cov["replay_ms"] = {p: results[p][0]["elapsed_ms"] for p in results}
        chk.cov["behaviours"] = {"simulated": len(sims), "exhaustive_short": len(exh), "fresh_first_starts": res["fresh_starts"]}
        chk.sample({"kind": "replayed behaviour (calls only)", "calls": [s["call"] for s in sims[0]][:12]})
        chk.sample({"kind": "expected contents after the last step of that behaviour", "st": sims[0][-1]["st"]})

        # 4. bootstrap stage: first start from the default credential, both ways of giving it
        for pw in ("", "secret"):
            boots = fboot[pw].result()
            benv = {"VERIF_FRESH": "1000000", "VERIF_BOOT_OBS": "fine", "VERIF_DEFAULT_PW": pw}
            rb = replay(sd, binary, boots, "boot_" + (pw or "nopw"), benv)
            report(chk, rb, "default password %r" % pw, prefix="boot/" + ("pw" if pw else "nopw"), env=benv)
            chk.cov["traces_validated_against_impl"] += rb["behaviours"]
            chk.cov["evaluations"] += rb["steps"] * 2
        chk.sample({"kind": "bootstrap behaviour", "steps": boots[0]})

        # 5. binding self-test: perturb one expected value (a permission list, a reply, a credential) in a
        #    behaviour the services conform to and require the harness to report exactly that step
        selftest(chk, sd, binary, res, sims + exh, rng)

        chk.cov["rule"] = ("behaviours = TLC simulation of UserStore_Gen (one per trace) + every history of the short exhaustive "
                           "alphabet (BFS of the generator) + bootstrap histories; each step is executed on fileService and on "
                           "databaseService and reply + ListUsers(false/true) contents compared with TLC's values (evaluations = "
                           "steps x 2 services); non-trivial+distinct = distinct (expected contents before, call) pairs")
        chk.cov["exhaustive"] = False
    return chk.finish()


def replay_only(chk, sd, replay_file):
    m = (json.load(open(replay_file)).get("replay") or {})
    beh = m.get("prefix") or []
    if not beh:
        raise vf.NoVerdict("replay file has no behaviour")
    ov = vf.make_overlay(sd, HARNESS)
    binary = vf.go_test_compile(ov, PKG, os.path.join(sd, "auth.test"), timeout=3600)
    env = {"VERIF_FRESH": "1"}
    env.update(m.get("env") or {})
    res = replay(sd, binary, [beh], "one", env)
    report(chk, res, "replay file", prefix=m.get("key_prefix"), env=m.get("env"))
    chk.cov["traces_validated_against_impl"] = res["behaviours"]
    chk.cov["evaluations"] = res["steps"] * 2
    chk.cov["states"], chk.cov["transitions"] = 1, max(1, res["steps"])
    chk.sample({"kind": "replay file", "calls": [s["call"] for s in beh]})
    chk.cov["rule"] = "single behaviour from a replay file"
    return chk.finish()


def report(chk, res, what, prefix=None, env=None):
    for m in res.get("mismatches") or []:
        if prefix and prefix.startswith("boot/") and m["key"].endswith("/mask"):
            continue        # the mask is one constant of a service; the main stage reports it
        if env:
            m["env"] = env
        if prefix:
            m["key_prefix"] = prefix
        key = (prefix + "/" if prefix else "") + m["key"]
        chk.violation(key, "%s service differs from the specification (%s) at %s after %s [%s]: spec=%s real=%s (%d occurrences)"
                      % (m["backend"], what, m["path"], m["act"], m["ctx"], m["want"], m["got"],
                         (res.get("key_counts") or {}).get(m["key"], 1)), m)


def selftest(chk, sd, binary, res, behs, rng):
    bad = set(res.get("bad_behaviours") or [])
    good = [b for i, b in enumerate(behs) if i not in bad]
    done = []

    def pick(pred):
        cands = [(bi, si) for bi, b in enumerate(good) for si, s in enumerate(b) if si > 0 and pred(s)]
        return rng.choice(cands) if cands else None

    def users_on(s):
        return [n for n, u in s["st"]["users"].items() if u["on"]]
    perturbed, expect = [], []
    # (a) a permission list in the expected contents
    c = pick(lambda s: users_on(s))
    if c:
        b = json.loads(json.dumps(good[c[0]]))
        n = sorted(users_on(b[c[1]]))[0]
        b[c[1]]["st"]["users"][n]["perms"] = b[c[1]]["st"]["users"][n]["perms"] + ["bogus"]
        perturbed.append(b); expect.append((c[1], "state", "perms"))
    # (b) the reply of a SetPerm / Read
    c = pick(lambda s: s["call"]["act"] == "SetPerm" and s["reply"] == "ok")
    if c:
        b = json.loads(json.dumps(good[c[0]]))
        b[c[1]]["reply"] = "nosuchuser"
        perturbed.append(b); expect.append((c[1], "reply", ""))
    # (c) a credential
    c = pick(lambda s: any(u["on"] and u["cred"] in ("c1", "c2") for u in s["st"]["users"].values()))
    if c:
        b = json.loads(json.dumps(good[c[0]]))
        for n, u in sorted(b[c[1]]["st"]["users"].items()):
            if u["on"] and u["cred"] in ("c1", "c2"):
                u["cred"] = "c2" if u["cred"] == "c1" else "c1"
                break
        perturbed.append(b); expect.append((c[1], "state", "cred"))
    # (d) a user that should have been deleted
    c = pick(lambda s: s["call"]["act"] == "Delete" and s["call"]["ctx"] == "present")
    if c:
        b = json.loads(json.dumps(good[c[0]]))
        n = b[c[1]]["call"]["n"]
        b[c[1]]["st"]["users"][n] = b[c[1] - 1]["st"]["users"][n]
        perturbed.append(b); expect.append((c[1], "state", ""))
    if len(perturbed) < 3:
        raise vf.NoVerdict("self-test: no conforming behaviour to perturb (%d candidates)" % len(perturbed))
    rs = replay(sd, binary, perturbed, "selftest", {"VERIF_FRESH": "0", "VERIF_MAX_PER_KEY": "1000"})
    for i, (si, comp, fld) in enumerate(expect):
        hits = [m for m in rs["mismatches"] if m["behaviour"] == i and m["step"] == si and m["comp"] == comp and fld in m["field"]]
        backs = {m["backend"] for m in hits}
        if backs != {"file", "db"}:
            raise vf.NoVerdict("binding self-test failed: perturbation %d (%s %s at step %d) was reported for %s, not for both services"
                               % (i, comp, fld, si, sorted(backs)))
        done.append("%s%s@%d" % (comp, "/" + fld if fld else "", si))
    chk.cov["binding_selftest"] = "perturbed expected values reported for both services: " + ", ".join(done)

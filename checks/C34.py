"""C34 - minified CSS keeps the stylesheet's meaning.
spec/CssMinify: CssLex (reference CSS tokenizer + the canonical token sequence a minifier must preserve),
CssMinify (MinifyCSS transcribed branch by branch; the environment builds stylesheets from lexeme tables),
CssMinify_Trace (contract over logged input/output pairs).
Stages: MC + generation (exhaustive BFS over the byte tables and the context/left/separator/right/context table,
-simulate over the rule grammar) ; negative controls ; F level A (real MinifyCSS on every generated stylesheet and on
the shipped stylesheets, whole and rule by rule) ; F level B (the real asset handler serving them with minification
on) ; contract ; binding self-test.  `--replay f` re-runs the input stored in a replay file."""
import json, os, random, time
from concurrent.futures import ThreadPoolExecutor
import vf

PROP = "C34"
SPEC = "CssMinify"
HARNESS = [vf.kit("internal/util/javascript", "javascript"),
           ("cssminify/minify_test.go", "internal/util/javascript/zz_verif_c34_test.go"),
           vf.kit("internal/server/assets", "assets"),
           ("cssminify/asset_test.go", "internal/server/assets/zz_verif_c34_test.go")]
MODEL_IMPL = "fixed"        # the loop the check is meant for (tree + proposed repairs); "asis" is a negative control

JVM_SMALL = {"JAVA_TOOL_OPTIONS": "-XX:ParallelGCThreads=2 -Xmx3g -Xss16m"}
JVM_BIG = {"JAVA_TOOL_OPTIONS": "-XX:ParallelGCThreads=2 -Xmx6g -Xss16m"}


def B(s):
    return list(s.encode("utf-8"))


# known-bad / known-good pairs for the binding self-test of the contract (appended to every contract run)
SELF = [
    (B("a .b{}"), B("a.b{}"), False),                              # descendant combinator lost
    (B("a{b:calc(c + d)}"), B("a{b:calc(c+d)}"), False),           # operator spacing lost
    (B("a/**/b{}"), B("ab{}"), False),                             # two identifiers run together
    (B('a{b:"x  y"}'), B('a{b:"x y"}'), False),                    # string content changed
    (B("a{b:c;d:e}"), B("a{b:c d:e}"), False),                     # a semicolon that was not redundant is gone
    (B("a , b { c : d ; ; }\n"), B("a,b{c:d}"), True),             # only insignificant space / redundant semicolons gone
    (B("a :hover > b{}"), B("a :hover>b{}"), True),
]


def _cfg(rows, start, maxn, impl, invariants):
    return ("SPECIFICATION Spec\nCONSTANTS\n  Rows <- %s\n  Start = \"%s\"\n  MaxN = %d\n  Impl = \"%s\"\n"
            "INVARIANTS %s\nCHECK_DEADLOCK FALSE\n" % (rows, start, maxn, impl, invariants))


def _show(bs):
    return "".join(chr(c) if 32 <= c < 127 and c != 92 else "\\n" if c == 10 else "\\t" if c == 9 else "\\\\" if c == 92
                   else "\\x%02x" % c for c in bs)


def _texts(r):
    seen, out = set(), []
    for x in r.records:
        if isinstance(x, list) and x:
            k = bytes(x)
            if k not in seen:
                seen.add(k)
                out.append(x)
    return out


def _contract(chk, sd, path, name, timeout):
    r = vf.tlc(SPEC, "CssMinify_Trace", "CssMinify_Trace.cfg", sd, workers=1, files={"io.ndjson": path}, timeout=timeout,
               env=JVM_BIG)
    if r.error or r.violated or r.rc != 0:
        raise vf.NoVerdict("contract failed to evaluate: %s %s\n%s" % (r.violated, r.error, r.stdout[-2500:]))
    rep = [x for x in r.records if isinstance(x, dict) and "bad" in x and "n" in x]
    if not rep:
        raise vf.NoVerdict("contract printed no report\n%s" % r.stdout[-1500:])
    rep = rep[-1]
    if name:
        chk.add_tlc(r, name, count_states=False)
    vf.log("tlc %-28s %6.1fs  %d records judged" % (name or "contract", r.wall, int(rep["n"])))
    return rep


def _judge(chk, sd, recs, label, shards, timeout):
    """Contract over recs (each {"in","out",...}) in `shards` parallel TLC runs; the self-test pairs are appended to
    every shard.  Returns (bad records as (record, key), feature counts); NoVerdict if a self-test pair is misjudged."""
    shards = max(1, min(shards, (len(recs) + 199) // 200))
    parts = [recs[k::shards] for k in range(shards)]
    selfrecs = [{"in": i, "out": o, "src": "selftest", "same": True} for i, o, _g in SELF]
    paths = [vf.write_ndjson(os.path.join(sd, "j%s%d.ndjson" % (label, k)), p + selfrecs) for k, p in enumerate(parts)]
    with ThreadPoolExecutor(max_workers=shards) as ex:
        reps = list(ex.map(lambda kp: _contract(chk, sd, kp[1], "contract %s shard %d" % (label, kp[0]) if kp[0] == 0 else None,
                                                timeout), enumerate(paths)))
    bad, feats, skipped = [], {}, 0
    for part, rep in zip(parts, reps):
        if int(rep["n"]) != len(part) + len(SELF):
            raise vf.NoVerdict("contract judged %s of %d records" % (rep["n"], len(part) + len(SELF)))
        bl = rep["bad"] if isinstance(rep["bad"], list) else []
        got = sorted(b["idx"] - len(part) for b in bl if b["idx"] > len(part))
        want = [k + 1 for k, (_i, _o, good) in enumerate(SELF) if not good]
        if got != want:
            raise vf.NoVerdict("binding self-test failed: known-bad pairs %s, contract rejected %s" % (want, got))
        skipped += int(rep.get("skipped", 0))
        for f, c in (rep.get("feat") or {}).items():
            feats[f] = feats.get(f, 0) + int(c)
        bad += [(part[b["idx"] - 1], b["key"]) for b in bl if b["idx"] <= len(part)]
    return bad, feats, skipped


def _drive(sd, texts, sample, files, whole_a=True):
    """Level A (MinifyCSS) on texts + files, level B (asset handler) on sample + files; returns the two logs."""
    tin = vf.write_ndjson(os.path.join(sd, "texts.ndjson"), texts)
    sin = vf.write_ndjson(os.path.join(sd, "sample.ndjson"), sample)
    fa = vf.write_ndjson(os.path.join(sd, "filesA.ndjson"), [{"path": p, "whole": whole_a, "split": True} for p in files])
    fb = vf.write_ndjson(os.path.join(sd, "filesB.ndjson"), [{"path": p} for p in files])
    ioa, iob = os.path.join(sd, "ioA.ndjson"), os.path.join(sd, "ioB.ndjson")
    ov = vf.make_overlay(sd, HARNESS)

    def a():
        return vf.go_test(ov, "./internal/util/javascript/", "^TestVerifC34Minify$",
                          env={"VERIF_IN": tin, "VERIF_OUT": ioa, "VERIF_FILES": fa}, timeout=3000)

    def b():
        return vf.go_test(ov, "./internal/server/assets/", "^TestVerifC34Asset$",
                          env={"VERIF_IN": sin, "VERIF_OUT": iob, "VERIF_FILES": fb}, timeout=3000)

    with ThreadPoolExecutor(max_workers=2) as ex:
        fa_, fb_ = ex.submit(a), ex.submit(b)
        pa, pb = fa_.result(), fb_.result()
    for p, out in ((pa, ioa), (pb, iob)):
        if p.returncode != 0 or not os.path.exists(out):
            raise vf.NoVerdict("driver failed (rc=%d)\n%s\n%s" % (p.returncode, p.stdout[-3000:], p.stderr[-3000:]))
    la, lb = vf.read_ndjson(ioa), vf.read_ndjson(iob)
    if [r["in"] for r in la[:len(texts)]] != texts or len(la) <= len(texts):
        raise vf.NoVerdict("level A driver did not run the stylesheets TLC generated and the shipped files")
    if [r["in"] for r in lb[:len(sample)]] != sample or len(lb) != len(sample) + len(files):
        raise vf.NoVerdict("level B driver did not serve every stylesheet")
    return la, lb


def _report(chk, bad, level):
    for r, key in bad:
        what = ("%s(%s) = %s: not the same CSS tokens" % ("MinifyCSS" if level == "A" else "GET /assets/*.css of ",
                                                          _show(r["in"][:160]), _show(r["out"][:160])))
        chk.violation(key if level == "A" else key.replace("css/", "css-served/", 1), what,
                      {"level": level, "in": r["in"] if len(r["in"]) <= 4000 else r["in"][:4000], "src": r.get("src"),
                       "out": r["out"][:4000], "in_text": _show(r["in"][:400]), "out_text": _show(r["out"][:400])})


def _files():
    fs = [os.path.join(vf.REPO, "lib/assets/dashboard/dashboard.css"), os.path.join(vf.REPO, "lib/assets/test.asset.css")]
    for f in fs:
        if not os.path.exists(f):
            raise vf.NoVerdict("shipped stylesheet missing: " + f)
    return fs


def _replay(chk, sd, path):
    rp = json.load(open(path)).get("replay") or {}
    texts = [rp["in"]]
    la, lb = _drive(sd, texts, texts, _files())
    for lvl, log in (("A", la), ("B", lb)):
        bad, _f, _s = _judge(chk, sd, log[:1], "replay" + lvl, 1, 3600)
        _report(chk, bad, lvl)
    chk.cov.update(states=1, transitions=1, traces_validated_against_impl=2, evaluations=2, rule="replay of " + path)
    chk.sample({"kind": "replayed", "in": _show(texts[0][:200]), "out": _show(la[0]["out"][:200])})
    return chk.finish()


def run():
    thorough = vf.TIER == "thorough"
    chk = vf.Check(PROP)
    chk.assumptions += [
        "domain = lexically well-formed CSS over printable bytes: every comment, string and unquoted url( ) closed, no raw newline in a string, no backslash escape outside strings (escaped identifiers are not modelled), no bad-url",
        "meaning = the CSS Syntax Level 3 token sequence (names, numbers with units, strings raw, url contents, every other byte) with white space kept where it is a descendant combinator (selector context: prelude of a qualified rule, found from the next { ; } at the same nesting level) or separates an operand from + / - inside parentheses outside selectors; a `;` followed by `;` or `}` is redundant",
        "CDO/CDC tokens (<!-- -->), unicode-range and the legacy ~= |= match tokens are read as single-byte tokens; custom-property values are treated like any other declaration value",
        "level B serves through Router.ServeHTTP + AssetsHandler in process (httptest recorder), asset cache cold for every file",
    ]
    with vf.scratch() as sd:
        if os.environ.get("VERIF_REPLAY"):
            return _replay(chk, sd, os.environ["VERIF_REPLAY"])
        inv = "TokensSame Emit"
        nb, nsym = ("RowsNbrT", 5) if thorough else ("RowsNbrQ", 4)
        jobs = {
            # bounded + direct, and at the same time the generators of the inputs for the real code
            "nbr": ("CssMinify_Gen", _cfg(nb, "p", 5, MODEL_IMPL, inv), {}),
            "sim": None,
            "bsel": ("CssMinify_Gen", _cfg("RowsBytesSel", "x", nsym, MODEL_IMPL, inv + " Shrinks"), {}),
            "bsel2": ("CssMinify_Gen", _cfg("RowsBytesSel2", "x", nsym - 1, MODEL_IMPL, inv), {}),
            "bval": ("CssMinify_Gen", _cfg("RowsBytesVal", "x", nsym, MODEL_IMPL, inv), {}),
            "bstr": ("CssMinify_Gen", _cfg("RowsBytesStr", "x", nsym, MODEL_IMPL, inv), {}),
            # negative controls
            "colon": ("CssMinify_Gen", _cfg("RowsBytesSel", "x", 4, "colon", "TokensSame"), {}),
            "asis": ("CssMinify_Gen", _cfg("RowsNbrQ", "p", 5, "asis", "TokensSame"), {}),
        }
        # long random stylesheets following the rule grammar (simulation; every prefix in the domain is printed)
        jobs["sim"] = ("CssMinify_Gen", _cfg("RowsGram", "top", 60, MODEL_IMPL, inv),
                    dict(simulate="num=%d" % (300 if thorough else 30), depth=41 if thorough else 31, seed=vf.SEED))

        def one(item):
            name, (mod, cfg, kw) = item
            kw = dict(kw)
            kw.setdefault("workers", 4 if name in ("nbr", "bsel", "bsel2", "bval", "bstr") else 1)
            r = vf.tlc(SPEC, mod, name + ".cfg", sd, timeout=14400 if thorough else 3600, files={name + ".cfg": cfg},
                       env=JVM_SMALL, **kw)
            vf.log("tlc %-6s %6.1fs  %d states, %d records" % (name, r.wall, r.distinct, len(r.records)))
            return name, r

        with ThreadPoolExecutor(max_workers=5) as ex:
            res = dict(ex.map(one, jobs.items()))

        # 1. the design (with the proposed repairs) satisfies C34
        names = {"nbr": "MC: every context/left/separator/right/context combination (%s)" % nb,
                 "bsel": "MC: every string over 11 selector symbols up to %d" % nsym,
                 "bsel2": "MC: every string over 11 more selector symbols up to %d" % (nsym - 1),
                 "bval": "MC: every string over 10 value symbols up to %d" % nsym,
                 "bstr": "MC: every string over 12 string/comment/url symbols up to %d" % nsym}
        for nm, what in names.items():
            vf.tlc_ok(res[nm], what)
            chk.add_tlc(res[nm], what)
        vf.tlc_ok(res["sim"], "simulation over the rule grammar")
        chk.add_tlc(res["sim"], "long random stylesheets over the rule grammar (simulation)", count_states=False)
        # 2. negative controls (vacuity guards)
        for nm, what in (("colon", "`:` as a delimiter (a :hover -> a:hover)"),
                         ("asis", "the loop as it is: a comment between adjacent tokens / a comment opener inside url( )")):
            if res[nm].violated != "TokensSame":
                raise vf.NoVerdict("negative control %s did not violate TokensSame (%s %s)" % (nm, res[nm].violated, res[nm].error))
            chk.add_tlc(res[nm], "negative control: %s violates TokensSame" % what, count_states=False)

        # 3. inputs for the real code: everything enumerated + the simulated long stylesheets
        exh = []
        for nm in names:
            exh += _texts(res[nm])
        sim = _texts(res["sim"])
        seen, texts = set(), []
        for x in exh + sim:
            k = bytes(x)
            if k not in seen:
                seen.add(k)
                texts.append(x)
        if len(exh) < 2000 or len(sim) < 50:
            raise vf.NoVerdict("generators produced too little (%d exhaustive, %d simulated)" % (len(exh), len(sim)))
        rnd = random.Random(vf.SEED)
        pool = [x for x in texts if len(x) >= 4]
        sample = rnd.sample(pool, min(len(pool), 5000 if thorough else 500))
        files = _files()

        # 4. F: the real code, then the contract
        la, lb = _drive(sd, texts, sample, files, whole_a=thorough)     # quick: the whole files go through level B only
        vf.log("drivers done at %.0fs: %d stylesheets (level A %d records, level B %d)" % (time.time() - chk.t0, len(texts), len(la), len(lb)))
        to = 14400 if thorough else 3600     # safety nets only (the machine is shared); a timeout is never a verdict
        with ThreadPoolExecutor(max_workers=2) as ex:
            ja = ex.submit(_judge, chk, sd, la, "A", 12 if thorough else 6, to)
            jb = ex.submit(_judge, chk, sd, lb, "B", 2, to)
            (bada, fa, ska), (badb, fb, skb) = ja.result(), jb.result()
        if ska or skb:
            raise vf.NoVerdict("%d + %d inputs fell outside the contract's domain (generator / file splitter and contract disagree)" % (ska, skb))
        _report(chk, bada, "A")
        _report(chk, badb, "B")
        nfile = len(la) - len(texts)
        need = ("descendant-space", "operator-space", "comment-between-adjacent-tokens", "comment-opener-inside-url")
        if not chk.cands and any(fa.get(f, 0) == 0 for f in need):
            raise vf.NoVerdict("the inputs did not cover every class the contract distinguishes: %s" % fa)
        chk.cov["binding_selftest"] = ("appended to every contract run: 5 known-bad pairs (descendant combinator lost, operator "
                                       "spacing lost, identifiers run together, string changed, needed semicolon lost) rejected, 2 good pairs accepted")

        # evidence
        chk.cov["traces_validated_against_impl"] = len(la) + len(lb)
        chk.cov["evaluations"] = len(la) + len(lb)
        chk.cov["distinct_nontrivial"] = sum(v for f, v in fa.items() if f != "other-input")
        chk.cov["levelA"] = {"exhaustive_stylesheets": len(exh), "simulated_stylesheets": len(sim), "distinct": len(texts),
                             "records_from_shipped_files": nfile, "max_len": max(len(r["in"]) for r in la), "input_classes": fa}
        chk.cov["levelB"] = {"served": len(lb), "input_classes": fb}
        chk.cov["exhaustive"] = True
        chk.cov["rule"] = ("every stylesheet TLC enumerated (BFS of CssMinify_Gen over 4 byte tables up to %d symbols and the %s "
                           "context x left x separator x right x context table) plus every domain prefix of %s simulated rule-grammar "
                           "stylesheets (seed = VERIF_SEED) and the shipped dashboard.css / test.asset.css whole and rule by rule go "
                           "through the real MinifyCSS; a seeded sample and the shipped files go through the real asset handler; "
                           "CssMinify_Trace judges every pair; distinct_nontrivial = inputs with significant white space, a comment "
                           "between adjacent tokens or a comment opener inside url( ) (counted by the contract)"
                           % (nsym, nb, "300" if thorough else "30"))
        chk.sample({"kind": "level A generated", "in": _show(texts[len(texts) // 2]), "out": _show(la[len(texts) // 2]["out"])})
        chk.sample({"kind": "level A simulated", "in": _show(sim[-1][:300]), "out": _show(next(r["out"] for r in la if r["in"] == sim[-1])[:300])})
        chk.sample({"kind": "level A shipped rule", "src": la[-2]["src"], "in": _show(la[-2]["in"][:200]), "out": _show(la[-2]["out"][:200])})
        chk.sample({"kind": "level B served", "src": lb[-2]["src"], "bytes_in": len(lb[-2]["in"]), "bytes_out": len(lb[-2]["out"]),
                    "status": lb[-2]["status"], "ctype": lb[-2]["ctype"]})
    return chk.finish()

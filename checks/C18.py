"""C18 - row values survive a REST round trip.

spec/RowValues: RowValueDefs (value alphabet, type table, boundary classes, Same/WF/Post/Key),
RowValues (the documented life of a value: Decode, Coerce, Store, Read; invariant RoundTrip),
RowValues_Gen (prints every cell while the model is explored exhaustively), RowValues_Trace (contract, binding F).

Stages: 1 model check + cell generation (TLC, exhaustive) ; 2 negative control (Impl="asis" must violate RoundTrip) ;
3 every cell x request shape is concretised (VERIF_SEED), sent through a real `ego server` (PUT/PATCH then GET) and the
pair is logged after projection onto the value alphabet ; 4 TLC evaluates the TLA+ contract on every logged pair ;
5 binding self-test (corrupted copies of real records must be flagged by the same TLC run).
Python only renders, drives and projects (lexical naming of JSON values); it never computes an expected value.
"""
import decimal, http.client, json, os, random, re, struct, threading, time, base64
from concurrent.futures import ThreadPoolExecutor
import vf, egosrv

PROP = "C18"
SPEC = "RowValues"

# ------------------------------------------------------------------ projection: JSON text -> value alphabet


class Tok(str):
    """a JSON number token kept as written"""


OTHER = {"k": "other"}
NULL = {"k": "null"}


def _f32(x):
    try:
        return struct.unpack("f", struct.pack("f", x))[0]
    except OverflowError:
        return float("inf") if x > 0 else float("-inf")


def _shortest32(f):
    """shortest decimal that names the float32 value f"""
    for p in range(1, 10):
        s = "%.*e" % (p - 1, f)
        if _f32(float(s)) == f:
            return s
    return "%.8e" % f


def dec_shape(text):
    """decimal text -> {"k":"int"...} when integral (<= 25 digits) else {"k":"num"...}; purely lexical"""
    try:
        d = decimal.Decimal(text)
    except decimal.InvalidOperation:
        return dict(OTHER)
    if not d.is_finite():
        return dict(OTHER)
    sign, digits, exp = d.as_tuple()
    digits = list(digits)
    while len(digits) > 1 and digits[0] == 0:
        digits.pop(0)
    if all(x == 0 for x in digits):
        return {"k": "int", "neg": bool(sign), "d": [0]}
    while digits[-1] == 0:
        digits.pop()
        exp += 1
    if exp >= 0 and len(digits) + exp <= 25:
        return {"k": "int", "neg": bool(sign), "d": digits + [0] * exp}
    e = len(digits) - 1 + exp
    if abs(e) > 400:
        return dict(OTHER)
    return {"k": "num", "neg": bool(sign), "d": digits, "e": e}


def num_shape(text, kind):
    """a number token as a value of the column's documented type: integers lexically, floating point
    types by the shortest decimal naming the binary64 / binary32 value the token denotes"""
    if kind in ("float64", "float32"):
        try:
            f = float(text)
        except ValueError:
            return dict(OTHER)
        if kind == "float32":
            f = _f32(f)
        if f != f or f in (float("inf"), float("-inf")):
            return dict(OTHER)
        s = _shortest32(f) if kind == "float32" else repr(f)
        sh = dec_shape(s)
        if sh.get("k") == "int" and sh["d"] == [0]:
            sh["neg"] = (str(f)[0] == "-")
        return sh
    return dec_shape(text)


_TS = re.compile(r"^(\d{4})-(\d\d)-(\d\d)(?:[Tt ](\d\d):(\d\d):(\d\d)(?:\.(\d{1,9}))?(Z|z|[+-]\d\d:\d\d)?)?$")
_TOD = re.compile(r"^(\d\d):(\d\d):(\d\d)(Z|z)?$")


def ts_shape(s):
    """lexical reading of an RFC 3339 / ISO spelling into civil fields (no arithmetic here: TLA+ computes instants)"""
    m = _TS.match(s)
    if m:
        y, mo, dd = int(m.group(1)), int(m.group(2)), int(m.group(3))
        h, mi, sec = (int(m.group(4)), int(m.group(5)), int(m.group(6))) if m.group(4) else (0, 0, 0)
        ns = int((m.group(7) or "0").ljust(9, "0"))
        z = m.group(8)
        off = 0
        if z and z not in "Zz":
            off = (int(z[1:3]) * 60 + int(z[4:6])) * (-1 if z[0] == "-" else 1)
        return {"k": "ts", "y": y, "mo": mo, "dd": dd, "h": h, "mi": mi, "s": sec, "ns": ns, "off": off}
    m = _TOD.match(s)
    if m:
        return {"k": "ts", "y": 1, "mo": 1, "dd": 1, "h": int(m.group(1)), "mi": int(m.group(2)), "s": int(m.group(3)), "ns": 0, "off": 0}
    return None


def project(v, kind, numeric_text=False):
    """a decoded JSON value (numbers as Tok) -> abstract value"""
    if v is None:
        return dict(NULL)
    if isinstance(v, bool):
        return {"k": "bool", "b": v}
    if isinstance(v, Tok):
        return num_shape(str(v), kind)
    if isinstance(v, str):
        if numeric_text:            # form "str": a JSON string spelling a number / boolean
            if kind == "bool":
                return {"k": "bool", "b": v == "true"} if v in ("true", "false") else dict(OTHER)
            return num_shape(v, kind)
        if kind in ("timestamp", "date", "time"):
            t = ts_shape(v)
            if t:
                return t
        return {"k": "str", "cp": [ord(c) for c in v]}
    return dict(OTHER)


def loads(text):
    return json.loads(text, parse_float=Tok, parse_int=Tok, parse_constant=Tok)


# ------------------------------------------------------------------ concretiser: cell -> JSON text of the value

def _int_of(v):
    n = int("".join(map(str, v["d"])))
    return -n if v["neg"] else n


def _digits_exp(v):
    """(neg, digits, scientific exponent) of an int- or num-shaped abstract value"""
    if v["k"] == "int":
        d = list(v["d"])
        e = len(d) - 1
        while len(d) > 1 and d[-1] == 0:
            d.pop()
        return v["neg"], d, e
    return v["neg"], list(v["d"]), v["e"]


def _sci(neg, d, e, upper=False):
    m = str(d[0]) + ("." + "".join(map(str, d[1:])) if len(d) > 1 else "")
    return ("-" if neg else "") + m + ("E+" if upper and e >= 0 else "E" if upper else "e") + str(e)


def _positional(neg, d, e):
    ds = "".join(map(str, d))
    if e >= 0:
        if len(ds) <= e + 1:
            s = ds + "0" * (e + 1 - len(ds)) + ".0"
        else:
            s = ds[:e + 1] + "." + ds[e + 1:]
    else:
        s = "0." + "0" * (-e - 1) + ds
    return ("-" if neg else "") + s


def render_number(v, kind, form, rng):
    if kind == "int":
        n = _int_of(v)
        if form == "native":
            return ("-0" if v["neg"] and n == 0 else str(n))
        if form == "exp":
            neg, d, e = _digits_exp(v)
            return _sci(neg, d, e, upper=rng.random() < 0.5)
        return json.dumps(str(n))
    neg, d, e = _digits_exp(v)
    if form == "exp":
        return _sci(neg, d, e, upper=rng.random() < 0.5)
    t = _positional(neg, d, e) if -5 <= e <= 20 else _sci(neg, d, e)
    return t if form == "native" else json.dumps(t)


def render_ts(v, form):
    date = "%04d-%02d-%02d" % (v["y"], v["mo"], v["dd"])
    tod = "%02d:%02d:%02d" % (v["h"], v["mi"], v["s"])
    frac = ("." + ("%09d" % v["ns"]).rstrip("0")) if v["ns"] else ""
    off = v["off"]
    num = "%s%02d:%02d" % ("-" if off < 0 else "+", abs(off) // 60, abs(off) % 60)
    if form == "rfc3339":
        return date + "T" + tod + frac + ("Z" if off == 0 else num)
    if form == "rfc3339num":
        return date + "T" + tod + frac + num
    if form == "nozone":
        return date + "T" + tod + frac
    if form == "spaced":
        return date + " " + tod + frac
    if form == "dateonly":
        return date
    if form == "timeonly":
        return tod
    raise vf.NoVerdict("unknown time form " + form)


def _rand_int(lo, hi, rng):
    return rng.randint(_int_of(lo), _int_of(hi))


def _int_shape(n):
    return {"k": "int", "neg": n < 0, "d": [int(c) for c in str(abs(n))]}


def _rand_float(cls, kind, rng):
    if cls == "rnd-unit":
        f = rng.random()
    elif cls == "rnd-intval":
        f = float(rng.randint(-2 ** 24, 2 ** 24) if kind == "float32" else rng.randint(-2 ** 53, 2 ** 53))
    else:
        emax = 37 if kind == "float32" else 300
        f = (rng.random() * 9 + 1) * 10.0 ** rng.randint(-emax, emax) * rng.choice((1, -1))
    if kind == "float32":
        f = _f32(f)
    return num_shape(repr(f), kind)


def _rand_string(cell, rng):
    n = rng.randint(cell["minlen"], cell["maxlen"])
    rs = cell["ranges"]
    out = []
    for _ in range(n):
        lo, hi = rng.choice(rs)
        c = rng.randint(lo, hi)
        while 0xD800 <= c <= 0xDFFF:
            c = rng.randint(lo, hi)
        out.append(c)
    return {"k": "str", "cp": out}


def _rand_ts(kind, rng):
    y = rng.choice((rng.randint(1, 9999), rng.randint(1900, 2100)))
    mo = rng.randint(1, 12)
    dim = [31, 29 if (y % 4 == 0 and y % 100 != 0) or y % 400 == 0 else 28, 31, 30, 31, 30, 31, 31, 30, 31, 30, 31][mo - 1]
    dd = rng.randint(1, dim)
    if kind == "date":
        return {"k": "ts", "y": y, "mo": mo, "dd": dd, "h": 0, "mi": 0, "s": 0, "ns": 0, "off": 0}
    h = rng.randint(0, 23)
    off = rng.choice((0, rng.randint(-840, 840), rng.choice((-480, -300, 60, 120, 330, 540))))
    ns = rng.choice((0, 0, rng.randint(1, 999999999), rng.randint(1, 999) * 1000000))
    mi = rng.choice([m for m in range(60) if (m - off) % 60 not in (4, 5)])     # never the time of day of SeedFor's two candidates
    return {"k": "ts", "y": y, "mo": mo, "dd": dd, "h": h, "mi": mi, "s": rng.randint(0, 59), "ns": ns, "off": off}


def concretise(cell, rng):
    """-> (abstract value, JSON text of the value as sent)"""
    kind, form = cell["kind"], cell["form"]
    if cell["cls"] == "null":
        return dict(NULL), "null"
    v = cell["v"]
    if not cell["fixed"]:
        if kind == "int":
            v = _int_shape(_rand_int(cell["lo"], cell["hi"], rng))
        elif kind in ("float64", "float32"):
            v = _rand_float(cell["cls"], kind, rng)
        elif kind == "string":
            v = _rand_string(cell, rng)
        else:
            v = _rand_ts(kind, rng)
    return v, render_value(v, kind, form, rng)


def render_value(v, kind, form, rng):
    if v["k"] == "null":
        return "null"
    if kind in ("int", "float64", "float32"):
        return render_number(v, kind, form, rng)
    if kind == "string":
        s = "".join(map(chr, v["cp"]))
        return json.dumps(s, ensure_ascii=(form == "esc"))
    if kind == "bool":
        t = "true" if v["b"] else "false"
        return t if form == "native" else json.dumps(t)
    return json.dumps(render_ts(v, form))


def seed_form(kind):
    return {"int": "native", "float64": "native", "float32": "native", "string": "esc", "bool": "native"}.get(kind, "rfc3339")


def project_sent(text, kind, form):
    """projection of the JSON text that was actually sent (the input side of the logged pair)"""
    return project(loads(text), kind, numeric_text=(form == "str" and kind in ("int", "float64", "float32", "bool")))


# ------------------------------------------------------------------ driving the real server

class Client:
    """one keep-alive connection per worker thread"""

    def __init__(self, port, token):
        self.port, self.token, self.c = port, token, None

    def req(self, method, path, body=None):
        h = {"Accept": "application/json", "Authorization": "Bearer " + self.token}
        data = None
        if body is not None:
            data = body.encode("utf-8")
            h["Content-Type"] = "application/json"
        for attempt in (0, 1):
            try:
                if self.c is None:
                    self.c = http.client.HTTPConnection("127.0.0.1", self.port, timeout=180)
                self.c.request(method, path, body=data, headers=h)
                r = self.c.getresponse()
                return r.status, r.read().decode("utf-8", "replace")
            except (http.client.HTTPException, OSError):
                try:
                    self.c.close()
                except Exception:
                    pass
                self.c = None
                if attempt:
                    raise

    def close(self):
        if self.c:
            self.c.close()


COLTYPE = lambda t: t
NULLATTR = {"unspec": None, "null": {"specified": True, "value": True}, "notnull": {"specified": True, "value": False}}


def setup_dsn(cl, sd, dsn, ctype, rowid):
    db = os.path.join(sd, "db", dsn + ".db")
    os.makedirs(os.path.dirname(db), exist_ok=True)
    st, body = cl.req("POST", "/dsns/", json.dumps({"name": dsn, "provider": "sqlite", "database": db, "restricted": False, "rowid": rowid}))
    if st not in (200, 201):
        raise vf.NoVerdict("cannot create DSN %s: %s %s" % (dsn, st, body[:300]))
    for nv, attr in NULLATTR.items():
        col = {"name": "v", "type": ctype}
        if attr:
            col["nullable"] = attr
        st, body = cl.req("PUT", "/dsns/%s/tables/t_%s" % (dsn, nv), json.dumps([{"name": "k", "type": "int"}, col]))
        if st != 201:
            raise vf.NoVerdict("cannot create table t_%s(%s) in %s: %s %s" % (nv, ctype, dsn, st, body[:300]))


def _rows(body):
    try:
        j = loads(body)
        rows = j.get("rows")
        return rows if isinstance(rows, list) else None
    except Exception:
        return None


def run_case(cl, case):
    """executes one case; returns the logged record (projection included)"""
    dsn, tab, k, kind = case["dsn"], "t_" + case["nullv"], case["k"], case["kind"]
    base = "/dsns/%s/tables/%s/rows" % (dsn, tab)
    path, shape = case["path"], case["shape"]
    vt, st_ = case["vtext"], case["seedtext"]
    rec = {x: case[x] for x in ("id", "type", "cls", "form", "path", "shape", "nullv", "tz", "selftest", "has2")}
    rec["in"] = project_sent(vt, kind, case["form"])
    rec["seed"] = project_sent(st_, kind, seed_form(kind))
    rec.update(rejected=False, absent=False, readok=False, out=dict(OTHER), out2=dict(OTHER),
               hassib=False, sibin=rec["seed"], sibout=dict(OTHER), note="")
    rid = None
    if path in ("patch", "patchid", "upsert"):
        st, body = cl.req("PUT", base, '{"k":%d,"v":%s}' % (k, st_))
        if st != 200:
            rec["note"] = "setup: seed row refused (%s)" % st
            rec["setupfail"] = True
            return rec
        if path in ("patchid", "upsert"):
            st, body = cl.req("GET", base + "?filter=EQ(k,%d)" % k)
            rows = _rows(body) if st == 200 else None
            if not rows or len(rows) != 1 or not isinstance(rows[0].get("_row_id_"), str):
                rec["note"] = "setup: no row id (%s)" % st
                rec["setupfail"] = True
                return rec
            rid = rows[0]["_row_id_"]
    sib = shape in ("array", "rowset") and path in ("insert", "insertid", "upsert")
    ksib = k + 1
    if path in ("insert", "insertid"):
        row = '{"k":%d,"v":%s}' % (k, vt)
    elif path == "patch":
        row = '{"v":%s}' % vt
    elif path == "patchid":
        row = '{"_row_id_":%s,"v":%s}' % (json.dumps(rid), vt)
    else:
        row = '{"_row_id_":%s,"k":%d,"v":%s}' % (json.dumps(rid), k, vt)
    sibrow = '{"k":%d,"v":%s}' % (ksib, st_)
    if shape == "single":
        payload = row
    elif shape == "array":
        payload = "[%s,%s]" % (row, sibrow) if sib else "[%s]" % row
    else:
        payload = '{"rows":[%s,%s],"count":2}' % (row, sibrow) if sib else '{"rows":[%s],"count":1}' % row
    if path in ("insert", "insertid"):
        st, body = cl.req("PUT", base, payload)
    elif path == "patch":
        st, body = cl.req("PATCH", base + "?filter=EQ(k,%d)" % k, payload)
    elif path == "patchid":
        st, body = cl.req("PATCH", base, payload)
    else:
        st, body = cl.req("PUT", base + "?upsert", payload)
    rec["wstatus"] = st
    rec["rejected"] = st != 200
    if st != 200:
        rec["note"] = re.sub(r"\s+", " ", body)[-160:]
    rec["hassib"] = bool(sib and st == 200)
    # read back: all columns, then ?columns=v
    outs = []
    ok = True
    for q in ("?filter=EQ(k,%d)" % k, "?columns=v&filter=EQ(k,%d)" % k)[:2 if case["has2"] else 1]:
        st, body = cl.req("GET", base + q)
        rows = _rows(body) if st == 200 else None
        if rows is None:
            ok = False
            outs.append(dict(OTHER))
            rec["note"] += " read %s: %s" % (st, re.sub(r"\s+", " ", body)[-160:])
        elif len(rows) == 0:
            ok = False
            if not outs:
                rec["absent"] = True
            outs.append(dict(OTHER))
        elif len(rows) > 1 or "v" not in rows[0]:
            ok = False
            outs.append(dict(OTHER))
            rec["note"] += " read: %d rows" % len(rows)
        else:
            outs.append(project(rows[0]["v"], kind))
            if not rec.get("outtext"):
                rec["outtext"] = json.dumps(rows[0]["v"])[:300]
    rec["readok"] = ok
    rec["out"], rec["out2"] = outs[0], outs[-1]
    if rec["hassib"]:
        st, body = cl.req("GET", base + "?filter=EQ(k,%d)" % ksib)
        rows = _rows(body) if st == 200 else None
        if rows and len(rows) == 1 and "v" in rows[0]:
            rec["sibout"] = project(rows[0]["v"], kind)
    rec["intext"] = vt[:300]
    return rec


# ------------------------------------------------------------------ the check

def load_cells(r):
    cells, combos = [], None
    for x in r.records:
        if isinstance(x, dict) and x.get("rec") == "cell":
            c = dict(x["cell"])
            c["seeds"] = x["seeds"]
            cells.append(c)
        elif isinstance(x, dict) and x.get("rec") == "combos":
            combos = [tuple(c) for c in x["combos"]]
    if not cells or not combos:
        raise vf.NoVerdict("generator printed no cells/combos\n" + r.stdout[-1500:])
    cells.sort(key=lambda c: json.dumps(c, sort_keys=True))
    return cells, sorted(combos)


def plan_cases(cells, combos, thorough, rng):
    """which (cell, combo) are executed.
    thorough: every cell on every single-row path (5) and on both nullable variants of insert, plus two of the remaining
              combinations in rotation (the big timestamp grid: three paths + one other combination, in rotation);
              4 draws per range class and combination.
    quick:    every cell once on a rotating combination, plus the whole combination list on one cell of every type; 2 draws."""
    cases = []
    bytype = {}
    for c in cells:
        bytype.setdefault(c["type"], []).append(c)
    singles = [cb for cb in combos if cb[1] == "single" and cb[2] == "unspec"]
    nullins = [cb for cb in combos if cb[0] == "insert" and cb[2] != "unspec"]
    rest = [cb for cb in combos if cb not in singles and cb not in nullins]
    for t, cs in sorted(bytype.items()):
        core = set()
        if not thorough:
            pool = [i for i, c in enumerate(cs) if c["cls"] != "null"]
            rng.shuffle(pool)
            core = set(pool[:1])
        rot = rng.randrange(len(combos))
        for i, c in enumerate(cs):
            reps = 1 if c["fixed"] else (4 if thorough else 2)
            if thorough:
                if c["kind"] == "timestamp" and c["cls"] == "grid" and c["form"] == "rfc3339":
                    mine = [singles[(i + rot + j) % len(singles)] for j in range(3)] + [(nullins + rest)[(i + rot) % len(nullins + rest)]]
                else:
                    mine = singles + nullins + [rest[(i + rot + j) % len(rest)] for j in range(2)]
            elif i in core:
                mine = combos
            else:
                mine = [combos[(i + rot) % len(combos)]]
            for cb in dict.fromkeys(mine):
                for rep in range(reps):
                    cases.append((c, cb))
    return cases


def make_cases(plan, rng, tz, read2_every=1, shard_cases=150):
    """concretise; assign DSN shards and row keys"""
    out = []
    counters = {}
    for n, (c, (path, shape, nullv)) in enumerate(plan):
        v, vt = concretise(c, rng)
        kind = c["kind"]
        seeds = c["seeds"]
        pv = project_sent(vt, kind, c["form"])
        seed = seeds[0]
        sform = seed_form(kind)
        if json.dumps(project_sent(render_value(seed, kind, sform, rng), kind, sform), sort_keys=True) == json.dumps(pv, sort_keys=True):
            seed = seeds[1]
        rowid = path in ("insertid", "patchid", "upsert")
        grp = ("r" if rowid else "p") + c["type"]
        cnt = counters.get(grp, 0)
        counters[grp] = cnt + 1
        shard = cnt // shard_cases
        dsn = "%s%s%d" % (grp, tz[0].lower(), shard)
        out.append({"id": n, "type": c["type"], "kind": kind, "cls": c["cls"], "form": c["form"], "path": path, "shape": shape,
                    "nullv": nullv, "tz": tz, "selftest": False, "has2": n % read2_every == 0, "vtext": vt, "seedtext": render_value(seed, kind, sform, rng),
                    "dsn": dsn, "rowid": rowid, "k": 10 + 2 * (cnt % shard_cases)})
    return out


def _fd_budget():
    """requests one server process may serve: ReadRows/UpdateRows never close their database handle, so the real server
    leaks about one descriptor per request (observed: EMFILE after 18 168 sessions at ulimit 20 000); the driver therefore
    works in waves, one fresh server process per wave"""
    try:
        import resource
        soft, hard = resource.getrlimit(resource.RLIMIT_NOFILE)
        if hard != resource.RLIM_INFINITY and soft < hard:
            resource.setrlimit(resource.RLIMIT_NOFILE, (hard, hard))
            soft = hard
        if soft == resource.RLIM_INFINITY:
            soft = 65536
    except Exception:
        soft = 1024
    return max(300, int(soft * 0.4))


def execute(sd, ego, cases, tz, nthreads):
    """one server process per wave and time zone; DSN shards are independent SQLite files, one worker thread each at a time"""
    if not cases:
        return []
    groups = {}
    for c in cases:
        groups.setdefault(c["dsn"], []).append(c)
    budget = _fd_budget()
    waves, cur, cost = [], [], 0
    for item in sorted(groups.items(), key=lambda kv: -len(kv[1])):
        need = 6 + 6 * len(item[1])
        if cur and cost + need > budget:
            waves.append(cur)
            cur, cost = [], 0
        cur.append(item)
        cost += need
    if cur:
        waves.append(cur)
    recs = []
    for w, wave in enumerate(waves):
        recs.extend(_run_wave(sd, ego, wave, tz, nthreads, w))
    return recs


def _run_wave(sd, ego, wave, tz, nthreads, w):
    env = {"TZ": tz}
    # generous transport timeouts: the defaults (10 s headers, 30 s request) are wall-clock and trip on an overloaded machine
    slow = {"ego.server.read.timeout": "600s", "ego.server.read.header.timeout": "600s", "ego.server.write.timeout": "600s",
            "ego.server.idle.timeout": "600s"}
    srv = egosrv.Server(sd, ego, env=env, settings=slow, name="srv-%s-%d" % (re.sub(r"\W", "_", tz), w))
    srv.start(wait=90)
    try:
        tok = None
        for _ in range(4):      # the first logon upgrades the stored credential (bcrypt): slow on a loaded machine
            try:
                r = srv.req("POST", "/services/admin/logon", auth=("admin", "secret"), timeout=120)
                tok = (r.json() or {}).get("token")
            except OSError:
                tok = None
            if tok:
                break
            time.sleep(1)
        if not tok:
            raise vf.NoVerdict("cannot log on to the scratch server")
        recs = []
        lock = threading.Lock()

        def work(item):
            dsn, cs = item
            cl = Client(srv.port, tok)
            try:
                setup_dsn(cl, srv.dir, dsn, cs[0]["type"], cs[0]["rowid"])
                mine = [run_case(cl, c) for c in cs]
            finally:
                cl.close()
            with lock:
                recs.extend(mine)
        with ThreadPoolExecutor(max_workers=nthreads) as ex:
            list(ex.map(work, wave))
        if not srv.alive():
            raise vf.NoVerdict("the scratch server died during the run\n" + srv.log_text()[-2000:])
        return recs
    finally:
        srv.stop()
        if not os.environ.get("VERIF_KEEP"):
            import shutil
            shutil.rmtree(srv.dir, ignore_errors=True)


def corrupt(rec, rng):
    """binding self-test: a copy of a real, accepted record with one observed value perturbed"""
    c = json.loads(json.dumps(rec))
    c["selftest"] = True
    o = c["out"]
    k = o.get("k")
    if k == "int":
        o["d"][-1] = (o["d"][-1] + 1) % 10
        if o["d"] == [0]:
            o["d"] = [1]
        if len(o["d"]) > 1 and o["d"][0] == 0:
            o["d"][0] = 1
    elif k == "num":
        o["d"][0] = o["d"][0] % 9 + 1
    elif k == "str":
        o["cp"] = o["cp"] + [120]
    elif k == "bool":
        o["b"] = not o["b"]
    elif k == "ts":
        o["s"] = (o["s"] + 1) % 60
    elif k == "null":
        c["out"] = {"k": "str", "cp": [110, 117, 108, 108]}
    else:
        return None
    return c


def run():
    thorough = vf.TIER == "thorough"
    sfx = "" if thorough else "q"
    chk = vf.Check(PROP)
    rng = random.Random(vf.SEED * 7919 + (1 if thorough else 0))
    chk.assumptions += [
        "SQLite backend only (no PostgreSQL offline); one real `ego server` subprocess per server time zone (UTC, America/New_York)",
        "a value's identity is decided in TLA+ on the projection of the JSON texts sent and received; the projection is lexical "
        "(digits, code points, civil-time fields), except that tokens of float32/float64 columns are named by the shortest decimal "
        "of the binary32/binary64 value they denote (the value space of the documented type)",
        "timestamp/date/time values are compared as UTC instants (time: time of day) to the whole second: a sub-second part may be kept or dropped "
        "(docs/TABLES.md documents whole-second RFC 3339 forms only)",
        "a refused write (status other than 200) satisfies the statement provided nothing was written; uuid and json are not column types the server accepts "
        "(their texts are covered as string values)"]
    replay = os.environ.get("VERIF_REPLAY")
    with vf.scratch() as sd:
        # 1. the documented pipeline satisfies RoundTrip on every cell (exhaustive) ; the same run prints the cells
        r = vf.tlc_ok(vf.tlc(SPEC, "RowValues_Gen", "RowValues_Gen%s.cfg" % sfx, sd, workers=2, timeout=900), "RowValues model + cells")
        chk.add_tlc(r, "model check of the documented pipeline (all cells) + cell generation")
        cells, combos = load_cells(r)
        only = [t for t in os.environ.get("VERIF_C18_ONLY", "").split(",") if t]     # development aid: restrict to some column types
        if only:
            cells = [c for c in cells if c["type"] in only]
            chk.notes.append("restricted to column types %s by VERIF_C18_ONLY (development run)" % only)
        # 2. negative control: the as-is decode/bind variant must violate RoundTrip (the invariant is not vacuous)
        rn = vf.tlc(SPEC, "RowValues", "RowValues_MC_asis.cfg", sd, workers=2, timeout=900)
        if rn.violated != "RoundTrip":
            raise vf.NoVerdict("negative control: Impl=asis did not violate RoundTrip (%s %s)" % (rn.violated, (rn.error or "")[:300]))
        chk.add_tlc(rn, "negative control (binary64 decode, unparseable UTC year) violates RoundTrip", count_states=False)
        # 3. concretise and execute on the real server
        if replay:
            rp = json.load(open(replay))["replay"]
            for c in rp["cases"]:
                c.setdefault("has2", True)
            cases_utc = [dict(c, id=i) for i, c in enumerate(rp["cases"]) if c["tz"] == "UTC"]
            cases_ny = [dict(c, id=len(cases_utc) + i) for i, c in enumerate(c for c in rp["cases"] if c["tz"] != "UTC")]
        else:
            plan = plan_cases(cells, combos, thorough, rng)
            every = 1 if thorough else 2
            shard_cases = min(150, max(20, _fd_budget() // 12))
            cases_utc = make_cases(plan, rng, "UTC", every, shard_cases)
            tplan = [p for p in plan if p[0]["kind"] in ("timestamp", "date", "time")]
            tplan = [p for i, p in enumerate(tplan) if i % (2 if thorough else 4) == vf.SEED % 2]
            cases_ny = make_cases(tplan, rng, "America/New_York", every, shard_cases)
            for c in cases_ny:
                c["id"] += len(cases_utc)
        ov = vf.make_overlay(sd, [])
        ego = vf.build_ego(sd, ov)
        t0 = time.time()
        nthreads = 8
        recs = execute(sd, ego, cases_utc, "UTC", nthreads) + execute(sd, ego, cases_ny, "America/New_York", nthreads)
        exec_s = time.time() - t0
        recs.sort(key=lambda x: x["id"])
        bycase = {c["id"]: c for c in cases_utc + cases_ny}
        setupfail = [x for x in recs if x.get("setupfail")]
        recs = [x for x in recs if not x.get("setupfail")]
        if len(recs) != len(bycase) - len(setupfail):
            raise vf.NoVerdict("driver lost cases: %d of %d" % (len(recs), len(bycase)))
        accepted = [x for x in recs if not x["rejected"]]
        if not replay and not only:
            if len(setupfail) > len(bycase) // 20:
                raise vf.NoVerdict("the seed row of %d cases was refused (server not usable): %s" % (len(setupfail), setupfail[0]["note"]))
            if len(accepted) < len(recs) // 2:
                raise vf.NoVerdict("vacuity guard: only %d of %d writes were accepted" % (len(accepted), len(recs)))
            kinds_acc = {bycase[x["id"]]["kind"] for x in accepted}
            if len(kinds_acc) < 8:
                raise vf.NoVerdict("vacuity guard: no accepted write for some kinds (%s)" % sorted(kinds_acc))
        # 5 (prepared here, judged by the same TLC run). binding self-test records
        tests = []
        if accepted:
            seen = set()
            pool = list(accepted)
            rng.shuffle(pool)
            for x in pool:
                kd = (bycase[x["id"]]["kind"], x["in"]["k"])
                if kd in seen or not x["readok"]:
                    continue
                c = corrupt(x, rng)
                if c:
                    seen.add(kd)
                    tests.append(("differs", c))
            ins = [x for x in accepted if x["path"] in ("insert", "insertid") and x["readok"]]
            if ins:
                c = json.loads(json.dumps(ins[0]))
                c.update(selftest=True, rejected=True, absent=False)
                tests.append(("rejected-but-changed", c))
        logf = os.path.join(sd, "io.ndjson")
        keep = ("id", "type", "cls", "form", "path", "shape", "nullv", "in", "seed", "rejected", "absent", "readok", "out", "has2", "out2",
                "hassib", "sibin", "sibout", "selftest")
        allrecs = recs + [c for _, c in tests]
        vf.write_ndjson(logf, [{k: x[k] for k in keep} for x in allrecs])
        # 4. the TLA+ contract judges every pair
        n, bad = vf.fio_validate(chk, SPEC, "RowValues_Trace", "RowValues_Trace%s.cfg" % sfx, sd, logf,
                                 name="contract Post(in, out) on every logged pair", timeout=1500)
        if n != len(allrecs):
            raise vf.NoVerdict("contract run saw %d of %d records" % (n, len(allrecs)))
        badidx = {int(b["idx"]): b["key"] for b in bad}
        ill = [i for i, k in badidx.items() if k == "ILLFORMED" and i <= len(recs)]
        if ill:
            x = recs[ill[0] - 1]
            raise vf.NoVerdict("%d logged records are outside the enumerated space (generator/projection problem), e.g. %s"
                               % (len(ill), json.dumps({k: x.get(k) for k in ("type", "cls", "form", "path", "shape", "nullv", "in", "seed", "intext")})[:900]))
        for j, (mode, c) in enumerate(tests):
            key = badidx.get(len(recs) + j + 1)
            if not key or not key.endswith("/" + mode):
                raise vf.NoVerdict("binding self-test failed: a corrupted %s record (%s) was not flagged as %s (got %s)"
                                   % (c["type"], c["path"], mode, key))
        if not replay and not only and len(tests) < 6:
            raise vf.NoVerdict("binding self-test too weak: only %d corrupted records" % len(tests))
        chk.cov["binding_selftest"] = "%d corrupted copies of real records (one per kind of value + a refused-but-present insert) all flagged" % len(tests)
        for i in sorted(badidx):
            if i > len(recs):
                continue
            x = recs[i - 1]
            cs = bycase[x["id"]]
            what = ("%s column, %s written as %s through %s/%s (nullable=%s, server TZ %s): sent %s, write status %s, read back %s %s"
                    % (x["type"], x["cls"], x["form"], x["path"], x["shape"], x["nullv"], x["tz"], x.get("intext"), x.get("wstatus"),
                       x.get("outtext", "<nothing>"), x.get("note", "")))
            chk.violation(badidx[i], what, {"cases": [cs], "record": {k: x.get(k) for k in keep + ("intext", "outtext", "note", "wstatus", "tz")}})
        judged = len(recs)
        chk.cov["traces_validated_against_impl"] = judged
        chk.cov["evaluations"] = judged
        chk.cov["distinct_nontrivial"] = len({(x["type"], x["cls"], x["form"], x["path"], json.dumps(x["in"], sort_keys=True)) for x in accepted})
        chk.cov["cells"] = len(cells)
        chk.cov["combos"] = len(combos)
        chk.cov["cases_accepted"] = len(accepted)
        chk.cov["cases_refused"] = len(recs) - len(accepted)
        chk.cov["cases_refused_5xx"] = sum(1 for x in recs if x.get("wstatus", 0) >= 500)
        chk.cov["cases_setup_failed"] = len(setupfail)
        chk.cov["server_exec_s"] = round(exec_s, 1)
        refused = {}
        for x in recs:
            if x["rejected"]:
                kk = "%s/%s/%s" % (x["type"], x["form"], x["cls"])
                refused[kk] = refused.get(kk, 0) + 1
        chk.cov["refused_classes"] = dict(sorted(refused.items())[:60])
        chk.cov["rule"] = ("cells = every (column type, value class, spelling) of RowValueDefs printed by TLC while it model-checks the pipeline; "
                           "cases = cells x (path, payload shape, nullable attribute) [thorough: every cell on all 5 single-row paths + both nullable variants "
                           "of insert + 2 other combinations in rotation (the rfc3339 timestamp grid: 3 paths + 1 other, in rotation), 4 draws per range class; "
                           "quick: every cell on one rotating combination + every combination on one cell per type, 2 draws]; time-valued cases are repeated "
                           "(1/2 thorough, 1/4 quick) on a second server running in America/New_York; each case = PUT/PATCH then GET (all columns; and ?columns=v: always in thorough, every 2nd case in quick) on a real server; "
                           "non-trivial+distinct = distinct (type, class, spelling, path, concrete value) whose write was accepted and therefore judged by Same()")
        chk.cov["exhaustive"] = False      # the cell table is enumerated completely; range classes and request shapes are sampled
        for x in (accepted[:2] + [y for y in recs if y["rejected"]][:1] + [y for y in accepted if y["in"]["k"] == "ts"][:1]):
            chk.sample({"kind": "logged pair", "type": x["type"], "class": x["cls"], "form": x["form"], "path": x["path"], "shape": x["shape"],
                        "sent": x.get("intext"), "write_status": x.get("wstatus"), "read_back": x.get("outtext"), "in": x["in"], "out": x["out"]})
    return chk.finish()

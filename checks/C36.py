"""C36 - langlint rewrites are crash-safe.
spec/Rewrite: FsModel (generic directory operations), Rewrite (code-shaped protocol, Impl asis/fixed, model checked),
Rewrite_Trace (replay of system calls recorded from the real langlint binary + crash enumeration).
Stages: MC fixed ; negative controls (as-is violates CrashSafe and Clean) ; real runs under strace
(uncrashed base run, real crashes at every crash-point hook, later runs from every real and every simulated
crash state, depth 2 in the thorough tier) judged by TLC ; binding self-test."""
import json, os, re, shutil, subprocess
import vf

PROP = "C36"
SPEC = "Rewrite"
SYSCALLS = ("openat,open,creat,write,pwrite64,pwritev,pwritev2,writev,close,fchmodat,fchmodat2,fchmod,chmod,rename,renameat,"
            "renameat2,unlink,unlinkat,link,linkat,symlink,symlinkat,ftruncate,truncate,fsync,fdatasync,copy_file_range,sendfile,mkdir,mkdirat,rmdir")
TARGET = "d/messages_xx.txt"          # names are relative to the scratch root of a run
BYSTANDER = "d/messages_yy.txt"
KINDS = ("file", "link-same-dir", "link-elsewhere")
LINKTARGET = {"link-same-dir": "d/shared_xx.txt", "link-elsewhere": "e/shared_xx.txt"}


def start_listing(kind, orig):
    """the initial tree: the message file is a regular file, or a symbolic link to a file next to it / elsewhere"""
    by = {"n": BYSTANDER, "k": "file", "c": "[other]\nb=1\na=2\n"}
    if kind == "file":
        return [{"n": TARGET, "k": "file", "c": orig}, by]
    return [{"n": TARGET, "k": "link", "c": LINKTARGET[kind]}, {"n": LINKTARGET[kind], "k": "file", "c": orig}, by]


# ------------------------------------------------------------------ inputs (files that need a rewrite, no warnings)

def inputs(thorough, seed):
    small = "[b]\nz=one\na=two\n"
    out = [("small", small)]
    if thorough:
        crlf = "# heading\r\n\r\n[srv]\r\nstop=Stopping {{name}}\r\nstart=Starting {{name}}\r\n\r\n\r\n[cli]\r\nusage=use it\r\n"
        big = ["# generated, seed %d" % seed, "[big]"]
        for i in range(400, 0, -1):
            big.append("key%04d=message number %d with a {{value}} and some padding text to make the file larger" % ((i * 7919 + seed) % 10000, i))
        nonl = "top=1\n[s]\nb=2\na=3"
        out += [("crlf", crlf), ("big", "\n".join(big) + "\n"), ("no-final-newline", nonl)]
    return out


# ------------------------------------------------------------------ strace -> operation events

_STR = re.compile(r'"((?:\\x[0-9a-f]{2})*)"(\.\.\.)?')


def _dec(hexs):
    return bytes(int(h, 16) for h in re.findall(r"\\x([0-9a-f]{2})", hexs)).decode("latin-1")


def parse_strace(path, root, cwd):
    """Successful file-system calls touching <root>/..., in completion order, as operation records."""
    pend, calls = {}, []
    for line in open(path, errors="replace"):
        m = re.match(r"^(\d+)\s+(.*)$", line.rstrip("\n"))
        if not m:
            continue
        pid, rest = m.group(1), m.group(2)
        if rest.startswith("+++") or rest.startswith("---"):
            continue
        if rest.endswith("<unfinished ...>"):
            pend[pid] = rest[:-len("<unfinished ...>")]
            continue
        r = re.match(r"^<\.\.\. (\w+) resumed>(.*)$", rest)
        if r:
            rest = pend.pop(pid, r.group(1) + "(") + r.group(2)
        calls.append(rest)
    ops, tracked = [], set()

    def inside(p):
        if not p.startswith("/"):
            p = os.path.normpath(os.path.join(cwd, p))
        p = os.path.normpath(p)
        if p.startswith(root + "/"):
            return p[len(root) + 1:]
        return None

    for c in calls:
        m = re.match(r"^(\w+)\((.*)\)\s+=\s+(-?\d+|\?)(.*)$", c, re.S)
        if not m:
            raise vf.NoVerdict("cannot parse strace line: " + c[:200])
        name, args, ret = m.group(1), m.group(2), m.group(3)
        if ret == "?" or int(ret) < 0:
            continue                      # failed calls change nothing
        ret = int(ret)
        strs = [_dec(s.group(1)) for s in _STR.finditer(args)]
        if name in ("openat", "open", "creat"):
            n = inside(strs[0]) if strs else None
            if n is None:
                continue
            fl = args if name != "creat" else "O_CREAT|O_WRONLY|O_TRUNC"
            if "O_DIRECTORY" in fl or "O_PATH" in fl:
                continue
            tracked.add(ret)
            ops.append({"ev": "open", "name": n, "fd": ret, "creat": "O_CREAT" in fl, "excl": "O_EXCL" in fl,
                        "trunc": "O_TRUNC" in fl, "nofollow": "O_NOFOLLOW" in fl, "wr": ("O_WRONLY" in fl or "O_RDWR" in fl)})
        elif name == "write":
            fd = int(args.split(",", 1)[0])
            if fd not in tracked:
                continue
            data = strs[0][:ret] if strs else ""
            if _STR.search(args) and _STR.search(args).group(2):
                raise vf.NoVerdict("strace truncated write data")
            # a process can die in the middle of a write: present every write as two pieces
            half = len(data) // 2
            parts = [data[:half], data[half:]] if half else [data]
            for d in parts:
                ops.append({"ev": "write", "fd": fd, "data": d})
        elif name == "close":
            fd = int(args.split(",", 1)[0].strip() or -1)
            if fd in tracked:
                tracked.discard(fd)
                ops.append({"ev": "close", "fd": fd})
        elif name in ("fchmodat", "fchmodat2", "chmod"):
            n = inside(strs[0]) if strs else None
            if n is not None:
                ops.append({"ev": "chmod", "name": n})
        elif name in ("rename", "renameat", "renameat2", "link", "linkat"):
            a, b = inside(strs[0]), inside(strs[1])
            if a is None and b is None:
                continue
            if a is None or b is None:
                raise vf.NoVerdict("rename/link across the scratch directory boundary is not modelled: " + c[:200])
            if name == "renameat2" and ("RENAME_EXCHANGE" in args or "RENAME_NOREPLACE" in args or "RENAME_WHITEOUT" in args):
                raise vf.NoVerdict("renameat2 flags are not modelled: " + c[:200])
            ops.append({"ev": "rename" if name.startswith("rename") else "link", "from": a, "to": b})
        elif name in ("unlink", "unlinkat"):
            n = inside(strs[0]) if strs else None
            if n is not None:
                ops.append({"ev": "unlink", "name": n})
        elif name == "truncate":
            n = inside(strs[0]) if strs else None
            if n is not None:
                if not re.search(r",\s*0\s*$", args):
                    raise vf.NoVerdict("truncate to a non-zero length is not modelled")
                ops.append({"ev": "truncate", "name": n})
        elif name == "ftruncate":
            fd = int(args.split(",", 1)[0])
            if fd in tracked:
                if not re.search(r",\s*0\s*$", args):
                    raise vf.NoVerdict("ftruncate to a non-zero length is not modelled")
                ops.append({"ev": "ftruncate", "fd": fd})
        elif name in ("fsync", "fdatasync"):
            fd = int(args.split(",", 1)[0])
            if fd in tracked:
                ops.append({"ev": "fsync", "fd": fd})
        elif name == "fchmod":
            continue
        elif name in ("pwrite64", "pwritev", "pwritev2", "writev", "copy_file_range", "sendfile"):
            fds = [int(x) for x in re.findall(r"(?:^|,\s*)(\d+)(?=,)", args)[:2]]
            if any(fd in tracked for fd in fds):
                raise vf.NoVerdict("unmodelled write-like call on a tracked file: " + c[:200])
        elif name in ("symlink", "symlinkat"):
            n = inside(strs[1]) if len(strs) > 1 else None
            if n is not None:
                t = strs[0] if strs[0].startswith("/") else os.path.join(os.path.dirname(os.path.join(root, n)), strs[0])
                t = inside(t)
                ops.append({"ev": "symlink", "target": t if t is not None else "<outside>", "name": n})
        elif name in ("mkdir", "mkdirat", "rmdir"):
            if any(inside(s) is not None for s in strs):
                raise vf.NoVerdict("unmodelled call in the scratch directory: " + c[:200])
    return ops


def snapshot(root):
    """the tree under root: regular files with their content, symbolic links with their (root-relative) target"""
    out = []
    for dp, dn, fn in os.walk(root):
        for n in sorted(dn + fn):
            p = os.path.join(dp, n)
            rel = os.path.relpath(p, root)
            if os.path.islink(p):
                t = os.readlink(p)
                t = t if t.startswith("/") else os.path.join(os.path.dirname(p), t)
                t = os.path.normpath(t)
                out.append({"n": rel, "k": "link", "c": os.path.relpath(t, root) if t.startswith(root + "/") else "<outside>"})
            elif os.path.isfile(p):
                out.append({"n": rel, "k": "file", "c": open(p, "rb").read().decode("latin-1")})
            elif not os.path.isdir(p):
                out.append({"n": rel, "k": "file", "c": "<not a regular file>"})
    return sorted(out, key=lambda e: e["n"])


def materialise(root, listing):
    os.makedirs(os.path.join(root, "d"))
    os.makedirs(os.path.join(root, "e"))
    for e in listing:
        p = os.path.join(root, e["n"])
        os.makedirs(os.path.dirname(p), exist_ok=True)
        if e["k"] == "link":
            os.symlink(os.path.relpath(os.path.join(root, e["c"]), os.path.dirname(p)), p)
        else:
            with open(p, "wb") as f:
                f.write(e["c"].encode("latin-1"))


class Runner:
    def __init__(self, sd, binary):
        self.sd, self.bin, self.n, self.procs = sd, binary, 0, 0

    def newdir(self):
        self.n += 1
        return os.path.join(self.sd, "d%04d" % self.n)

    def go(self, d, crash_at=None, crash_log=None):
        """run the real langlint on <d>/TARGET under strace; returns (rc, ops)"""
        st = os.path.join(self.sd, "strace-%04d.txt" % self.n)
        env = dict(os.environ)
        env.pop("VERIF_CRASH_AT", None)
        env.pop("VERIF_CRASH_LOG", None)
        if crash_at is not None:
            env["VERIF_CRASH_AT"] = str(crash_at)
        if crash_log:
            env["VERIF_CRASH_LOG"] = crash_log
        cmd = ["strace", "-f", "-xx", "-s", "4000000", "-o", st, "-e", "trace=" + ",".join("?" + x for x in SYSCALLS.split(",")), self.bin, os.path.join(d, TARGET)]
        try:
            p = subprocess.run(cmd, cwd=self.sd, env=env, stdout=subprocess.PIPE, stderr=subprocess.PIPE, timeout=60)
        except subprocess.TimeoutExpired:
            raise vf.NoVerdict("langlint under strace timed out")
        self.procs += 1
        if not os.path.exists(st):
            raise vf.NoVerdict("strace produced no output (rc=%s): %s" % (p.returncode, p.stderr[-500:]))
        ops = parse_strace(st, d, self.sd)
        os.remove(st)
        return p.returncode, ops, p.stdout.decode("utf8", "replace")


def report(chk, sd, events, name):
    """TLC judges a batch of recorded runs. Returns the report record."""
    tr = vf.write_ndjson(os.path.join(sd, "trace.ndjson"), events)
    r = vf.trace_validate(chk, SPEC, "Rewrite_Trace", "Rewrite_Trace.cfg", sd, tr, name=name, timeout=600)
    if not r.accepted:
        raise vf.NoVerdict("recorded runs were not consumed by Rewrite_Trace (%s): %s\n%s" %
                           (name, json.dumps(vf.trace_reject_info(r, tr))[:1500], r.stdout[-1500:]))
    rep = [x for x in r.records if isinstance(x, dict) and "bad" in x and "cstates" in x]
    if not rep:
        raise vf.NoVerdict("Rewrite_Trace printed no report\n" + r.stdout[-1500:])
    rep = rep[-1]
    for k in ("bad", "mism", "cstates"):
        if not isinstance(rep[k], list):
            rep[k] = []
    return rep


def run():
    thorough = vf.TIER == "thorough"
    chk = vf.Check(PROP)
    chk.assumptions += [
        "'the process stops' = the process dies (SIGKILL); data already handed to the kernel stays (no power loss, no fsync reasoning)",
        "a crash is possible between any two file-system calls of the process and in the middle of a write (every recorded write is presented as two halves)",
        "'a later successful run leaves no temporary or backup files behind' is read as: after that run the directory holds only the files it held before the first rewrite started",
        "file-system calls are recorded with strace and replayed through the generic directory model of FsModel.tla; at every real crash / exit the model directory must equal the real one",
        "the content clause is judged right after every crash AND after every later run that started from a crash-safe state (read through symbolic links)",
        "initial trees: the message file is a regular file, a symbolic link to a file in the same directory, or a symbolic link to a file in another directory",
        "file modes are not part of the statement and are not modelled; hard links are modelled as copies"]
    with vf.scratch() as sd:
        # 1. design: the single-rename protocol satisfies C36 under up to 3 consecutive crashes
        # 2. negative controls: the two-rename protocol must violate both clauses on the model
        #    (started now, collected at the end: the JVMs run while the real tool is exercised)
        from concurrent.futures import ThreadPoolExecutor
        cfgs = [("Rewrite_MC.cfg", None), ("Rewrite_MC_asis.cfg", "CrashSafe"), ("Rewrite_MC_asis_clean.cfg", "Clean")]
        pool = ThreadPoolExecutor(max_workers=3)
        mcs = [pool.submit(vf.tlc, SPEC, "Rewrite", c[0], sd, workers=1, timeout=600) for c in cfgs]
        # 3. the real tool
        binary = os.path.join(sd, "langlint")
        vf.run([vf.GO, "build", "-tags", "verif", "-o", binary, "./tools/langlint/"], cwd=vf.REPO, env=vf.goenv(), timeout=600, check=True)
        rn = Runner(sd, binary)
        maxdepth = 2 if thorough else 1
        runid = [0]
        runinfo = {}          # run id -> description, events, input
        total = {"real_crashes": 0, "sim_crash_states": 0, "later_runs": 0, "events": 0, "tlc_batches": 0}
        hook_points_seen = None
        SELFTEST = 1000000    # run ids of the deliberately corrupted copies

        def mkrun(desc, d, start, common, later, sim, ops, endev, rc):
            runid[0] += 1
            rid = runid[0]
            evs = [dict(common, run=rid, ev="Init", dir=start, later=later, sim=sim)]
            evs += [dict(o, run=rid) for o in ops]
            evs.append({"run": rid, "ev": endev, "ok": rc == 0, "rc": rc, "dir": snapshot(d)})
            runinfo[rid] = {"desc": desc, "events": evs, "common": common}
            return evs

        batch = []
        def through(root):
            """what a reader of the path gets (symbolic links followed), None if it cannot be read"""
            try:
                return open(os.path.join(root, TARGET), "rb").read().decode("latin-1")
            except OSError:
                return None

        for iname, kind, orig in [(i_, k_, o_) for i_, o_ in inputs(thorough, vf.SEED) for k_ in KINDS]:
            start = start_listing(kind, orig)
            keep = [e["n"] for e in start]
            tag = "input=%s kind=%s" % (iname, kind)
            # base run (uncrashed): defines the complete formatted content, lists the hook points
            d = rn.newdir(); materialise(d, start)
            clog = os.path.join(sd, "crashpoints.log")
            if os.path.exists(clog):
                os.remove(clog)
            rc, ops, out = rn.go(d, crash_log=clog)
            new = through(d)
            if rc != 0 or new in (None, orig):
                raise vf.NoVerdict("base run (%s) did not rewrite the file (rc=%s): %s" % (tag, rc, out[-300:]))
            common = {"path": TARGET, "orig": orig, "new": new, "keep": keep, "input": iname, "kind": kind}
            batch += mkrun("%s uncrashed run" % tag, d, start, common, False, True, ops, "Exit", rc)
            if not any(o["ev"] in ("rename", "write") for o in ops):
                raise vf.NoVerdict("no rename/write recorded for the base run: recording is not working")
            if iname == "small" and kind == "file":
                chk.sample({"kind": "recorded base run (operations)", "ops": [{k: (v if k != "data" else "<%d bytes>" % len(v)) for k, v in o.items()} for o in ops]})
            points = []
            if os.path.exists(clog):
                for ln in open(clog):
                    k, nm = ln.split(None, 1)
                    points.append((int(k), nm.strip()))
            hook_points_seen = points if hook_points_seen is None else hook_points_seen
            # real crashes at every hook point, each followed by a later (uncrashed) run in the directory it left
            for k, nm in points:
                d = rn.newdir(); materialise(d, start)
                rc, ops, out = rn.go(d, crash_at=k)
                if rc not in (-9, 137):
                    raise vf.NoVerdict("crash point %d (%s) did not stop the process (rc=%s)" % (k, nm, rc))
                batch += mkrun("%s real crash at hook point %d (%s)" % (tag, k, nm), d, start, common, False, False, ops, "Crash", rc)
                total["real_crashes"] += 1
                left = snapshot(d)
                rc, ops, out = rn.go(d)
                batch += mkrun("%s later run after real crash at hook point %d (%s)" % (tag, k, nm), d, left, common, True, False, ops, "Exit", rc)
                total["later_runs"] += 1
        # 4. binding self-test rides in the first batch: a copy of the first base run with its last content-changing operation (rename/write/unlink/link) dropped and a copy
        #    with a corrupted directory snapshot must both be reported as model/real mismatches
        base = runinfo[1]["events"]
        ren = [i for i, e in enumerate(base) if e["ev"] in ("rename", "write", "unlink", "link") and e.get("data", "x") != ""]
        if not ren:
            raise vf.NoVerdict("self-test: base run has no content-changing operation to drop")
        c1 = [dict(e, run=SELFTEST + 1, sim=False) if e["ev"] == "Init" else dict(e, run=SELFTEST + 1) for i, e in enumerate(base) if i != ren[-1]]
        c2 = [dict(e, run=SELFTEST + 2, sim=False) if e["ev"] == "Init" else dict(e, run=SELFTEST + 2) for e in base]
        c2[-1] = dict(c2[-1], dir=[dict(x, c=x["c"] + "#") if x["n"] == BYSTANDER else x for x in c2[-1]["dir"]])
        selftest = c1 + c2
        # TLC judges; simulated crash states come back; the real tool is put into each of them
        depth, seen = 0, set()
        while batch:
            rep = report(chk, sd, batch + selftest, "recorded runs, depth %d" % depth)
            total["events"] += len(batch); total["tlc_batches"] += 1
            if selftest:
                got = {m["run"] for m in rep["mism"]}
                if got & {SELFTEST + 1, SELFTEST + 2} != {SELFTEST + 1, SELFTEST + 2}:
                    raise vf.NoVerdict("binding self-test failed: dropped operation / corrupted snapshot not reported as mismatch (%s)" % sorted(got))
                chk.cov["binding_selftest"] = "dropped operation (last rename/write/unlink) and corrupted directory snapshot both reported as model/real mismatch"
                selftest = []
            for m in rep["mism"]:
                if m["run"] < SELFTEST:
                    raise vf.NoVerdict("directory model and real directory disagree (run %s: %s): model=%s real=%s" %
                                       (m["run"], runinfo[m["run"]]["desc"], json.dumps(m["model"])[:600], json.dumps(m["real"])[:600]))
            for b in rep["bad"]:
                if b["run"] >= SELFTEST:
                    continue
                info = runinfo[b["run"]]
                evs = info["events"]
                what = {"simulated-crash": "process stopping before recorded operation #%d leaves the path neither complete original nor complete formatted",
                        "real-crash": "real process killed at a crash point (event #%d) leaves the path neither complete original nor complete formatted",
                        "later-run": "a later successful run (ending at event #%d) leaves temporary/backup files behind",
                        "later-run-content": "after a later run (ending at event #%d) that started from a crash-safe state the path holds neither the complete original nor the complete formatted content"}[b["kind"]] % b["idx"]
                short = [dict(e, data="<%d bytes>" % len(e["data"])) if "data" in e else dict(e) for e in evs]
                for e in short:
                    for k2 in ("orig", "new"):
                        if k2 in e and len(e[k2]) > 300:
                            e[k2] = e[k2][:300] + "...(%d bytes)" % len(e[k2])
                    if "dir" in e:
                        e["dir"] = [{"n": x["n"], "k": x["k"], "c": x["c"] if len(x["c"]) <= 300 else x["c"][:300] + "...(%d bytes)" % len(x["c"])} for x in e["dir"]]
                chk.violation(b["key"], "%s [%s]" % (what, info["desc"]),
                              {"run": info["desc"], "trace_line_in_batch": b["idx"], "events_of_run": short[:60]})
            nxt = []
            depth += 1
            for cs in sorted(rep["cstates"], key=lambda c: (c["run"], c["idx"])):
                if cs["run"] >= SELFTEST:
                    continue
                common = runinfo[cs["run"]]["common"]
                listing = sorted(cs["dir"], key=lambda e: e["n"])
                sig = json.dumps([common["input"], common["kind"], listing], sort_keys=True)
                if sig in seen:
                    continue
                seen.add(sig)
                total["sim_crash_states"] += 1
                d = rn.newdir(); materialise(d, listing)
                rc, ops, out = rn.go(d)
                desc = "%s -> stopped after '%s' (before trace line %d) -> later run" % (runinfo[cs["run"]]["desc"], cs["after"], cs["idx"])
                nxt += mkrun(desc, d, listing, common, True, depth < maxdepth and rc == 0, ops, "Exit", rc)
                total["later_runs"] += 1
                shutil.rmtree(d, ignore_errors=True)
            batch = nxt
        if not hook_points_seen:
            chk.notes.append("crash-point hooks not present in tools/langlint of this tree: real-crash layer skipped, verdict from simulated crashes between recorded system calls only")
        chk.cov["hook_points"] = ["%d %s" % p for p in (hook_points_seen or [])]
        chk.cov.update(total)
        chk.cov["processes_run"] = rn.procs
        chk.cov["traces_validated_against_impl"] = runid[0]
        chk.cov["evaluations"] = total["events"]
        chk.cov["distinct_nontrivial"] = total["sim_crash_states"] + total["real_crashes"]
        if total["sim_crash_states"] < 3:
            raise vf.NoVerdict("fewer than 3 distinct crash states explored: driver too weak")
        res = [f.result() for f in mcs]
        pool.shutdown()
        vf.tlc_ok(res[0], "Rewrite MC fixed")
        chk.add_tlc(res[0], "MC fixed protocol (single rename), MaxCrash=3")
        for (cfg, inv), r_ in zip(cfgs[1:], res[1:]):
            if r_.violated != inv:
                raise vf.NoVerdict("negative control: as-is protocol did not violate %s (%s %s)" % (inv, r_.violated, r_.error))
            chk.add_tlc(r_, "negative control (two-rename protocol) violates " + inv, count_states=False)
        chk.cov["rule"] = ("runs = executions of the real langlint binary recorded with strace; crash states = real kills at every hook point + "
                           "the model directory before every recorded operation (writes split in two); each distinct crash state is "
                           "materialised and the real tool run again (depth %d); CrashSafe/Clean evaluated by TLC (Rewrite_Trace)" % maxdepth)
        chk.cov["exhaustive"] = True
    return chk.finish()

"""C29 - cluster cache invalidation is bounded and complete.
spec/ClusterFlush: MC (safety + completeness + liveness), negative control (pre-CLUSTER-1 relay receiver),
T binding on a REAL multi-process cluster: N `ego server run --cluster` processes behind driver-owned proxies."""
import json, os, random, time
import vf, egocluster

PROP = "C29"
DSN_CACHE = 0


def trace_cfg(nodes, active):
    q = lambda s: "{" + ", ".join('"%s"' % x for x in s) + "}"
    return ("SPECIFICATION TSpec\nCONSTANTS\n  Node = %s\n  Active = %s\n  Class = {\"dsn\", \"auth\", \"user\", \"token\", \"blacklist\", \"schema\"}\n  MaxHops = 4\n  MaxPurges = 64\n  MaxLoss = 1000\n"
            "  MaxFill = 100000\n  Impl = \"local\"\nINVARIANTS MessageBound NeverRelays OnlyHopOne Complete\n"
            "CONSTRAINT Reached\nPOSTCONDITION Accepted\nCHECK_DEADLOCK FALSE\n" % (q(nodes), q(active)))


def wait_quiet(cl, since, expect, timeout=25.0):
    """wait until `expect` Deliver/Lose events were logged after index `since` (bounded; never a verdict by itself)"""
    t0 = time.time()
    while time.time() - t0 < timeout:
        with cl.lock:
            got = sum(1 for e in cl.events[since:] if e["ev"] in ("Deliver", "Lose"))
        if got >= expect:
            break
        time.sleep(0.05)
    time.sleep(0.4)   # a relaying implementation would start further sends now; they are logged if they happen


def drive_cluster(chk, sd, ego, n, rng, purges, deactivate=None, run_id=1):
    """returns (events, nodes, active).  The driver is the only client, so cache fills are under its control."""
    with egocluster.Cluster(sd, ego, n, cache_id=DSN_CACHE) as cl:
        dbf = os.path.join(cl.dir, "d1.db")
        r = cl.admin(0, "POST", "/dsns/", {"name": "d1", "provider": "sqlite", "database": dbf, "restricted": False})
        if r.status not in (200, 201):
            raise vf.NoVerdict("cannot create DSN: %r" % r)
        r = cl.admin(0, "PUT", "/dsns/d1/tables/t1", [{"name": "id", "type": "int"}])
        if r.status not in (200, 201):
            raise vf.NoVerdict("cannot create table: %r" % r)
        time.sleep(0.5)
        names = ["n%d" % (i + 1) for i in range(n)]
        active = list(names)
        if deactivate is not None:
            cl.deactivate(deactivate)
            active.remove(names[deactivate])

        def fill(i):
            if not cl.present(i):
                cl.admin(i, "GET", "/dsns/d1/tables/t1/rows")
                if not cl.present(i):
                    raise vf.NoVerdict("reading rows did not populate the DSN cache on node %d" % (i + 1))
                cl.log(ev="Fill", n=names[i], c="dsn")

        # settle: setup may itself have purged caches; start recording from a quiet, empty state
        for i in range(n):
            if cl.present(i):
                cl.inject_ok = False
        cl.recording = False
        # warm-up purge to capture a genuine flush request (for injections) and to empty every DSN cache
        cl.admin(0, "DELETE", "/admin/caches?class=dsn")
        time.sleep(1.5)
        for i in range(n):
            if cl.present(i) and names[i] in active:
                raise vf.NoVerdict("warm-up purge left the DSN cache populated on node %d" % (i + 1))
        with cl.lock:
            cl.events = []
        cl.recording = True

        def checks():
            for i in range(n):
                cl.log(ev="Check", n=names[i], c="dsn", obs="yes" if cl.present(i) else "no")

        def purge(origin, cls="dsn", expect=None, wait=True):
            peers = [i for i in range(n) if i != origin and names[i] in active]
            since = len(cl.events)
            cl.log(ev="OriginPurge", n=names[origin], c=cls)
            r = cl.admin(origin, "DELETE", "/admin/caches?class=" + cls)
            if r.status != 200:
                raise vf.NoVerdict("purge request failed: %r" % r)
            if wait:
                wait_quiet(cl, since + 1, len(peers) if expect is None else expect)
            return peers

        for p in range(purges):
            for i in range(n):
                if rng.random() < 0.8:
                    fill(i)
            origin = rng.randrange(n)
            peers = [i for i in range(n) if i != origin and names[i] in active]
            kind = p % 4
            if kind == 1 and len(peers) >= 2:
                # the FIRST-listed peer is unreachable: the rest must still be told
                with cl.lock:
                    cl.drop.add(peers[0])
                purge(origin)
            elif kind == 2 and peers:
                # a second purge of the same class while the first broadcast is still held up on a slow peer
                slow = peers[-1]
                with cl.lock:
                    cl.delay[slow] = 1.5
                since = len(cl.events)
                purge(origin, wait=False)
                time.sleep(0.5)
                for i in peers[:-1]:
                    fill(i)
                purge(origin, wait=False)
                wait_quiet(cl, since + 1, 2 * len(peers), timeout=40)
            elif kind == 3:
                # another cache class (revocation-list cache): receivers must not turn it into purges of their own
                purge(origin, cls="blacklist")
            else:
                if peers and rng.random() < 0.3:
                    with cl.lock:
                        cl.drop.add(rng.choice(peers))
                purge(origin)
            with cl.lock:
                cl.drop.clear()
                cl.delay.clear()
            if p % 2 == 1 and cl.captured:
                i = rng.randrange(n)
                fill(i)
                hops = rng.choice([0, 1, 4, 5, 6])
                st = cl.inject(i, hops)
                cl.log(ev="Foreign", n=names[i], c="dsn", hops=hops, status=st, obs="yes" if cl.present(i) else "no")
                time.sleep(0.4)
            checks()
        cl.recording = False
        evs = [dict(e, run=run_id) for e in cl.events]
        for e in evs:
            for k, d in (("n", ""), ("to", ""), ("c", "dsn"), ("hops", 0), ("obs", "unk"), ("status", 0)):
                e.setdefault(k, d)
        return evs, names, active, len(cl.other)


def run():
    thorough = vf.TIER == "thorough"
    chk = vf.Check(PROP)
    chk.assumptions += [
        "the cluster is real (N ego server processes, shared SQLite system database and profile); membership rows are pointed at driver-owned loopback proxies, which is how flush traffic is observed, dropped and injected",
        "flush traffic of every cache class is traced; cache contents are observed for the DSN cache only (the driver is the only client, so its fills are controlled); purges are issued for the DSN and revocation-list classes",
        "delivery order/loss on the real cluster is what the run produced plus seeded drops; every interleaving, loss and hop count is explored on the model",
        "message loss other than a refused connection (e.g. a lost response after the peer acted) is not injected"]
    rng = random.Random(vf.SEED)
    with vf.scratch() as sd:
        r = vf.tlc_ok(vf.tlc("ClusterFlush", "ClusterFlush", "ClusterFlush_MC4.cfg" if thorough else "ClusterFlush_MC.cfg", sd, timeout=1500), "ClusterFlush MC")
        chk.add_tlc(r, "MC (safety, completeness)")
        rl = vf.tlc_ok(vf.tlc("ClusterFlush", "ClusterFlush", "ClusterFlush_Live.cfg", sd, timeout=900), "ClusterFlush liveness")
        chk.add_tlc(rl, "liveness under fair delivery: every purge's broadcast completes")
        for inv in ("NeverRelays", "MessageBound"):
            cfg = open(os.path.join(vf.VERIF, "spec/ClusterFlush/ClusterFlush_MC_relay.cfg")).read()
            cfg = cfg.replace("INVARIANTS MessageBound NeverRelays OnlyHopOne Complete", "INVARIANTS " + inv)
            rn = vf.tlc("ClusterFlush", "ClusterFlush", "neg.cfg", sd, timeout=600, files={"neg.cfg": cfg})
            if rn.violated != inv:
                raise vf.NoVerdict("negative control: the relaying receiver did not violate %s (%s)" % (inv, rn.violated or rn.error))
            chk.add_tlc(rn, "negative control (relaying receiver) violates " + inv, count_states=False)
        ov = vf.make_overlay(sd)
        ego = vf.build_ego(sd, ov)
        plans = [(3, 4, None)] if not thorough else [(3, 8, None), (4, 8, 3), (5, 8, None)]
        total_ev, runs = 0, 0
        for (n, purges, deact) in plans:
            evs, names, active, nother = drive_cluster(chk, sd, ego, n, rng, purges, deact, run_id=1)
            tr = vf.write_ndjson(os.path.join(sd, "trace-%d.ndjson" % n), evs)
            cfg = trace_cfg(names, active)
            rt = vf.trace_validate(chk, "ClusterFlush", "ClusterFlush_Trace", "t.cfg", sd, tr,
                                   name="trace validation (%d-node real cluster%s)" % (n, ", one member removed" if deact is not None else ""),
                                   extra_files={"t.cfg": cfg})
            if not rt.accepted:
                info = vf.trace_reject_info(rt, tr)
                key = "cluster/" + (rt.violated or "unexplained-event")
                if info.get("context"):
                    key += "/" + json.loads(info["context"][-1]).get("ev", "?")
                chk.violation(key, "the real cluster's observed execution is not a behaviour of ClusterFlush: %s" % json.dumps(info)[:1500],
                              {"info": info, "events": evs})
                continue
            total_ev += len(evs)
            runs += 1
            sends = sum(1 for e in evs if e["ev"] == "Send")
            if sends == 0:
                raise vf.NoVerdict("no flush message was observed on the real cluster (driver too weak)")
            chk.sample({"kind": "events observed on a real %d-node cluster" % n, "events": evs[:14]})
            chk.cov.setdefault("cluster_runs", []).append({"nodes": n, "active": len(active), "events": len(evs), "flush_messages": sends,
                                                           "lost": sum(1 for e in evs if e["ev"] == "Lose"),
                                                           "foreign": sum(1 for e in evs if e["ev"] == "Foreign")})
            # binding self-test on the first accepted trace: a forged relay and a dropped delivery must be rejected
            if runs == 1:
                i = next(k for k, e in enumerate(evs) if e["ev"] == "Deliver")
                d = evs[i]
                forged = evs[:i + 1] + [dict(d, ev="Send", n=d["n"], to=d["to"], hops=2, obs="unk")] + evs[i + 1:]
                dropped = evs[:i] + evs[i + 1:]
                for nm, c in (("forged relay by a receiver", forged), ("dropped Deliver event", dropped)):
                    pth = vf.write_ndjson(os.path.join(sd, "corrupt.ndjson"), c)
                    rc = vf.trace_validate(chk, "ClusterFlush", "ClusterFlush_Trace", "t.cfg", sd, pth, name=None, extra_files={"t.cfg": cfg})
                    if rc.accepted:
                        raise vf.NoVerdict("binding self-test failed: trace with %s was accepted" % nm)
                chk.cov["binding_selftest"] = "forged relay Send and dropped Deliver both rejected"
        chk.cov["traces_validated_against_impl"] = runs
        chk.cov["evaluations"] = total_ev
        chk.cov["distinct_nontrivial"] = len({(e["ev"], e["n"], e["to"], e["c"], e["hops"], e["obs"]) for e in evs})
        chk.cov["rule"] = ("events = purges issued, flush requests seen/forwarded/dropped/injected by the proxies, and quiescent cache-state checks "
                           "on a real multi-process cluster; distinct_nontrivial = distinct (event, node, peer, hops, cache state) tuples in the last run")
    return chk.finish()

"""C12 - diagnostics modes do not change behaviour.
spec/Ego/EgoCore.tla + EgoCore_Prog.tla (reference semantics without any diagnostics input; theorem ConfigFree) and the
control-flow cases of EgoControl_Gen (C10 builder: try/catch, defer, panic/recover, loops).
R binding: every case is run on the real `ego run` plainly, with --profile, with --trace and under --debug fed with
`continue` commands; what the PROGRAM printed (every generated line carries a sentinel prefix, so the profiler's table,
the trace log and the debugger's prompts are told apart) and how it ended must equal what TLC computed, in every mode.
A divergence is attributed to the diagnostics mode that shows it; one that also shows in the plain run is not a C12
matter.  Negative control on the model (a configuration-dependent semantics violates ConfigFree) ; binding self-test."""
import json, os, random, sys
from concurrent.futures import ThreadPoolExecutor
import vf

sys.path.insert(0, os.path.join(vf.VERIF, "lib"))
import egocore as ec

PROP = "C12"
DIAGS = (("plain", ()), ("profile", ("--profile",)), ("trace", ("--trace",)), ("debug", ("--debug",)))
CONTINUES = "continue\n" * 400


def settings_for(modes):
    out = []
    for m in modes:
        for name, flags in DIAGS:
            out.append(ec.Setting("%s/%s" % (name, m), m, post=flags, stdin=CONTINUES if name == "debug" else None, feat={"diag": name}))
    return out


def replay(path):
    rp = json.load(open(path))["replay"]
    case, mode = rp["case"], rp["mode"]
    ad = {"core": ec.CoreAdapter, "ctl": ec.CtlAdapter}[rp.get("adapter", "core")]()
    rc = 0
    with vf.scratch() as sd:
        ego = ec.build_ego(sd)
        print(ad.text([case]))
        for s in settings_for([mode]):
            o = ec.rerun_alone(ego, vf.ego_env(sd), sd, ad, [(case, s)])[0]
            d = ad.judge(case, mode, o)
            print(" ".join(s.argv("ego", "prog.ego")), "->", {k: v for k, v in o.items() if k != "_file"}, "=>", d or "conforms")
            if d and s.name in (rp.get("diverging") or []):
                rc = 1
    if rc:
        print("VIOLATION property=%s replay=%s" % (PROP, path))
    return rc


def run():
    if os.environ.get("VERIF_REPLAY"):
        return replay(os.environ["VERIF_REPLAY"])
    thorough = vf.TIER == "thorough"
    chk = vf.Check(PROP)
    rng = random.Random(vf.SEED)
    chk.assumptions += [
        "program output = the lines of stdout that carry the sentinel prefix of the generated programs (EgoCore cases) / that are "
        "marker lines (EgoControl cases); nothing a diagnostic prints has that shape (log lines start with a timestamp, the profile "
        "table and the debugger prompt are plain text)",
        "the debugger is driven through stdin with `continue` commands only",
        "a divergence from the reference that shows in the plain run too is not attributed to C12 (counted as base divergence)",
        "cases share a process through a try/catch + recover wrapper; a diverging case is re-run in a process of its own before it is reported",
        "EgoControl cases in the two defect classes C10 reported on the unchanged tree (loop inside try, jump out of try) are left out"]
    with vf.scratch() as sd:
        env = vf.ego_env(sd)
        with ThreadPoolExecutor(max_workers=4) as ex:
            f_bin = ex.submit(ec.build_ego, sd)
            f_core = ex.submit(ec.gen_cases, sd, "EgoCore_Prog_MC.cfg" if thorough else "EgoCore_Prog_MCq.cfg", None, None, 3000 if thorough else 1200)
            f_neg = ex.submit(ec.gen_cases, sd, "EgoCore_Prog_MC_fused.cfg", None, None, 900, 2)
            f_ctl = ex.submit(vf.tlc, "Ego", "EgoControl_Gen", "EgoControl_Genq.cfg", sd, workers=2, timeout=1200)
            f_sim = ex.submit(vf.tlc, "Ego", "EgoControl_Gen", "EgoControl_GenS.cfg", sd, workers=1, simulate="num=%d" % (3000 if thorough else 600),
                              depth=400, seed=vf.SEED, timeout=1500)
            r = vf.tlc_ok(f_core.result(), "EgoCore_Prog MC")
            chk.add_tlc(r, "EgoCore_Prog: corpus enumerated, theorem ConfigFree checked")
            core = ec.cases_of(r)
            rn = f_neg.result()
            if rn.violated != "ConfigFree":
                raise vf.NoVerdict("negative control: a configuration-dependent semantics did not violate ConfigFree (%s %s)" % (rn.violated, rn.error))
            chk.add_tlc(rn, "negative control (configuration-dependent semantics) violates ConfigFree", count_states=False)
            ctl, seen = [], set()
            for f, nm in ((f_ctl, "exhaustive at the small bound"), (f_sim, "sample of larger programs")):
                rc = vf.tlc_ok(f.result(), "EgoControl_Gen")
                chk.add_tlc(rc, "EgoControl_Gen: control-flow cases, %s (C10 generator)" % nm, count_states=False)
                for c in rc.records:
                    if isinstance(c, dict) and "toks" in c and ec.ctl_usable(c) and " ".join(c["toks"]) not in seen:
                        seen.add(" ".join(c["toks"]))
                        ctl.append(c)
            ego = f_bin.result()
        if len(core) < 200 or len(ctl) < 100:
            raise vf.NoVerdict("generators too weak: %d programs, %d control cases" % (len(core), len(ctl)))
        # quick: the families with calls, closures, defers, loops and errors (what the profiler / debugger hook into) first
        rng.shuffle(core)
        rng.shuffle(ctl)
        hot = ("defer", "clos", "loops", "multi", "struct", "slice", "switch", "glob", "text", "map")
        core = sorted(core, key=lambda c: c["fam"] not in hot)
        if not thorough:
            core, ctl = core[:260], ctl[:240]
        else:
            core, ctl = core[:3000], ctl[:1500]
        modes = ec.MODES if thorough else (ec.MODES[vf.SEED % 3], "strict" if ec.MODES[vf.SEED % 3] != "strict" else "dynamic")
        settings = settings_for(modes)
        vf.log("corpus: %d programs, %d control cases; %d settings" % (len(core), len(ctl), len(settings)))
        stats, base, total, classes, keep = {}, {}, 0, set(), None
        for adapter, cases in ((ec.CoreAdapter(alias=True), core), (ec.CtlAdapter(), ctl)):
            ss = settings if adapter.name == "core" else [s for s in settings if s.mode == modes[0]]
            obs = ec.run_matrix(ego, env, sd, adapter, cases, ss, nproc=8, stats=stats, timeout=1200)

            def rerun(pairs, adapter=adapter):
                stats["processes"] = stats.get("processes", 0) + len(pairs)
                return ec.rerun_alone(ego, env, sd, adapter, pairs)
            n, cl = ec.assess_matrix(chk, adapter, cases, ss, obs, rerun, base)
            ec.message_check(chk, adapter, cases, ss, obs)
            total += n
            classes |= cl
            if adapter.name == "core":
                keep = (adapter, cases, ss, obs)
        # the diagnostics really were active (otherwise the comparison is vacuous)
        probe = ec.rerun_alone(ego, env, sd, ec.CoreAdapter(), [(core[0], s) for s in settings_for([modes[0]])], tag="probe")
        raw = []
        for s, o in zip(settings_for([modes[0]]), probe):
            p = vf.run(s.argv(ego, o["_file"]), cwd=sd, env=env, timeout=900, stdin=s.stdin)
            raw.append((s.name, p.stdout))
        marks = {"profile": "Elapsed", "trace": "TRACE", "debug": "Step to"}
        for name, text in raw:
            d = name.split("/")[0]
            if d in marks and marks[d] not in text:
                raise vf.NoVerdict("the %s run shows no sign of the diagnostic (%r not in its output)" % (d, marks[d]))
        # binding self-test
        adapter, cs, ss, obs = keep
        s0 = ss[1]
        tested = rejected = 0
        idx = sorted(obs[s0.name])
        for a, b in zip(idx, idx[1:]):
            ea, eb = cs[a]["exp"][s0.mode], cs[b]["exp"][s0.mode]
            if adapter.judge(cs[a], s0.mode, obs[s0.name][a]) is None and (ea["out"], ea["status"]) != (eb["out"], eb["status"]) \
                    and not (eb["status"] == "error" and eb["ec"] == "type"):
                tested += 1
                rejected += adapter.judge(cs[b], s0.mode, obs[s0.name][a]) is not None
            if tested >= 60:
                break
        if tested < 20 or rejected != tested:
            raise vf.NoVerdict("binding self-test failed: %d of %d wrong expectations rejected" % (rejected, tested))
        chk.cov["binding_selftest"] = "%d of %d observations compared with a neighbouring case's expectation rejected; diagnostics output present in the probe runs" % (rejected, tested)
        chk.cov["traces_validated_against_impl"] = total
        chk.cov["evaluations"] = total
        chk.cov["distinct_nontrivial"] = len(classes)
        chk.cov["programs"] = len(core)
        chk.cov["control_cases"] = len(ctl)
        chk.cov["settings"] = [s.name for s in settings]
        chk.cov["ego_processes"] = stats.get("processes", 0)
        chk.cov["base_divergences"] = len(base)
        chk.cov["base_divergence_examples"] = ["%s/%s/%s: %s" % (k[0], k[1], k[2], v[:120]) for k, v in sorted(base.items())[:8]]
        chk.cov["rule"] = ("case = one program / control-flow behaviour generated by TLC with its expected output; each is run plainly and under "
                           "--profile, --trace, --debug(continue) and every observation is compared for equality with the expectation; "
                           "distinct = (case identity, mode) pairs")
        chk.cov["exhaustive"] = False
        for c in core[:3]:
            chk.sample({"key": c["key"], "program": ec.render(c).splitlines(), "expected": c["exp"][modes[0]]})
    return chk.finish()
